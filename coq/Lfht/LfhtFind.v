(* scratch: every live node is reachable from its own bucket; a lookup for a node that stays live finds a node with its key *)
From Coq Require Import List Arith NArith Bool Lia.
Import ListNotations.
Require Import Urcu.Base.MachD Urcu.Lfht.Lfht Urcu.Lfht.LfhtSorted Urcu.Lfht.LfhtReach Urcu.Lfht.LfhtStep Urcu.Lfht.LfhtKinds Urcu.Lfht.LfhtRch.
Local Open Scope N_scope.

Section FIND.
Variable C : cfg.
Variable isB : N -> bool.
Variable sz0 : N.
Hypothesis Hbkt : forall i, isB (bucket C i) = true.
Hypothesis Hbk : forall node, rh C (bucket C (N.land (hashof C node) (sz0 - 1))) <= rh C node.
Hypothesis Hrhi : forall a b, rh C a = rh C b -> hashof C a = hashof C b.      (* the reverse hash is the bit reversal of the hash *)
Notation st := (state hloc (hprog C)).
Notation Inv1 := (LfhtSorted.Inv C sz0).
Notation Inv2 := (LfhtReach.Inv2 C isB).
Notation insd := (insd C).
Notation nxw := (nxw C).
Notation kind := (kind C).
Notation reach := (reach C).
Notation nxf := (nxf C).
Notation PCr := (PCr C).

Definition bkt (x : N) : N := bucket C (N.land (hashof C x) (sz0 - 1)).
Definition rmd (s : st) (y : N) : bool := is_removed (nxw s y).

Ltac dkind Hk :=
  destruct Hk as [Hn Hi|node Hnn Hn Hi|t0 b0 u0 prev node iter Hpc Hpi Hnn Hn0 Hpv Hrm Hnode Hpp Hpr Hpo Hn Hi
                 |prev iter nx Hpi Hpv Hrm Hp0 Hpn Hrn Hpp Hpr Hpo Hn Hi|n Hni Hpp Hpr Hom Hn Hi
                 |t0 old new onext szr Hpc Hoi Hnn Hn0 Hov Hrm Hnew Hpp Hpr Hpo Hn Hi].

Lemma insd_kind (s s' : st) x : kind s s' -> insd s x -> insd s' x.
Proof. intros Hk Hx. dkind Hk; apply Hi; tauto. Qed.

Lemma rmd_kind (s s' : st) y : kind s s' -> insd s y -> rmd s y = true -> rmd s' y = true.
Proof.
  unfold rmd. intros Hk Hy Hr. dkind Hk.
  - rewrite Hn; exact Hr.
  - rewrite Hn by congruence; exact Hr.
  - destruct (N.eq_dec y prev) as [->|Hne]; [rewrite Hpv, Hrm in Hr; discriminate|rewrite (Hn y Hne); exact Hr].
  - destruct (N.eq_dec y prev) as [->|Hne]; [rewrite Hpv, Hrm in Hr; discriminate|rewrite (Hn y Hne); exact Hr].
  - destruct (N.eq_dec y n) as [->|Hne]; [exact Hpr|rewrite (Hn y Hne); exact Hr].
  - destruct (N.eq_dec y old) as [->|Hne]; [exact Hpr|rewrite (Hn y Hne); exact Hr].
Qed.

Lemma reach_kind (s s' : st) a x : Inv2 s -> kind s s' -> insd s a -> rmd s' x = false -> reach s a x -> reach s' a x.
Proof.
  unfold rmd. intros HI Hk Ha Hxr Hre. unfold LfhtRch.reach in *.
  assert (Hclo : forall y, insd s y -> nxf s y <> 0 -> insd s (nxf s y)).
  { intros y Hy Hnz. destruct (J_cm C isB s HI y Hy) as [H|H]; [contradiction|exact H]. }
  dkind Hk.
  - apply (reachf_same (nxf s) (nxf s') (fun _ => True)); [intros y _; unfold LfhtRch.nxf; rewrite Hn; reflexivity|tauto|exact I|exact Hre].
  - apply (reachf_same (nxf s) (nxf s') (fun y => insd s y)); [|exact Hclo|exact Ha|exact Hre].
    intros y Hy. unfold LfhtRch.nxf. rewrite Hn by congruence. reflexivity.
  - assert (Hnp : node <> prev) by congruence.
    apply (reachf_ins (nxf s) (nxf s') prev node); [|exact Hpp|exact Hn0|exact Hnp| |exact Hre].
    + intros y Hy. unfold LfhtRch.nxf. rewrite (Hn y Hy). reflexivity.
    + unfold LfhtRch.nxf. rewrite Hnode, Hpv. apply ptr_clr.
  - assert (Hmp : ptr iter <> prev) by (intros E; rewrite E, Hpv, Hrm in Hrn; discriminate).
    assert (Hxm : x <> ptr iter) by (intros ->; rewrite (Hn _ Hmp), Hrn in Hxr; discriminate).
    apply (reachf_gc (nxf s) (nxf s') prev (ptr iter)); [| | |exact Hre|exact Hxm].
    + intros y Hy. unfold LfhtRch.nxf. rewrite (Hn y Hy). reflexivity.
    + unfold LfhtRch.nxf. rewrite Hpv. reflexivity.
    + unfold LfhtRch.nxf at 1 2. rewrite Hpp, Hpn. reflexivity.
  - apply (reachf_same (nxf s) (nxf s') (fun _ => True)); [|tauto|exact I|exact Hre].
    intros y _. unfold LfhtRch.nxf. destruct (N.eq_dec y n) as [->|Hy]; [exact Hpp|rewrite (Hn y Hy); reflexivity].
  - assert (Hno : new <> old) by congruence.
    apply (reachf_ins (nxf s) (nxf s') old new); [|exact Hpp|exact Hn0|exact Hno| |exact Hre].
    + intros y Hy. unfold LfhtRch.nxf. rewrite (Hn y Hy). reflexivity.
    + unfold LfhtRch.nxf. rewrite Hnew, Hov. reflexivity.
Qed.

Lemma reach_insd (s : st) a x : Inv2 s -> insd s a -> reach s a x -> insd s x.
Proof.
  intros HI Ha H. induction H as [|a a' x [Hl Hz] H IH]; [exact Ha|]. apply IH.
  destruct (J_cm C isB s HI a Ha) as [E|E]; [unfold LfhtRch.nxf in Hl; congruence|unfold LfhtRch.nxf in Hl; rewrite <- Hl; exact E].
Qed.

Lemma reach_le (s : st) a x : sorted C s -> reach s a x -> rh C a <= rh C x.
Proof.
  intros Hs H. induction H as [|a a' x [Hl Hz] H IH]; [lia|].
  assert (rh C a <= rh C a'); [|lia]. rewrite <- Hl. apply Hs. unfold LfhtRch.nxf in Hl. unfold M. change (smem hloc (hprog C) s (HNext a)) with (nxw s a). congruence.
Qed.

Lemma reach_inv (s : st) a x : reach s a x -> a <> x -> nxf s a <> 0 /\ reach s (nxf s a) x.
Proof. intros H Hne. destruct H as [|a' x [Hl Hz] H]; [contradiction|]. rewrite Hl. split; assumption. Qed.

Definition RL (s : st) (b y : N) : Prop := insd s y /\ (rmd s y = true \/ reach s b y).

Lemma RL_kind (s s' : st) b y : Inv2 s -> kind s s' -> insd s b -> RL s b y -> RL s' b y.
Proof.
  intros HI Hk Hb [Hy H]. split; [apply (insd_kind s s' y Hk Hy)|].
  destruct (rmd s' y) eqn:Er; [left; reflexivity|right].
  destruct H as [H|H]; [rewrite (rmd_kind s s' y Hk Hy H) in Er; discriminate|].
  apply (reach_kind s s' b y HI Hk Hb Er H).
Qed.

Definition TL (s : st) (p : hpc) : Prop :=
  match p with
  | A_Size node hash _ => hash = hashof C node
  | A_Start node b _ | A_Gc node b _ _ _ _ => b = bkt node
  | A_Iter node b _ prev iter | A_Dup node b _ prev iter _ | A_Cas node b _ prev iter =>
      b = bkt node /\ RL s b prev /\ (ptr iter <> 0 -> RL s b (ptr iter))
  | R_Size old new _ | R_Cas old new _ _ => rh C new = rh C old /\ key C new = key C old
  | _ => True
  end.

Lemma bkt_insd (s : st) x : Inv2 s -> insd s (bkt x).
Proof. intros HI. apply (J_bins C isB s HI). apply Hbkt. Qed.

Lemma TL_kind (s s' : st) p : Inv2 s -> kind s s' -> TL s p -> TL s' p.
Proof.
  intros HI Hk. destruct p; cbn [TL]; try exact (fun x => x);
    intros (Hb & H1 & H2); (split; [exact Hb|]); subst b;
    (split; [apply (RL_kind s s' _ _ HI Hk (bkt_insd s node HI) H1)|intros Hz; apply (RL_kind s s' _ _ HI Hk (bkt_insd s node HI) (H2 Hz))]).
Qed.

Definition R' (s : st) : Prop := forall x, insd s x -> rmd s x = false -> isB x = false -> reach s (bkt x) x.

Lemma R'_old (s s' : st) x : Inv2 s -> R' s -> kind s s' -> insd s x -> rmd s' x = false -> isB x = false -> reach s' (bkt x) x.
Proof.
  intros HI HR Hk Hx Hr HB. apply (reach_kind s s' _ _ HI Hk (bkt_insd s x HI) Hr). apply HR; [exact Hx| |exact HB].
  destruct (rmd s x) eqn:E; [|reflexivity]. rewrite (rmd_kind s s' x Hk Hx E) in Hr. discriminate.
Qed.

Lemma R'_kind (s s' : st) : Inv2 s -> R' s -> (forall t, TL s (PCr s t)) -> kind s s' -> R' s'.
Proof.
  intros HI HR HT Hk x Hx Hr HB.
  assert (Hk0 := Hk). dkind Hk; try (apply (R'_old s s' x HI HR Hk0); [apply Hi; exact Hx|exact Hr|exact HB]).
  - destruct (proj1 (Hi x) Hx) as [Hxs| ->]; [apply (R'_old s s' x HI HR Hk0 Hxs Hr HB)|].
    pose proof (HT t0) as Ht. rewrite Hpc in Ht. cbn [TL] in Ht. destruct Ht as (Hb & [_ [Hp|Hp]] & _).
    + unfold rmd in Hp. rewrite Hpv, Hrm in Hp. discriminate.
    + subst b0. assert (Hp' : reach s' (bkt node) prev) by (apply (reach_kind s s' _ _ HI Hk0 (bkt_insd s node HI)); [exact Hpr|exact Hp]).
      unfold LfhtRch.reach in *. eapply reachf_trans; [exact Hp'|apply reachf_step; [exact Hpp|exact Hn0]].
  - (* replace: the new node hangs behind the old one, in the same bucket *)
    destruct (proj1 (Hi x) Hx) as [Hxs| ->]; [apply (R'_old s s' x HI HR Hk0 Hxs Hr HB)|].
    pose proof (HT t0) as Ht. rewrite Hpc in Ht. cbn [TL] in Ht.
    pose proof (J_li C isB s HI t0) as Hl. unfold LfhtReach.PCr in Hl. unfold LfhtReach.PCr in Hpc. rewrite Hpc in Hl. destruct Hl as [_ [_ HoB]].
    assert (Eb : bkt new = bkt old) by (unfold bkt; rewrite (Hrhi new old (proj1 Ht)); reflexivity).
    rewrite Eb. unfold LfhtRch.reach in *.
    assert (Hro : reachf (nxf s) (bkt old) old) by (apply HR; [exact Hoi|unfold rmd; rewrite Hov; exact Hrm|exact HoB]).
    assert (Hno : new <> old) by congruence.
    eapply reachf_trans; [|apply reachf_step; [exact Hpp|exact Hn0]].
    apply (reachf_ins (nxf s) (nxf s') old new); [|exact Hpp|exact Hn0|exact Hno| |exact Hro].
    + intros y Hy. unfold LfhtRch.nxf. rewrite (Hn y Hy). reflexivity.
    + unfold LfhtRch.nxf. rewrite Hnew, Hov. reflexivity.
Qed.

Ltac ifs := repeat match goal with |- context [if ?c then _ else _] => destruct c eqn:? end.

(* the facts an adder keeps about its bucket, established by its own step (memory unchanged) *)
Lemma TL_next (s : st) (p : hst) :
  Inv1 s -> Inv2 s -> TL s (hcur p) -> LIs C isB s (hcur p) -> LIs3 isB (hcur p) ->
  (forall y, In y (refs (hcur p)) -> y = 0 \/ insd s y) -> Forall (op_ok C) (htodo p) ->
  TL s (hcur (hnext C p (snd (eff2 (smem _ _ s) (hact p))))).
Proof.
  intros H1 H2 HT [Hli _] Hl3 Hcr Hops.
  assert (Hstep : forall b y, insd s y -> RL s b y -> rmd s y = false -> ptr (nxw s y) <> 0 -> RL s b (ptr (nxw s y))).
  { intros b y Hy [_ [Hr|Hr]] Hnr Hz; [congruence|]. split.
    - destruct (J_cm C isB s H2 y Hy) as [E|E]; [contradiction|exact E].
    - right. unfold LfhtRch.reach in *. eapply reachf_trans; [exact Hr|apply reachf_step; [reflexivity|exact Hz]]. }
  unfold hnext, hact. destruct (hcur p) eqn:Ep; cbn [eff2 snd hcur]; try exact I.
  - (* Idle *) destruct (htodo p) as [|[node hash u|h rhh k| |new] rest] eqn:Et; cbn [hcur eff2 snd]; try exact I; [rewrite Ep; exact I| |].
    + cbn [TL]. inversion Hops as [|o l Ho Hl]. exact Ho.
    + unfold repl_start. destruct (found p =? 0); [exact I|]. destruct (N.eqb_spec (rh C (found p)) (rh C new)) as [E|_]; cbn [negb]; [|exact I].
      destruct (N.eqb_spec (key C (found p)) (key C new)) as [Ek|_]; cbn [negb]; [|exact I]. cbn [TL]. split; symmetry; assumption.
  - unfold lookup_at. ifs; exact I.
  - unfold lookup_at. ifs; exact I.
  - (* L_Ret *) ifs; exact I.
  - (* A_Size *) cbn [TL] in *. change (smem hloc (hprog C) s HSize) with (M C s HSize). rewrite (I_size C sz0 s H1). subst hash. reflexivity.
  - (* A_Start *) cbn [TL] in HT. cbn in Hl3.
    assert (Hbi : insd s b) by (apply (J_bins C isB s H2 b Hl3)).
    assert (Hbb : RL s b b) by (split; [exact Hbi|right; apply rt1n_refl]).
    change (smem hloc (hprog C) s (HNext b)) with (nxw s b).
    assert (Htr : b = bkt node /\ RL s b b /\ (ptr (nxw s b) <> 0 -> RL s b (ptr (nxw s b)))).
    { split; [exact HT|split; [exact Hbb|]]. intros Hz. apply (Hstep b b Hbi Hbb); [|exact Hz]. apply (J_bnr C isB s H2 b Hbi Hl3). }
    unfold add_at. ifs; exact Htr.
  - (* A_Iter *) cbn [TL] in HT. destruct HT as (Hb & Hp & Hi). destruct Hli as [Hri Hzi].
    change (smem hloc (hprog C) s (HNext (ptr iter))) with (nxw s (ptr iter)).
    destruct (is_removed (nxw s (ptr iter))) eqn:Er; [exact Hb|].
    destruct (u && negb (is_bucket (nxw s (ptr iter))) && (rh C (ptr iter) =? rh C node)) eqn:Ec.
    + unfold dup_at. ifs; cbn [hcur TL]; (split; [exact Hb|split; [exact Hp|exact Hi]]).
    + assert (Htr : b = bkt node /\ RL s b (ptr iter) /\ (ptr (nxw s (ptr iter)) <> 0 -> RL s b (ptr (nxw s (ptr iter))))).
      { split; [exact Hb|split; [exact (Hi Hzi)|]]. intros Hz. apply (Hstep b (ptr iter) (proj1 (Hi Hzi)) (Hi Hzi) Er Hz). }
      unfold add_at. ifs; exact Htr.
  - (* A_Dup *) cbn [TL] in HT. ifs; [exact I|]. unfold dup_at. ifs; exact HT.
  - (* A_Cas *) cbn [TL] in HT. ifs; [exact I|exact (proj1 HT)].
  - (* A_Gc *) exact HT.
  - ifs; exact I.
  - ifs; exact I.
  - unfold gc_at. ifs; exact I.
  - unfold gc_at. ifs; exact I.
  - (* R_Size *) unfold repl_at. ifs; [exact I|exact HT].
  - (* R_Cas *) unfold repl_at. ifs; try exact I; exact HT.
  - unfold rgc_at. ifs; exact I.
  - unfold rgc_at. ifs; exact I.
Qed.

Record Inv3 (s : st) : Prop := { K1 : Inv1 s; K2 : Inv2 s; K_R : R' s; K_TL : forall t, TL s (PCr s t) }.

Lemma Inv3_exec (s : st) c : Inv3 s -> Inv3 (fst (exec hloc hloc_eqb (hprog C) c s)).
Proof.
  intros [H1 H2 HR HT]. destruct c as [t|t].
  2:{ unfold exec. change (sthr hloc (hprog C) s t) with (THr C s t). rewrite (J_buf C isB s H2 t). constructor; assumption. }
  pose proof (Inv_exec C sz0 Hbk s (Step t) H1) as H1'. pose proof (Inv2_exec C isB Hbkt s (Step t) H2) as H2'.
  destruct (step_shape C isB s t H2) as [[_ Es]|(Et & Eo & Hk)]; [rewrite Es; constructor; assumption|].
  constructor; [exact H1'|exact H2'|apply (R'_kind s _ H2 HR HT Hk)|].
  intros u. destruct (Nat.eq_dec u t) as [->|Hu].
  - unfold LfhtReach.PCr. rewrite Et. cbn [tpc mkts2]. apply (TL_kind s _ _ H2 Hk).
    apply (TL_next s _ H1 H2 (HT t) (J_li C isB s H2 t) (J_l3 C isB s H2 t)).
    + intros y Hy. apply (J_cr C isB s H2 t). apply in_or_app. left. exact Hy.
    + apply (I_ops C sz0 s H1 t).
  - unfold LfhtReach.PCr. rewrite (Eo u Hu). apply (TL_kind s _ _ H2 Hk). apply HT.
Qed.

Theorem lfht_own_bucket_all_schedules : forall cs s, Inv3 s -> Inv3 (fst (run hloc hloc_eqb (hprog C) cs s)).
Proof.
  intros cs. induction cs as [|c cs IH]; intros s HI; cbn [run]; [exact HI|].
  pose proof (Inv3_exec s c HI) as H1. destruct (exec hloc hloc_eqb (hprog C) c s) as [s1 e]. cbn [fst] in H1.
  specialize (IH s1 H1). destruct (run hloc hloc_eqb (hprog C) cs s1) as [s2 es]. exact IH.
Qed.

(* ---- replace is atomic: the very step that flags the old node removed links the new node - same hash, same key - behind it, live and reachable from
   its bucket; there is no state in which the key has left the table ---- *)
Theorem replace_cas_effect (s : st) t old new onext sz :
  Inv3 s -> PCr s t = R_Cas old new onext sz -> nxw s old = onext ->
  let s' := fst (exec hloc hloc_eqb (hprog C) (Step t) s) in
  Inv3 s' /\ rmd s old = false /\ rmd s' old = true /\ ptr (nxw s' old) = new /\
  insd s' new /\ rmd s' new = false /\ key C new = key C old /\ rh C new = rh C old /\ reach s' (bkt new) new.
Proof.
  intros HI Hpc Eq s'. pose proof (Inv3_exec s (Step t) HI) as HI'. fold s' in HI'. destruct HI as [H1 H2 HR HT].
  pose proof (J_li C isB s H2 t) as Hli. rewrite Hpc in Hli. destruct Hli as [[Hrm Hnew] [Ho0 HoB]].
  pose proof (HT t) as Ht. rewrite Hpc in Ht. cbn [TL] in Ht. destruct Ht as [Erh Ek].
  assert (Hinn : In new (future C s t)) by (unfold future; rewrite Hpc; left; reflexivity).
  destruct (J_fut C isB s H2 t new Hinn) as (Hnni & Hn0 & HnB).
  assert (Es : s' = fst (exec hloc hloc_eqb (hprog C) (Step t) s)) by reflexivity.
  rewrite (exec_shape2 C isB s t H2) in Es. cbv zeta in Es. unfold LfhtReach.PCr in Hpc. unfold hact, hpost, hnext in Es. rewrite Hpc in Es. cbn [eff2 fst snd] in Es.
  change (smem hloc (hprog C) s (HNext old)) with (nxw s old) in Es. rewrite Eq, N.eqb_refl in Es. cbn [drain] in Es.
  assert (Hoi : insd s old).
  { destruct (J_cr C isB s H2 t old) as [E0|Hi]; [unfold LfhtReach.PCr; rewrite Hpc; cbn; tauto|contradiction|exact Hi]. }
  assert (Hno : new <> old) by congruence.
  assert (Ho' : nxw s' old = mkp new (REMOVED + OWNER)).
  { rewrite Es. unfold LfhtReach.nxw, Mm; cbn [smem mkst2]. rewrite upd_o by discriminate. apply upd_s. }
  assert (Hn' : nxw s' new = onext).
  { rewrite Es. unfold LfhtReach.nxw, Mm; cbn [smem mkst2]. rewrite upd_o by discriminate. rewrite upd_o by congruence. exact Hnew. }
  assert (Hi' : insd s' new) by (rewrite Es; unfold LfhtReach.insd, Mm; cbn [smem mkst2]; apply upd_s).
  assert (Hr' : rmd s' new = false) by (unfold rmd; rewrite Hn'; exact Hrm).
  split; [exact HI'|]. split; [unfold rmd; rewrite Eq; exact Hrm|]. split; [unfold rmd; rewrite Ho'; apply rem_mkp5|]. split; [rewrite Ho'; apply ptr_mkp5|].
  split; [exact Hi'|]. split; [exact Hr'|]. split; [exact Ek|]. split; [exact Erh|]. apply (K_R s' HI' new Hi' Hr' HnB).
Qed.

(* ---- a lookup for the key of a node x that stays in the table returns a node with that key ---- *)
Variable x : N.
Variable t : nat.
Variable rest : list hop.
Hypothesis HxB : isB x = false.

Definition good (n : N) : Prop := n <> 0 /\ key C n = key C x /\ rh C n = rh C x.
Definition TrackP (s : st) (pc : hpc) : Prop :=
  match pc with
  | L_Size h rhh k => h = hashof C x /\ rhh = rh C x /\ k = key C x
  | L_Bucket b rhh k | L_Node b rhh k => rhh = rh C x /\ k = key C x /\ insd s b /\ reach s b x
  | L_Assert n _ | L_Ret n => good n
  | _ => False
  end.
Definition mu (p : hst) : nat := (length (htodo p) + match hcur p with H_Idle => 0 | _ => 1 end)%nat.
Definition HS (s : st) : hst := tpc _ _ (THr C s t).
Definition Before (s : st) : Prop := hcur (HS s) = H_Idle /\ htodo (HS s) = OLookup (hashof C x) (rh C x) (key C x) :: rest.
Definition During (s : st) : Prop := htodo (HS s) = rest /\ TrackP s (hcur (HS s)).
Definition Past (s : st) : Prop := (mu (HS s) <= length rest)%nat.
Definition Q (s : st) : Prop := insd s x /\ (rmd s x = false -> Before s \/ During s \/ Past s).

Lemma TrackP_kind (s s' : st) pc : Inv2 s -> kind s s' -> rmd s' x = false -> TrackP s pc -> TrackP s' pc.
Proof.
  intros H2 Hk Hr. destruct pc; cbn [TrackP]; try exact (fun h => h);
    intros (Ha & Hb & Hi & Hre); (split; [exact Ha|split; [exact Hb|split; [apply (insd_kind s s' _ Hk Hi)|apply (reach_kind s s' _ _ H2 Hk Hi Hr Hre)]]]).
Qed.

Lemma todo_next (p : hst) r : hcur p <> H_Idle -> htodo (hnext C p r) = htodo p.
Proof. intros Hne. unfold hnext. destruct (hcur p); try contradiction; ifs; reflexivity. Qed.

Lemma mu_next (p : hst) r : (mu (hnext C p r) <= mu p)%nat.
Proof.
  unfold mu. destruct (hcur p) eqn:Ep.
  1:{ unfold hnext. rewrite Ep. destruct (htodo p) as [|[] l] eqn:Et; cbn [hcur htodo length]; try rewrite Ep, Et; cbn [length]; try (destruct (repl_start C _ _ _)); lia. }
  all: rewrite todo_next by (rewrite Ep; discriminate); destruct (hcur (hnext C p r)); lia.
Qed.

(* the cursor moves one node forward and still reaches x *)
Lemma look_fwd (s : st) a rhh k : Inv1 s -> Inv2 s -> insd s a -> reach s a x -> a <> x -> rhh = rh C x -> k = key C x ->
  TrackP s (lookup_at C (ptr (nxw s a)) rhh k).
Proof.
  intros H1 H2 Ha Hre Hne Hrh Hk. destruct (reach_inv s a x Hre Hne) as [Hz Hre'].
  unfold LfhtRch.nxf in Hz, Hre'. unfold lookup_at.
  destruct (N.eqb_spec (ptr (nxw s a)) 0) as [E|_]; [contradiction|].
  pose proof (reach_le s _ _ (I_sorted C sz0 s H1) Hre') as Hle.
  destruct (N.ltb_spec rhh (rh C (ptr (nxw s a)))) as [Hlt|_]; [lia|].
  cbn [TrackP]. split; [exact Hrh|split; [exact Hk|split; [|exact Hre']]].
  destruct (J_cm C isB s H2 a Ha) as [E|E]; [contradiction|exact E].
Qed.

Lemma Track_next (s : st) (p : hst) :
  Inv1 s -> Inv2 s -> R' s -> insd s x -> rmd s x = false -> LIs C isB s (hcur p) -> LIs3 isB (hcur p) ->
  TrackP s (hcur p) -> hcur p <> L_Ret (match hcur p with L_Ret n => n | _ => 0 end) ->
  TrackP s (hcur (hnext C p (snd (eff2 (smem _ _ s) (hact p))))).
Proof.
  intros H1 H2 HR Hxi Hxr [Hli _] Hl3 HT Hnr. unfold hnext, hact.
  destruct (hcur p) eqn:Ep; cbn [TrackP] in HT; try contradiction; cbn [eff2 snd hcur].
  - (* L_Size *) destruct HT as (-> & -> & ->). change (smem hloc (hprog C) s HSize) with (M C s HSize). rewrite (I_size C sz0 s H1).
    cbn [TrackP]. split; [reflexivity|split; [reflexivity|split; [apply (bkt_insd s x H2)|apply (HR x Hxi Hxr HxB)]]].
  - (* L_Bucket *) destruct HT as (Hr & Hk & Hi & Hre). change (smem hloc (hprog C) s (HNext b)) with (nxw s b).
    apply (look_fwd s b rhash k H1 H2 Hi Hre); [|exact Hr|exact Hk]. intros ->. cbn in Hl3. congruence.
  - (* L_Node *) destruct HT as (Hr & Hk & Hi & Hre). change (smem hloc (hprog C) s (HNext node)) with (nxw s node).
    destruct (negb (is_removed (nxw s node)) && negb (is_bucket (nxw s node)) && (rh C node =? rhash) && (key C node =? k)) eqn:Ec.
    + cbn [TrackP]. apply andb_prop in Ec. destruct Ec as [Ec Ek]. apply andb_prop in Ec. destruct Ec as [_ Erh].
      apply N.eqb_eq in Ek. apply N.eqb_eq in Erh. split; [exact Hli|split; congruence].
    + apply (look_fwd s node rhash k H1 H2 Hi Hre); [|exact Hr|exact Hk]. intros ->.
      unfold rmd in Hxr. rewrite Hxr in Ec. rewrite (J_bk C isB s H2 x Hxi), HxB in Ec. subst rhash k. rewrite !N.eqb_refl in Ec. discriminate.
  - (* L_Assert *) exact HT.
Qed.

Lemma Q_exec (s : st) c : Inv3 s -> Q s -> Q (fst (exec hloc hloc_eqb (hprog C) c s)).
Proof.
  intros [H1 H2 HR HT] [Hxi HQ]. destruct c as [u|u].
  2:{ unfold exec. change (sthr hloc (hprog C) s u) with (THr C s u). rewrite (J_buf C isB s H2 u). split; assumption. }
  destruct (step_shape C isB s u H2) as [[_ Es]|(Et & Eo & Hk)]; [rewrite Es; split; assumption|].
  set (s' := fst (exec hloc hloc_eqb (hprog C) (Step u) s)) in *.
  split; [apply (insd_kind s s' x Hk Hxi)|]. intros Hr'.
  assert (Hr : rmd s x = false).
  { destruct (rmd s x) eqn:E; [|reflexivity]. rewrite (rmd_kind s s' x Hk Hxi E) in Hr'. discriminate. }
  specialize (HQ Hr).
  destruct (Nat.eq_dec u t) as [->|Hu].
  - assert (EH : HS s' = hnext C (HS s) (snd (eff2 (smem _ _ s) (hact (HS s))))) by (unfold HS; rewrite Et; reflexivity).
    destruct HQ as [[Hb1 Hb2]|[[Hd1 Hd2]|Hp]].
    + right; left. unfold During. rewrite EH. unfold hnext. rewrite Hb1, Hb2. cbn [hcur htodo TrackP]. tauto.
    + destruct (hcur (HS s)) eqn:Ep; cbn [TrackP] in Hd2; try contradiction.
      5:{ (* L_Ret: the lookup returns *) right; right. unfold Past. rewrite EH. unfold mu, hnext. rewrite Ep. destruct (node =? 0); cbn [hcur htodo]; rewrite Hd1; lia. }
      all: right; left; unfold During; rewrite EH; (split; [rewrite todo_next by (rewrite Ep; discriminate); exact Hd1|]);
        apply (TrackP_kind s s' _ H2 Hk Hr');
        apply (Track_next s (HS s) H1 H2 HR Hxi Hr (J_li C isB s H2 t) (J_l3 C isB s H2 t)); [rewrite Ep; exact Hd2|rewrite Ep; discriminate].
    + right; right. unfold Past in *. rewrite EH. pose proof (mu_next (HS s) (snd (eff2 (smem _ _ s) (hact (HS s))))). lia.
  - assert (EH : HS s' = HS s) by (unfold HS; rewrite (Eo t (not_eq_sym Hu)); reflexivity).
    destruct HQ as [Hb|[[Hd1 Hd2]|Hp]]; [left; unfold Before; rewrite EH; exact Hb| |right; right; unfold Past; rewrite EH; exact Hp].
    right; left. unfold During. rewrite EH. split; [exact Hd1|apply (TrackP_kind s s' _ H2 Hk Hr' Hd2)].
Qed.

Theorem lfht_resident_found_all_schedules : forall cs s, Inv3 s -> Q s ->
  let s' := fst (run hloc hloc_eqb (hprog C) cs s) in Inv3 s' /\ Q s'.
Proof.
  intros cs. induction cs as [|c cs IH]; intros s HI HQ; cbn [run]; [split; assumption|].
  pose proof (Inv3_exec s c HI) as H1. pose proof (Q_exec s c HI HQ) as H2.
  destruct (exec hloc hloc_eqb (hprog C) c s) as [s1 e]. cbn [fst] in H1, H2.
  specialize (IH s1 H1 H2). cbv zeta in IH. destruct (run hloc hloc_eqb (hprog C) cs s1) as [s2 es]. exact IH.
Qed.

(* reading: if thread t was about to look up x's key when x was already in the table, then whenever that lookup is at its
   return point and x has not been removed, the node it returns has x's key *)
Corollary lookup_returns_key : forall cs s n, Inv3 s -> insd s x -> Before s ->
  let s' := fst (run hloc hloc_eqb (hprog C) cs s) in
  rmd s' x = false -> hcur (HS s') = L_Ret n -> htodo (HS s') = rest -> good n.
Proof.
  intros cs s n HI Hx Hb s' Hr Hpc Htd.
  destruct (lfht_resident_found_all_schedules cs s HI (conj Hx (fun _ => or_introl Hb))) as [_ [_ HQ]]. fold s' in HQ.
  destruct (HQ Hr) as [[Hb1 _]|[[_ Hd]|Hp]].
  - rewrite Hpc in Hb1. discriminate.
  - rewrite Hpc in Hd. exact Hd.
  - unfold Past, mu in Hp. rewrite Hpc, Htd in Hp. lia.
Qed.
End FIND.
Print Assumptions lfht_own_bucket_all_schedules.
Print Assumptions replace_cas_effect.
Print Assumptions lookup_returns_key.
