(* C06 / C07: the ownership protocol on one node's next word (src/rculfhash.c: _cds_lfht_del, _cds_lfht_replace, _cds_lfht_add, _cds_lfht_gc_bucket) as an
   executable acceptor over the atomic accesses to that word, whoever performs them and however they interleave.
   REMOVED may be set by several threads; REMOVAL_OWNER is set once - by del's exchange or together with REMOVED by replace's cmpxchg - and whoever sets it owns the
   node.  FlagProtoProof: in every accepted run at most one access is an ownership success. *)
From Coq Require Import List Arith Bool Lia.
Import ListNotations.

Record fword := { removed : bool; owner : bool; succ : nat (* ghost: ownership successes so far *) }.
Inductive fact :=
| FOr                               (* uatomic_or(&node->next, REMOVED_FLAG) *)
| FXchgOwner (prev_owner : bool)    (* uatomic_xchg(&node->next, old | REMOVAL_OWNER_FLAG); prev_owner = flag in the value returned *)
| FCasReplace (ok : bool)           (* uatomic_cmpxchg(&old->next, old_next, new | REMOVED | REMOVAL_OWNER); ok = the value returned is old_next *)
| FCasLink (ok : bool).             (* cmpxchg that changes the pointer part: insertion after this node or unlink of its successor *)

Definition fstep (w : fword) (a : fact) : option fword :=
  match a with
  | FOr => Some {| removed := true; owner := owner w; succ := succ w |}
  | FXchgOwner p =>
      if removed w && Bool.eqb p (owner w)                 (* del exchanges only after the logical deletion; the value returned is the current word *)
      then Some {| removed := true; owner := true; succ := if p then succ w else S (succ w) |}
      else None
  | FCasReplace ok =>
      if ok then (if removed w || owner w then None        (* the expected value carries no flag: the cmpxchg cannot succeed on a flagged word *)
                  else Some {| removed := true; owner := true; succ := S (succ w) |})
      else Some w
  | FCasLink ok =>
      if ok then (if removed w then None else Some w)      (* the next pointer of a logically removed node is frozen *)
      else Some w
  end.
Fixpoint frun (w : fword) (l : list fact) : option fword :=
  match l with [] => Some w | a :: l' => match fstep w a with Some w' => frun w' l' | None => None end end.
Fixpoint frun_idx (w : fword) (l : list fact) (i : nat) : fword + nat :=
  match l with [] => inl w | a :: l' => match fstep w a with Some w' => frun_idx w' l' (S i) | None => inr i end end.
Definition fword0 : fword := {| removed := false; owner := false; succ := 0 |}.

Definition FInv (w : fword) : Prop := succ w = (if owner w then 1 else 0) /\ (owner w = true -> removed w = true).
Lemma FInv0 : FInv fword0. Proof. split; [reflexivity|discriminate]. Qed.
Lemma FInv_step w a w' : FInv w -> fstep w a = Some w' -> FInv w'.
Proof.
  intros [H1 H2] H. destruct a as [|p|ok|ok]; cbn in H.
  - inversion H; subst. split; cbn; auto.
  - destruct (removed w && Bool.eqb p (owner w)) eqn:E; [|discriminate]. inversion H; subst. apply andb_true_iff in E. destruct E as [_ E]. apply Bool.eqb_prop in E. subst p.
    split; cbn; [|auto]. rewrite H1. destruct (owner w); reflexivity.
  - destruct ok; [|inversion H; subst; split; assumption]. destruct (removed w || owner w) eqn:E; [discriminate|]. inversion H; subst. apply orb_false_iff in E. destruct E as [_ E].
    split; cbn; [|auto]. rewrite H1, E. reflexivity.
  - destruct ok.
    + destruct (removed w) eqn:E; [discriminate|]. inversion H; subst w'. split; [exact H1|]. intros Ho. specialize (H2 Ho). discriminate H2.
    + inversion H; subst w'. split; assumption.
Qed.
(* for every accepted sequence of accesses to the word - any number of concurrent del, replace, add_replace, add and garbage-collection steps in any order -
   at most one access obtains the node, the flags only ever go up, and REMOVAL_OWNER is never set without REMOVED *)
Theorem single_owner l w : frun fword0 l = Some w -> succ w <= 1 /\ (owner w = true -> removed w = true) /\ (succ w = 1 <-> owner w = true).
Proof.
  intros H. assert (HI : FInv w).
  { revert H. generalize FInv0. generalize fword0. induction l as [|a l IH]; intros w0 H0 H; cbn in H; [inversion H; subst; exact H0|].
    destruct (fstep w0 a) as [w1|] eqn:E; [|discriminate]. apply (IH w1 (FInv_step w0 a w1 H0 E) H). }
  destruct HI as [H1 H2]. split; [rewrite H1; destruct (owner w); lia|]. split; [exact H2|]. rewrite H1. destruct (owner w); split; intros; try lia; try reflexivity; discriminate.
Qed.
(* sensitivity: if replace set only REMOVED (no REMOVAL_OWNER), a del that had passed its removed-check before would also win: two owners *)
Definition fstep_bad (w : fword) (a : fact) : option fword :=
  match a with
  | FCasReplace true => if removed w || owner w then None else Some {| removed := true; owner := false; succ := S (succ w) |}
  | _ => fstep w a
  end.
Theorem replace_without_owner_flag_refuted :
  exists l w, fold_left (fun o a => match o with Some x => fstep_bad x a | None => None end) l (Some fword0) = Some w /\ succ w = 2.
Proof. exists [FCasReplace true; FOr; FXchgOwner false]. eexists. split; [vm_compute; reflexivity|reflexivity]. Qed.
Print Assumptions single_owner.
