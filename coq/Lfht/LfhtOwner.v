(* a node is handed to at most one remover or replacer - in every run, for each node, at most one event is either an ownership exchange of a
   del that returns a word without the REMOVAL_OWNER flag or a successful replacing cmpxchg (which sets REMOVED and REMOVAL_OWNER at once) *)
From Coq Require Import List Arith NArith Bool Lia.
Import ListNotations.
Require Import Urcu.Base.MachD Urcu.Lfht.Lfht Urcu.Lfht.LfhtSorted Urcu.Lfht.LfhtReach Urcu.Lfht.LfhtStep Urcu.Lfht.LfhtKinds Urcu.Lfht.LfhtRch Urcu.Lfht.LfhtFind.
Local Open Scope N_scope.

Section OWNER.
Variable C : cfg.
Variable isB : N -> bool.
Hypothesis Hbkt : forall i, isB (bucket C i) = true.
Notation st := (state hloc (hprog C)).
Notation Inv2 := (LfhtReach.Inv2 C isB).
Notation insd := (insd C).
Notation nxw := (nxw C).
Notation kind := (kind C).

(* the owner flag is only ever set on a removed node *)
Definition OR (s : st) : Prop := forall x, is_owner (nxw s x) = true -> insd s x -> is_removed (nxw s x) = true.

Ltac dk Hk :=
  destruct Hk as [Hn Hi|node Hnn Hn Hi|t0 b0 u0 prev node iter Hpc Hpi Hnn Hn0 Hpv Hrm Hnode Hpp Hpr Hpo Hn Hi
                 |prev iter nx Hpi Hpv Hrm Hp0 Hpn Hrn Hpp Hpr Hpo Hn Hi|n Hni Hpp Hpr Hom Hn Hi
                 |t0 old new onext szr Hpc Hoi Hnn Hn0 Hov Hrm Hnew Hpp Hpr Hpo Hn Hi].

Lemma OR_kind (s s' : st) : Inv2 s -> OR s -> kind s s' -> OR s'.
Proof.
  intros HI HO Hk x Hx Hxi. dk Hk.
  - rewrite Hn in *. apply HO; [exact Hx|apply Hi; exact Hxi].
  - assert (Hs : insd s x) by (apply Hi; exact Hxi). assert (x <> node) by congruence. rewrite (Hn x H) in *. apply HO; assumption.
  - destruct (N.eq_dec x prev) as [->|Hxp]; [congruence|]. rewrite (Hn x Hxp) in *.
    destruct (proj1 (Hi x) Hxi) as [Hs| ->]; [apply HO; assumption|]. rewrite Hnode, own_clr in Hx. discriminate.
  - destruct (N.eq_dec x prev) as [->|Hxp]; [congruence|]. rewrite (Hn x Hxp) in *. apply HO; [exact Hx|apply Hi; exact Hxi].
  - destruct (N.eq_dec x n) as [->|Hxn]; [exact Hpr|]. rewrite (Hn x Hxn) in *. apply HO; [exact Hx|apply Hi; exact Hxi].
  - destruct (N.eq_dec x old) as [->|Hxo]; [exact Hpr|]. rewrite (Hn x Hxo) in *.
    destruct (proj1 (Hi x) Hxi) as [Hs| ->]; [apply HO; assumption|].
    (* the new node carries old's former word, which had no owner flag since old was not removed *)
    rewrite Hnew, <- Hov in Hx. pose proof (HO old Hx Hoi) as H. rewrite Hov, Hrm in H. discriminate.
Qed.

Lemma own_mono (s s' : st) x : Inv2 s -> OR s -> kind s s' -> insd s x -> is_owner (nxw s x) = true -> is_owner (nxw s' x) = true.
Proof.
  intros HI HO Hk Hxi Hx. dk Hk.
  - rewrite Hn. exact Hx.
  - rewrite Hn by congruence. exact Hx.
  - destruct (N.eq_dec x prev) as [->|Hxp]; [|rewrite (Hn x Hxp); exact Hx]. pose proof (HO prev Hx Hxi) as H. rewrite Hpv, Hrm in H. discriminate.
  - destruct (N.eq_dec x prev) as [->|Hxp]; [|rewrite (Hn x Hxp); exact Hx]. pose proof (HO prev Hx Hxi) as H. rewrite Hpv, Hrm in H. discriminate.
  - destruct (N.eq_dec x n) as [->|Hxn]; [apply Hom; exact Hx|rewrite (Hn x Hxn); exact Hx].
  - destruct (N.eq_dec x old) as [->|Hxo]; [exact Hpo|rewrite (Hn x Hxo); exact Hx].
Qed.

Definition is_succ (n : N) (e : event hloc) : bool :=
  match e with
  | Ev _ _ (AXchg _ (HNext m) _) r => (m =? n) && negb (is_owner r)                        (* del: the exchange found the flag clear *)
  | Ev _ _ (ACas _ (HNext m) e nw) r => (m =? n) && (r =? e) && is_owner nw                 (* replace: the cmpxchg that sets the flag succeeded *)
  | _ => false
  end.
Definition count_succ (n : N) (es : list (event hloc)) : nat := length (filter (is_succ n) es).

(* the event emitted by a step *)
Lemma ev_shape (s : st) t : Inv2 s ->
  let p := tpc _ _ (THr C s t) in
  snd (exec hloc hloc_eqb (hprog C) (Step t) s) = match hact p with ADone _ => None | a => Some (Ev _ t a (snd (eff2 (smem _ _ s) a))) end.
Proof.
  intros HI p. unfold exec, tstep. change (sthr hloc (hprog C) s t) with (THr C s t). fold p.
  rewrite (J_buf C isB s HI t). cbn [pact pnext ppost hprog buf_lookup drain].
  assert (Hns : forall l v, hact p <> AStore _ l v).
  { intros l v. unfold hact. destruct (hcur p); try discriminate; try (destruct (htodo p) as [|[]]; discriminate). }
  destruct (hact p) eqn:Ea; cbn [eff2 fst snd]; try reflexivity; destruct (Hns l v eq_refl).
Qed.

(* a successful ownership exchange / replacing cmpxchg finds the flag clear and leaves it set *)
Lemma succ_step (s : st) t n e : Inv2 s -> OR s -> snd (exec hloc hloc_eqb (hprog C) (Step t) s) = Some e -> is_succ n e = true ->
  insd s n /\ is_owner (nxw s n) = false /\ is_owner (nxw (fst (exec hloc hloc_eqb (hprog C) (Step t) s)) n) = true.
Proof.
  intros HI HO He Hs. rewrite (ev_shape s t HI) in He. cbv zeta in He.
  rewrite (exec_shape2 C isB s t HI). cbv zeta.
  pose proof (J_cr C isB s HI t) as Hcr. unfold PCr, FND in Hcr. pose proof (J_li C isB s HI t) as Hli. unfold PCr in Hli.
  set (p := tpc _ _ (THr C s t)) in *.
  unfold hact in *. destruct (hcur p) eqn:Ep;
    match type of He with context [htodo p] => destruct (htodo p) as [|[]] | _ => idtac end; inversion He; subst e; cbn [is_succ] in Hs; try discriminate.
  - (* A_Cas: never sets the owner flag *) exfalso. apply andb_prop in Hs. destruct Hs as [_ Ho]. destruct (is_bucket iter); [rewrite own_mkpB in Ho|rewrite own_mkp0 in Ho]; discriminate.
  - (* A_Gc *) exfalso. apply andb_prop in Hs. destruct Hs as [_ Ho]. destruct (is_bucket iter); [rewrite own_clrB in Ho|rewrite own_clr in Ho]; discriminate.
  - (* G_Cas *) exfalso. apply andb_prop in Hs. destruct Hs as [_ Ho]. destruct (is_bucket iter); [rewrite own_clrB in Ho|rewrite own_clr in Ho]; discriminate.
  - (* D_Xchg *)
    apply andb_prop in Hs. destruct Hs as [Hm Ho]. apply N.eqb_eq in Hm. subst node. cbn [eff2 fst snd] in *.
    destruct Hli as [_ (Hz & _)].
    assert (Hin : In n (refs (D_Xchg n v) ++ [found p])) by (cbn; tauto).
    destruct (Hcr _ Hin) as [E|Hi]; [contradiction|].
    split; [exact Hi|split].
    + unfold LfhtReach.nxw, Mm. destruct (is_owner (smem hloc (hprog C) s (HNext n))); [discriminate|reflexivity].
    + assert (Hp0 : hpost C p (smem hloc (hprog C) s (HNext n)) = []) by (unfold hpost, hnext; rewrite Ep; reflexivity). rewrite Hp0. cbn [drain].
      unfold LfhtReach.nxw, Mm; cbn [smem mkst2]. rewrite upd_s. apply own_lor4.
  - (* R_Cas *)
    apply andb_prop in Hs. destruct Hs as [Hs _]. apply andb_prop in Hs. destruct Hs as [Hm Heq]. apply N.eqb_eq in Hm. subst old. cbn [eff2 fst snd] in *.
    apply N.eqb_eq in Heq. destruct Hli as [[Hrm _] (Hz & _)].
    assert (Hin : In n (refs (R_Cas n new onext sz) ++ [found p])) by (cbn; tauto).
    destruct (Hcr _ Hin) as [E|Hi]; [contradiction|].
    split; [exact Hi|split].
    + destruct (is_owner (nxw s n)) eqn:E; [|reflexivity]. pose proof (HO n E Hi) as H. unfold LfhtReach.nxw, Mm in H. rewrite Heq, Hrm in H. discriminate.
    + unfold hpost. rewrite Ep. rewrite Heq, N.eqb_refl. cbn [drain].
      unfold LfhtReach.nxw, Mm; cbn [smem mkst2]. rewrite upd_o by discriminate. rewrite upd_s. unfold is_owner, mkp. rewrite tb2. reflexivity.
  - (* RG_Cas *) exfalso. apply andb_prop in Hs. destruct Hs as [_ Ho]. destruct (is_bucket iter); [rewrite own_clrB in Ho|rewrite own_clr in Ho]; discriminate.
Qed.

Theorem lfht_single_owner n : forall cs (s : st), Inv2 s -> OR s ->
  (insd s n -> is_owner (nxw s n) = true -> count_succ n (snd (run hloc hloc_eqb (hprog C) cs s)) = 0%nat) /\
  (count_succ n (snd (run hloc hloc_eqb (hprog C) cs s)) <= 1)%nat.
Proof.
  induction cs as [|c cs IH]; intros s HI HO; cbn [run]; [split; [reflexivity|cbn; lia]|].
  pose proof (Inv2_exec C isB Hbkt s c HI) as HI1.
  assert (HO1 : OR (fst (exec hloc hloc_eqb (hprog C) c s))).
  { destruct c as [t|t]; [apply (OR_kind s _ HI HO); apply (step_kind C isB s t HI)|].
    unfold exec. change (sthr hloc (hprog C) s t) with (THr C s t). rewrite (J_buf C isB s HI t). exact HO. }
  assert (Hmono : insd s n -> is_owner (nxw s n) = true ->
                  insd (fst (exec hloc hloc_eqb (hprog C) c s)) n /\ is_owner (nxw (fst (exec hloc hloc_eqb (hprog C) c s)) n) = true).
  { intros Hi Ho. destruct c as [t|t].
    - pose proof (step_kind C isB s t HI) as Hk. split; [apply (insd_kind C s _ n Hk Hi)|apply (own_mono s _ n HI HO Hk Hi Ho)].
    - unfold exec. change (sthr hloc (hprog C) s t) with (THr C s t). rewrite (J_buf C isB s HI t). split; assumption. }
  assert (Hev : forall e, snd (exec hloc hloc_eqb (hprog C) c s) = Some e -> is_succ n e = true ->
                insd s n /\ is_owner (nxw s n) = false /\ is_owner (nxw (fst (exec hloc hloc_eqb (hprog C) c s)) n) = true).
  { intros e He Hs. destruct c as [t|t]; [apply (succ_step s t n e HI HO He Hs)|].
    unfold exec in He. change (sthr hloc (hprog C) s t) with (THr C s t) in He. rewrite (J_buf C isB s HI t) in He. discriminate. }
  assert (Hins : insd s n -> insd (fst (exec hloc hloc_eqb (hprog C) c s)) n).
  { intros Hi. destruct c as [t|t]; [apply (insd_kind C s _ n (step_kind C isB s t HI) Hi)|].
    unfold exec. change (sthr hloc (hprog C) s t) with (THr C s t). rewrite (J_buf C isB s HI t). exact Hi. }
  destruct (exec hloc hloc_eqb (hprog C) c s) as [s1 oe] eqn:Ex. cbn [fst snd] in *.
  destruct (IH s1 HI1 HO1) as [IHa IHb]. destruct (run hloc hloc_eqb (hprog C) cs s1) as [s2 es] eqn:Er. cbn [snd] in *.
  destruct oe as [e|]; [|split; [intros Hi Ho; destruct (Hmono Hi Ho) as [A B]; apply IHa; assumption|exact IHb]].
  unfold count_succ in *. cbn [filter]. destruct (is_succ n e) eqn:Es.
  - destruct (Hev e eq_refl Es) as (Hi & Hof & Hot).
    cbn [length]. rewrite (IHa (Hins Hi) Hot). split; [intros _ Ho; congruence|lia].
  - split; [intros Hi Ho; destruct (Hmono Hi Ho) as [A B]; apply IHa; assumption|exact IHb].
Qed.
End OWNER.
Print Assumptions lfht_single_owner.
