(* scratch: classification of what one step does to the next-words and the inserted marks *)
From Coq Require Import List Arith NArith Bool Lia.
Import ListNotations.
Require Import Urcu.Base.MachD Urcu.Lfht.Lfht Urcu.Lfht.LfhtSorted Urcu.Lfht.LfhtReach Urcu.Lfht.LfhtStep.
Local Open Scope N_scope.

Lemma tb2 id f : N.testbit (8 * id + f) 2 = N.testbit f 2.
Proof.
  rewrite !N.testbit_eqb. change (2^2) with 4.
  replace ((8 * id + f) / 4) with (f / 4 + id * 2).
  - rewrite N.mod_add by lia. reflexivity.
  - replace (8 * id + f) with (f + 2 * id * 4) by lia. rewrite N.div_add by lia. lia.
Qed.
Lemma own_mkp0 id : is_owner (mkp id 0) = false.  Proof. unfold is_owner, mkp. rewrite tb2. reflexivity. Qed.
Lemma own_mkpB id : is_owner (mkp id BUCKET) = false.  Proof. unfold is_owner, mkp. rewrite tb2. reflexivity. Qed.
Lemma own_clr w : is_owner (clr w) = false.  Proof. unfold clr. rewrite <- (N.add_0_r (8 * ptr w)). apply (own_mkp0 (ptr w)). Qed.
Lemma own_clrB w : is_owner (clr w + BUCKET) = false.  Proof. apply (own_mkpB (ptr w)). Qed.
Lemma own_lor1 w : is_owner (N.lor w REMOVED) = is_owner w.
Proof. unfold is_owner, REMOVED. rewrite N.lor_spec. cbn. apply orb_false_r. Qed.
Lemma own_lor4 w : is_owner (N.lor w OWNER) = true.
Proof. unfold is_owner, OWNER. rewrite N.lor_spec. cbn. apply orb_true_r. Qed.

Section KINDS.
Variable C : cfg.
Variable isB : N -> bool.
Hypothesis Hbkt : forall i, isB (bucket C i) = true.
Notation st := (state hloc (hprog C)).
Notation Inv2 := (Inv2 C isB).
Notation insd := (insd C).
Notation nxw := (nxw C).

Inductive kind (s s' : st) : Prop :=
| K_same : (forall x, nxw s' x = nxw s x) -> (forall x, insd s' x <-> insd s x) -> kind s s'
| K_priv node : ~ insd s node -> (forall x, x <> node -> nxw s' x = nxw s x) -> (forall x, insd s' x <-> insd s x) -> kind s s'
| K_ins t b u prev node iter :
    PCr C s t = A_Cas node b u prev iter ->
    insd s prev -> ~ insd s node -> node <> 0 -> nxw s prev = iter -> is_removed iter = false -> nxw s node = clr iter ->
    ptr (nxw s' prev) = node -> is_removed (nxw s' prev) = false -> is_owner (nxw s' prev) = false ->
    (forall x, x <> prev -> nxw s' x = nxw s x) -> (forall x, insd s' x <-> insd s x \/ x = node) -> kind s s'
| K_gc prev iter nx :
    insd s prev -> nxw s prev = iter -> is_removed iter = false -> ptr iter <> 0 ->
    ptr (nxw s (ptr iter)) = ptr nx -> is_removed (nxw s (ptr iter)) = true ->
    ptr (nxw s' prev) = ptr nx -> is_removed (nxw s' prev) = false -> is_owner (nxw s' prev) = false ->
    (forall x, x <> prev -> nxw s' x = nxw s x) -> (forall x, insd s' x <-> insd s x) -> kind s s'
| K_flag n :
    insd s n -> ptr (nxw s' n) = ptr (nxw s n) -> is_removed (nxw s' n) = true ->
    (is_owner (nxw s n) = true -> is_owner (nxw s' n) = true) ->
    (forall x, x <> n -> nxw s' x = nxw s x) -> (forall x, insd s' x <-> insd s x) -> kind s s'
| K_repl t old new onext sz :       (* replace: old is flagged removed + owned and, in the same word, linked to the new node, whose successor is old's *)
    PCr C s t = R_Cas old new onext sz ->
    insd s old -> ~ insd s new -> new <> 0 -> nxw s old = onext -> is_removed onext = false -> nxw s new = onext ->
    ptr (nxw s' old) = new -> is_removed (nxw s' old) = true -> is_owner (nxw s' old) = true ->
    (forall x, x <> old -> nxw s' x = nxw s x) -> (forall x, insd s' x <-> insd s x \/ x = new) -> kind s s'.

Lemma drain_post_nx (m : mem hloc) q x : drain hloc hloc_eqb m (post_of q) (HNext x) =
  match q with A_Cas nd _ _ _ it => if N.eqb nd x then clr it else m (HNext x) | R_Cas _ nw on _ => if N.eqb nw x then on else m (HNext x) | _ => m (HNext x) end.
Proof.
  destruct q; cbn [post_of drain]; reflexivity.
Qed.
Lemma drain_post_ins (m : mem hloc) q x : drain hloc hloc_eqb m (post_of q) (HIns x) = m (HIns x).
Proof. destruct q; cbn [post_of drain]; reflexivity. Qed.

(* the node whose forward pointer is initialised on the way into an insertion / replacement cmpxchg *)
Definition post_node (q : hpc) : option N := match q with A_Cas nd _ _ _ _ => Some nd | R_Cas _ nw _ _ => Some nw | _ => None end.

(* a step whose only possible write is the plain store that precedes the insertion / replacement cmpxchg *)
Lemma kind_post (s : st) t q p' :
  Inv2 s -> (forall nd, post_node q = Some nd -> In nd (future C s t)) ->
  kind s (mkst2 C (drain hloc hloc_eqb (smem _ _ s) (post_of q)) (tupd hloc (hprog C) (sthr _ _ s) t p')).
Proof.
  intros HI Hq. destruct q; try (apply K_same; intros x; [unfold LfhtReach.nxw, Mm; cbn [smem mkst2]; rewrite drain_post_nx; reflexivity|unfold LfhtReach.insd, Mm; cbn [smem mkst2]; rewrite drain_post_ins; tauto]).
  - destruct (J_fut C isB s HI t node (Hq _ eq_refl)) as (Hni & _).
    apply (K_priv s _ node Hni).
    + intros x Hx. unfold LfhtReach.nxw, Mm; cbn [smem mkst2]. rewrite drain_post_nx. destruct (N.eqb_spec node x); [congruence|reflexivity].
    + intros x. unfold LfhtReach.insd, Mm; cbn [smem mkst2]. rewrite drain_post_ins. tauto.
  - destruct (J_fut C isB s HI t new (Hq _ eq_refl)) as (Hni & _).
    apply (K_priv s _ new Hni).
    + intros x Hx. unfold LfhtReach.nxw, Mm; cbn [smem mkst2]. rewrite drain_post_nx. destruct (N.eqb_spec new x); [congruence|reflexivity].
    + intros x. unfold LfhtReach.insd, Mm; cbn [smem mkst2]. rewrite drain_post_ins. tauto.
Qed.

Definition not_cas (q : hpc) : Prop := (forall a1 a2 a3 a4 a5, q <> A_Cas a1 a2 a3 a4 a5) /\ (forall a1 a2 a3 a4, q <> R_Cas a1 a2 a3 a4).

Lemma into_cas_mine (p : hst) r nd :
  not_cas (hcur p) -> post_node (hcur (hnext C p r)) = Some nd -> mine (hcur p) = Some nd.
Proof.
  intros [Hnc Hnr]. unfold hnext. destruct (hcur p) eqn:Ep; cbn [hcur post_node]; try discriminate;
    try (destruct (htodo p) as [|[]]; cbn [hcur post_node]; try rewrite Ep; try discriminate);
    try (exfalso; eapply Hnc; reflexivity); try (exfalso; eapply Hnr; reflexivity);
    unfold add_at, dup_at, lookup_at, gc_at, rgc_at, repl_at, repl_start;
    repeat match goal with |- context [if ?c then _ else _] => destruct c end; cbn [hcur mine post_node]; try discriminate;
    try (intros E; inversion E; reflexivity).
Qed.

Lemma hpost_not_cas (p : hst) r : not_cas (hcur p) -> hpost C p r = post_of (hcur (hnext C p r)).
Proof. intros [Hnc Hnr]. unfold hpost. destruct (hcur p) eqn:Ep; try reflexivity; exfalso; [eapply Hnc|eapply Hnr]; reflexivity. Qed.

Lemma step_kind (s : st) t : Inv2 s -> kind s (fst (exec hloc hloc_eqb (hprog C) (Step t) s)).
Proof.
  intros HI. rewrite (exec_shape2 C isB s t HI). cbv zeta.
  pose proof (J_li C isB s HI t) as Hli. pose proof (J_l3 C isB s HI t) as Hl3. pose proof (J_cr C isB s HI t) as Hcr.
  unfold PCr in Hli, Hl3, Hcr. unfold FND in Hcr.
  assert (Hfut : future C s t = fut_of (tpc _ _ (THr C s t))) by reflexivity.
  set (p := tpc _ _ (THr C s t)) in *.
  (* generic treatment of every step that is not one of the writers *)
  assert (Hgen : forall r, not_cas (hcur p) ->
            kind s (mkst2 C (drain hloc hloc_eqb (smem _ _ s) (hpost C p r)) (tupd hloc (hprog C) (sthr _ _ s) t (mkts2 C (hnext C p r))))).
  { intros r Hnc. rewrite (hpost_not_cas p r Hnc). apply (kind_post s t _ _ HI).
    intros nd E. rewrite Hfut. unfold fut_of. rewrite (into_cas_mine p r nd Hnc E). left; reflexivity. }
  unfold hact. destruct (hcur p) eqn:Epc; cbn [eff2 fst snd];
    try (apply Hgen; split; intros; discriminate).
  - (* Idle *) destruct (htodo p) as [|[]] eqn:Etd; [apply K_same; intros; tauto| | | |]; apply Hgen; split; intros; discriminate.
  - (* A_Cas *)
    cbn in Hl3. destruct Hl3 as [HBb Hpv]. destruct Hli as [[Hrm Hnode] _].
    assert (Hcp : insd s prev).
    { assert (Hin : In prev (refs (A_Cas node b u prev iter) ++ [found p])) by (cbn; tauto). destruct (Hcr _ Hin) as [E|H]; [contradiction|exact H]. }
    assert (Hinn : In node (future C s t)) by (rewrite Hfut; unfold fut_of; rewrite Epc; left; reflexivity).
    destruct (J_fut C isB s HI t node Hinn) as (Hni & Hn0 & _).
    change (smem hloc (hprog C) s (HNext prev)) with (nxw s prev).
    unfold hpost. rewrite Epc.
    destruct (N.eqb_spec (nxw s prev) iter) as [Eq|Ne].
    + apply (K_ins s _ t b u prev node iter Epc Hcp Hni Hn0 Eq Hrm Hnode).
      * unfold LfhtReach.nxw, Mm; cbn [smem mkst2 drain]. rewrite upd_o by discriminate. rewrite upd_s. destruct (is_bucket iter); apply ptr_mkp; unfold BUCKET; lia.
      * unfold LfhtReach.nxw, Mm; cbn [smem mkst2 drain]. rewrite upd_o by discriminate. rewrite upd_s. destruct (is_bucket iter); [apply rem_mkpB|apply rem_mkp0].
      * unfold LfhtReach.nxw, Mm; cbn [smem mkst2 drain]. rewrite upd_o by discriminate. rewrite upd_s. destruct (is_bucket iter); [apply own_mkpB|apply own_mkp0].
      * intros x Hx. unfold LfhtReach.nxw, Mm; cbn [smem mkst2 drain]. rewrite upd_o by discriminate. apply upd_o. congruence.
      * intros x. unfold LfhtReach.insd, Mm; cbn [smem mkst2 drain]. destruct (N.eq_dec x node) as [->|Hne].
        -- rewrite upd_s. split; [intros _; right; reflexivity|intros _; reflexivity].
        -- rewrite upd_o by congruence. rewrite upd_o by discriminate. split; [intros H; left; exact H|intros [H|H]; [exact H|contradiction]].
    + apply K_same; intros x; cbn [drain]; reflexivity || tauto.
  - (* A_Gc *)
    destruct Hli as [(Hrm & Hpi & Hrn & Hpn & Hrn2) _].
    assert (Hcp : insd s prev).
    { assert (Hin : In prev (refs (A_Gc node b u prev iter next) ++ [found p])) by (cbn; tauto). destruct (Hcr _ Hin) as [E|H]; [cbn in Hl3; destruct Hl3; contradiction|exact H]. }
    change (smem hloc (hprog C) s (HNext prev)) with (nxw s prev).
    assert (Hp0 : hpost C p (nxw s prev) = []) by (unfold hpost, hnext; rewrite Epc; reflexivity). rewrite Hp0. cbn [drain].
    destruct (N.eqb_spec (nxw s prev) iter) as [Eq|Ne].
    + apply (K_gc s _ prev iter next Hcp Eq Hrm Hpi Hpn Hrn2).
      * unfold LfhtReach.nxw, Mm; cbn [smem mkst2]. rewrite upd_s. destruct (is_bucket iter); [apply ptr_clr_b|apply ptr_clr].
      * unfold LfhtReach.nxw, Mm; cbn [smem mkst2]. rewrite upd_s. destruct (is_bucket iter); [apply rem_clrB|apply rem_clr].
      * unfold LfhtReach.nxw, Mm; cbn [smem mkst2]. rewrite upd_s. destruct (is_bucket iter); [apply own_clrB|apply own_clr].
      * intros x Hx. unfold LfhtReach.nxw, Mm; cbn [smem mkst2]. apply upd_o. congruence.
      * intros x. reflexivity.
    + apply K_same; intros x; reflexivity || tauto.
  - (* D_Or *)
    assert (Hcn : insd s node).
    { assert (Hin : In node (refs (D_Or node sz) ++ [found p])) by (cbn; tauto). destruct Hli as [_ [Hz _]]. destruct (Hcr _ Hin) as [E|H]; [contradiction|exact H]. }
    assert (Hp0 : hpost C p 0 = []) by (unfold hpost, hnext; rewrite Epc; reflexivity). rewrite Hp0. cbn [drain].
    change (smem hloc (hprog C) s (HNext node)) with (nxw s node).
    apply (K_flag s _ node Hcn).
    + unfold LfhtReach.nxw at 1, Mm; cbn [smem mkst2]. rewrite upd_s. apply ptr_lor_small. unfold REMOVED; lia.
    + unfold LfhtReach.nxw, Mm; cbn [smem mkst2]. rewrite upd_s. apply flag_lor1.
    + unfold LfhtReach.nxw, Mm; cbn [smem mkst2]. rewrite upd_s. rewrite own_lor1. exact (fun h => h).
    + intros x Hx. unfold LfhtReach.nxw, Mm; cbn [smem mkst2]. apply upd_o. congruence.
    + intros x. reflexivity.
  - (* G_Cas *)
    destruct Hli as [(Hrm & Hpi & Hrn & Hpn & Hrn2) _].
    assert (Hcp : insd s prev).
    { assert (Hin : In prev (refs (G_Cas node b prev iter next) ++ [found p])) by (cbn; tauto). destruct (Hcr _ Hin) as [E|H]; [cbn in Hl3; destruct Hl3; contradiction|exact H]. }
    change (smem hloc (hprog C) s (HNext prev)) with (nxw s prev).
    assert (Hp0 : hpost C p (nxw s prev) = []) by (unfold hpost, hnext; rewrite Epc; reflexivity). rewrite Hp0. cbn [drain].
    destruct (N.eqb_spec (nxw s prev) iter) as [Eq|Ne].
    + apply (K_gc s _ prev iter next Hcp Eq Hrm Hpi Hpn Hrn2).
      * unfold LfhtReach.nxw, Mm; cbn [smem mkst2]. rewrite upd_s. destruct (is_bucket iter); [apply ptr_clr_b|apply ptr_clr].
      * unfold LfhtReach.nxw, Mm; cbn [smem mkst2]. rewrite upd_s. destruct (is_bucket iter); [apply rem_clrB|apply rem_clr].
      * unfold LfhtReach.nxw, Mm; cbn [smem mkst2]. rewrite upd_s. destruct (is_bucket iter); [apply own_clrB|apply own_clr].
      * intros x Hx. unfold LfhtReach.nxw, Mm; cbn [smem mkst2]. apply upd_o. congruence.
      * intros x. reflexivity.
    + apply K_same; intros x; reflexivity || tauto.
  - (* D_Xchg *)
    destruct Hli as [_ (Hz & HnB & Hrv & Hpv & Hnr & Hbv)].
    assert (Hcn : insd s node).
    { assert (Hin : In node (refs (D_Xchg node v) ++ [found p])) by (cbn; tauto). destruct (Hcr _ Hin) as [E|H]; [contradiction|exact H]. }
    assert (Hp0 : hpost C p (smem hloc (hprog C) s (HNext node)) = []) by (unfold hpost, hnext; rewrite Epc; reflexivity). rewrite Hp0. cbn [drain].
    apply (K_flag s _ node Hcn).
    + unfold LfhtReach.nxw at 1, Mm; cbn [smem mkst2]. rewrite upd_s. rewrite ptr_lor_small by (unfold OWNER; lia). exact Hpv.
    + unfold LfhtReach.nxw, Mm; cbn [smem mkst2]. rewrite upd_s. rewrite flag_lor4_r. exact Hrv.
    + intros _. unfold LfhtReach.nxw, Mm; cbn [smem mkst2]. rewrite upd_s. apply own_lor4.
    + intros x Hx. unfold LfhtReach.nxw, Mm; cbn [smem mkst2]. apply upd_o. congruence.
    + intros x. reflexivity.
  - (* R_Cas *)
    destruct Hli as [[Hrm Hnew] [Ho0 HoB]].
    assert (Hoi : insd s old).
    { assert (Hin : In old (refs (R_Cas old new onext sz) ++ [found p])) by (cbn; tauto). destruct (Hcr _ Hin) as [E|H]; [contradiction|exact H]. }
    assert (Hinn : In new (future C s t)) by (rewrite Hfut; unfold fut_of; rewrite Epc; left; reflexivity).
    destruct (J_fut C isB s HI t new Hinn) as (Hni & Hn0 & _).
    change (smem hloc (hprog C) s (HNext old)) with (nxw s old).
    unfold hpost. rewrite Epc.
    destruct (N.eqb_spec (nxw s old) onext) as [Eq|Ne].
    + apply (K_repl s _ t old new onext sz Epc Hoi Hni Hn0 Eq Hrm Hnew).
      * unfold LfhtReach.nxw, Mm; cbn [smem mkst2 drain]. rewrite upd_o by discriminate. rewrite upd_s. apply ptr_mkp5.
      * unfold LfhtReach.nxw, Mm; cbn [smem mkst2 drain]. rewrite upd_o by discriminate. rewrite upd_s. apply rem_mkp5.
      * unfold LfhtReach.nxw, Mm; cbn [smem mkst2 drain]. rewrite upd_o by discriminate. rewrite upd_s. unfold is_owner, mkp. rewrite tb2. reflexivity.
      * intros x Hx. unfold LfhtReach.nxw, Mm; cbn [smem mkst2 drain]. rewrite upd_o by discriminate. apply upd_o. congruence.
      * intros x. unfold LfhtReach.insd, Mm; cbn [smem mkst2 drain]. destruct (N.eq_dec x new) as [->|Hne].
        -- rewrite upd_s. split; [intros _; right; reflexivity|intros _; reflexivity].
        -- rewrite upd_o by congruence. rewrite upd_o by discriminate. split; [intros H; left; exact H|intros [H|H]; [exact H|contradiction]].
    + destruct (is_removed (nxw s old)); [apply K_same; intros x; cbn [drain]; reflexivity || tauto|].
      apply (K_priv s _ new Hni).
      * intros x Hx. unfold LfhtReach.nxw, Mm; cbn [smem mkst2 drain]. apply upd_o. congruence.
      * intros x. unfold LfhtReach.insd, Mm; cbn [smem mkst2 drain]. rewrite upd_o by discriminate. tauto.
  - (* RG_Cas *)
    destruct Hli as [(Hrm & Hpi & Hrn & Hpn & Hrn2) _].
    assert (Hcp : insd s prev).
    { assert (Hin : In prev (refs (RG_Cas new b old prev iter next) ++ [found p])) by (cbn; tauto). destruct (Hcr _ Hin) as [E|H]; [cbn in Hl3; destruct Hl3; contradiction|exact H]. }
    change (smem hloc (hprog C) s (HNext prev)) with (nxw s prev).
    assert (Hp0 : hpost C p (nxw s prev) = []) by (unfold hpost, hnext; rewrite Epc; reflexivity). rewrite Hp0. cbn [drain].
    destruct (N.eqb_spec (nxw s prev) iter) as [Eq|Ne].
    + apply (K_gc s _ prev iter next Hcp Eq Hrm Hpi Hpn Hrn2).
      * unfold LfhtReach.nxw, Mm; cbn [smem mkst2]. rewrite upd_s. destruct (is_bucket iter); [apply ptr_clr_b|apply ptr_clr].
      * unfold LfhtReach.nxw, Mm; cbn [smem mkst2]. rewrite upd_s. destruct (is_bucket iter); [apply rem_clrB|apply rem_clr].
      * unfold LfhtReach.nxw, Mm; cbn [smem mkst2]. rewrite upd_s. destruct (is_bucket iter); [apply own_clrB|apply own_clr].
      * intros x Hx. unfold LfhtReach.nxw, Mm; cbn [smem mkst2]. apply upd_o. congruence.
      * intros x. reflexivity.
    + apply K_same; intros x; reflexivity || tauto.
Qed.

(* one step of thread t: only t's local state changes, and the memory change is one of the five kinds *)
Lemma step_shape (s : st) t : Inv2 s ->
  let p := tpc _ _ (THr C s t) in
  let r := snd (eff2 (smem _ _ s) (hact p)) in
  let s' := fst (exec hloc hloc_eqb (hprog C) (Step t) s) in
  (hact p = ADone _ /\ s' = s) \/
  (THr C s' t = mkts2 C (hnext C p r) /\ (forall u, u <> t -> THr C s' u = THr C s u) /\ kind s s').
Proof.
  intros HI p r s'. pose proof (step_kind s t HI) as Hk. fold s' in Hk.
  assert (Es : s' = fst (exec hloc hloc_eqb (hprog C) (Step t) s)) by reflexivity.
  rewrite (exec_shape2 C isB s t HI) in Es. cbv zeta in Es. fold p in Es. unfold r.
  destruct (hact p) eqn:Ea; cbn [eff2 fst snd] in *;
    try (right; rewrite Es; split; [apply THr_same|split; [intros u Hu; apply THr_other; exact Hu|rewrite <- Es; exact Hk]]).
  left. split; [reflexivity|exact Es].
Qed.
End KINDS.
