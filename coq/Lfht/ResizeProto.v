(* C09 / C07 / C05: the grace-period protocol of rculfhash grow and shrink (init_table / fini_table of src/rculfhash.c) as an executable
   acceptor over abstract actions.  Resizer actions carry the checks the code is supposed to satisfy (populate before publish; wait a grace
   period between publishing a smaller size and unlinking the bucket nodes; wait another one between unlinking and freeing); reader actions
   carry the rule by which a read-side section can come to touch a bucket table (it is still linked, or the section already holds it, or the
   section read a size that covers its order).  The projection of an implementation trace must be accepted (tools/lfhtx_common.py), and
   ResizeProtoProof.v shows that in every accepted run no section ever touches or holds a released table. *)
From Coq Require Import List Arith Bool Lia.
Import ListNotations.

Inductive tstat := TNone | TLive | TUnlinking | TUnlinked | TFreed.
Definition tstat_eqb (a b : tstat) : bool :=
  match a, b with TNone, TNone | TLive, TLive | TUnlinking, TUnlinking | TUnlinked, TUnlinked | TFreed, TFreed => true | _, _ => false end.

Record tbl := { tord : nat; tst : tstat; nlink : nat; nflag : nat; done_at : nat }.
Record rdr := { insec : bool; sec : nat; since : nat; snap : option nat; holds : nat -> bool }.
Record pst := {
  now : nat;                       (* logical time, one tick per action *)
  size : nat;                      (* published order: ht->size = 2^size *)
  sb : nat;                        (* latest begin time among the completed synchronize_rcu calls (0: none) *)
  unpub_at : nat -> nat;           (* time at which the size last dropped below this order *)
  tb : nat -> tbl;                 (* bucket tables by allocation id *)
  cur : nat -> option nat;         (* ht->tbl_order[o]: id of the table last allocated for order o *)
  rd : nat -> rdr;                 (* read-side state of each thread *)
  ps : nat -> option (nat * list (nat * nat))   (* synchronize_rcu in progress by a thread: begin time, sections open then *)
}.

Definition NR : nat := 64.         (* thread ids are below NR (resize helper threads get fresh ids) *)

Inductive pact :=
| PAlloc (id ord : nat) | PLink (id : nat) | PSize (k : nat) | PSyncBegin (t : nat) | PSyncEnd (t : nat)
| PFlag (id : nat) | PUnlinked (id : nat) | PFree (id : nat)
| PEnter (t : nat) | PExit (t : nat) | PReadSize (t k : nat) | PTouch (t id : nat).

Definition nb (o : nat) : nat := match o with 0 => 1 | S o' => 2 ^ o' end.

Definition updf {A} (f : nat -> A) (i : nat) (x : A) : nat -> A := fun j => if Nat.eqb j i then x else f j.

Definition set_tb (s : pst) (f : nat -> tbl) : pst :=
  {| now := now s; size := size s; sb := sb s; unpub_at := unpub_at s; tb := f; cur := cur s; rd := rd s; ps := ps s |}.
Definition set_rd (s : pst) (f : nat -> rdr) : pst :=
  {| now := now s; size := size s; sb := sb s; unpub_at := unpub_at s; tb := tb s; cur := cur s; rd := f; ps := ps s |}.

(* every order in (lo, hi] has a current, live, fully linked table *)
Fixpoint populated (s : pst) (lo n : nat) : bool :=
  match n with
  | 0 => true
  | S n' => (match cur s (lo + n) with
             | Some id => tstat_eqb (tst (tb s id)) TLive && Nat.eqb (tord (tb s id)) (lo + n) && (nb (lo + n) <=? nlink (tb s id))
             | None => false end) && populated s lo n'
  end.

Definition open_sections (s : pst) : list (nat * nat) :=
  map (fun r => (r, sec (rd s r))) (filter (fun r => insec (rd s r)) (seq 0 NR)).

Definition exited (s : pst) (w : nat * nat) : bool := negb (insec (rd s (fst w)) && Nat.eqb (sec (rd s (fst w))) (snd w)).

Definition touch_ok (s : pst) (t id : nat) : bool :=
  let T := tb s id in let R := rd s t in
  insec R && negb (tstat_eqb (tst T) TNone) &&
  (tstat_eqb (tst T) TLive || tstat_eqb (tst T) TUnlinking || holds R id ||
   match snap R, cur s (tord T) with Some k, Some c => (tord T <=? k) && Nat.eqb c id | _, _ => false end).

(* one action; None = the protocol model rejects it *)
Definition pstep_core (s : pst) (a : pact) : option pst :=
  match a with
  | PAlloc id ord =>
      if tstat_eqb (tst (tb s id)) TNone && (size s <? ord) &&
         match cur s ord with None => true | Some c => tstat_eqb (tst (tb s c)) TFreed end
      then Some {| now := now s; size := size s; sb := sb s; unpub_at := unpub_at s;
                   tb := updf (tb s) id {| tord := ord; tst := TLive; nlink := 0; nflag := 0; done_at := 0 |};
                   cur := updf (cur s) ord (Some id); rd := rd s; ps := ps s |}
      else None
  | PLink id =>
      let T := tb s id in
      if tstat_eqb (tst T) TLive
      then Some (set_tb s (updf (tb s) id {| tord := tord T; tst := TLive; nlink := S (nlink T); nflag := nflag T; done_at := done_at T |}))
      else None
  | PSize k =>
      if Nat.eqb k (size s) then Some s
      else if size s <? k then
        (if populated s (size s) (k - size s)
         then Some {| now := now s; size := k; sb := sb s; unpub_at := unpub_at s; tb := tb s; cur := cur s; rd := rd s; ps := ps s |}
         else None)
      else Some {| now := now s; size := k; sb := sb s;
                   unpub_at := (fun o => if (k <? o) && (o <=? size s) then now s else unpub_at s o);
                   tb := tb s; cur := cur s; rd := rd s; ps := ps s |}
  | PSyncBegin t =>
      match ps s t with
      | Some _ => None
      | None => Some {| now := now s; size := size s; sb := sb s; unpub_at := unpub_at s; tb := tb s; cur := cur s; rd := rd s;
                        ps := updf (ps s) t (Some (now s, open_sections s)) |}
      end
  | PSyncEnd t =>
      match ps s t with
      | Some (b, W) =>
          if forallb (exited s) W
          then Some {| now := now s; size := size s; sb := Nat.max (sb s) b; unpub_at := unpub_at s; tb := tb s; cur := cur s; rd := rd s;
                       ps := updf (ps s) t None |}
          else None
      | None => None
      end
  | PFlag id =>
      let T := tb s id in
      if (tstat_eqb (tst T) TLive || tstat_eqb (tst T) TUnlinking) && (size s <? tord T) &&
         (match cur s (tord T) with Some c => Nat.eqb c id | None => false end) && (unpub_at s (tord T) <=? sb s)
      then Some (set_tb s (updf (tb s) id {| tord := tord T; tst := TUnlinking; nlink := nlink T; nflag := S (nflag T); done_at := done_at T |}))
      else None
  | PUnlinked id =>
      let T := tb s id in
      if tstat_eqb (tst T) TUnlinking && (nb (tord T) <=? nflag T)
      then Some (set_tb s (updf (tb s) id {| tord := tord T; tst := TUnlinked; nlink := nlink T; nflag := nflag T; done_at := now s |}))
      else None
  | PFree id =>
      let T := tb s id in
      if tstat_eqb (tst T) TUnlinked && (done_at T <=? sb s)
      then Some (set_tb s (updf (tb s) id {| tord := tord T; tst := TFreed; nlink := nlink T; nflag := nflag T; done_at := done_at T |}))
      else None
  | PEnter t =>
      let R := rd s t in
      if negb (insec R) && (t <? NR)
      then Some (set_rd s (updf (rd s) t {| insec := true; sec := S (sec R); since := now s; snap := None; holds := fun _ => false |}))
      else None
  | PExit t =>
      let R := rd s t in
      if insec R
      then Some (set_rd s (updf (rd s) t {| insec := false; sec := sec R; since := since R; snap := None; holds := fun _ => false |}))
      else None
  | PReadSize t k =>
      let R := rd s t in
      if insec R && Nat.eqb k (size s)
      then Some (set_rd s (updf (rd s) t {| insec := true; sec := sec R; since := since R;
                                            snap := Some (match snap R with Some k0 => Nat.max k0 k | None => k end); holds := holds R |}))
      else None
  | PTouch t id =>
      let R := rd s t in
      if touch_ok s t id
      then Some (set_rd s (updf (rd s) t {| insec := true; sec := sec R; since := since R; snap := snap R; holds := updf (holds R) id true |}))
      else None
  end.

Definition tick (s : pst) : pst :=
  {| now := S (now s); size := size s; sb := sb s; unpub_at := unpub_at s; tb := tb s; cur := cur s; rd := rd s; ps := ps s |}.
Definition pstep (s : pst) (a : pact) : option pst := option_map tick (pstep_core s a).

Fixpoint prun (s : pst) (l : list pact) : option pst :=
  match l with [] => Some s | a :: l' => match pstep s a with Some s' => prun s' l' | None => None end end.

(* index of the first rejected action (for the driver's diagnostics) *)
Fixpoint prun_idx (s : pst) (l : list pact) (i : nat) : nat + nat :=
  match l with [] => inl i | a :: l' => match pstep s a with Some s' => prun_idx s' l' (S i) | None => inr i end end.

(* initial state: a table created with 2^k buckets: orders 0..k allocated (ids 1..k+1), linked and published *)
Definition rd0 : rdr := {| insec := false; sec := 0; since := 0; snap := None; holds := fun _ => false |}.
Definition pinit (k : nat) : pst :=
  {| now := 1; size := k; sb := 0; unpub_at := fun _ => 0;
     tb := fun id => if (1 <=? id) && (id <=? S k)
                     then {| tord := id - 1; tst := TLive; nlink := nb (id - 1); nflag := 0; done_at := 0 |}
                     else {| tord := 0; tst := TNone; nlink := 0; nflag := 0; done_at := 0 |};
     cur := fun o => if o <=? k then Some (S o) else None;
     rd := fun _ => rd0; ps := fun _ => None |}.
