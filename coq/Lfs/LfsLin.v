(* lfstack model (push, mutex-protected pop / pop_all, empty, node reuse): every history is linearizable w.r.t. the LIFO specification - push with its
   "was non-empty" answer, pop (top or NULL), pop_all (the whole stack, returned by its top node), empty - for every schedule.
   Linearisation points: the successful head cmpxchg of push and of pop, the head load of pop that sees NULL, the head exchange of pop_all, the head load of empty. *)
From Coq Require Import List Arith NArith Bool Lia.
Import ListNotations.
Require Import Urcu.Base.Lin.
Require Import Urcu.Base.MachD Urcu.Lfs.Lfs Urcu.Lfs.LfsProof Urcu.Gen.Generated.
Local Open Scope N_scope.

Inductive sop := LPush (n : N) | LPop | LPopAll | LEmpty | LNop.
Definition top (stk : list N) : N := match stk with [] => 0 | x :: _ => x end.
Definition lspec (stk : list N) (o : sop) : list N * N :=
  match o with
  | LPush n => (n :: stk, match stk with [] => 0 | _ => 1 end)
  | LPop => (tl stk, top stk)
  | LPopAll => ([], top stk)
  | LEmpty => (stk, match stk with [] => 1 | _ => 0 end)
  | LNop => (stk, 0)
  end.

Notation ast := (Lin.ast sop N (list N)).
Notation runl := (Lin.runl sop N (list N) lspec N.eq_dec).
Notation lev := (Lin.ev sop N).
Notation lpend := (Lin.pend sop N).
Notation st := (state lloc lprog).

(* history events and linearisation points of one scheduler choice, as a function of the current state *)
Definition evs_of (s : st) (c : choice) : list lev :=
  match c with
  | Flush _ => []
  | Step t =>
      let x := TS s t in
      match lcur x with
      | F_Idle => match ltodo x with
                  | [] => []
                  | OPush n :: _ => [Lin.Inv _ _ t (LPush n)]
                  | OPushLast :: _ => if llast x =? 0 then [Lin.Inv _ _ t LNop; Lin.Lin _ _ t] else [Lin.Inv _ _ t (LPush (llast x))]
                  | OPop :: _ => [Lin.Inv _ _ t LPop]
                  | OPopAll :: _ => [Lin.Inv _ _ t LPopAll]
                  | OEmpty :: _ => [Lin.Inv _ _ t LEmpty]
                  end
      | U_Cas _ h => if M s LHead =? h then [Lin.Lin _ _ t] else []
      | O_Head => if M s LHead =? 0 then [Lin.Lin _ _ t] else []
      | O_Cas h _ => if M s LHead =? h then [Lin.Lin _ _ t] else []
      | A_Xchg => [Lin.Lin _ _ t]
      | E_Load => [Lin.Lin _ _ t]
      | U_Ret r | O_Ret r | A_Ret r | E_Ret r => [Lin.Res _ _ t r]
      | K_Ret => [Lin.Res _ _ t 0]
      | _ => []
      end
  end.
Fixpoint gtrace (cs : list choice) (g : st * list N) : list lev :=
  match cs with [] => [] | c :: cs' => evs_of (fst g) c ++ gtrace cs' (gexec c g) end.

Definition PR (p : lpc) (x : lpend) : Prop :=
  match p with
  | F_Idle => x = Idle _ _
  | U_Mb n _ | U_Cas n _ => x = Called _ _ (LPush n)
  | U_Ret r => exists n, x = Done _ _ (LPush n) r
  | O_Lock | O_Head | O_Next _ | O_Cas _ _ => x = Called _ _ LPop
  | O_Mb h | O_Unlock h | O_Ret h => x = Done _ _ LPop h
  | A_Lock | A_Xchg => x = Called _ _ LPopAll
  | A_Mb h | A_Unlock h | A_Ret h => x = Done _ _ LPopAll h
  | E_Load => x = Called _ _ LEmpty
  | E_Ret r => x = Done _ _ LEmpty r
  | K_Ret => x = Done _ _ LNop 0
  end.
Record Sim (s : st) (stk : list N) (a : ast) : Prop := {
  S_q : sig _ _ _ a = stk;
  S_pr : forall t, PR (lcur (TS s t)) (pm _ _ _ a t)
}.

Lemma Sim_upd (s : st) stk stk' (a a' : ast) t m' (x' : lst) :
  Sim s stk a -> sig _ _ _ a' = stk' -> PR (lcur x') (pm _ _ _ a' t) -> (forall u, u <> t -> pm _ _ _ a' u = pm _ _ _ a u) ->
  Sim (setT s m' t x') stk' a'.
Proof.
  intros HS Hq Hp Ho. constructor; [exact Hq|]. intros u. destruct (Nat.eq_dec u t) as [->|Hne].
  - rewrite TS_same. exact Hp.
  - rewrite TS_other by exact Hne. rewrite (Ho u Hne). apply (S_pr s stk a HS u).
Qed.

Lemma head_is_top s stk : Inv s stk -> M s LHead = top stk.
Proof. intros HI. pose proof (I_chain _ _ HI) as H. destruct stk as [|x l]; cbn [chainm top] in *; [exact H|apply H]. Qed.
Lemma top_zero s stk : Inv s stk -> (top stk =? 0) = match stk with [] => true | _ => false end.
Proof. intros HI. pose proof (I_chain _ _ HI) as H. destruct stk as [|x l]; cbn [chainm top] in *; [reflexivity|]. destruct H as (_ & Hn & _). apply N.eqb_neq. exact Hn. Qed.

Definition setpm (a : ast) t (x : lpend) : ast := Lin.setp _ _ _ a t x.

Lemma sim_step (s : st) stk (a : ast) c : Inv s stk -> Sim s stk a ->
  exists a' l, runl a (evs_of s c) = Some (a', l) /\ Sim (fst (gexec c (s, stk))) (snd (gexec c (s, stk))) a'.
Proof.
  intros HI HS. destruct c as [t|t].
  2:{ exists a, []. split; [reflexivity|]. unfold gexec, exec. cbn [fst snd]. pose proof (I_buf _ _ HI t) as Hb. unfold BUF in Hb. rewrite Hb. exact HS. }
  unfold gexec. cbn [fst snd]. rewrite (exec_form s t (I_buf _ _ HI t)). cbv zeta. unfold evs_of.
  pose proof (S_pr _ _ _ HS t) as Hpr. pose proof (S_q _ _ _ HS) as Hq.
  pose proof (head_is_top s stk HI) as Hh. pose proof (top_zero s stk HI) as Hz.
  assert (Hquiet : forall m' x', PR (lcur x') (pm _ _ _ a t) -> exists a' l, runl a [] = Some (a', l) /\ Sim (setT s m' t x') stk a').
  { intros m' x' Hp. exists a, []. split; [reflexivity|]. apply (Sim_upd s stk stk a a t); [exact HS|exact Hq|exact Hp|intros u _; reflexivity]. }
  assert (Hres : forall m' x' o r, pm _ _ _ a t = Done _ _ o r -> lcur x' = F_Idle ->
            exists a' l, runl a [Lin.Res _ _ t r] = Some (a', l) /\ Sim (setT s m' t x') stk a').
  { intros m' x' o r Hp Hc. exists (setpm a t (Idle _ _)), []. split; [cbn [Lin.runl]; rewrite Hp; destruct (N.eq_dec r r); [reflexivity|contradiction]|].
    apply (Sim_upd s stk stk a _ t); [exact HS|exact Hq| |intros u Hu; cbn [setpm Lin.setp pm]; apply Lin.upd_other; exact Hu].
    rewrite Hc. cbn [PR setpm Lin.setp pm]. apply Lin.upd_same. }
  assert (Hinv : forall m' x' o, pm _ _ _ a t = Idle _ _ -> PR (lcur x') (Called _ _ o) ->
            exists a' l, runl a [Lin.Inv _ _ t o] = Some (a', l) /\ Sim (setT s m' t x') stk a').
  { intros m' x' o Hp Hc. exists (setpm a t (Called _ _ o)), []. split; [cbn [Lin.runl]; rewrite Hp; reflexivity|].
    apply (Sim_upd s stk stk a _ t); [exact HS|exact Hq| |intros u Hu; cbn [setpm Lin.setp pm]; apply Lin.upd_other; exact Hu].
    cbn [setpm Lin.setp pm]. rewrite Lin.upd_same. exact Hc. }
  (* a linearisation point: the operation o takes effect, new abstract stack stk', result r *)
  assert (Hlin : forall m' x' o stk' r, pm _ _ _ a t = Called _ _ o -> lspec stk o = (stk', r) -> PR (lcur x') (Done _ _ o r) ->
            exists a' l, runl a [Lin.Lin _ _ t] = Some (a', l) /\ Sim (setT s m' t x') stk' a').
  { intros m' x' o stk' r Hp Hsp Hc. exists {| sig := stk'; pm := Lin.upd _ _ (pm _ _ _ a) t (Done _ _ o r) |}, [(t, o, r)].
    split; [cbn [Lin.runl]; rewrite Hp, Hq, Hsp; reflexivity|].
    apply (Sim_upd s stk stk' a _ t); [exact HS|reflexivity| |intros u Hu; apply Lin.upd_other; exact Hu].
    cbn [pm]. rewrite Lin.upd_same. exact Hc. }
  destruct (TS s t) as [pc todo last] eqn:Ex. cbn [lcur ltodo llast] in *.
  destruct pc; cbn [lact lcur ltodo llast PR] in *.
  - (* F_Idle *)
    destruct todo as [|[n| | | |] rest]; cbn [lact lcur ltodo llast fst snd gstack lnext lpost].
    + exists a, []. split; [reflexivity|exact HS].
    + apply Hinv; [exact Hpr|]. unfold mbq. destruct emit_legacy_mb; reflexivity.
    + destruct (N.eqb_spec last 0) as [E|E]; cbn [lact fst snd gstack].
      * (* nothing to push: a no-op, linearised at once *)
        exists {| sig := stk; pm := Lin.upd _ _ (Lin.upd _ _ (pm _ _ _ a) t (Called _ _ LNop)) t (Done _ _ LNop 0) |}, [(t, LNop, 0)].
        split; [cbn [Lin.runl Lin.setp pm sig]; rewrite Hpr; cbn [Lin.setp pm sig]; rewrite Lin.upd_same, Hq; reflexivity|].
        apply (Sim_upd s stk stk a _ t); [exact HS|reflexivity| |].
        -- cbn [lcur PR pm]. apply Lin.upd_same.
        -- intros u Hu. cbn [pm]. rewrite !Lin.upd_other by exact Hu. reflexivity.
      * apply Hinv; [exact Hpr|]. unfold mbq. destruct emit_legacy_mb; reflexivity.
    + apply Hinv; [exact Hpr|reflexivity].
    + apply Hinv; [exact Hpr|reflexivity].
    + apply Hinv; [exact Hpr|reflexivity].
  - (* U_Mb *) cbn [fst snd gstack]. apply Hquiet. exact Hpr.
  - (* U_Cas: the push takes effect when the exchange succeeds *)
    cbn [fst snd gstack lnext lcur]. destruct (N.eqb_spec (M s LHead) h) as [E|E].
    + apply (Hlin _ _ (LPush n) (n :: stk) (match stk with [] => 0 | _ => 1 end)); [exact Hpr|reflexivity|].
      cbn [lcur PR]. exists n. rewrite <- E, Hh. rewrite Hz. destruct stk; reflexivity.
    + apply Hquiet. unfold mbq. destruct emit_legacy_mb; exact Hpr.
  - (* U_Ret *) cbn [fst snd gstack]. destruct Hpr as [n Hp]. apply (Hres _ _ (LPush n) r Hp). reflexivity.
  - (* O_Lock *) cbn [fst snd gstack lnext lcur]. destruct (M s LLock =? 0); apply Hquiet; exact Hpr.
  - (* O_Head: a pop that sees an empty stack *)
    cbn [fst snd gstack lnext lcur]. destruct (N.eqb_spec (M s LHead) 0) as [E|E].
    + destruct stk as [|x l]; [|exfalso; cbn [top] in *; rewrite Hh in E; rewrite E in Hz; discriminate].
      apply (Hlin _ _ LPop [] 0); [exact Hpr|reflexivity|]. reflexivity.
    + apply Hquiet. exact Hpr.
  - (* O_Next *) cbn [fst snd gstack]. apply Hquiet. exact Hpr.
  - (* O_Cas: the pop takes the top *)
    cbn [fst snd gstack lnext lcur]. destruct (N.eqb_spec (M s LHead) h) as [E|E].
    + apply (Hlin _ _ LPop (tl stk) (top stk)); [exact Hpr|reflexivity|]. unfold mbq. rewrite <- Hh, E. destruct emit_legacy_mb; reflexivity.
    + apply Hquiet. exact Hpr.
  - (* O_Mb *) cbn [fst snd gstack]. apply Hquiet. exact Hpr.
  - (* O_Unlock *) cbn [fst snd gstack]. apply Hquiet. exact Hpr.
  - (* O_Ret *) cbn [fst snd gstack]. apply (Hres _ _ LPop r Hpr). reflexivity.
  - (* A_Lock *) cbn [fst snd gstack lnext lcur]. destruct (M s LLock =? 0); apply Hquiet; exact Hpr.
  - (* A_Xchg: pop_all takes everything *)
    cbn [fst snd gstack lnext lcur]. apply (Hlin _ _ LPopAll [] (top stk)); [exact Hpr|reflexivity|]. unfold mbq. rewrite <- Hh. destruct emit_legacy_mb; reflexivity.
  - (* A_Mb *) cbn [fst snd gstack]. apply Hquiet. exact Hpr.
  - (* A_Unlock *) cbn [fst snd gstack]. apply Hquiet. exact Hpr.
  - (* A_Ret *) cbn [fst snd gstack]. apply (Hres _ _ LPopAll h Hpr). reflexivity.
  - (* E_Load *)
    cbn [fst snd gstack lnext lcur]. apply (Hlin _ _ LEmpty stk (match stk with [] => 1 | _ => 0 end)); [exact Hpr|reflexivity|].
    cbn [lcur PR]. rewrite Hh, Hz. destruct stk; reflexivity.
  - (* E_Ret *) cbn [fst snd gstack]. apply (Hres _ _ LEmpty r Hpr). reflexivity.
  - (* K_Ret *) cbn [fst snd gstack]. apply (Hres _ _ LNop 0 Hpr). reflexivity.
Qed.

Theorem lfs_accepted : forall cs s stk a, Inv s stk -> Sim s stk a -> exists a' l, runl a (gtrace cs (s, stk)) = Some (a', l).
Proof.
  intros cs. induction cs as [|c cs IH]; intros s stk a HI HS; cbn [gtrace fst].
  - exists a, []. reflexivity.
  - destruct (sim_step s stk a c HI HS) as (a1 & l1 & E1 & HS1).
    pose proof (Inv_gexec c s stk HI) as HI1.
    destruct (gexec c (s, stk)) as [s1 stk1] eqn:Eg. cbn [fst snd] in *.
    destruct (IH s1 stk1 a1 HI1 HS1) as (a2 & l2 & E2). exists a2, (l1 ++ l2).
    eapply Lin.runl_app_some; eassumption.
Qed.

Definition a0 : ast := {| sig := []; pm := fun _ => Idle _ _ |}.
(* any number of threads, any programs over distinct fresh nodes (with reuse of popped nodes), every schedule: the history is accepted by the LIFO automaton, hence
   the operations in linearisation order are a legal LIFO history agreeing with every thread's calls and results *)
Theorem lfs_linearizable (threads : nat -> list lop) :
  (forall t, NoDup (pushes (threads t)) /\ ~ In 0 (pushes (threads t))) ->
  (forall t u x, t <> u -> In x (pushes (threads t)) -> ~ In x (pushes (threads u))) ->
  forall cs, exists a' L,
  runl a0 (gtrace cs (init_state threads, [])) = Some (a', L) /\
  Lin.legal sop N (list N) lspec [] L /\
  (forall t, Lin.tops sop N t L = Lin.hcomp sop N t None (gtrace cs (init_state threads, [])) ++ Lin.pre sop N (pm _ _ _ a' t)).
Proof.
  intros H1 H2 cs. pose proof (Inv_initial threads H1 H2) as HI. assert (HS : Sim (init_state threads) [] a0) by (constructor; [reflexivity|intros t; reflexivity]).
  destruct (lfs_accepted cs _ _ a0 HI HS) as (a' & L & E). exists a', L. split; [exact E|].
  destruct (Lin.accepted_implies_hw sop N (list N) lspec N.eq_dec [] _ a' L E) as (A & B & _). split; assumption.
Qed.
Print Assumptions lfs_linearizable.
