(* C11: step-level model of static/lfstack.h - cds_lfs_push, and the mutex-protected cds_lfs_pop_blocking / cds_lfs_pop_all_blocking /
   cds_lfs_empty - on the machine of Base/MachD.v.  Every shared access of this code is a load or a locked read-modify-write, so the
   store buffers stay empty; the private initialisation `node->next = head` between two hooked accesses is a post-write (ppost).
   A thread may push again the node it obtained from its last pop / the top node of its last pop_all (`OPushLast`): node reuse is what
   the ABA discussion in the header is about. *)
From Coq Require Import List Arith NArith Bool Lia.
Import ListNotations.
Require Import Urcu.Base.MachD Urcu.Gen.Generated.
Local Open Scope N_scope.

Inductive lloc := LHead | LNext (n : N) | LLock.
Definition lloc_eqb (a b : lloc) : bool :=
  match a, b with LHead, LHead => true | LLock, LLock => true | LNext x, LNext y => N.eqb x y | _, _ => false end.
Lemma lloc_eqb_spec a b : reflect (a = b) (lloc_eqb a b).
Proof. destruct a as [|n|], b as [|m|]; cbn; try (constructor; congruence).
  destruct (N.eqb_spec n m); constructor; congruence. Qed.

Inductive lop := OPush (n : N) | OPushLast | OPop | OPopAll | OEmpty.
Inductive lpc :=
| F_Idle
| U_Mb (n h : N) | U_Cas (n h : N) | U_Ret (r : N)
| O_Lock | O_Head | O_Next (h : N) | O_Cas (h nx : N) | O_Mb (h : N) | O_Unlock (r : N) | O_Ret (r : N)
| A_Lock | A_Xchg | A_Mb (h : N) | A_Unlock (h : N) | A_Ret (h : N)
| E_Load | E_Ret (r : N)
| K_Ret.
Record lst := { lcur : lpc; ltodo : list lop; llast : N }.

Definition mbq (p q : lpc) : lpc := if emit_legacy_mb then p else q.

Definition lact (s : lst) : act lloc :=
  match lcur s with
  | F_Idle => match ltodo s with
              | [] => ADone _
              | OPush n :: _ => ACall _ 0%nat n
              | OPushLast :: _ => if llast s =? 0 then ACall _ 9%nat 0 else ACall _ 0%nat (llast s)
              | OPop :: _ => ACall _ 1%nat 0
              | OPopAll :: _ => ACall _ 2%nat 0
              | OEmpty :: _ => ACall _ 3%nat 0
              end
  | U_Mb _ _ => AFence _
  | U_Cas n h => ACas _ LHead h n
  | U_Ret r => ARet _ 0%nat r
  | O_Lock | A_Lock => ACas _ LLock 0 1
  | O_Head => ALoad _ LHead
  | O_Next h => ALoad _ (LNext h)
  | O_Cas h nx => ACas _ LHead h nx
  | O_Mb _ | A_Mb _ => AFence _
  | O_Unlock _ | A_Unlock _ => AXchg _ LLock 0
  | O_Ret r => ARet _ 1%nat r
  | A_Xchg => AXchg _ LHead 0
  | A_Ret h => ARet _ 2%nat h
  | E_Load => ALoad _ LHead
  | E_Ret r => ARet _ 3%nat r
  | K_Ret => ARet _ 9%nat 0
  end.

Definition lnext (s : lst) (r : N) : lst :=
  let go p := {| lcur := p; ltodo := ltodo s; llast := llast s |} in
  match lcur s with
  | F_Idle => match ltodo s with
              | [] => s
              | OPush n :: rest => {| lcur := mbq (U_Mb n 0) (U_Cas n 0); ltodo := rest; llast := llast s |}
              | OPushLast :: rest => if llast s =? 0 then {| lcur := K_Ret; ltodo := rest; llast := 0 |}
                                     else {| lcur := mbq (U_Mb (llast s) 0) (U_Cas (llast s) 0); ltodo := rest; llast := 0 |}
              | OPop :: rest => {| lcur := O_Lock; ltodo := rest; llast := llast s |}
              | OPopAll :: rest => {| lcur := A_Lock; ltodo := rest; llast := llast s |}
              | OEmpty :: rest => {| lcur := E_Load; ltodo := rest; llast := llast s |}
              end
  | U_Mb n h => go (U_Cas n h)
  | U_Cas n h => if r =? h then go (U_Ret (if h =? 0 then 0 else 1)) else go (mbq (U_Mb n r) (U_Cas n r))
  | U_Ret _ => go F_Idle
  | O_Lock => if r =? 0 then go O_Head else s
  | O_Head => if r =? 0 then go (O_Unlock 0) else go (O_Next r)
  | O_Next h => go (O_Cas h r)
  | O_Cas h nx => if r =? h then go (mbq (O_Mb h) (O_Unlock h)) else go O_Head
  | O_Mb h => go (O_Unlock h)
  | O_Unlock r => go (O_Ret r)
  | O_Ret r => {| lcur := F_Idle; ltodo := ltodo s; llast := if r =? 0 then llast s else r |}
  | A_Lock => if r =? 0 then go A_Xchg else s
  | A_Xchg => go (mbq (A_Mb r) (A_Unlock r))
  | A_Mb h => go (A_Unlock h)
  | A_Unlock h => go (A_Ret h)
  | A_Ret h => {| lcur := F_Idle; ltodo := ltodo s; llast := if h =? 0 then llast s else h |}
  | E_Load => go (E_Ret (if r =? 0 then 1 else 0))
  | E_Ret _ => go F_Idle
  | K_Ret => go F_Idle
  end.

(* private initialisation of node->next before each cmpxchg attempt *)
Definition lpost (s : lst) (r : N) : list (lloc * N) :=
  match lcur s with
  | F_Idle => match ltodo s with
              | OPush n :: _ => [(LNext n, 0)]
              | OPushLast :: _ => if llast s =? 0 then [] else [(LNext (llast s), 0)]
              | _ => [] end
  | U_Cas n h => if r =? h then [] else [(LNext n, r)]
  | _ => []
  end.

Definition lprog : prog lloc := {| pst := lst; pact := lact; pnext := lnext; ppost := lpost |}.

Definition init_mem : mem lloc := fun _ => 0.
Definition init_state (threads : nat -> list lop) : state lloc lprog :=
  {| smem := init_mem; sthr := fun t => {| tpc := ({| lcur := F_Idle; ltodo := threads t; llast := 0 |} : pst lloc lprog); tbuf := [] |} |}.
Definition run_l (threads : nat -> list lop) (cs : list choice) : list (event lloc) :=
  snd (run lloc lloc_eqb lprog cs (init_state threads)).
