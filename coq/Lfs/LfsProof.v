(* C11: LIFO invariant of the lfstack model (Lfs.v) for every schedule: the memory chain from head spells the ghost stack (order of successful head
   exchanges), also when popped nodes are pushed again - the pop mutex makes the value a popper read for head->next still valid at its cmpxchg (no ABA). *)
From Coq Require Import List Arith NArith Bool Lia.
Import ListNotations.
Require Import Urcu.Base.MachD Urcu.Lfs.Lfs Urcu.Gen.Generated.
Local Open Scope N_scope.

Notation st := (state lloc lprog).
Definition M (s : st) : mem lloc := smem _ _ s.
Definition TS (s : st) (t : nat) : lst := tpc _ _ (sthr _ _ s t).
Definition BUF (s : st) (t : nat) := tbuf _ _ (sthr _ _ s t).
Definition mkts (x : lst) : tstate lloc lprog := {| tpc := (x : pst lloc lprog); tbuf := [] |}.
Definition setT (s : st) (m : mem lloc) (t : nat) (x : lst) : st := {| smem := m; sthr := tupd lloc lprog (sthr _ _ s) t (mkts x) |}.

Fixpoint chainm (m : mem lloc) (a : N) (l : list N) : Prop :=
  match l with [] => a = 0 | x :: l' => a = x /\ x <> 0 /\ chainm m (m (LNext x)) l' end.
Definition held (p : lpc) : list N :=
  match p with
  | U_Mb n _ | U_Cas n _ => [n]
  | O_Mb r | O_Unlock r | O_Ret r | A_Mb r | A_Unlock r | A_Ret r => if r =? 0 then [] else [r]
  | _ => [] end.
Fixpoint pushes (l : list lop) : list N := match l with [] => [] | OPush n :: r => n :: pushes r | _ :: r => pushes r end.
Definition own (x : lst) : list N := held (lcur x) ++ (if llast x =? 0 then [] else [llast x]) ++ pushes (ltodo x).
Definition lockheld (p : lpc) : bool :=
  match p with O_Head | O_Next _ | O_Cas _ _ | O_Mb _ | O_Unlock _ | A_Xchg | A_Mb _ | A_Unlock _ => true | _ => false end.

(* ghost stack: updated by the successful head exchanges *)
Definition gstack (stk : list N) (p : lpc) (r : N) : list N :=
  match p with
  | U_Cas n h => if r =? h then n :: stk else stk
  | O_Cas h _ => if r =? h then tl stk else stk
  | A_Xchg => []
  | _ => stk end.
Definition gexec (c : choice) (g : st * list N) : st * list N :=
  match c with
  | Step t => let s := fst g in
      match exec lloc lloc_eqb lprog c s with
      | (s', Some (Ev _ _ _ r)) => (s', gstack (snd g) (lcur (TS s t)) r)
      | (s', _) => (s', snd g) end
  | Flush _ => (fst (exec lloc lloc_eqb lprog c (fst g)), snd g)
  end.

Record Inv (s : st) (stk : list N) : Prop := {
  I_buf : forall t, BUF s t = [];
  I_chain : chainm (M s) (M s LHead) stk;
  I_nd : NoDup stk;
  I_own : forall t, NoDup (own (TS s t)) /\ ~ In 0 (own (TS s t)) /\ (forall x, In x (own (TS s t)) -> ~ In x stk);
  I_dis : forall t u x, t <> u -> In x (own (TS s t)) -> ~ In x (own (TS s u));
  I_push : forall t n h, (lcur (TS s t) = U_Mb n h \/ lcur (TS s t) = U_Cas n h) -> M s (LNext n) = h;
  I_mutex : forall t u, lockheld (lcur (TS s t)) = true -> lockheld (lcur (TS s u)) = true -> t = u;
  I_lock : forall t, lockheld (lcur (TS s t)) = true -> M s LLock <> 0;
  I_pop1 : forall t h, lcur (TS s t) = O_Next h -> In h stk;
  I_pop2 : forall t h nx, lcur (TS s t) = O_Cas h nx -> In h stk /\ M s (LNext h) = nx
}.

Lemma TS_same s m t x : TS (setT s m t x) t = x.
Proof. unfold TS, setT; cbn. rewrite tupd_same. reflexivity. Qed.
Lemma TS_other s m t x u : u <> t -> TS (setT s m t x) u = TS s u.
Proof. intros H. unfold TS, setT; cbn. rewrite tupd_other by exact H. reflexivity. Qed.
Lemma BUF_setT s m t x u : (forall v, BUF s v = []) -> BUF (setT s m t x) u = [].
Proof. intros H. unfold BUF, setT; cbn. destruct (Nat.eq_dec u t) as [->|Hne]; [rewrite tupd_same; reflexivity|rewrite tupd_other by exact Hne; apply H]. Qed.

(* the chain reads next fields of stack nodes only *)
Lemma chain_ext m m' l : forall a, (forall x, In x l -> m' (LNext x) = m (LNext x)) -> chainm m a l -> chainm m' a l.
Proof.
  induction l as [|x l IH]; intros a H Hc; cbn in *; [exact Hc|]. destruct Hc as (-> & Hx & Hc). split; [reflexivity|split; [exact Hx|]].
  rewrite (H x (or_introl eq_refl)). apply IH; [intros y Hy; apply H; right; exact Hy|exact Hc].
Qed.
Lemma chain_head m a l : chainm m a l -> a <> 0 -> exists l', l = a :: l'.
Proof. destruct l as [|x l]; cbn; [intros -> H; contradiction|intros (-> & _ & _) _; eexists; reflexivity]. Qed.
Lemma chain_nz m a l x : chainm m a l -> In x l -> x <> 0.
Proof. revert a. induction l as [|y l IH]; intros a Hc Hx; [destruct Hx|]. cbn in Hc. destruct Hc as (_ & Hy & Hc). destruct Hx as [<-|Hx]; [exact Hy|apply (IH _ Hc Hx)]. Qed.

(* a step of thread t that changes its own state to x' and memory to m' at locations the other clauses do not depend on *)
Lemma Inv_upd s stk stk' t x' m' :
  Inv s stk ->
  chainm m' (m' LHead) stk' -> NoDup stk' ->
  (forall y, In y stk' -> In y stk \/ In y (own (TS s t))) ->            (* new stack nodes come from the old stack or from t *)
  NoDup (own x') -> ~ In 0 (own x') ->
  (forall y, In y (own x') -> (In y (own (TS s t)) \/ In y stk) /\ ~ In y stk') ->   (* what t owns now it owned before or took from the stack *)
  (forall y, In y stk -> ~ In y stk' -> In y (own x') \/ True) ->
  (forall u, u <> t -> forall y, In y (own (TS s u)) -> ~ In y stk') ->
  (forall n h, (lcur x' = U_Mb n h \/ lcur x' = U_Cas n h) -> m' (LNext n) = h) ->
  (forall u n h, u <> t -> (lcur (TS s u) = U_Mb n h \/ lcur (TS s u) = U_Cas n h) -> m' (LNext n) = h) ->
  (lockheld (lcur x') = true -> (forall u, u <> t -> lockheld (lcur (TS s u)) = false) /\ m' LLock <> 0) ->
  (forall u, u <> t -> lockheld (lcur (TS s u)) = true -> m' LLock <> 0) ->
  (forall h, lcur x' = O_Next h -> In h stk') -> (forall h nx, lcur x' = O_Cas h nx -> In h stk' /\ m' (LNext h) = nx) ->
  (forall u h, u <> t -> lcur (TS s u) = O_Next h -> In h stk') ->
  (forall u h nx, u <> t -> lcur (TS s u) = O_Cas h nx -> In h stk' /\ m' (LNext h) = nx) ->
  Inv (setT s m' t x') stk'.
Proof.
  intros HI Hc Hnd Hfrom Hno H0 Hown _ Hoth Hp Hpo Hl Hlo Hq1 Hq2 Hr1 Hr2.
  constructor.
  - intros u. apply BUF_setT. apply (I_buf _ _ HI).
  - exact Hc.
  - exact Hnd.
  - intros u. destruct (Nat.eq_dec u t) as [->|Hne].
    + rewrite TS_same. split; [exact Hno|split; [exact H0|]]. intros y Hy. apply (Hown y Hy).
    + rewrite TS_other by exact Hne. destruct (I_own _ _ HI u) as (A & B & C). split; [exact A|split; [exact B|]]. intros y Hy. apply (Hoth u Hne y Hy).
  - intros a b y Hab Hy. destruct (Nat.eq_dec a t) as [->|Ha]; destruct (Nat.eq_dec b t) as [->|Hb]; try congruence.
    + rewrite TS_same in Hy. rewrite TS_other by exact Hb. destruct (Hown y Hy) as [[H|H] _]; [apply (I_dis _ _ HI t b y Hab H)|].
      intros Hb'. destruct (I_own _ _ HI b) as (_ & _ & C). apply (C y Hb' H).
    + rewrite TS_other in Hy by exact Ha. rewrite TS_same. intros Hy'. destruct (Hown y Hy') as [[H|H] _]; [apply (I_dis _ _ HI a t y Hab Hy H)|].
      destruct (I_own _ _ HI a) as (_ & _ & C). apply (C y Hy H).
    + rewrite TS_other in Hy by exact Ha. rewrite TS_other by exact Hb. apply (I_dis _ _ HI a b y Hab Hy).
  - intros u n h. destruct (Nat.eq_dec u t) as [->|Hne]; [rewrite TS_same; apply Hp|rewrite TS_other by exact Hne; apply (Hpo u n h Hne)].
  - intros a b. destruct (Nat.eq_dec a t) as [->|Ha]; destruct (Nat.eq_dec b t) as [->|Hb]; try (intros; reflexivity).
    + rewrite TS_same, (TS_other _ _ _ _ _ Hb). intros H1 H2. destruct (Hl H1) as [A _]. rewrite (A b Hb) in H2. discriminate.
    + rewrite TS_same, (TS_other _ _ _ _ _ Ha). intros H1 H2. destruct (Hl H2) as [A _]. rewrite (A a Ha) in H1. discriminate.
    + rewrite (TS_other _ _ _ _ _ Ha), (TS_other _ _ _ _ _ Hb). apply (I_mutex _ _ HI).
  - intros u. destruct (Nat.eq_dec u t) as [->|Hne]; [rewrite TS_same; intros H; apply (proj2 (Hl H))|rewrite TS_other by exact Hne; apply (Hlo u Hne)].
  - intros u h. destruct (Nat.eq_dec u t) as [->|Hne]; [rewrite TS_same; apply Hq1|rewrite TS_other by exact Hne; apply (Hr1 u h Hne)].
  - intros u h nx. destruct (Nat.eq_dec u t) as [->|Hne]; [rewrite TS_same; apply Hq2|rewrite TS_other by exact Hne; apply (Hr2 u h nx Hne)].
Qed.

Notation updm := (upd lloc lloc_eqb).
Lemma updm_same m l v : updm m l v l = v.
Proof. apply (upd_same lloc lloc_eqb lloc_eqb_spec). Qed.
Lemma updm_other m l v l' : l <> l' -> updm m l v l' = m l'.
Proof. apply (upd_other lloc lloc_eqb lloc_eqb_spec). Qed.

(* G1: a step that changes only t's own program state, owning no more than before *)
Lemma Inv_pc s stk t x' : Inv s stk ->
  NoDup (own x') -> incl (own x') (own (TS s t)) ->
  (lockheld (lcur x') = true -> lockheld (lcur (TS s t)) = true) ->
  (forall n h, (lcur x' = U_Mb n h \/ lcur x' = U_Cas n h) -> M s (LNext n) = h) ->
  (forall h, lcur x' = O_Next h -> In h stk) -> (forall h nx, lcur x' = O_Cas h nx -> In h stk /\ M s (LNext h) = nx) ->
  Inv (setT s (M s) t x') stk.
Proof.
  intros HI Hnd Hin Hl Hp Hq1 Hq2. destruct (I_own _ _ HI t) as (A & B & C).
  refine (Inv_upd s stk stk t x' (M s) HI _ _ _ _ _ _ _ _ _ _ _ _ _ _ _ _).
  - apply (I_chain _ _ HI).
  - apply (I_nd _ _ HI).
  - intros y Hy. left. exact Hy.
  - exact Hnd.
  - intros B0. apply B. apply Hin. exact B0.
  - intros y Hy. split; [left; apply Hin; exact Hy|apply C; apply Hin; exact Hy].
  - intros; right; exact I.
  - intros u Hne y Hy. destruct (I_own _ _ HI u) as (_ & _ & Cu). apply Cu. exact Hy.
  - exact Hp.
  - intros u n h Hne. apply (I_push _ _ HI u n h).
  - intros Hlk. specialize (Hl Hlk). split; [|apply (I_lock _ _ HI t Hl)].
    intros u Hne. destruct (lockheld (lcur (TS s u))) eqn:E; [|reflexivity]. exfalso. apply Hne. apply (I_mutex _ _ HI u t E Hl).
  - intros u Hne. apply (I_lock _ _ HI u).
  - exact Hq1.
  - exact Hq2.
  - intros u h Hne. apply (I_pop1 _ _ HI u h).
  - intros u h nx Hne. apply (I_pop2 _ _ HI u h nx).
Qed.

(* G2a: the pop mutex is taken (cmpxchg 0 -> 1 succeeded) *)
Lemma Inv_lock s stk t x' : Inv s stk -> M s LLock = 0 ->
  own x' = own (TS s t) -> (lcur x' = O_Head \/ lcur x' = A_Xchg) ->
  Inv (setT s (updm (M s) LLock 1) t x') stk.
Proof.
  intros HI H0 Ho Hpc. destruct (I_own _ _ HI t) as (A & B & C).
  assert (Hnone : forall u, lockheld (lcur (TS s u)) = false).
  { intros u. destruct (lockheld (lcur (TS s u))) eqn:E; [|reflexivity]. exfalso. apply (I_lock _ _ HI u E H0). }
  assert (HN : forall n, updm (M s) LLock 1 (LNext n) = M s (LNext n)) by (intros n; apply updm_other; discriminate).
  assert (HH : updm (M s) LLock 1 LHead = M s LHead) by (apply updm_other; discriminate).
  refine (Inv_upd s stk stk t x' _ HI _ _ _ _ _ _ _ _ _ _ _ _ _ _ _ _); rewrite ?Ho.
  - rewrite HH. apply (chain_ext (M s)); [intros; apply HN|apply (I_chain _ _ HI)].
  - apply (I_nd _ _ HI).
  - intros y Hy. left. exact Hy.
  - exact A.
  - exact B.
  - intros y Hy. split; [left; exact Hy|apply C; exact Hy].
  - intros; right; exact I.
  - intros u Hne y Hy. destruct (I_own _ _ HI u) as (_ & _ & Cu). apply Cu. exact Hy.
  - intros n h [E|E]; destruct Hpc as [P|P]; rewrite P in E; discriminate.
  - intros u n h Hne Hu. rewrite HN. apply (I_push _ _ HI u n h Hu).
  - intros _. split; [intros u _; apply Hnone|rewrite updm_same; discriminate].
  - intros u Hne Hu. rewrite Hnone in Hu. discriminate.
  - intros h E; destruct Hpc as [P|P]; rewrite P in E; discriminate.
  - intros h nx E; destruct Hpc as [P|P]; rewrite P in E; discriminate.
  - intros u h Hne. apply (I_pop1 _ _ HI u h).
  - intros u h nx Hne Hu. rewrite HN. apply (I_pop2 _ _ HI u h nx Hu).
Qed.

(* G2b: the pop mutex is released by its holder *)
Lemma Inv_unlock s stk t x' : Inv s stk -> lockheld (lcur (TS s t)) = true -> lockheld (lcur x') = false ->
  own x' = own (TS s t) ->
  (forall n h, ~ (lcur x' = U_Mb n h \/ lcur x' = U_Cas n h)) -> (forall h, lcur x' <> O_Next h) -> (forall h nx, lcur x' <> O_Cas h nx) ->
  Inv (setT s (updm (M s) LLock 0) t x') stk.
Proof.
  intros HI Hheld Hnl Ho Hnp Hn1 Hn2. destruct (I_own _ _ HI t) as (A & B & C).
  assert (Hnone : forall u, u <> t -> lockheld (lcur (TS s u)) = false).
  { intros u Hne. destruct (lockheld (lcur (TS s u))) eqn:E; [|reflexivity]. exfalso. apply Hne. apply (I_mutex _ _ HI u t E Hheld). }
  assert (HN : forall n, updm (M s) LLock 0 (LNext n) = M s (LNext n)) by (intros n; apply updm_other; discriminate).
  assert (HH : updm (M s) LLock 0 LHead = M s LHead) by (apply updm_other; discriminate).
  refine (Inv_upd s stk stk t x' _ HI _ _ _ _ _ _ _ _ _ _ _ _ _ _ _ _); rewrite ?Ho.
  - rewrite HH. apply (chain_ext (M s)); [intros; apply HN|apply (I_chain _ _ HI)].
  - apply (I_nd _ _ HI).
  - intros y Hy. left. exact Hy.
  - exact A.
  - exact B.
  - intros y Hy. split; [left; exact Hy|apply C; exact Hy].
  - intros; right; exact I.
  - intros u Hne y Hy. destruct (I_own _ _ HI u) as (_ & _ & Cu). apply Cu. exact Hy.
  - intros n h E. exfalso. apply (Hnp n h E).
  - intros u n h Hne Hu. rewrite HN. apply (I_push _ _ HI u n h Hu).
  - intros E. rewrite Hnl in E. discriminate.
  - intros u Hne Hu. rewrite (Hnone u Hne) in Hu. discriminate.
  - intros h E. exfalso. apply (Hn1 h E).
  - intros h nx E. exfalso. apply (Hn2 h nx E).
  - intros u h Hne. apply (I_pop1 _ _ HI u h).
  - intros u h nx Hne Hu. rewrite HN. apply (I_pop2 _ _ HI u h nx Hu).
Qed.

(* G3: t writes the next field of a node it owns (private initialisation before a cmpxchg attempt) *)
Lemma Inv_own_next s stk t x' n v : Inv s stk ->
  In n (own (TS s t)) -> NoDup (own x') -> incl (own x') (own (TS s t)) ->
  lockheld (lcur x') = false ->
  (forall n' h, (lcur x' = U_Mb n' h \/ lcur x' = U_Cas n' h) -> n' = n /\ h = v) ->
  (forall h, lcur x' <> O_Next h) -> (forall h nx, lcur x' <> O_Cas h nx) ->
  Inv (setT s (updm (M s) (LNext n) v) t x') stk.
Proof.
  intros HI Hn Hnd Hin Hnl Hp Hn1 Hn2. destruct (I_own _ _ HI t) as (A & B & C).
  assert (HN : forall y, y <> n -> updm (M s) (LNext n) v (LNext y) = M s (LNext y)) by (intros y Hy; apply updm_other; congruence).
  assert (Hstk : forall y, In y stk -> y <> n) by (intros y Hy ->; apply (C n Hn Hy)).
  refine (Inv_upd s stk stk t x' _ HI _ _ _ _ _ _ _ _ _ _ _ _ _ _ _ _).
  - rewrite updm_other by discriminate. apply (chain_ext (M s)); [intros y Hy; apply HN; apply Hstk; exact Hy|apply (I_chain _ _ HI)].
  - apply (I_nd _ _ HI).
  - intros y Hy. left. exact Hy.
  - exact Hnd.
  - intros B0. apply B. apply Hin. exact B0.
  - intros y Hy. split; [left; apply Hin; exact Hy|apply C; apply Hin; exact Hy].
  - intros; right; exact I.
  - intros u Hne y Hy. destruct (I_own _ _ HI u) as (_ & _ & Cu). apply Cu. exact Hy.
  - intros n' h E. destruct (Hp n' h E) as [-> ->]. apply updm_same.
  - intros u n' h Hne Hu. rewrite HN; [apply (I_push _ _ HI u n' h Hu)|].
    intros ->. apply (I_dis _ _ HI t u n (not_eq_sym Hne) Hn). unfold own. apply in_or_app. left. destruct Hu as [E|E]; rewrite E; left; reflexivity.
  - intros E. rewrite Hnl in E. discriminate.
  - intros u Hne Hu. rewrite updm_other by discriminate. apply (I_lock _ _ HI u Hu).
  - intros h E. exfalso. apply (Hn1 h E).
  - intros h nx E. exfalso. apply (Hn2 h nx E).
  - intros u h Hne. apply (I_pop1 _ _ HI u h).
  - intros u h nx Hne Hu. destruct (I_pop2 _ _ HI u h nx Hu) as [P1 P2]. split; [exact P1|]. rewrite HN; [exact P2|apply Hstk; exact P1].
Qed.

(* G4a: a push's cmpxchg succeeds: head was h, node n (owned by t, next field = h) becomes the top *)
Lemma Inv_push_ok s stk t n h x' : Inv s stk ->
  lcur (TS s t) = U_Cas n h -> M s LHead = h ->
  own x' = (if llast (TS s t) =? 0 then [] else [llast (TS s t)]) ++ pushes (ltodo (TS s t)) ->
  lockheld (lcur x') = false ->
  (forall n' h', ~ (lcur x' = U_Mb n' h' \/ lcur x' = U_Cas n' h')) -> (forall h', lcur x' <> O_Next h') -> (forall h' nx, lcur x' <> O_Cas h' nx) ->
  Inv (setT s (updm (M s) LHead n) t x') (n :: stk).
Proof.
  intros HI Hpc Hh Ho Hnl Hnp Hn1 Hn2. destruct (I_own _ _ HI t) as (A & B & C).
  assert (Hown : own (TS s t) = n :: own x') by (unfold own at 1; rewrite Hpc, Ho; reflexivity).
  rewrite Hown in A, B, C. apply NoDup_cons_iff in A. destruct A as [Hni Hnd'].
  assert (Hn0 : n <> 0) by (intros ->; apply B; left; reflexivity).
  assert (Hnn : M s (LNext n) = h) by (apply (I_push _ _ HI t n h); right; exact Hpc).
  assert (HN : forall y, updm (M s) LHead n (LNext y) = M s (LNext y)) by (intros y; apply updm_other; discriminate).
  refine (Inv_upd s stk (n :: stk) t x' _ HI _ _ _ _ _ _ _ _ _ _ _ _ _ _ _ _).
  - rewrite updm_same. cbn [chainm]. split; [reflexivity|split; [exact Hn0|]]. rewrite HN, Hnn.
    apply (chain_ext (M s)); [intros; apply HN|]. pose proof (I_chain _ _ HI) as Hc. rewrite Hh in Hc. exact Hc.
  - constructor; [apply C; left; reflexivity|apply (I_nd _ _ HI)].
  - intros y [<-|Hy]; [right; rewrite Hown; left; reflexivity|left; exact Hy].
  - exact Hnd'.
  - intros B0. apply B. right. exact B0.
  - intros y Hy. split; [left; rewrite Hown; right; exact Hy|]. intros [<-|Hs]; [contradiction|apply (C y (or_intror Hy) Hs)].
  - intros; right; exact I.
  - intros u Hne y Hy [<-|Hs]; [apply (I_dis _ _ HI t u n (not_eq_sym Hne)); [rewrite Hown; left; reflexivity|exact Hy]|].
    destruct (I_own _ _ HI u) as (_ & _ & Cu). apply (Cu y Hy Hs).
  - intros n' h' E. exfalso. apply (Hnp n' h' E).
  - intros u n' h' Hne Hu. rewrite HN. apply (I_push _ _ HI u n' h' Hu).
  - intros E. rewrite Hnl in E. discriminate.
  - intros u Hne Hu. rewrite updm_other by discriminate. apply (I_lock _ _ HI u Hu).
  - intros h' E. exfalso. apply (Hn1 h' E).
  - intros h' nx E. exfalso. apply (Hn2 h' nx E).
  - intros u h' Hne Hu. right. apply (I_pop1 _ _ HI u h' Hu).
  - intros u h' nx Hne Hu. destruct (I_pop2 _ _ HI u h' nx Hu) as [P1 P2]. split; [right; exact P1|rewrite HN; exact P2].
Qed.

(* G4b: the pop's cmpxchg succeeds: the lock holder read head = h and h->next = nx; head is still h, so h is the top and nx leads to the rest *)
Lemma Inv_pop_ok s stk t h nx x' : Inv s stk ->
  lcur (TS s t) = O_Cas h nx -> M s LHead = h ->
  own x' = h :: own (TS s t) -> lockheld (lcur x') = true ->
  (forall n' h', ~ (lcur x' = U_Mb n' h' \/ lcur x' = U_Cas n' h')) -> (forall h', lcur x' <> O_Next h') -> (forall h' nx', lcur x' <> O_Cas h' nx') ->
  Inv (setT s (updm (M s) LHead nx) t x') (tl stk).
Proof.
  intros HI Hpc Hh Ho Hlk Hnp Hn1 Hn2. destruct (I_own _ _ HI t) as (A & B & C).
  destruct (I_pop2 _ _ HI t h nx Hpc) as [Hin Hnx].
  assert (Hh0 : h <> 0) by (apply (chain_nz _ _ _ _ (I_chain _ _ HI) Hin)).
  pose proof (I_chain _ _ HI) as Hc. rewrite Hh in Hc. destruct (chain_head _ _ _ Hc Hh0) as (l & El). rewrite El in *. cbn [tl].
  cbn [chainm] in Hc. destruct Hc as (_ & _ & Hc). rewrite Hnx in Hc.
  pose proof (I_nd _ _ HI) as Hnd. apply NoDup_cons_iff in Hnd. destruct Hnd as [Hnl Hndl].
  assert (HN : forall y, updm (M s) LHead nx (LNext y) = M s (LNext y)) by (intros y; apply updm_other; discriminate).
  assert (Hheld : lockheld (lcur (TS s t)) = true) by (rewrite Hpc; reflexivity).
  refine (Inv_upd s (h :: l) l t x' _ HI _ _ _ _ _ _ _ _ _ _ _ _ _ _ _ _).
  - rewrite updm_same. apply (chain_ext (M s)); [intros; apply HN|exact Hc].
  - exact Hndl.
  - intros y Hy. left. right. exact Hy.
  - rewrite Ho. constructor; [intros Hi; apply (C h Hi); left; reflexivity|exact A].
  - rewrite Ho. intros [E|E]; [apply Hh0; exact E|apply B; exact E].
  - rewrite Ho. intros y [<-|Hy]; [split; [right; left; reflexivity|exact Hnl]|split; [left; exact Hy|intros Hs; apply (C y Hy); right; exact Hs]].
  - intros; right; exact I.
  - intros u Hne y Hy Hs. destruct (I_own _ _ HI u) as (_ & _ & Cu). apply (Cu y Hy). right. exact Hs.
  - intros n' h' E. exfalso. apply (Hnp n' h' E).
  - intros u n' h' Hne Hu. rewrite HN. apply (I_push _ _ HI u n' h' Hu).
  - intros _. split; [|rewrite updm_other by discriminate; apply (I_lock _ _ HI t Hheld)].
    intros u Hne. destruct (lockheld (lcur (TS s u))) eqn:E; [|reflexivity]. exfalso. apply Hne. apply (I_mutex _ _ HI u t E Hheld).
  - intros u Hne Hu. rewrite updm_other by discriminate. apply (I_lock _ _ HI u Hu).
  - intros h' E. exfalso. apply (Hn1 h' E).
  - intros h' nx' E. exfalso. apply (Hn2 h' nx' E).
  - intros u h' Hne Hu. exfalso. apply Hne. apply (I_mutex _ _ HI u t); [rewrite Hu; reflexivity|exact Hheld].
  - intros u h' nx' Hne Hu. exfalso. apply Hne. apply (I_mutex _ _ HI u t); [rewrite Hu; reflexivity|exact Hheld].
Qed.

(* G4c: pop_all's exchange: the holder takes the whole stack; it keeps track of the top node only *)
Lemma Inv_popall s stk t x' : Inv s stk ->
  lcur (TS s t) = A_Xchg ->
  own x' = (if M s LHead =? 0 then [] else [M s LHead]) ++ own (TS s t) -> lockheld (lcur x') = true ->
  (forall n' h', ~ (lcur x' = U_Mb n' h' \/ lcur x' = U_Cas n' h')) -> (forall h', lcur x' <> O_Next h') -> (forall h' nx', lcur x' <> O_Cas h' nx') ->
  Inv (setT s (updm (M s) LHead 0) t x') [].
Proof.
  intros HI Hpc Ho Hlk Hnp Hn1 Hn2. destruct (I_own _ _ HI t) as (A & B & C).
  assert (Hheld : lockheld (lcur (TS s t)) = true) by (rewrite Hpc; reflexivity).
  assert (HN : forall y, updm (M s) LHead 0 (LNext y) = M s (LNext y)) by (intros y; apply updm_other; discriminate).
  assert (Htop : M s LHead <> 0 -> In (M s LHead) stk).
  { intros H0. destruct (chain_head _ _ _ (I_chain _ _ HI) H0) as (l & ->). left; reflexivity. }
  refine (Inv_upd s stk [] t x' _ HI _ _ _ _ _ _ _ _ _ _ _ _ _ _ _ _).
  - rewrite updm_same. reflexivity.
  - constructor.
  - intros y [].
  - rewrite Ho. destruct (N.eqb_spec (M s LHead) 0) as [E|E]; cbn [app]; [exact A|]. constructor; [intros Hi; apply (C _ Hi (Htop E))|exact A].
  - rewrite Ho. destruct (N.eqb_spec (M s LHead) 0) as [E|E]; cbn [app]; [exact B|]. intros [E'|E']; [apply E; exact E'|apply B; exact E'].
  - rewrite Ho. intros y Hy. split; [|intros []]. destruct (N.eqb_spec (M s LHead) 0) as [E|E]; cbn [app] in Hy; [left; exact Hy|].
    destruct Hy as [<-|Hy]; [right; apply Htop; exact E|left; exact Hy].
  - intros; right; exact I.
  - intros u Hne y Hy [].
  - intros n' h' E. exfalso. apply (Hnp n' h' E).
  - intros u n' h' Hne Hu. rewrite HN. apply (I_push _ _ HI u n' h' Hu).
  - intros _. split; [|rewrite updm_other by discriminate; apply (I_lock _ _ HI t Hheld)].
    intros u Hne. destruct (lockheld (lcur (TS s u))) eqn:E; [|reflexivity]. exfalso. apply Hne. apply (I_mutex _ _ HI u t E Hheld).
  - intros u Hne Hu. rewrite updm_other by discriminate. apply (I_lock _ _ HI u Hu).
  - intros h' E. exfalso. apply (Hn1 h' E).
  - intros h' nx' E. exfalso. apply (Hn2 h' nx' E).
  - intros u h' Hne Hu. exfalso. apply Hne. apply (I_mutex _ _ HI u t); [rewrite Hu; reflexivity|exact Hheld].
  - intros u h' nx' Hne Hu. exfalso. apply Hne. apply (I_mutex _ _ HI u t); [rewrite Hu; reflexivity|exact Hheld].
Qed.

(* one step of thread t in closed form (all store buffers are empty in this model) *)
Lemma exec_form (s : st) t : BUF s t = [] ->
  exec lloc lloc_eqb lprog (Step t) s =
  let x := TS s t in
  match lact x with
  | ALoad _ l => (setT s (drain lloc lloc_eqb (M s) (lpost x (M s l))) t (lnext x (M s l)), Some (Ev lloc t (ALoad _ l) (M s l)))
  | ACas _ l e n => (setT s (drain lloc lloc_eqb (if M s l =? e then updm (M s) l n else M s) (lpost x (M s l))) t (lnext x (M s l)), Some (Ev lloc t (ACas _ l e n) (M s l)))
  | AXchg _ l v => (setT s (drain lloc lloc_eqb (updm (M s) l v) (lpost x (M s l))) t (lnext x (M s l)), Some (Ev lloc t (AXchg _ l v) (M s l)))
  | AFence _ => (setT s (drain lloc lloc_eqb (M s) (lpost x 0)) t (lnext x 0), Some (Ev lloc t (AFence _) 0))
  | ACall _ o a => (setT s (drain lloc lloc_eqb (M s) (lpost x 0)) t (lnext x 0), Some (Ev lloc t (ACall _ o a) 0))
  | ARet _ o a => (setT s (drain lloc lloc_eqb (M s) (lpost x 0)) t (lnext x 0), Some (Ev lloc t (ARet _ o a) 0))
  | ADone _ => (s, None)
  | _ => exec lloc lloc_eqb lprog (Step t) s
  end.
Proof.
  intros Hb. destruct s as [m th]. unfold BUF, TS, M, setT, exec, tstep in *. cbn [smem sthr] in *.
  destruct (th t) as [x b] eqn:Et. cbn [tpc tbuf] in *. subst b. cbn [pact pnext ppost lprog].
  destruct (lact x); cbn [drain]; try reflexivity.
Qed.

Ltac ownsimp := unfold own in *; cbn [held lcur llast ltodo pushes app] in *.
Lemma incl_refl' (l : list N) : incl l l. Proof. intros y H; exact H. Qed.
Lemma nodup_mid (a : N) l1 l2 : NoDup (l1 ++ a :: l2) -> NoDup (a :: l1 ++ l2).
Proof. intros H. constructor; [apply NoDup_remove_2 in H; exact H|apply NoDup_remove_1 in H; exact H]. Qed.
Lemma incl_mid (a : N) l1 l2 : incl (a :: l1 ++ l2) (l1 ++ a :: l2).
Proof. intros y [<-|H]; apply in_or_app; [right; left; reflexivity|]. apply in_app_or in H. destruct H; [left|right; right]; assumption. Qed.
Lemma nodup_drop (l1 l2 l3 : list N) : NoDup (l1 ++ l2 ++ l3) -> NoDup (l1 ++ l3).
Proof.
  induction l1 as [|a l1 IH]; cbn; intros H.
  - induction l2 as [|b l2 IH2]; [exact H|]. cbn in H. apply NoDup_cons_iff in H. apply IH2. exact (proj2 H).
  - apply NoDup_cons_iff in H. destruct H as [H1 H2]. constructor; [|apply IH; exact H2].
    intros Hi. apply H1. apply in_app_or in Hi. apply in_or_app. destruct Hi as [Hi|Hi]; [left; exact Hi|right; apply in_or_app; right; exact Hi].
Qed.
Lemma incl_drop (l1 l2 l3 : list N) : incl (l1 ++ l3) (l1 ++ l2 ++ l3).
Proof. intros y H. apply in_app_or in H. apply in_or_app. destruct H as [H|H]; [left; exact H|right; apply in_or_app; right; exact H]. Qed.

(* side conditions on the new program point: no push / pop facts to establish *)
Ltac nofacts := intros; try discriminate; match goal with
  | H : _ \/ _ |- _ => destruct H as [H|H]; discriminate
  | |- ~ _ => let H := fresh in intros [H|H]; discriminate
  | _ => idtac end.

Theorem Inv_gexec c s stk : Inv s stk -> Inv (fst (gexec c (s, stk))) (snd (gexec c (s, stk))).
Proof.
  intros HI. destruct c as [t|t].
  2:{ unfold gexec, exec. cbn [fst snd]. pose proof (I_buf _ _ HI t) as Hb. unfold BUF in Hb. rewrite Hb. exact HI. }
  unfold gexec. cbn [fst snd]. rewrite (exec_form s t (I_buf _ _ HI t)). cbv zeta.
  destruct (I_own _ _ HI t) as (A & B & C).
  destruct (TS s t) as [pc todo last] eqn:Ex.
  destruct pc; cbn [lact lcur ltodo llast].
  - (* F_Idle *)
    destruct todo as [|[n| | | |] rest]; cbn [lact lcur ltodo llast fst snd gstack lnext lpost drain].
    + exact HI.
    + (* OPush n *)
      apply (Inv_own_next s stk t _ n 0 HI); rewrite ?Ex; unfold mbq; destruct emit_legacy_mb; ownsimp;
        try reflexivity; try (apply in_or_app; right; left; reflexivity); try (apply (nodup_mid n _ _ A)); try (apply incl_mid);
        try (intros n' h [E|E]; inversion E; auto); try (intros; discriminate).
    + (* OPushLast *)
      destruct (N.eqb_spec last 0) as [E0|E0]; cbn [lact lcur ltodo llast fst snd gstack lnext lpost drain].
      * 
        apply (Inv_pc s stk t _ HI); rewrite ?Ex; ownsimp; rewrite ?E0 in *; cbn [N.eqb app] in *; try exact A; try apply incl_refl'; nofacts; cbn in *; try apply incl_refl'; try exact A; try reflexivity.
      * destruct (last =? 0) eqn:E1; [apply N.eqb_eq in E1; contradiction|]. cbn [lact lnext lpost drain lcur ltodo llast fst snd gstack].
        apply (Inv_own_next s stk t _ last 0 HI); rewrite ?Ex; unfold mbq; destruct emit_legacy_mb; ownsimp; rewrite ?E1 in *; cbn [N.eqb app] in *;
          try reflexivity; try (left; reflexivity); try exact A; try apply incl_refl';
          try (intros n' h [E|E]; inversion E; auto); try (intros; discriminate).
    + apply (Inv_pc s stk t _ HI); rewrite ?Ex; ownsimp; try exact A; try apply incl_refl'; nofacts; cbn in *; try apply incl_refl'; try exact A; try reflexivity.
    + apply (Inv_pc s stk t _ HI); rewrite ?Ex; ownsimp; try exact A; try apply incl_refl'; nofacts; cbn in *; try apply incl_refl'; try exact A; try reflexivity.
    + apply (Inv_pc s stk t _ HI); rewrite ?Ex; ownsimp; try exact A; try apply incl_refl'; nofacts; cbn in *; try apply incl_refl'; try exact A; try reflexivity.
  - (* U_Mb *)
    cbn [lnext lpost drain lcur ltodo llast fst snd gstack].
    apply (Inv_pc s stk t _ HI); rewrite ?Ex; ownsimp; try exact A; try apply incl_refl'; try (intros; discriminate).
    intros n' h' [E|E]; inversion E; subst. apply (I_push _ _ HI t n' h'). left. rewrite Ex. reflexivity.
  - (* U_Cas *)
    cbn [lnext lpost lcur ltodo llast fst snd gstack].
    destruct (N.eqb_spec (M s LHead) h) as [E|E]; cbn [drain fst snd].
    + apply (Inv_push_ok s stk t n h _ HI); rewrite ?Ex; ownsimp; try reflexivity; try exact E; nofacts.
    + apply (Inv_own_next s stk t _ n (M s LHead) HI); rewrite ?Ex; unfold mbq; destruct emit_legacy_mb; ownsimp;
        try reflexivity; try (left; reflexivity); try exact A; try apply incl_refl';
        try (intros n' h' [E'|E']; inversion E'; auto); try (intros; discriminate).
  - (* U_Ret *)
    cbn [lnext lpost drain lcur ltodo llast fst snd gstack].
    apply (Inv_pc s stk t _ HI); rewrite ?Ex; ownsimp; try exact A; try apply incl_refl'; nofacts; cbn in *; try apply incl_refl'; try exact A; try reflexivity.
  - (* O_Lock *)
    cbn [lnext lpost lcur ltodo llast fst snd gstack].
    destruct (N.eqb_spec (M s LLock) 0) as [E|E]; cbn [drain fst snd].
    + apply (Inv_lock s stk t _ HI E); rewrite ?Ex; [reflexivity|left; reflexivity].
    + apply (Inv_pc s stk t _ HI); rewrite ?Ex; ownsimp; try exact A; try apply incl_refl'; nofacts; cbn in *; try apply incl_refl'; try exact A; try reflexivity.
  - (* O_Head *)
    cbn [lnext lpost drain lcur ltodo llast fst snd gstack].
    destruct (N.eqb_spec (M s LHead) 0) as [E|E].
    + apply (Inv_pc s stk t _ HI); rewrite ?Ex; ownsimp; try exact A; try apply incl_refl'; nofacts; cbn in *; try apply incl_refl'; try exact A; try reflexivity.
    + apply (Inv_pc s stk t _ HI); rewrite ?Ex; ownsimp; try exact A; try apply incl_refl'; try (intros; discriminate).
      * intros _; reflexivity.
      * intros n' h' [E'|E']; discriminate.
      * intros h' E'. inversion E'; subst. destruct (chain_head _ _ _ (I_chain _ _ HI) E) as (l & El). rewrite El. left; reflexivity.
  - (* O_Next *)
    cbn [lnext lpost drain lcur ltodo llast fst snd gstack].
    apply (Inv_pc s stk t _ HI); rewrite ?Ex; ownsimp; try exact A; try apply incl_refl'; try (intros; discriminate).
    + intros _; reflexivity.
    + intros n' h' [E'|E']; discriminate.
    + intros h' nx' E'. inversion E'; subst. split; [apply (I_pop1 _ _ HI t h'); rewrite Ex; reflexivity|reflexivity].
  - (* O_Cas *)
    cbn [lnext lpost lcur ltodo llast fst snd gstack].
    destruct (N.eqb_spec (M s LHead) h) as [E|E]; cbn [drain fst snd].
    + assert (Hh0 : h <> 0) by (apply (chain_nz _ _ _ _ (I_chain _ _ HI)); apply (I_pop2 _ _ HI t h nx); rewrite Ex; reflexivity).
      apply (Inv_pop_ok s stk t h nx _ HI); rewrite ?Ex; unfold mbq; destruct emit_legacy_mb; ownsimp; try reflexivity; try exact E;
        try (destruct (N.eqb_spec h 0); [contradiction|reflexivity]); nofacts.
    + apply (Inv_pc s stk t _ HI); rewrite ?Ex; ownsimp; try exact A; try apply incl_refl'; nofacts; cbn in *; try apply incl_refl'; try exact A; try reflexivity.
  - (* O_Mb *)
    cbn [lnext lpost drain lcur ltodo llast fst snd gstack].
    apply (Inv_pc s stk t _ HI); rewrite ?Ex; ownsimp; try exact A; try apply incl_refl'; nofacts; cbn in *; try apply incl_refl'; try exact A; try reflexivity.
  - (* O_Unlock *)
    cbn [lnext lpost drain lcur ltodo llast fst snd gstack].
    apply (Inv_unlock s stk t _ HI); rewrite ?Ex; try reflexivity; nofacts.
  - (* O_Ret *)
    cbn [lnext lpost drain lcur ltodo llast fst snd gstack].
    destruct (N.eqb_spec r 0) as [Er|Er].
    + apply (Inv_pc s stk t _ HI); rewrite ?Ex; ownsimp; rewrite ?Er in *; cbn [N.eqb app] in *; try exact A; try apply incl_refl'; nofacts; cbn in *; try apply incl_refl'; try exact A; try reflexivity.
    + assert (Hr : (r =? 0) = false) by (apply N.eqb_neq; exact Er).
      apply (Inv_pc s stk t _ HI); rewrite ?Ex; ownsimp; rewrite ?Hr in *; cbn [app] in *; nofacts; try reflexivity.
      * apply (nodup_drop [r] _ _ A).
      * apply (incl_drop [r]).
  - (* A_Lock *)
    cbn [lnext lpost lcur ltodo llast fst snd gstack].
    destruct (N.eqb_spec (M s LLock) 0) as [E|E]; cbn [drain fst snd].
    + apply (Inv_lock s stk t _ HI E); rewrite ?Ex; [reflexivity|right; reflexivity].
    + apply (Inv_pc s stk t _ HI); rewrite ?Ex; ownsimp; try exact A; try apply incl_refl'; nofacts; cbn in *; try apply incl_refl'; try exact A; try reflexivity.
  - (* A_Xchg *)
    cbn [lnext lpost drain lcur ltodo llast fst snd gstack].
    apply (Inv_popall s stk t _ HI); rewrite ?Ex; unfold mbq; destruct emit_legacy_mb; ownsimp; try reflexivity; nofacts.
  - (* A_Mb *)
    cbn [lnext lpost drain lcur ltodo llast fst snd gstack].
    apply (Inv_pc s stk t _ HI); rewrite ?Ex; ownsimp; try exact A; try apply incl_refl'; nofacts; cbn in *; try apply incl_refl'; try exact A; try reflexivity.
  - (* A_Unlock *)
    cbn [lnext lpost drain lcur ltodo llast fst snd gstack].
    apply (Inv_unlock s stk t _ HI); rewrite ?Ex; try reflexivity; nofacts.
  - (* A_Ret *)
    cbn [lnext lpost drain lcur ltodo llast fst snd gstack].
    destruct (N.eqb_spec h 0) as [Er|Er].
    + apply (Inv_pc s stk t _ HI); rewrite ?Ex; ownsimp; rewrite ?Er in *; cbn [N.eqb app] in *; try exact A; try apply incl_refl'; nofacts; cbn in *; try apply incl_refl'; try exact A; try reflexivity.
    + assert (Hr : (h =? 0) = false) by (apply N.eqb_neq; exact Er).
      apply (Inv_pc s stk t _ HI); rewrite ?Ex; ownsimp; rewrite ?Hr in *; cbn [app] in *; nofacts; try reflexivity.
      * apply (nodup_drop [h] _ _ A).
      * apply (incl_drop [h]).
  - (* E_Load *)
    cbn [lnext lpost drain lcur ltodo llast fst snd gstack].
    apply (Inv_pc s stk t _ HI); rewrite ?Ex; ownsimp; try exact A; try apply incl_refl'; nofacts; cbn in *; try apply incl_refl'; try exact A; try reflexivity.
  - (* E_Ret *)
    cbn [lnext lpost drain lcur ltodo llast fst snd gstack].
    apply (Inv_pc s stk t _ HI); rewrite ?Ex; ownsimp; try exact A; try apply incl_refl'; nofacts; cbn in *; try apply incl_refl'; try exact A; try reflexivity.
  - (* K_Ret *)
    cbn [lnext lpost drain lcur ltodo llast fst snd gstack].
    apply (Inv_pc s stk t _ HI); rewrite ?Ex; ownsimp; try exact A; try apply incl_refl'; nofacts; cbn in *; try apply incl_refl'; try exact A; try reflexivity.
Qed.

Fixpoint grun (cs : list choice) (g : st * list N) : st * list N :=
  match cs with [] => g | c :: cs' => grun cs' (gexec c g) end.
(* every schedule: the memory chain from head spells the ghost stack, nodes are owned by one thread or are in the stack, pops are mutually excluded *)
Theorem lfs_chain_all_schedules : forall cs s stk, Inv s stk -> Inv (fst (grun cs (s, stk))) (snd (grun cs (s, stk))).
Proof.
  induction cs as [|c cs IH]; intros s stk HI; cbn [grun]; [exact HI|].
  destruct (gexec c (s, stk)) as [s' stk'] eqn:E. apply IH.
  pose proof (Inv_gexec c s stk HI) as H. rewrite E in H. exact H.
Qed.
(* the initial state of the correspondence driver satisfies the invariant when the programs push distinct non-null nodes *)
Lemma own_init (l : list lop) : own {| lcur := F_Idle; ltodo := l; llast := 0 |} = pushes l.
Proof. reflexivity. Qed.
Theorem Inv_initial (threads : nat -> list lop) :
  (forall t, NoDup (pushes (threads t)) /\ ~ In 0 (pushes (threads t))) ->
  (forall t u x, t <> u -> In x (pushes (threads t)) -> ~ In x (pushes (threads u))) ->
  Inv (init_state threads) [].
Proof.
  intros H1 H2. constructor; unfold init_state, TS, BUF, M; cbn [smem sthr tpc tbuf lcur].
  - reflexivity.
  - reflexivity.
  - constructor.
  - intros t. rewrite own_init. destruct (H1 t). repeat split; auto.
  - intros t u x Hne. rewrite !own_init. apply H2. exact Hne.
  - intros t n h [E|E]; discriminate.
  - intros t u E; discriminate.
  - intros t E; discriminate.
  - intros t h E; discriminate.
  - intros t h nx E; discriminate.
Qed.
(* pop returns the top of the stack: when a pop's cmpxchg succeeds the node it takes is the first element of the ghost stack *)
Theorem pop_takes_top s stk t h nx : Inv s stk -> lcur (TS s t) = O_Cas h nx -> M s LHead = h -> exists l, stk = h :: l /\ chainm (M s) nx l.
Proof.
  intros HI Hpc Hh. destruct (I_pop2 _ _ HI t h nx Hpc) as [Hin Hnx].
  assert (Hh0 : h <> 0) by (apply (chain_nz _ _ _ _ (I_chain _ _ HI) Hin)).
  pose proof (I_chain _ _ HI) as Hc. rewrite Hh in Hc. destruct (chain_head _ _ _ Hc Hh0) as (l & El). exists l. split; [exact El|].
  rewrite El in Hc. cbn [chainm] in Hc. destruct Hc as (_ & _ & Hc). rewrite Hnx in Hc. exact Hc.
Qed.
Print Assumptions lfs_chain_all_schedules.
Print Assumptions Inv_initial.
