From Coq Require Import List ZArith Bool Lia.
Import ListNotations.
Require Import Urcu.Poll.Poll.
Local Open Scope Z_scope.

Ltac mk5 := split; [|split; [|split; [|split]]].

Lemma Inv_init : Inv init.
Proof.
  constructor; cbn; intros; try lia; try tauto; try discriminate; try contradiction.
  - split; [discriminate|intros H; exfalso; apply H; reflexivity].
  - split; [exact I|intros q H; discriminate].
Qed.

Lemma gp_no_cons s k p :
  1 <= k -> k <= Z.of_nat (length (gps s)) ->
  nth_error (rev (p :: gps s)) (Z.to_nat (k - 1)) = nth_error (rev (gps s)) (Z.to_nat (k - 1)).
Proof. intros H1 H2. cbn [rev]. apply nth_error_app1. rewrite rev_length. lia. Qed.

Lemma gp_no_new (l : list (Z * Z)) p :
  nth_error (rev (p :: l)) (Z.to_nat (Z.of_nat (length l) + 1 - 1)) = Some p.
Proof.
  cbn [rev]. replace (Z.to_nat (Z.of_nat (length l) + 1 - 1)) with (length (rev l) + 0)%nat by (rewrite rev_length; lia).
  rewrite nth_error_app2 by lia. replace (length (rev l) + 0 - length (rev l))%nat with 0%nat by lia. reflexivity.
Qed.

Lemma Inv_tick s : Inv s -> Inv (tick s).
Proof.
  intros [A B C D D0 E F G H]. constructor; cbn; auto.
  - destruct E as [E1 E2]. split; [exact E1|]. intros q Hq. specialize (E2 q Hq). lia.
  - destruct (worker s); auto; lia.
  - intros st e Hin. destruct (G st e Hin). lia.
  - intros h Hin. destruct (H h Hin) as (H1 & H2 & H3 & H4 & H5). mk5; auto; lia.
Qed.

Ltac fields := constructor; cbn [now cur latest active worker gps handles length].

Lemma Inv_step e s : Inv s -> Inv (step e s).
Proof.
  intros HI0. pose proof (Inv_tick s HI0) as HI. unfold step. cbv zeta. remember (tick s) as s1 eqn:Es1. clear Es1 HI0.
  pose proof HI as [A B C D D0 E F G H].
  destruct e.
  - (* start_poll *)
    destruct (active s1) eqn:Ea.
    + fields.
      * exact A.
      * exact B.
      * exact C.
      * intros _. right; reflexivity.
      * discriminate.
      * exact E.
      * exact F.
      * exact G.
      * intros h [Eh|Hin].
        -- subst h; cbn. mk5; try lia; try (intros _; split; reflexivity).
        -- destruct (H h Hin) as (H1 & H2 & H3 & H4 & H5). mk5; auto; try (intros Hv; split; reflexivity).
    + assert (Hw : worker s1 = W_None).
      { destruct (worker s1) eqn:Ew; auto; exfalso; assert (Hx : false = true) by (apply C; discriminate); discriminate. }
      specialize (D0 eq_refl).
      fields.
      * exact A.
      * exact B.
      * split; [discriminate|reflexivity].
      * intros _. left; reflexivity.
      * discriminate.
      * split; [exact I|]. intros q Hq. inversion Hq. lia.
      * exact I.
      * exact G.
      * intros h [Eh|Hin].
        -- subst h; cbn. mk5; try lia; try (intros _; split; [reflexivity|]; exists (now s1); split; [reflexivity|lia]).
        -- destruct (H h Hin) as (H1 & H2 & H3 & H4 & H5). mk5; auto;
           try (intros Hv; destruct (H4 Hv) as [Hc _]; discriminate); try (intros Hv; destruct (H5 Hv) as [Hc _]; discriminate).
  - (* grace period begins *)
    destruct (worker s1) as [|q|q st|q st en] eqn:Ew; try exact HI.
    fields.
    + exact A.
    + exact B.
    + rewrite C. split; discriminate.
    + exact D.
    + exact D0.
    + destruct E as [E1 E2]. split; [apply (E2 q eq_refl)|]. intros q' Hq'. inversion Hq'. subst. apply (E2 q' eq_refl).
    + lia.
    + exact G.
    + intros h Hin. destruct (H h Hin) as (H1 & H2 & H3 & H4 & H5). mk5; auto.
  - (* grace period ends *)
    destruct (worker s1) as [|q|q st|q st en] eqn:Ew; try exact HI.
    fields.
    + exact A.
    + exact B.
    + rewrite C. split; discriminate.
    + exact D.
    + exact D0.
    + destruct E as [E1 E2]. cbn in E1. split; [split; [exact E1|exact F]|]. intros q' Hq'. inversion Hq'. subst. apply (E2 q' eq_refl).
    + lia.
    + exact G.
    + intros h Hin. destruct (H h Hin) as (H1 & H2 & H3 & H4 & H5). mk5; auto.
  - (* worker callback runs *)
    destruct (worker s1) as [|q|q st|q st en] eqn:Ew; try exact HI.
    assert (Hact : active s1 = true) by (apply C; discriminate).
    destruct E as [[Eqs Ese] E2].
    assert (Hnew : forall h, In h (handles s1) ->
              hval h < cur s1 + 1 -> exists st' e', nth_error (rev ((st, en) :: gps s1)) (Z.to_nat (hval h + 1 - 1)) = Some (st', e') /\ htime h <= st').
    { intros h Hin Hlt. destruct (H h Hin) as (H1 & H2 & H3 & H4 & H5).
      destruct (Z.eq_dec (hval h) (cur s1)) as [Heq|Hne].
      - destruct (H4 Heq) as [_ (q' & Hq' & Hle)]. cbn in Hq'. inversion Hq'. subst q'.
        exists st, en. split; [|lia]. rewrite Heq, <- A. apply gp_no_new.
      - assert (Hlt' : hval h < cur s1) by lia. destruct (H3 Hlt') as (st' & e' & Hg & Hle).
        exists st', e'. split; [|exact Hle]. unfold gp_no in Hg. rewrite gp_no_cons by lia. exact Hg. }
    destruct (0 <=? latest s1 - (cur s1 + 1)) eqn:Eq.
    + apply Z.leb_le in Eq. destruct (D Hact) as [Dl|Dl]; [lia|].
      fields.
      * lia.
      * lia.
      * split; [intros _; discriminate|reflexivity].
      * intros _. left. lia.
      * discriminate.
      * split; [exact I|]. intros q' Hq'. inversion Hq'. lia.
      * exact I.
      * intros st' e' [Ein|Hin]; [inversion Ein; subst; lia|apply (G st' e' Hin)].
      * intros h Hin. destruct (H h Hin) as (H1 & H2 & H3 & H4 & H5). mk5; auto; try lia;
        try (unfold gp_no; cbn [gps]; apply (Hnew h Hin));
        try (intros Hv; split; [reflexivity|]; exists (now s1); split; [reflexivity|exact H1]).
    + apply Z.leb_gt in Eq. destruct (D Hact) as [Dl|Dl]; [|lia].
      fields.
      * lia.
      * lia.
      * split; [discriminate|intros Hc; exfalso; apply Hc; reflexivity].
      * discriminate.
      * intros _. lia.
      * split; [exact I|discriminate].
      * exact I.
      * intros st' e' [Ein|Hin]; [inversion Ein; subst; lia|apply (G st' e' Hin)].
      * intros h Hin. destruct (H h Hin) as (H1 & H2 & H3 & H4 & H5).
        assert (hval h <> cur s1 + 1) by (intros Hv; destruct (H5 Hv) as [_ Hl]; lia).
        mk5; auto; try lia; try (unfold gp_no; cbn [gps]; apply (Hnew h Hin)).
  - exact HI.
Qed.

(* the property: a true poll is justified by a completed grace period that began after the handle was taken *)
Theorem poll_sound : forall evs s, Inv s ->
  let s' := fold_left (fun x e => step e x) evs s in
  forall h, In h (handles s') -> poll s' h = true ->
  exists st e, In (st, e) (gps s') /\ htime h <= st /\ e <= now s'.
Proof.
  intros evs. induction evs as [|e evs IH]; intros s HI; cbn [fold_left].
  - intros h Hin Hp. unfold poll in Hp. apply Z.ltb_lt in Hp.
    destruct (I_h s HI h Hin) as (H1 & H2 & H3 & _). destruct (H3 ltac:(lia)) as (st & e & Hg & Hle).
    exists st, e. unfold gp_no in Hg. apply nth_error_In in Hg. apply in_rev in Hg.
    split; [exact Hg|]. split; [exact Hle|]. apply (I_gps s HI st e Hg).
  - apply IH. apply Inv_step. exact HI.
Qed.
Print Assumptions poll_sound.
