(* C14: 64-bit word-level executable model of src/urcu-poll-impl.h (what the C code computes: unsigned long counters,
   (long) casts of differences) and its refinement of the unbounded model of Poll.v.  This is the model that is
   extracted and run against the real code (harness/seqdiff/poll.c). *)
From Coq Require Import List ZArith Bool Lia.
Import ListNotations.
Require Import Urcu.Poll.Poll Urcu.Poll.PollProof.
Local Open Scope Z_scope.

Definition WB : Z := 2 ^ 64.
Definition wrap (x : Z) : Z := x mod WB.
(* (long)(a - b) for unsigned long a, b *)
Definition sdiff (a b : Z) : Z := let d := (a - b) mod WB in if d <? 2 ^ 63 then d else d - WB.

Record wst := { wcur : Z; wlat : Z; wact : bool; wpend : bool }.   (* wpend: the worker rcu_head is queued through call_rcu *)
Inductive wop := OStart | OPoll (h : Z) | OWorker.
Inductive wout := RHandle (h : Z) (called : bool) | RPoll (b : bool) | RWorker (requeued : bool) | RNone.

Definition wstep (s : wst) (o : wop) : wst * wout :=
  match o with
  | OStart =>                                    (* start_poll_synchronize_rcu *)
      let h := if wact s then wrap (wcur s + 1) else wcur s in
      ({| wcur := wcur s; wlat := h; wact := true; wpend := if wact s then wpend s else true |}, RHandle h (negb (wact s)))
  | OPoll h => (s, RPoll (sdiff h (wcur s) <? 0))   (* poll_state_synchronize_rcu *)
  | OWorker =>                                   (* urcu_poll_worker_cb, invoked by call_rcu's helper *)
      if wpend s then
        let c := wrap (wcur s + 1) in
        if 0 <=? sdiff (wlat s) c
        then ({| wcur := c; wlat := wlat s; wact := wact s; wpend := true |}, RWorker true)
        else ({| wcur := c; wlat := wlat s; wact := false; wpend := false |}, RWorker false)
      else (s, RNone)
  end.

Definition winit (c0 : Z) : wst := {| wcur := wrap c0; wlat := wrap c0; wact := false; wpend := false |}.

Definition pending (w : wstate) : bool := match w with W_None => false | _ => true end.
Definition abs (s : state) : wst := {| wcur := wrap (cur s); wlat := wrap (latest s); wact := active s; wpend := pending (worker s) |}.

Lemma WB_val : WB = 18446744073709551616. Proof. reflexivity. Qed.
Lemma p63_val : 2 ^ 63 = 9223372036854775808. Proof. reflexivity. Qed.

(* the C comparison on wrapped words computes the mathematical difference as long as it fits in a long *)
Lemma sdiff_wrap a b : - 2 ^ 63 <= a - b < 2 ^ 63 -> sdiff (wrap a) (wrap b) = a - b.
Proof.
  intros H. unfold sdiff, wrap. rewrite <- Zminus_mod. cbv zeta.
  rewrite p63_val in *. rewrite WB_val.
  destruct (Z_lt_le_dec (a - b) 0) as [Hn|Hp].
  - replace ((a - b) mod 18446744073709551616) with (a - b + 18446744073709551616).
    + destruct (Z.ltb_spec (a - b + 18446744073709551616) 9223372036854775808); lia.
    + apply Z.mod_unique with (q := -1); lia.
  - rewrite Z.mod_small by lia. destruct (Z.ltb_spec (a - b) 9223372036854775808); lia.
Qed.

Lemma wrap_wrap_succ x : wrap (wrap x + 1) = wrap (x + 1).
Proof. unfold wrap. rewrite Zplus_mod_idemp_l. reflexivity. Qed.

(* latest never lags more than one behind current *)
Definition LatLow (s : state) : Prop := cur s - 1 <= latest s.
Lemma LatLow_init : LatLow init. Proof. unfold LatLow; cbn; lia. Qed.
Lemma LatLow_step e s : Inv s -> LatLow s -> LatLow (step e s).
Proof.
  intros HI HL. unfold LatLow in *. destruct e; cbn.
  - destruct (active s); cbn; lia.
  - destruct (worker s); cbn; exact HL.
  - destruct (worker s); cbn; exact HL.
  - destruct (worker s) as [|q|q st|q st e] eqn:Ew; cbn; try exact HL.
    assert (Ha : active s = true) by (apply (I_act s HI); rewrite Ew; discriminate).
    pose proof (I_lat s HI Ha) as Hl.
    destruct (0 <=? latest s - (cur s + 1)); cbn; lia.
  - exact HL.
Qed.

Lemma lat_window s : Inv s -> LatLow s -> cur s - 1 <= latest s <= cur s + 1.
Proof.
  intros HI HL. split; [exact HL|]. destruct (active s) eqn:Ea.
  - destruct (I_lat s HI Ea); lia.
  - pose proof (I_lat0 s HI Ea). lia.
Qed.

(* start_poll: the word model run on the abstraction of s yields the abstraction of the unbounded step, and the handle
   returned is the wrapped value of the handle recorded by the unbounded model *)
Theorem wstep_start_refines s :
  Inv s ->
  wstep (abs s) OStart =
    (abs (step E_StartPoll s),
     RHandle (wrap (match handles (step E_StartPoll s) with h :: _ => hval h | [] => 0 end)) (negb (active s))).
Proof.
  intros HI. unfold wstep, abs, step. cbn.
  destruct (active s) eqn:Ea; cbn.
  - rewrite wrap_wrap_succ. reflexivity.
  - reflexivity.
Qed.

(* the worker callback: same, when the callback may run (its grace period is over); the word model's pending flag
   agrees with the unbounded model's worker state *)
Theorem wstep_worker_refines s q st e :
  Inv s -> LatLow s -> worker s = W_GpDone q st e ->
  fst (wstep (abs s) OWorker) = abs (step E_WorkerRun s).
Proof.
  intros HI HL Hw. unfold wstep, abs, step. cbn. rewrite Hw. cbn.
  rewrite wrap_wrap_succ.
  pose proof (lat_window s HI HL) as Hwin.
  rewrite sdiff_wrap by (rewrite p63_val; lia).
  destruct (0 <=? latest s - (cur s + 1)) eqn:Ec; cbn.
  - assert (Ha : active s = true) by (apply (I_act s HI); rewrite Hw; discriminate). rewrite Ha. reflexivity.
  - reflexivity.
Qed.

(* a callback that is not queued is never run by call_rcu: the word model ignores OWorker then *)
Lemma wstep_worker_idle s : worker s = W_None -> wstep (abs s) OWorker = (abs s, RNone).
Proof. intros Hw. unfold wstep, abs. cbn. rewrite Hw. reflexivity. Qed.

(* poll: within the comparison window the C comparison is the unbounded comparison *)
Theorem wstep_poll_refines s h :
  Inv s -> In h (handles s) -> cur s - hval h < 2 ^ 63 ->
  wstep (abs s) (OPoll (wrap (hval h))) = (abs s, RPoll (poll s h)).
Proof.
  intros HI Hin Hb. unfold wstep, poll. cbn [abs wcur].
  destruct (I_h s HI h Hin) as (_ & H2 & _).
  rewrite sdiff_wrap by (rewrite p63_val in *; lia). reflexivity.
Qed.

Definition run (evs : list ev) (s : state) : state := fold_left (fun x e => step e x) evs s.

Lemma Inv_run evs s : Inv s -> Inv (run evs s).
Proof. revert s. induction evs as [|e evs IH]; intros s HI; cbn; [exact HI|]. apply IH, Inv_step, HI. Qed.
Lemma LatLow_run evs s : Inv s -> LatLow s -> LatLow (run evs s).
Proof.
  revert s. induction evs as [|e evs IH]; intros s HI HL; cbn; [exact HL|].
  apply IH; [apply Inv_step, HI | apply LatLow_step; assumption].
Qed.

(* soundness of the C-level poll: after any event sequence from the initial state, a true answer of the wrapped
   comparison for a handle inside the comparison window is justified by a completed worker grace period that began
   after the handle was taken *)
Theorem poll_sound_word evs h :
  let s := run evs init in
  In h (handles s) -> cur s - hval h < 2 ^ 63 ->
  snd (wstep (abs s) (OPoll (wrap (hval h)))) = RPoll true ->
  exists st e, In (st, e) (gps s) /\ htime h <= st /\ e <= now s.
Proof.
  intros s Hin Hb Hp.
  assert (HI : Inv s) by (apply Inv_run, Inv_init).
  rewrite (wstep_poll_refines s h HI Hin Hb) in Hp. cbn in Hp.
  assert (Hp' : poll s h = true) by congruence.
  exact (poll_sound [] s HI h Hin Hp').
Qed.

(* stability: once true, true after every further event (unbounded counters); in C it stays true for the next
   2^63 - 1 completed worker grace periods, which is the window hypothesis of wstep_poll_refines *)
Lemma cur_mono e s : cur s <= cur (step e s).
Proof.
  destruct e; cbn; try lia; destruct (worker s); cbn; try lia; destruct (0 <=? _); cbn; lia.
Qed.
Lemma handles_mono e s h : In h (handles s) -> In h (handles (step e s)).
Proof.
  intros Hin. destruct e; cbn; auto; destruct (worker s); cbn; auto; destruct (0 <=? _); cbn; exact Hin.
Qed.
Theorem poll_stable evs s h : poll s h = true -> poll (run evs s) h = true.
Proof.
  revert s. induction evs as [|e evs IH]; intros s Hp; cbn; [exact Hp|].
  apply IH. unfold poll in *. apply Z.ltb_lt in Hp. apply Z.ltb_lt. pose proof (cur_mono e s). lia.
Qed.

(* completeness: a worker cycle = its grace period begins, ends, the callback runs (C03 guarantees these happen);
   after at most two worker cycles every handle polls true *)
Definition cycle : list ev := [E_GpBegin; E_GpEnd; E_WorkerRun].

Lemma cycle_active s :
  Inv s -> active s = true ->
  cur (run cycle s) = cur s + 1 /\ latest (run cycle s) = latest s /\
  (forall h, In h (handles s) -> In h (handles (run cycle s))) /\
  (latest s = cur s + 1 -> active (run cycle s) = true).
Proof.
  intros HI Ha.
  assert (Hw : worker s <> W_None) by (apply (I_act s HI); exact Ha).
  clear HI. destruct s as [n c l a w g hs]. cbn in Ha, Hw. subst a.
  unfold cycle, run. cbn [fold_left].
  destruct w as [|q|q st|q st e]; [congruence| | |]; cbn.
  all: destruct (0 <=? l - (c + 1)) eqn:Ec; cbn.
  all: repeat split; auto.
  all: intros Hl; rewrite Hl in Ec; rewrite Z.sub_diag in Ec; cbn in Ec; discriminate.
Qed.

Lemma run_app evs1 evs2 s : run (evs1 ++ evs2) s = run evs2 (run evs1 s).
Proof. unfold run. apply fold_left_app. Qed.

Theorem poll_complete s h :
  Inv s -> In h (handles s) -> poll (run (cycle ++ cycle) s) h = true.
Proof.
  intros HI Hin. rewrite run_app.
  destruct (I_h s HI h Hin) as (_ & H2 & H3 & H4 & H5).
  destruct (Z_lt_le_dec (hval h) (cur s)) as [Hlt|Hge].
  - assert (Hp : poll s h = true) by (unfold poll; apply Z.ltb_lt; lia).
    apply poll_stable, poll_stable, Hp.
  - destruct (Z.eq_dec (hval h) (cur s)) as [He|Hne].
    + destruct (H4 He) as (Ha & _).
      destruct (cycle_active s HI Ha) as (Hc & _).
      assert (Hp : poll (run cycle s) h = true) by (unfold poll; apply Z.ltb_lt; lia).
      apply poll_stable, Hp.
    + assert (He : hval h = cur s + 1) by lia.
      destruct (H5 He) as (Ha & Hl).
      destruct (cycle_active s HI Ha) as (Hc & Hl1 & _ & Hact).
      specialize (Hact Hl).
      assert (HI1 : Inv (run cycle s)) by (apply Inv_run, HI).
      destruct (cycle_active (run cycle s) HI1 Hact) as (Hc2 & _).
      unfold poll. apply Z.ltb_lt. lia.
Qed.

(* sensitivity: the variant of start_poll that hands out `current` while a worker grace period is already in flight
   is unsound: the handle is satisfied by a grace period that began before the handle was taken *)
Definition step_bad (e : ev) (s0 : state) : state :=
  match e with
  | E_StartPoll =>
      let s := tick s0 in
      {| now := now s; cur := cur s; latest := cur s; active := true;
         worker := if active s then worker s else W_Queued (now s);
         gps := gps s; handles := {| hval := cur s; htime := now s |} :: handles s |}
  | _ => step e s0
  end.
Theorem poll_early_refuted :
  exists evs h, let s := fold_left (fun x e => step_bad e x) evs init in
    In h (handles s) /\ poll s h = true /\ forall st e, In (st, e) (gps s) -> st < htime h.
Proof.
  exists [E_StartPoll; E_GpBegin; E_StartPoll; E_GpEnd; E_WorkerRun], {| hval := 0; htime := 3 |}.
  cbn. split; [left; reflexivity|]. split; [reflexivity|].
  intros st e [H|[]]. inversion H. lia.
Qed.

(* non-vacuity: a concrete run near the 2^64 wrap where a handle taken while active is answered false after one worker
   cycle and true after two *)
Example wrap_run :
  let s0 := winit (2 ^ 64 - 1) in
  let '(s1, r1) := wstep s0 OStart in
  let '(s2, r2) := wstep s1 OStart in
  let '(s3, _) := wstep s2 OWorker in
  let '(s4, _) := wstep s3 OWorker in
  r1 = RHandle (2 ^ 64 - 1) true /\ r2 = RHandle 0 false /\
  snd (wstep s3 (OPoll 0)) = RPoll false /\ snd (wstep s4 (OPoll 0)) = RPoll true /\ wact s4 = false.
Proof. vm_compute. repeat split. Qed.
