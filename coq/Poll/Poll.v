(* scratch: grace-period polling (urcu-poll-impl.h) over an abstract call_rcu / grace-period interface *)
From Coq Require Import List ZArith Bool Lia.
Import ListNotations.
Local Open Scope Z_scope.

(* worker callback life cycle: queued by call_rcu at time q; its grace period starts (>= q), ends, then the callback runs *)
Inductive wstate := W_None | W_Queued (q : Z) | W_InGp (q s : Z) | W_GpDone (q s e : Z).

Record handle := { hval : Z; htime : Z }.      (* value returned by start_poll, time of the call *)

Record state := {
  now : Z;
  cur : Z;                (* current_state.grace_period_id *)
  latest : Z;             (* latest_target.grace_period_id *)
  active : bool;
  worker : wstate;
  gps : list (Z * Z);     (* ghost: completed worker grace periods, newest first: (start, end); length = cur *)
  handles : list handle   (* ghost: all handles issued *)
}.

Inductive ev := E_StartPoll | E_GpBegin | E_GpEnd | E_WorkerRun | E_Tick.

Definition tick (s : state) : state :=
  {| now := now s + 1; cur := cur s; latest := latest s; active := active s; worker := worker s; gps := gps s; handles := handles s |}.

Definition step (e : ev) (s0 : state) : state :=
  let s := tick s0 in
  match e with
  | E_Tick => s
  | E_StartPoll =>                       (* body of start_poll_synchronize_rcu, atomic under the lock *)
      let h := if active s then cur s + 1 else cur s in
      {| now := now s; cur := cur s; latest := h; active := true;
         worker := if active s then worker s else W_Queued (now s);
         gps := gps s; handles := {| hval := h; htime := now s |} :: handles s |}
  | E_GpBegin =>
      match worker s with
      | W_Queued q => {| now := now s; cur := cur s; latest := latest s; active := active s; worker := W_InGp q (now s); gps := gps s; handles := handles s |}
      | _ => s end
  | E_GpEnd =>
      match worker s with
      | W_InGp q st => {| now := now s; cur := cur s; latest := latest s; active := active s; worker := W_GpDone q st (now s); gps := gps s; handles := handles s |}
      | _ => s end
  | E_WorkerRun =>                      (* urcu_poll_worker_cb, atomic under the lock *)
      match worker s with
      | W_GpDone q st e =>
          let c := cur s + 1 in
          if 0 <=? latest s - c
          then {| now := now s; cur := c; latest := latest s; active := true; worker := W_Queued (now s); gps := (st, e) :: gps s; handles := handles s |}
          else {| now := now s; cur := c; latest := latest s; active := false; worker := W_None; gps := (st, e) :: gps s; handles := handles s |}
      | _ => s end
  end.

Definition init : state := {| now := 0; cur := 0; latest := 0; active := false; worker := W_None; gps := []; handles := [] |}.

(* the k-th completed grace period (k = 1 is the oldest) *)
Definition gp_no (s : state) (k : Z) : option (Z * Z) := nth_error (rev (gps s)) (Z.to_nat (k - 1)).

Definition poll (s : state) (h : handle) : bool := hval h - cur s <? 0.     (* signed difference, no wrap in this scratch model *)

(* time at or after which the *next* worker grace period (number cur+1) starts, if a worker is pending *)
Definition wq (w : wstate) : option Z := match w with W_None => None | W_Queued q => Some q | W_InGp q _ => Some q | W_GpDone q _ _ => Some q end.
Definition wstart_ok (w : wstate) : Prop :=
  match w with W_InGp q s => q <= s | W_GpDone q s e => q <= s /\ s <= e | _ => True end.

Record Inv (s : state) : Prop := {
  I_len : Z.of_nat (length (gps s)) = cur s;
  I_cur : 0 <= cur s;
  I_act : active s = true <-> worker s <> W_None;
  I_lat : active s = true -> (latest s = cur s \/ latest s = cur s + 1);
  I_lat0 : active s = false -> latest s <= cur s;
  I_w : wstart_ok (worker s) /\ (forall q, wq (worker s) = Some q -> q <= now s);
  I_wtime : match worker s with W_InGp _ st => st <= now s | W_GpDone _ st e => e <= now s | _ => True end;
  I_gps : forall st e, In (st, e) (gps s) -> st <= e /\ e <= now s;
  (* every handle: either its grace period (number hval+1) is completed and started after the handle was taken,
     or it is still to come and will start after the handle was taken *)
  I_h : forall h, In h (handles s) ->
        htime h <= now s /\ 0 <= hval h <= cur s + 1 /\
        (hval h < cur s -> exists st e, gp_no s (hval h + 1) = Some (st, e) /\ htime h <= st) /\
        (hval h = cur s -> active s = true /\ exists q, wq (worker s) = Some q /\ htime h <= q) /\
        (hval h = cur s + 1 -> active s = true /\ latest s = cur s + 1)
}.
