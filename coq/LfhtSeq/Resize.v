(* scratch: the explicit-resize loop of rculfhash.c on the sequential level: legacy spins on a non-power-of-two target, the repair
   (round the clamped count up to a power of two) reaches the target in one pass *)
From Coq Require Import List Arith NArith Bool Lia.
Import ListNotations.
Local Open Scope N_scope.

Definition order (x : N) : N := N.size (x - 1).          (* cds_lfht_get_count_order_ulong for x >= 1 *)
(* init_table(first, last): for i = first..last: if target < 2^i break; size := 2^i *)
Fixpoint init_table (target : N) (i : N) (n : nat) (size : N) : N :=
  match n with O => size | S n' => if target <? 2 ^ i then size else init_table target (i + 1) n' (2 ^ i) end.
(* fini_table(first, last): for i = last downto first: size := 2^(i-1) *)
Definition fini_table (first last size : N) : N := if first <=? last then 2 ^ (first - 1) else size.
Definition grow (size target : N) : N := let a := order size + 1 in let b := order target in init_table target a (N.to_nat (b + 1 - a)) size.
Definition shrink (size target : N) : N := fini_table (order (N.max target 1) + 1) (order size) size.
Definition pass (size target : N) : N := if size <? target then grow size target else if target <? size then shrink size target else size.

(* legacy resize_target_update_count: clamp only *)
Definition target_legacy (minb maxb count : N) : N := N.min (N.max count minb) maxb.
(* repaired: round the clamped count up to a power of two *)
Definition target_fixed (minb maxb count : N) : N := 2 ^ order (target_legacy minb maxb count).

Example legacy_spins_grow : pass 4 5 = 4 /\ 4 <> 5.            Proof. split; [vm_compute; reflexivity|discriminate]. Qed.
Example legacy_spins_shrink : pass 8 5 = 8 /\ 8 <> 5.          Proof. split; [vm_compute; reflexivity|discriminate]. Qed.
Theorem resize_nonpow2_refuted : exists size target, forall n, Nat.iter n (fun s => pass s target) size <> target.
Proof. exists 4, 5. intros n. assert (H : Nat.iter n (fun s => pass s 5) 4 = 4) by (induction n as [|n IH]; [reflexivity|change (Nat.iter (S n) (fun s => pass s 5) 4) with (pass (Nat.iter n (fun s => pass s 5) 4) 5); rewrite IH; vm_compute; reflexivity]). rewrite H. discriminate. Qed.

Lemma order_pow2 k : order (2 ^ k) = k.
Proof.
  unfold order. destruct (N.eq_dec k 0) as [->|Hk]; [reflexivity|].
  rewrite N.size_log2 by (pose proof (N.pow_gt_lin_r 2 k ltac:(lia)); lia).
  replace (2 ^ k - 1) with (N.pred (2 ^ k)) by lia. rewrite N.log2_pred_pow2 by lia. lia.
Qed.
Lemma order_ge x : 1 <= x -> x <= 2 ^ order x.
Proof.
  intros Hx. unfold order. destruct (N.eq_dec x 1) as [->|H1]; [cbn; lia|].
  pose proof (N.size_gt (x - 1)). lia.
Qed.

Lemma init_table_reaches b : forall n a size, (N.of_nat n = b + 1 - a) -> a <= b + 1 -> (n = O -> size = 2 ^ b) -> init_table (2 ^ b) a n size = 2 ^ b.
Proof.
  induction n as [|n IH]; intros a size Hn Ha H0; cbn [init_table]; [apply H0; reflexivity|].
  destruct (N.ltb_spec (2 ^ b) (2 ^ a)) as [Hlt|_].
  - exfalso. assert (a <= b) by lia. pose proof (N.pow_le_mono_r 2 a b ltac:(lia) H). lia.
  - apply IH; [lia|lia|]. intros ->. f_equal. lia.
Qed.

Theorem pass_reaches_pow2 a b : pass (2 ^ a) (2 ^ b) = 2 ^ b.
Proof.
  unfold pass. destruct (N.ltb_spec (2 ^ a) (2 ^ b)) as [Hlt|Hge].
  - assert (Hab : a < b) by (apply (N.pow_lt_mono_r_iff 2); [lia|exact Hlt]).
    unfold grow. rewrite !order_pow2. apply init_table_reaches; [rewrite N2Nat.id; lia|lia|].
    intros H. exfalso. assert (b + 1 - (a + 1) = 0) by (apply N2Nat.inj; rewrite H; reflexivity). lia.
  - destruct (N.ltb_spec (2 ^ b) (2 ^ a)) as [Hlt|Hge2]; [|lia].
    assert (Hab : b < a) by (apply (N.pow_lt_mono_r_iff 2); [lia|exact Hlt]).
    unfold shrink, fini_table. rewrite N.max_l by (pose proof (N.pow_nonzero 2 b ltac:(lia)); lia). rewrite !order_pow2.
    destruct (N.leb_spec (b + 1) a); [f_equal; lia|lia].
Qed.

(* with the repaired target computation the loop `do pass while (size != target)` ends after one pass, from any power-of-two size *)
Theorem resize_terminates_fixed a minb maxb count : 1 <= minb ->
  let t := target_fixed minb maxb count in pass (2 ^ a) t = t.
Proof. intros _ t. unfold t, target_fixed. apply pass_reaches_pow2. Qed.
(* and the repaired target is the requested count when that is a legal power of two, otherwise the next power of two *)
Theorem target_fixed_ge minb maxb count : 1 <= minb -> minb <= maxb -> target_legacy minb maxb count <= target_fixed minb maxb count.
Proof. intros H1 H2. unfold target_fixed. apply order_ge. unfold target_legacy. lia. Qed.
Theorem target_fixed_id minb maxb k : target_legacy minb maxb (2 ^ k) = 2 ^ k -> target_fixed minb maxb (2 ^ k) = 2 ^ k.
Proof. intros H. unfold target_fixed. rewrite H, order_pow2. reflexivity. Qed.
Print Assumptions resize_terminates_fixed.
Print Assumptions resize_nonpow2_refuted.

(* bucket bounds: with max_nr_buckets a power of two the repaired target never exceeds it, and never drops below one bucket *)
Lemma order_le_pow2 x m : 1 <= x -> x <= 2 ^ m -> order x <= m.
Proof.
  intros H1 H2. unfold order. destruct (N.eq_dec (x - 1) 0) as [->|Hne]; [cbn; lia|].
  rewrite N.size_log2 by exact Hne. assert (N.log2 (x - 1) < m); [|lia].
  apply N.log2_lt_pow2; lia.
Qed.
Theorem target_fixed_bounds minb m count : 1 <= minb -> minb <= 2 ^ m ->
  1 <= target_fixed minb (2 ^ m) count <= 2 ^ m.
Proof.
  intros H1 H2. unfold target_fixed. split.
  - pose proof (N.pow_nonzero 2 (order (target_legacy minb (2 ^ m) count)) ltac:(lia)). lia.
  - apply N.pow_le_mono_r; [lia|]. apply order_le_pow2; unfold target_legacy; lia.
Qed.
Print Assumptions target_fixed_bounds.
