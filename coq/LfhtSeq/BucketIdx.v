(* C08: bucket_at index arithmetic of the order allocator (src/rculfhash-mm-order.c) and of the chunk allocator (src/rculfhash-mm-chunk.c):
   index -> (table, offset).  Distinct indices get distinct cells and the offset lies inside the table of that order / chunk. *)
From Coq Require Import NArith ZArith Lia ZifyN ZifyBool.
Local Open Scope N_scope.

(* cds_lfht_fls_ulong(i) = position of the most significant bit + 1 = N.size *)
Definition order_at (min_alloc i : N) : N * N :=
  if i <? min_alloc then (0, i) else let o := N.size i in (o, N.land i (N.ones (o - 1))).
Definition order_table_len (min_alloc o : N) : N := if o =? 0 then min_alloc else 2 ^ (o - 1).
Definition chunk_at (min_alloc_order i : N) : N * N := (N.shiftr i min_alloc_order, N.land i (N.ones min_alloc_order)).

Lemma size_bounds i : 0 < i -> 2 ^ (N.size i - 1) <= i < 2 ^ N.size i.
Proof.
  intros H. split; [|apply N.size_gt].
  rewrite N.size_log2 by lia. replace (N.succ (N.log2 i) - 1) with (N.log2 i) by lia. apply N.log2_spec. exact H.
Qed.

Theorem order_at_in_table m i : 1 <= m -> snd (order_at m i) < order_table_len m (fst (order_at m i)).
Proof.
  intros Hm. unfold order_at, order_table_len. destruct (N.ltb_spec i m) as [H|H]; cbn [fst snd]; [exact H|].
  assert (Hi : 0 < i) by lia. pose proof (N.size_log2 i ltac:(lia)) as Hs.
  destruct (N.eqb_spec (N.size i) 0) as [E|_]; [lia|]. rewrite N.land_ones. apply N.mod_lt. apply N.pow_nonzero. lia.
Qed.

Theorem order_at_injective m i j : 1 <= m -> (exists k, m = 2 ^ k) -> order_at m i = order_at m j -> i = j.
Proof.
  intros Hm [k Hk] H. unfold order_at in H.
  destruct (N.ltb_spec i m) as [Hi|Hi], (N.ltb_spec j m) as [Hj|Hj].
  - injection H as E. exact E.
  - exfalso. injection H as Ho Hoff. assert (0 < j) by lia. pose proof (N.size_log2 j ltac:(lia)). lia.
  - exfalso. injection H as Ho Hoff. assert (0 < i) by lia. pose proof (N.size_log2 i ltac:(lia)). lia.
  - injection H as Ho Hoff. assert (Hi0 : 0 < i) by lia. assert (Hj0 : 0 < j) by lia.
    destruct (size_bounds i Hi0) as [A1 A2]. destruct (size_bounds j Hj0) as [B1 B2]. rewrite <- Ho in *.
    rewrite !N.land_ones in Hoff.
    set (p := 2 ^ (N.size i - 1)) in *.
    assert (Hp : 2 ^ N.size i = 2 * p).
    { unfold p. rewrite <- N.pow_succ_r'. f_equal. pose proof (N.size_log2 i ltac:(lia)). lia. }
    rewrite Hp in *. assert (Hp0 : 0 < p) by (unfold p; apply N.neq_0_lt_0, N.pow_nonzero; lia).
    assert (Ei : i mod p = i - p) by (symmetry; apply N.mod_unique with (q := 1); lia).
    assert (Ej : j mod p = j - p) by (symmetry; apply N.mod_unique with (q := 1); lia).
    lia.
Qed.

Theorem chunk_at_injective o i j : chunk_at o i = chunk_at o j -> i = j.
Proof.
  unfold chunk_at. intros H. injection H as Hq Hr. rewrite !N.land_ones in Hr. rewrite !N.shiftr_div_pow2 in Hq.
  rewrite (N.div_mod i (2 ^ o)), (N.div_mod j (2 ^ o)) by (apply N.pow_nonzero; lia). rewrite Hq, Hr. reflexivity.
Qed.
Theorem chunk_at_in_chunk o i : snd (chunk_at o i) < 2 ^ o.
Proof. unfold chunk_at. cbn [snd]. rewrite N.land_ones. apply N.mod_lt. apply N.pow_nonzero. lia. Qed.
Print Assumptions order_at_injective.
Print Assumptions chunk_at_injective.
