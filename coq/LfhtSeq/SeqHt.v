(* scratch: sequential behaviour of the split-ordered list = reference multimap.  Nodes are inserted after every node with a
   reverse hash <= their own (cds_lfht_add), so for each key the list order is the insertion order; lookup returns the oldest
   node with the key and next_duplicate enumerates the rest in insertion order; del removes exactly the node. *)
From Coq Require Import List Arith NArith Bool Lia.
Import ListNotations.
Local Open Scope N_scope.

Section HT.
Variable rh : N -> N.          (* reverse hash of a node *)
Variable key : N -> N.
Hypothesis Hkey : forall x y, key x = key y -> rh x = rh y.       (* equal keys hash alike *)

Fixpoint ins (x : N) (l : list N) : list N :=
  match l with [] => [x] | y :: l' => if rh y <=? rh x then y :: ins x l' else x :: y :: l' end.
Fixpoint remove1 (x : N) (l : list N) : list N := match l with [] => [] | y :: l' => if y =? x then l' else y :: remove1 x l' end.
Definition withkey (k : N) (l : list N) : list N := filter (fun y => key y =? k) l.
Fixpoint sorted (l : list N) : Prop := match l with [] => True | x :: l' => (forall y, In y l' -> rh x <= rh y) /\ sorted l' end.

Lemma ins_in x l y : In y (ins x l) <-> y = x \/ In y l.
Proof.
  induction l as [|z l IH]; cbn [ins]; [cbn; intuition|]. destruct (rh z <=? rh x); cbn [In]; [rewrite IH|]; intuition.
Qed.
Lemma ins_sorted x l : sorted l -> sorted (ins x l).
Proof.
  induction l as [|z l IH]; intros Hs; cbn [ins]; [cbn; split; [intros y []|exact I]|].
  destruct Hs as [Hz Hs]. destruct (N.leb_spec (rh z) (rh x)) as [Hle|Hgt]; cbn [sorted].
  - split; [|apply IH; exact Hs]. intros y Hy. apply ins_in in Hy. destruct Hy as [->|Hy]; [exact Hle|apply Hz; exact Hy].
  - split; [|split; [exact Hz|exact Hs]]. intros y [<-|Hy]; [lia|]. pose proof (Hz y Hy). lia.
Qed.
(* the nodes with key k keep their relative order and the new node goes last among them *)
Lemma withkey_ins k x l : sorted l -> withkey k (ins x l) = withkey k l ++ (if key x =? k then [x] else []).
Proof.
  induction l as [|z l IH]; intros Hs; cbn [ins]; [cbn; destruct (key x =? k); reflexivity|].
  destruct Hs as [Hz Hs]. destruct (N.leb_spec (rh z) (rh x)) as [Hle|Hgt]; unfold withkey in *; cbn [filter].
  - rewrite (IH Hs). destruct (key z =? k); reflexivity.
  - (* x goes in front of z: no node from z on has key k if x has *)
    destruct (N.eqb_spec (key x) k) as [Ex|Ex]; [|rewrite app_nil_r; reflexivity].
    assert (Hnone : filter (fun y => key y =? k) (z :: l) = []).
    { clear IH.
      assert (H : forall y, In y (z :: l) -> (key y =? k) = false).
      { intros y Hy. destruct (N.eqb_spec (key y) k) as [Ey|]; [|reflexivity]. exfalso.
        assert (rh y = rh x) by (apply Hkey; congruence). destruct Hy as [<-|Hy]; [lia|]. pose proof (Hz y Hy). lia. }
      induction (z :: l) as [|a m IHm]; [reflexivity|]. cbn [filter]. rewrite (H a (or_introl eq_refl)). apply IHm. intros y Hy. apply H. right. exact Hy. }
    cbn [filter] in Hnone. rewrite Hnone. reflexivity.
Qed.
Lemma remove1_notin x l : ~ In x l -> remove1 x l = l.
Proof. induction l as [|z l IH]; intros H; [reflexivity|]. cbn [remove1]. destruct (N.eqb_spec z x) as [->|_]; [exfalso; apply H; left; reflexivity|]. f_equal. apply IH. intros Hi. apply H. right. exact Hi. Qed.
Lemma withkey_remove k x l : NoDup l -> withkey k (remove1 x l) = remove1 x (withkey k l).
Proof.
  induction l as [|z l IH]; intros Hnd; [reflexivity|]. inversion Hnd as [|? ? Hni Hnd']; subst. unfold withkey in *. cbn [remove1 filter].
  destruct (N.eqb_spec z x) as [->|Hne].
  - destruct (key x =? k); cbn [remove1]; [rewrite N.eqb_refl; reflexivity|].
    symmetry. apply remove1_notin. intros H. apply Hni. apply filter_In in H. exact (proj1 H).
  - cbn [filter]. destruct (key z =? k); cbn [remove1]; [destruct (N.eqb_spec z x); [contradiction|]; f_equal|]; apply IH; exact Hnd'.
Qed.

Lemma remove1_in_iff x l y : NoDup l -> (In y (remove1 x l) <-> In y l /\ y <> x).
Proof.
  induction l as [|z l IH]; intros Hnd; cbn [remove1]; [cbn; tauto|]. inversion Hnd as [|? ? Hni Hnd']; subst.
  destruct (N.eqb_spec z x) as [->|Hne]; cbn [In].
  - split; [intros H; split; [right; exact H|intros ->; contradiction]|intros [[E|H] Hy]; [congruence|exact H]].
  - rewrite (IH Hnd'). split; [intros [<-|[H Hy]]; [split; [left; reflexivity|exact Hne]|split; [right; exact H|exact Hy]]|intros [[E|H] Hy]; [left; exact E|right; split; assumption]].
Qed.

(* reference multimap: nodes in insertion order; the table: the split-ordered list *)
Inductive op := Add (x : N) | Del (x : N).
Definition ref_step (a : list N) (o : op) : list N := match o with Add x => a ++ [x] | Del x => remove1 x a end.
Definition ht_step (l : list N) (o : op) : list N := match o with Add x => ins x l | Del x => remove1 x l end.
Definition lookup (k : N) (l : list N) : option N := hd_error (withkey k l).
Definition duplicates (k : N) (l : list N) : list N := withkey k l.       (* lookup followed by next_duplicate until NULL *)

Lemma remove1_sorted x l : sorted l -> sorted (remove1 x l).
Proof.
  induction l as [|z l IH]; intros Hs; [exact I|]. destruct Hs as [Hz Hs]. cbn [remove1]. destruct (z =? x); [exact Hs|].
  cbn [sorted]. split; [|apply IH; exact Hs]. intros y Hy. apply Hz. clear -Hy. induction l as [|a m IHm]; [destruct Hy|]. cbn [remove1] in Hy. destruct (a =? x); [right; exact Hy|destruct Hy as [<-|Hy]; [left; reflexivity|right; apply IHm; exact Hy]].
Qed.
Lemma remove1_nodup x l : NoDup l -> NoDup (remove1 x l).
Proof.
  induction l as [|z l IH]; intros H; [constructor|]. inversion H as [|? ? Hni Hnd]; subst. cbn [remove1]. destruct (z =? x); [exact Hnd|].
  constructor; [|apply IH; exact Hnd]. intros Hin. apply Hni. clear -Hin. induction l as [|a m IHm]; [destruct Hin|]. cbn [remove1] in Hin. destruct (a =? x); [right; exact Hin|destruct Hin as [<-|Hin]; [left; reflexivity|right; apply IHm; exact Hin]].
Qed.

(* every sequence of adds (of fresh nodes) and deletes: for every key the table enumerates exactly the reference's nodes, in the
   reference's (insertion) order; in particular lookup returns the oldest one *)
Theorem seq_refines_multimap : forall ops a l, sorted l -> NoDup l -> NoDup a -> (forall y, In y l <-> In y a) -> (forall k, withkey k l = withkey k a) ->
  (forall x, In (Add x) ops -> ~ In x a) -> NoDup (map (fun o => match o with Add x => x | Del x => x end) (filter (fun o => match o with Add _ => true | _ => false end) ops)) ->
  forall k, duplicates k (fold_left ht_step ops l) = withkey k (fold_left ref_step ops a).
Proof.
  induction ops as [|o ops IH]; intros a l Hs Hnl Hna Hin Hk Hfresh Hnd k; cbn [fold_left]; [apply Hk|].
  destruct o as [x|x]; cbn [ht_step ref_step].
  - assert (Hxa : ~ In x a) by (apply Hfresh; left; reflexivity).
    cbn [filter map] in Hnd. inversion Hnd as [|? ? Hxo Hnd']; subst.
    apply IH; try assumption.
    + apply ins_sorted; exact Hs.
    + clear -Hnl Hxa Hin. assert (Hxl : ~ In x l) by (intros H; apply Hxa; apply Hin; exact H). clear Hxa Hin.
      induction l as [|z l IHl]; cbn [ins]; [constructor; [intros []|constructor]|]. inversion Hnl as [|? ? Hni Hnd]; subst.
      destruct (rh z <=? rh x); [constructor; [rewrite ins_in; intros [->|H]; [apply Hxl; left; reflexivity|contradiction]|apply IHl; [exact Hnd|intros H; apply Hxl; right; exact H]]|constructor; [exact Hxl|exact Hnl]].
    + clear -Hna Hxa. induction a as [|z a IHa]; cbn; [constructor; [intros []|constructor]|].
      inversion Hna as [|? ? Hni Hnd]; subst. constructor; [rewrite in_app_iff; intros [H|[<-|[]]]; [contradiction|apply Hxa; left; reflexivity]|apply IHa; [exact Hnd|intros H; apply Hxa; right; exact H]].
    + intros y. rewrite ins_in, in_app_iff, Hin. cbn. intuition.
    + intros k0. rewrite (withkey_ins k0 x l Hs). unfold withkey at 2. rewrite filter_app. cbn [filter]. fold (withkey k0 a). rewrite Hk. reflexivity.
    + intros y Hy. rewrite in_app_iff. intros [H|[<-|[]]]; [apply (Hfresh y (or_intror Hy) H)|].
      apply Hxo. clear -Hy. induction ops as [|o ops IHo]; [destruct Hy|]. destruct Hy as [->|Hy]; cbn [filter map]; [left; reflexivity|]. destruct o; cbn [map]; [right|]; apply IHo; exact Hy.
  - apply IH; try assumption.
    + apply remove1_sorted; exact Hs.
    + apply remove1_nodup; exact Hnl.
    + apply remove1_nodup; exact Hna.
    + intros y. rewrite (remove1_in_iff x l y Hnl), (remove1_in_iff x a y Hna), Hin. reflexivity.
    + intros k0. rewrite (withkey_remove k0 x l Hnl), (withkey_remove k0 x a Hna), Hk. reflexivity.
    + intros y Hy H. apply (Hfresh y (or_intror Hy)). clear -H. induction a as [|z a IHa]; [destruct H|]. cbn [remove1] in H. destruct (z =? x); [right; exact H|destruct H as [<-|H]; [left; reflexivity|right; apply IHa; exact H]].
Qed.
End HT.
Print Assumptions seq_refines_multimap.
