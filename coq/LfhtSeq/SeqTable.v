(* C08: executable sequential model of the hash table's content: the split-ordered list of data nodes (bucket nodes left out), ordered by the
   bit-reversed hash computed with the source's table.  Plain add goes after every node with a reverse hash <= its own; add_unique / add_replace
   insert in front of the equal-hash run (or replace in place); lookup returns the first node of the run with the key; next_duplicate the next one;
   traversal is the list itself.  The model is run against the real table (harness/seqdiff/lfht_seq.c) for every allocator and size configuration. *)
From Coq Require Import List NArith Bool Lia.
Import ListNotations.
Require Import Urcu.LfhtSeq.BitRev.
Local Open Scope N_scope.

Record snode := { sid : N; shash : N; skey : N }.
Definition srh (x : snode) : N := bit_reverse_u64 (shash x).
Definition table_t := list snode.

Fixpoint ins_after (x : snode) (l : table_t) : table_t :=      (* cds_lfht_add *)
  match l with [] => [x] | y :: l' => if srh y <=? srh x then y :: ins_after x l' else x :: y :: l' end.
Fixpoint ins_before (x : snode) (l : table_t) : table_t :=     (* unique insertion: head of the equal-hash run *)
  match l with [] => [x] | y :: l' => if srh y <? srh x then y :: ins_before x l' else x :: y :: l' end.
Definition same (h k : N) (y : snode) : bool := (srh y =? bit_reverse_u64 h) && (skey y =? k).
Definition lookup (l : table_t) (h k : N) : option snode := find (same h k) l.
Fixpoint after_id (l : table_t) (i : N) : table_t := match l with [] => [] | y :: l' => if sid y =? i then l' else after_id l' i end.
Definition next_dup (l : table_t) (cur : snode) : option snode := find (same (shash cur) (skey cur)) (after_id l (sid cur)).
Definition remove_id (l : table_t) (i : N) : table_t := filter (fun y => negb (sid y =? i)) l.
Definition present (l : table_t) (i : N) : bool := existsb (fun y => sid y =? i) l.
Fixpoint replace_id (l : table_t) (i : N) (x : snode) : table_t := match l with [] => [] | y :: l' => if sid y =? i then x :: l' else y :: replace_id l' i x end.

Inductive sop :=
| SAdd (x : snode) | SAddUnique (x : snode) | SAddReplace (x : snode)
| SReplace (old : N) (x : snode) | SDel (i : N) | SLookup (h k : N) | SNextDup (cur : snode)
| STraverse | SCount | SResize | SDestroy.
Inductive sres := RNode (i : N) | RNone | RInt (v : N) | RErr | RList (l : list N).

Definition sstep (l : table_t) (o : sop) : table_t * sres :=
  match o with
  | SAdd x => (ins_after x l, RNode (sid x))
  | SAddUnique x => match lookup l (shash x) (skey x) with Some y => (l, RNode (sid y)) | None => (ins_before x l, RNode (sid x)) end
  | SAddReplace x => match lookup l (shash x) (skey x) with Some y => (replace_id l (sid y) x, RNode (sid y)) | None => (ins_before x l, RNone) end
  | SReplace old x => if present l old then (replace_id l old x, RInt 0) else (l, RErr)
  | SDel i => if present l i then (remove_id l i, RInt 0) else (l, RErr)
  | SLookup h k => (l, match lookup l h k with Some y => RNode (sid y) | None => RNone end)
  | SNextDup cur => (l, match next_dup l cur with Some y => RNode (sid y) | None => RNone end)
  | STraverse => (l, RList (map sid l))
  | SCount => (l, RInt (N.of_nat (length l)))
  | SResize => (l, RInt 0)
  | SDestroy => (l, match l with [] => RInt 0 | _ => RErr end)
  end.

(* the table stays sorted by reverse hash *)
Fixpoint ssorted (l : table_t) : Prop := match l with [] => True | x :: l' => (forall y, In y l' -> srh x <= srh y) /\ ssorted l' end.
Lemma ins_after_in x l y : In y (ins_after x l) <-> y = x \/ In y l.
Proof. induction l as [|z l IH]; cbn [ins_after]; [cbn; intuition|]. destruct (srh z <=? srh x); cbn [In]; [rewrite IH|]; intuition. Qed.
Lemma ins_before_in x l y : In y (ins_before x l) <-> y = x \/ In y l.
Proof. induction l as [|z l IH]; cbn [ins_before]; [cbn; intuition|]. destruct (srh z <? srh x); cbn [In]; [rewrite IH|]; intuition. Qed.
Lemma ins_after_sorted x l : ssorted l -> ssorted (ins_after x l).
Proof.
  induction l as [|z l IH]; intros Hs; cbn [ins_after]; [cbn; split; [intros y []|exact I]|].
  destruct Hs as [Hz Hs]. destruct (N.leb_spec (srh z) (srh x)) as [Hle|Hgt]; cbn [ssorted].
  - split; [|apply IH; exact Hs]. intros y Hy. apply ins_after_in in Hy. destruct Hy as [->|Hy]; [exact Hle|apply Hz; exact Hy].
  - split; [|split; [exact Hz|exact Hs]]. intros y [<-|Hy]; [lia|]. pose proof (Hz y Hy). lia.
Qed.
Lemma ins_before_sorted x l : ssorted l -> ssorted (ins_before x l).
Proof.
  induction l as [|z l IH]; intros Hs; cbn [ins_before]; [cbn; split; [intros y []|exact I]|].
  destruct Hs as [Hz Hs]. destruct (N.ltb_spec (srh z) (srh x)) as [Hlt|Hge]; cbn [ssorted].
  - split; [|apply IH; exact Hs]. intros y Hy. apply ins_before_in in Hy. destruct Hy as [->|Hy]; [lia|apply Hz; exact Hy].
  - split; [|split; [exact Hz|exact Hs]]. intros y [<-|Hy]; [exact Hge|]. pose proof (Hz y Hy). lia.
Qed.
Lemma filter_sorted f l : ssorted l -> ssorted (filter f l).
Proof.
  induction l as [|z l IH]; intros Hs; [exact I|]. destruct Hs as [Hz Hs]. cbn [filter]. destruct (f z); [|apply IH; exact Hs].
  cbn [ssorted]. split; [|apply IH; exact Hs]. intros y Hy. apply filter_In in Hy. apply Hz. exact (proj1 Hy).
Qed.
Lemma replace_id_sorted l i x : ssorted l -> (forall y, In y l -> sid y = i -> srh x = srh y) -> ssorted (replace_id l i x).
Proof.
  induction l as [|z l IH]; intros Hs Hx; [exact I|]. destruct Hs as [Hz Hs]. cbn [replace_id]. destruct (N.eqb_spec (sid z) i) as [E|E]; cbn [ssorted].
  - rewrite (Hx z (or_introl eq_refl) E). split; assumption.
  - split.
    + intros y Hy. assert (In y l \/ y = x /\ exists w, In w l /\ sid w = i).
      { clear -Hy. induction l as [|a m IHm]; [destruct Hy|]. cbn [replace_id] in Hy. destruct (N.eqb_spec (sid a) i) as [Ea|Ea].
        - destruct Hy as [<-|Hy]; [right; split; [reflexivity|exists a; split; [left; reflexivity|exact Ea]]|left; right; exact Hy].
        - destruct Hy as [<-|Hy]; [left; left; reflexivity|]. destruct (IHm Hy) as [H|[H1 (w & H2 & H3)]]; [left; right; exact H|right; split; [exact H1|exists w; split; [right; exact H2|exact H3]]]. }
      destruct H as [H|[-> (w & Hw & Hi)]]; [apply Hz; exact H|]. rewrite (Hx w (or_intror Hw) Hi). apply Hz. exact Hw.
    + apply IH; [exact Hs|]. intros y Hy. apply Hx. right. exact Hy.
Qed.

Lemma find_same_rh h k l y : find (same h k) l = Some y -> In y l /\ srh y = bit_reverse_u64 h /\ skey y = k.
Proof.
  intros H. apply find_some in H. destruct H as [H1 H2]. unfold same in H2. apply andb_true_iff in H2. destruct H2 as [A B].
  apply N.eqb_eq in A. apply N.eqb_eq in B. auto.
Qed.

(* node ids are unique *)
Definition uids (l : table_t) : Prop := NoDup (map sid l).
Lemma uids_inj l : uids l -> forall a b, In a l -> In b l -> sid a = sid b -> a = b.
Proof.
  induction l as [|z l IH]; intros H a b Ha Hb E; [destruct Ha|]. unfold uids in H. cbn [map] in H. inversion H as [|? ? Hni Hnd]; subst.
  destruct Ha as [<-|Ha], Hb as [<-|Hb]; [reflexivity| | |apply IH; assumption].
  - exfalso. apply Hni. rewrite E. apply in_map. exact Hb.
  - exfalso. apply Hni. rewrite <- E. apply in_map. exact Ha.
Qed.
Lemma in_map_ins_after x l s : In s (map sid (ins_after x l)) <-> s = sid x \/ In s (map sid l).
Proof.
  induction l as [|z l IH]; cbn [ins_after map In]; [intuition|]. destruct (srh z <=? srh x); cbn [map In]; [rewrite IH|]; intuition.
Qed.
Lemma in_map_ins_before x l s : In s (map sid (ins_before x l)) <-> s = sid x \/ In s (map sid l).
Proof.
  induction l as [|z l IH]; cbn [ins_before map In]; [intuition|]. destruct (srh z <? srh x); cbn [map In]; [rewrite IH|]; intuition.
Qed.
Lemma ins_after_uids x l : uids l -> ~ In (sid x) (map sid l) -> uids (ins_after x l).
Proof.
  unfold uids. induction l as [|z l IH]; intros H Hx; cbn [ins_after map]; [constructor; [intros []|constructor]|].
  cbn [map] in H, Hx. inversion H as [|? ? Hni Hnd]; subst. destruct (srh z <=? srh x); cbn [map].
  - constructor; [rewrite in_map_ins_after; intros [E|Hin]; [apply Hx; left; exact E|contradiction]|apply IH; [exact Hnd|intros Hi; apply Hx; right; exact Hi]].
  - constructor; [exact Hx|exact H].
Qed.
Lemma ins_before_uids x l : uids l -> ~ In (sid x) (map sid l) -> uids (ins_before x l).
Proof.
  unfold uids. induction l as [|z l IH]; intros H Hx; cbn [ins_before map]; [constructor; [intros []|constructor]|].
  cbn [map] in H, Hx. inversion H as [|? ? Hni Hnd]; subst. destruct (srh z <? srh x); cbn [map].
  - constructor; [rewrite in_map_ins_before; intros [E|Hin]; [apply Hx; left; exact E|contradiction]|apply IH; [exact Hnd|intros Hi; apply Hx; right; exact Hi]].
  - constructor; [exact Hx|exact H].
Qed.
Lemma in_map_replace l i x s : In s (map sid (replace_id l i x)) -> s = sid x \/ In s (map sid l).
Proof.
  induction l as [|z l IH]; cbn [replace_id map In]; [tauto|]. destruct (sid z =? i); cbn [map In]; [intuition|]. intros [E|H]; [right; left; exact E|destruct (IH H); intuition].
Qed.
Lemma replace_uids l i x : uids l -> ~ In (sid x) (map sid l) -> uids (replace_id l i x).
Proof.
  unfold uids. induction l as [|z l IH]; intros H Hx; cbn [replace_id map]; [constructor|].
  cbn [map] in H, Hx. inversion H as [|? ? Hni Hnd]; subst. destruct (sid z =? i); cbn [map].
  - constructor; [intros Hi; apply Hx; right; exact Hi|exact Hnd].
  - constructor; [intros Hi; destruct (in_map_replace _ _ _ _ Hi) as [E|Hi']; [apply Hx; left; exact E|contradiction]|apply IH; [exact Hnd|intros Hi; apply Hx; right; exact Hi]].
Qed.
Lemma filter_uids f l : uids l -> uids (filter f l).
Proof.
  unfold uids. induction l as [|z l IH]; intros H; [constructor|]. cbn [map] in H. inversion H as [|? ? Hni Hnd]; subst. cbn [filter]. destruct (f z); cbn [map]; [|apply IH; exact Hnd].
  constructor; [|apply IH; exact Hnd]. intros Hi. apply Hni. apply in_map_iff in Hi. destruct Hi as (w & E & Hw). apply filter_In in Hw. rewrite <- E. apply in_map. exact (proj1 Hw).
Qed.

(* contract of an operation: a node handed to the table has a fresh id; the replacement node of cds_lfht_replace has the hash of the node it replaces
   (the real API checks this through the caller's match function and returns -EINVAL otherwise) *)
Definition contract (l : table_t) (o : sop) : Prop :=
  match o with
  | SAdd x | SAddUnique x | SAddReplace x => ~ In (sid x) (map sid l)
  | SReplace old x => ~ In (sid x) (map sid l) /\ forall y, In y l -> sid y = old -> srh x = srh y
  | _ => True
  end.

(* every operation keeps the table sorted by reverse hash and the ids unique *)
Theorem sstep_wf l o : ssorted l -> uids l -> contract l o -> ssorted (fst (sstep l o)) /\ uids (fst (sstep l o)).
Proof.
  intros Hs Hu Hc. destruct o as [x|x|x|old x|i|h k|cur| | | |]; cbn [sstep contract] in *; try (split; assumption).
  - split; [apply ins_after_sorted; exact Hs|apply ins_after_uids; assumption].
  - destruct (lookup l (shash x) (skey x)) eqn:E; cbn [fst]; [split; assumption|split; [apply ins_before_sorted; exact Hs|apply ins_before_uids; assumption]].
  - destruct (lookup l (shash x) (skey x)) as [y|] eqn:E; cbn [fst]; [|split; [apply ins_before_sorted; exact Hs|apply ins_before_uids; assumption]].
    destruct (find_same_rh _ _ _ _ E) as (Hy & Hrh & _). split; [|apply replace_uids; assumption].
    apply replace_id_sorted; [exact Hs|]. intros w Hw Hi. rewrite (uids_inj l Hu w y Hw Hy Hi). unfold srh at 1. symmetry. exact Hrh.
  - destruct Hc as [Hc1 Hc2]. destruct (present l old); cbn [fst]; [split; [apply replace_id_sorted; assumption|apply replace_uids; assumption]|split; assumption].
  - destruct (present l i); cbn [fst]; [split; [apply filter_sorted; exact Hs|apply filter_uids; exact Hu]|split; assumption].
Qed.

(* lookup answers: a node is returned iff a node with that hash and key is stored; the node returned is the first of them in table order *)
Theorem lookup_spec l h k : (lookup l h k = None <-> forall y, In y l -> same h k y = false) /\
  (forall y, lookup l h k = Some y -> In y l /\ same h k y = true).
Proof.
  unfold lookup. split.
  - split; [intros H y Hy; apply (find_none _ _ H y Hy)|]. intros H. destruct (find (same h k) l) as [y|] eqn:E; [|reflexivity].
    apply find_some in E. rewrite (H y (proj1 E)) in E. destruct E; discriminate.
  - intros y H. apply find_some in H. exact H.
Qed.
(* a full traversal visits every stored node exactly once, count_nodes is their number, destroy succeeds iff the table is empty *)
Theorem traversal_count_destroy l : uids l ->
  NoDup (match snd (sstep l STraverse) with RList v => v | _ => [] end) /\
  snd (sstep l SCount) = RInt (N.of_nat (length l)) /\ (snd (sstep l SDestroy) = RInt 0 <-> l = []).
Proof.
  intros Hu. cbn. split; [exact Hu|split; [reflexivity|]]. destruct l; split; intros H; try reflexivity; discriminate.
Qed.
(* C06, sequential half: with insertions through add_unique / add_replace / replace only, no two stored nodes ever share a (hash, key) *)
Definition nodupkey (l : table_t) : Prop := forall a b, In a l -> In b l -> srh a = srh b -> skey a = skey b -> a = b.
Lemma in_replace_id l i x z : uids l -> In z (replace_id l i x) -> z = x \/ (In z l /\ sid z <> i).
Proof.
  unfold uids. induction l as [|y l IH]; cbn [replace_id]; [intros _ []|]. intros Hu. cbn [map] in Hu. inversion Hu as [|? ? Hni Hnd]; subst.
  destruct (N.eqb_spec (sid y) i) as [E|E].
  - intros [<-|H]; [left; reflexivity|]. right. split; [right; exact H|]. intros Ez. apply Hni. rewrite E, <- Ez. apply in_map. exact H.
  - intros [<-|H]; [right; split; [left; reflexivity|exact E]|]. destruct (IH Hnd H) as [->|[H1 H2]]; [left; reflexivity|right; split; [right; exact H1|exact H2]].
Qed.
Lemma nodupkey_replace l y x : uids l -> nodupkey l -> In y l -> srh x = srh y -> skey x = skey y -> nodupkey (replace_id l (sid y) x).
Proof.
  intros Hu Hk Hy Hr Hs a b Ha Hb Er Ek.
  destruct (in_replace_id _ _ _ _ Hu Ha) as [->|[Ha1 Ha2]], (in_replace_id _ _ _ _ Hu Hb) as [->|[Hb1 Hb2]]; [reflexivity| | |apply Hk; assumption].
  - exfalso. apply Hb2. f_equal. apply Hk; [exact Hb1|exact Hy|congruence|congruence].
  - exfalso. apply Ha2. f_equal. apply Hk; [exact Ha1|exact Hy|congruence|congruence].
Qed.
Lemma nodupkey_ins_before l x : nodupkey l -> lookup l (shash x) (skey x) = None -> nodupkey (ins_before x l).
Proof.
  intros Hk Hn a b Ha Hb Er Ek. apply ins_before_in in Ha. apply ins_before_in in Hb.
  assert (Hno : forall z, In z l -> srh z = srh x -> skey z = skey x -> False).
  { intros z Hz E1 E2. pose proof (find_none _ _ Hn z Hz) as F. unfold same in F. unfold srh in E1 at 2. rewrite E1, E2, !N.eqb_refl in F. discriminate. }
  destruct Ha as [->|Ha], Hb as [->|Hb]; [reflexivity| | |apply Hk; assumption]; exfalso; [apply (Hno b Hb)|apply (Hno a Ha)]; congruence.
Qed.
Theorem unique_ops_keep_keys_unique l o : uids l -> nodupkey l -> contract l o ->
  (match o with SAdd _ => False | SReplace old x => forall y, In y l -> sid y = old -> skey x = skey y | _ => True end) ->
  nodupkey (fst (sstep l o)).
Proof.
  intros Hu Hk Hc Hx. destruct o as [x|x|x|old x|i|h k|cur| | | |]; cbn [sstep contract] in *; try exact Hk; try contradiction.
  - destruct (lookup l (shash x) (skey x)) eqn:E; cbn [fst]; [exact Hk|apply nodupkey_ins_before; assumption].
  - destruct (lookup l (shash x) (skey x)) as [y|] eqn:E; cbn [fst]; [|apply nodupkey_ins_before; assumption].
    destruct (find_same_rh _ _ _ _ E) as (Hy & Hrh & Hkey). apply nodupkey_replace; auto; try (unfold srh at 1; symmetry; exact Hrh); try (symmetry; exact Hkey).
  - destruct Hc as [_ Hc2]. destruct (present l old) eqn:Ep; cbn [fst]; [|exact Hk]. unfold present in Ep. apply existsb_exists in Ep. destruct Ep as (y & Hy & Ey). apply N.eqb_eq in Ey. subst old.
    apply nodupkey_replace; auto.
  - destruct (present l i); cbn [fst]; [|exact Hk]. intros a b Ha Hb. apply filter_In in Ha. apply filter_In in Hb. apply Hk; [exact (proj1 Ha)|exact (proj1 Hb)].
Qed.
(* hence a duplicate walk (lookup, then next_duplicate) never returns a second node *)
Theorem unique_keys_no_second_duplicate l cur : uids l -> nodupkey l -> In cur l -> next_dup l cur = None.
Proof.
  intros Hu Hk Hc. unfold next_dup. destruct (find (same (shash cur) (skey cur)) (after_id l (sid cur))) as [z|] eqn:E; [|reflexivity]. exfalso.
  destruct (find_same_rh _ _ _ _ E) as (Hz & Hr & Hkey).
  assert (Hsub : forall m i w, In w (after_id m i) -> In w m) by (induction m as [|q m IHm]; intros i w Hw; [destruct Hw|cbn [after_id] in Hw; destruct (sid q =? i); [right; exact Hw|right; apply (IHm i w Hw)]]).
  assert (Hzc : z = cur) by (apply Hk; [apply (Hsub l (sid cur) z Hz)|exact Hc|exact Hr|exact Hkey]). subst z.
  (* cur cannot occur after itself in a list with unique ids *)
  clear -Hu Hz. unfold uids in Hu. induction l as [|q l IH]; [destruct Hz|]. cbn [map] in Hu. inversion Hu as [|? ? Hni Hnd]; subst. cbn [after_id] in Hz.
  destruct (N.eqb_spec (sid q) (sid cur)) as [Eq|Eq]; [apply Hni; rewrite Eq; apply in_map; exact Hz|apply IH; assumption].
Qed.
Print Assumptions unique_ops_keep_keys_unique.
Print Assumptions sstep_wf.
