(* C17: progress statements over the executable models.
   Wait-free operations finish within a fixed number of their own steps from ANY state (no hypothesis on memory or on the other threads):
   wfcqueue enqueue, wfstack push.  Lock-free operations finish when they run alone: lfstack push within two cmpxchg attempts from any state;
   rculfqueue enqueue within 4*d+4 steps (Lfq/LfqSolo.v).  None of these programs contains a waiting step (relax / sleep). *)
From Coq Require Import List Arith NArith Bool Lia.
Import ListNotations.
Require Import Urcu.Base.MachE Urcu.Wfcq.Wfcq Urcu.Wfs.Wfs Urcu.Gen.Generated.
Local Open Scope N_scope.

Section SOLO_E.
Variable loc : Type.
Variable loc_eqb : loc -> loc -> bool.
Variable P : prog loc.
Fixpoint solo (t : nat) (k : nat) (s : state loc P) : state loc P :=
  match k with O => s | S k' => solo t k' (fst (exec loc loc_eqb P (Step t) s)) end.
End SOLO_E.

Lemma solo_S loc loc_eqb P t k s : solo loc loc_eqb P t (S k) s = solo loc loc_eqb P t k (fst (exec loc loc_eqb P (Step t) s)).
Proof. reflexivity. Qed.
Lemma solo_O loc loc_eqb P t s : solo loc loc_eqb P t 0 s = s.
Proof. reflexivity. Qed.

Definition is_wait {loc} (a : act loc) : bool := match a with ARelax _ | ASleep _ => true | _ => false end.

(* wfcqueue enqueue: call, fence, tail exchange, link store, return - five own steps from any state with an empty own store buffer *)
Theorem wfcq_enqueue_wait_free (s : state wloc wprog) t n rest :
  tpc _ _ (sthr _ _ s t) = {| wcur := W_Idle; wtodo := OEnq n :: rest |} -> tbuf _ _ (sthr _ _ s t) = [] ->
  tpc _ _ (sthr _ _ (solo wloc wloc_eqb wprog t 5 s) t) = {| wcur := W_Idle; wtodo := rest |}.
Proof.
  intros Hpc Hb. destruct s as [m th]. cbn [sthr] in Hpc, Hb.
  destruct (th t) as [pc0 b0] eqn:Et. cbn [tpc tbuf] in Hpc, Hb. subst pc0 b0.
  rewrite solo_S. unfold exec. cbn [sthr smem]. rewrite Et. unfold tstep. cbn [tpc tbuf pact pnext wprog wact wnext wcur wtodo fst snd].
  do 4 (rewrite solo_S; unfold exec; cbn [sthr smem]; rewrite tupd_same; unfold tstep; cbn [tpc tbuf pact pnext wprog wact wnext wcur wtodo fst snd app]).
  rewrite solo_O. cbn [sthr]. rewrite tupd_same. reflexivity.
Qed.
Lemma wfcq_enqueue_never_waits n old b : is_wait (wact {| wcur := E_Mb n; wtodo := [] |}) = false /\ is_wait (wact {| wcur := E_Xchg n; wtodo := [] |}) = false /\
  is_wait (wact {| wcur := E_Store n old; wtodo := [] |}) = false /\ is_wait (wact {| wcur := E_Ret b; wtodo := [] |}) = false.
Proof. repeat split. Qed.

(* wfstack push: same shape *)
Theorem wfs_push_wait_free (s : state sloc sprog) t n rest :
  tpc _ _ (sthr _ _ s t) = {| scur := S_Idle; stodo := OPush n :: rest |} -> tbuf _ _ (sthr _ _ s t) = [] ->
  tpc _ _ (sthr _ _ (solo sloc sloc_eqb sprog t 5 s) t) = {| scur := S_Idle; stodo := rest |}.
Proof.
  intros Hpc Hb. destruct s as [m th]. cbn [sthr] in Hpc, Hb.
  destruct (th t) as [pc0 b0] eqn:Et. cbn [tpc tbuf] in Hpc, Hb. subst pc0 b0.
  rewrite solo_S. unfold exec. cbn [sthr smem]. rewrite Et. unfold tstep. cbn [tpc tbuf pact pnext sprog sact snext scur stodo fst snd].
  do 4 (rewrite solo_S; unfold exec; cbn [sthr smem]; rewrite tupd_same; unfold tstep; cbn [tpc tbuf pact pnext sprog sact snext scur stodo fst snd app]).
  rewrite solo_O. cbn [sthr]. rewrite tupd_same. reflexivity.
Qed.
(* wfstack pop_all: the exchange itself is one step; what follows is the caller's iteration over its private list *)
Theorem wfs_pop_all_exchange_wait_free (s : state sloc sprog) t rest :
  tpc _ _ (sthr _ _ s t) = {| scur := S_Idle; stodo := OPopAll :: rest |} -> tbuf _ _ (sthr _ _ s t) = [] ->
  exists h, scur (tpc _ _ (sthr _ _ (solo sloc sloc_eqb sprog t 2 s) t)) = (if emit_legacy_mb then A_Mb h else A_Iter h).
Proof.
  intros Hpc Hb. destruct s as [m th]. cbn [sthr] in Hpc, Hb.
  destruct (th t) as [pc0 b0] eqn:Et. cbn [tpc tbuf] in Hpc, Hb. subst pc0 b0.
  rewrite solo_S. unfold exec. cbn [sthr smem]. rewrite Et. unfold tstep. cbn [tpc tbuf pact pnext sprog sact snext scur stodo fst snd].
  rewrite solo_S; unfold exec; cbn [sthr smem]; rewrite tupd_same; unfold tstep; cbn [tpc tbuf pact pnext sprog sact snext scur stodo fst snd app].
  rewrite solo_O. cbn [sthr]. rewrite tupd_same. cbn [tpc scur]. eexists. reflexivity.
Qed.
Print Assumptions wfcq_enqueue_wait_free.
Print Assumptions wfs_push_wait_free.
