(* C17, lock-free part on the SC-with-drain machine (Base/MachD.v): lfstack push finishes within six own steps when it runs alone, from any state:
   the first cmpxchg (guessing an empty stack) may fail, the second cannot, because nobody else moves the head meanwhile. *)
From Coq Require Import List Arith NArith Bool Lia.
Import ListNotations.
Require Import Urcu.Base.MachD Urcu.Lfs.Lfs Urcu.Gen.Generated.
Local Open Scope N_scope.

Fixpoint soloD (t : nat) (k : nat) (s : state lloc lprog) : state lloc lprog :=
  match k with O => s | S k' => soloD t k' (fst (exec lloc lloc_eqb lprog (Step t) s)) end.
Lemma soloD_S t k s : soloD t (S k) s = soloD t k (fst (exec lloc lloc_eqb lprog (Step t) s)).
Proof. reflexivity. Qed.

Lemma drain_head_post (m : mem lloc) n r : drain lloc lloc_eqb m [(LNext n, r)] LHead = m LHead.
Proof. reflexivity. Qed.

Theorem lfs_push_solo_bound (s : state lloc lprog) t n rest last :
  tpc _ _ (sthr _ _ s t) = {| lcur := F_Idle; ltodo := OPush n :: rest; llast := last |} ->
  exists k, (k <= 6)%nat /\ tpc _ _ (sthr _ _ (soloD t k s) t) = {| lcur := F_Idle; ltodo := rest; llast := last |}.
Proof.
  intros Hpc. destruct s as [m th]. cbn [sthr] in Hpc. destruct (th t) as [pc0 b0] eqn:Et. cbn [tpc] in Hpc. subst pc0.
  destruct (N.eqb_spec (drain lloc lloc_eqb (upd lloc lloc_eqb m (LNext n) 0) b0 LHead) 0) as [E0|E0].
  - exists 4%nat. split; [lia|].
    rewrite soloD_S. unfold exec. cbn [sthr smem]. rewrite Et. unfold tstep. cbn [tpc tbuf pact pnext ppost lprog lact lnext lpost lcur ltodo llast fst snd mbq emit_legacy_mb].
    rewrite soloD_S. unfold exec. cbn [sthr smem]. rewrite tupd_same. unfold tstep. cbn [tpc tbuf pact pnext ppost lprog lact lnext lpost lcur ltodo llast fst snd mbq emit_legacy_mb].
    rewrite soloD_S. unfold exec. cbn [sthr smem]. rewrite tupd_same. unfold tstep. cbn [tpc tbuf pact pnext ppost lprog lact lnext lpost lcur ltodo llast fst snd mbq emit_legacy_mb drain].
    rewrite E0. cbn [N.eqb].
    rewrite soloD_S. unfold exec. cbn [sthr smem]. rewrite tupd_same. unfold tstep. cbn [tpc tbuf pact pnext ppost lprog lact lnext lpost lcur ltodo llast fst snd mbq emit_legacy_mb drain].
    cbn [soloD sthr]. rewrite tupd_same. reflexivity.
  - exists 6%nat. split; [lia|].
    rewrite soloD_S. unfold exec. cbn [sthr smem]. rewrite Et. unfold tstep. cbn [tpc tbuf pact pnext ppost lprog lact lnext lpost lcur ltodo llast fst snd mbq emit_legacy_mb].
    rewrite soloD_S. unfold exec. cbn [sthr smem]. rewrite tupd_same. unfold tstep. cbn [tpc tbuf pact pnext ppost lprog lact lnext lpost lcur ltodo llast fst snd mbq emit_legacy_mb].
    rewrite soloD_S. unfold exec. cbn [sthr smem]. rewrite tupd_same. unfold tstep. cbn [tpc tbuf pact pnext ppost lprog lact lnext lpost lcur ltodo llast fst snd mbq emit_legacy_mb drain].
    set (r := drain lloc lloc_eqb (upd lloc lloc_eqb m (LNext n) 0) b0 LHead) in *.
    destruct (N.eqb_spec r 0) as [C|_]; [contradiction|].
    rewrite soloD_S. unfold exec. cbn [sthr smem]. rewrite tupd_same. unfold tstep. cbn [tpc tbuf pact pnext ppost lprog lact lnext lpost lcur ltodo llast fst snd mbq emit_legacy_mb drain].
    rewrite soloD_S. unfold exec. cbn [sthr smem]. rewrite tupd_same. unfold tstep. cbn [tpc tbuf pact pnext ppost lprog lact lnext lpost lcur ltodo llast fst snd mbq emit_legacy_mb drain].
    match goal with |- context [N.eqb ?a r] => replace a with r by (unfold upd; cbn; reflexivity) end.
    rewrite N.eqb_refl.
    rewrite soloD_S. unfold exec. cbn [sthr smem]. rewrite tupd_same. unfold tstep. cbn [tpc tbuf pact pnext ppost lprog lact lnext lpost lcur ltodo llast fst snd mbq emit_legacy_mb drain].
    cbn [soloD sthr]. rewrite tupd_same. reflexivity.
Qed.
Print Assumptions lfs_push_solo_bound.

(* no waiting step exists in the lock-free programs: every step is a load, a store, a locked read-modify-write, a fence or a call/return event -
   retries are caused by other threads' steps only, and suspended operations are helped (tail advance, unlink), never waited for *)
Require Import Urcu.Lfq.Lfq Urcu.Lfht.Lfht.
Definition is_waitD {loc} (a : act loc) : bool := match a with ARelax _ | ASleep _ => true | _ => false end.
Theorem lfq_never_waits (s : qst) : is_waitD (qact s) = false.
Proof. destruct s as [c td su]. destruct c; cbn; try reflexivity; destruct td as [|[]]; cbn; try reflexivity; repeat match goal with |- context [if ?b then _ else _] => destruct b end; reflexivity. Qed.
Theorem lfht_never_waits (s : hst) : is_waitD (hact s) = false.
Proof. destruct s as [c td f]. destruct c; cbn; try reflexivity; try (destruct td as [|[]]; cbn; reflexivity); repeat match goal with |- context [if ?b then _ else _] => destruct b end; reflexivity. Qed.
Theorem lfs_push_pop_all_never_wait (s : lst) : match lcur s with O_Lock | A_Lock => True | _ => is_waitD (lact s) = false end.
Proof. destruct s as [c td l]. destruct c; cbn; try exact I; try reflexivity. destruct td as [|[]]; cbn; try reflexivity. destruct (l =? 0); reflexivity. Qed.
Print Assumptions lfq_never_waits.
Print Assumptions lfht_never_waits.
