(* C17, read-side primitives of a registered thread (mb-flavor model with dynamic registry, Gp/GpMbDyn.v): rcu_read_lock and rcu_read_unlock finish within
   a fixed number of the thread's OWN steps (plus the draining of its own store buffer at the fence) from ANY state - whatever the updater and the other
   readers are doing, including a grace period in progress; no step of theirs is needed and none can undo the progress. *)
From Coq Require Import List Arith Bool Lia.
Import ListNotations.
Require Import Urcu.Gp.GpMbDyn.

Fixpoint drain (r : nat) (k : nat) (s : state) : state := match k with O => s | S k' => drain r k' (step (C_Flush r) s) end.

Lemma rd_setrd s r x : rd (setrd s r x) r = x.
Proof. cbn. apply upd_same. Qed.

Lemma drain_empties r : forall k s, length (rbuf (rd s r)) = k -> rbuf (rd (drain r k s) r) = [] /\ pc (rd (drain r k s) r) = pc (rd s r).
Proof.
  induction k as [|k IH]; intros s Hl; cbn [drain].
  - destruct (rbuf (rd s r)); [split; reflexivity|discriminate].
  - destruct (rbuf (rd s r)) as [|w b] eqn:Eb; [discriminate|]. cbn [length] in Hl.
    assert (Es : step (C_Flush r) s = setrd s r {| rmem := w; rbuf := b; pc := pc (rd s r); old_open := old_open (rd s r) |}) by (cbn [step]; rewrite Eb; reflexivity).
    rewrite Es. destruct (IH (setrd s r {| rmem := w; rbuf := b; pc := pc (rd s r); old_open := old_open (rd s r) |})) as [A B]; [rewrite rd_setrd; cbn; lia|].
    split; [exact A|]. rewrite B, rd_setrd. reflexivity.
Qed.

(* outermost rcu_read_lock: load of the global phase, store of the reader word, fence (own buffer drained) - three own steps *)
Theorem read_lock_wait_free s r : pc (rd s r) = R_Idle ->
  let s2 := step (C_Lock r) (step (C_Lock r) s) in
  let s3 := step (C_Lock r) (drain r (length (rbuf (rd s2 r))) s2) in
  pc (rd s3 r) = R_In (gpar s) 0.
Proof.
  intros Hpc s2 s3.
  assert (E1 : pc (rd (step (C_Lock r) s) r) = R_Loaded (gpar s)) by (cbn [step]; rewrite Hpc; rewrite rd_setrd; reflexivity).
  assert (E2 : pc (rd s2 r) = R_Fence (gpar s)).
  { unfold s2. remember (step (C_Lock r) s) as s1 eqn:Es1. cbn [step]. rewrite E1. rewrite rd_setrd. reflexivity. }
  destruct (drain_empties r (length (rbuf (rd s2 r))) s2 eq_refl) as [A B].
  unfold s3. remember (drain r (length (rbuf (rd s2 r))) s2) as sd eqn:Esd. cbn [step]. rewrite B, E2, A. rewrite rd_setrd. reflexivity.
Qed.
(* nested rcu_read_lock and every rcu_read_unlock: one own step *)
Theorem read_lock_nested_wait_free s r p n : pc (rd s r) = R_In p n -> pc (rd (step (C_Lock r) s) r) = R_In p (S n).
Proof. intros Hpc. cbn [step]. rewrite Hpc, rd_setrd. reflexivity. Qed.
Theorem read_unlock_wait_free s r p n : pc (rd s r) = R_In p n ->
  pc (rd (step (C_Unlock r) s) r) = match n with O => R_Idle | S m => R_In p m end.
Proof. intros Hpc. cbn [step]. rewrite Hpc. destruct n; rewrite rd_setrd; reflexivity. Qed.
(* steps of other threads (readers, updater, registrations) never touch this reader's program counter: its progress cannot be undone *)
Theorem others_do_not_interfere s r c : (forall r', c <> C_Lock r' \/ r' <> r) -> (forall r', c <> C_Unlock r' \/ r' <> r) ->
  pc (rd (step c s) r) = pc (rd s r).
Proof.
  intros H1 H2. destruct c as [r0|r0|r0| |r0|r0|r0]; cbn [step].
  - assert (r0 <> r) by (destruct (H1 r0) as [H|H]; [congruence|exact H]).
    destruct (pc (rd s r0)); try (destruct (rbuf (rd s r0))); cbn [setrd rd]; try reflexivity; rewrite upd_other by congruence; reflexivity.
  - assert (r0 <> r) by (destruct (H2 r0) as [H|H]; [congruence|exact H]).
    destruct (pc (rd s r0)) as [| | |p [|n]]; cbn [setrd rd]; try reflexivity; rewrite upd_other by congruence; reflexivity.
  - destruct (rbuf (rd s r0)); cbn [setrd rd]; [reflexivity|]. destruct (Nat.eq_dec r r0) as [->|Hne]; [rewrite upd_same; reflexivity|rewrite upd_other by exact Hne; reflexivity].
  - destruct (ph s); reflexivity.
  - destruct (ph s); try reflexivity; destruct (loc s r0); try reflexivity; destruct (Nat.eqb (snd (rmem (rd s r0))) 0); try reflexivity; destruct (Bool.eqb (fst (rmem (rd s r0))) (gpar s)); reflexivity.
  - destruct (pc (rd s r0)); try reflexivity; destruct (rbuf (rd s r0)); try reflexivity; destruct (reg s r0); reflexivity.
  - destruct (pc (rd s r0)); try reflexivity; destruct (rbuf (rd s r0)); try reflexivity; destruct (reg s r0); reflexivity.
Qed.
Print Assumptions read_lock_wait_free.
Print Assumptions others_do_not_interfere.
