(* rculfhash.c cds_lfht_resize_lazy_count: the lazy resize request issued by add / del when the node count crosses a threshold.  Executable model of the decision
   (clamp, "already the right size", monotonic-increase grow request, compare-and-swap loop of the shrink request) and its progress property: the shrink loop
   retries only when ANOTHER thread changed resize_target between two of its attempts - the value it retries with is the value it has just observed - so the
   caller finishes within two attempts of any window in which the target does not change (lock-free; it never waits for the resize worker). *)
From Coq Require Import List Arith NArith Bool Lia.
Import ListNotations.
Local Open Scope N_scope.

Inductive res := Launch | Quiet.
Inductive it := Done (tgt' : N) (r : res) | Retry (size' : N).
(* one attempt of the shrink loop: s = cmpxchg(&resize_target, size, count), tgt being the value of resize_target at that instant *)
Definition attempt (tgt size count : N) : it :=
  if tgt =? size then Done count Launch            (* exchanged: break, launch *)
  else if size <? tgt then Done tgt Quiet          (* growing is (was just) in progress *)
  else if tgt <=? count then Done tgt Quiet        (* some other thread shrinks further *)
  else Retry tgt.                                  (* size = s *)
(* the loop against the successive values of resize_target seen by its attempts (other threads may change it in between; this thread changes it only when done) *)
Fixpoint shrink_run (obs : list N) (size count : N) : option (N * res * nat) :=
  match obs with
  | [] => None
  | t :: rest => match attempt t size count with
                 | Done t' r => Some (t', r, 1%nat)
                 | Retry s' => match shrink_run rest s' count with Some (t', r, n) => Some (t', r, S n) | None => None end
                 end
  end.
(* _uatomic_xchg_monotonic_increase without interference: new value of the word, value returned *)
Definition grow_request (tgt v : N) : N * N := if v <=? tgt then (tgt, tgt) else (v, tgt).
(* the whole function, resize_target not changed by others meanwhile *)
Definition lazy_count (auto : bool) (maxb tgt size count : N) : N * res :=
  if negb auto then (tgt, Quiet) else
  let c := N.min (N.max count 1) maxb in
  if c =? size then (tgt, Quiet)
  else if size <? c then let '(t', old) := grow_request tgt c in (t', if c <=? old then Quiet else Launch)
  else match shrink_run [tgt; tgt] size c with Some (t', r, _) => (t', r) | None => (tgt, Quiet) end.

(* a retry carries the observed value: the next attempt fails only if the target is no longer that value *)
Lemma retry_carries_observed tgt size count s' : attempt tgt size count = Retry s' -> s' = tgt.
Proof. unfold attempt. destruct (tgt =? size); [discriminate|]. destruct (size <? tgt); [discriminate|]. destruct (tgt <=? count); [discriminate|]. intros H; inversion H; reflexivity. Qed.
Lemma attempt_same tgt count : exists t' r, attempt tgt tgt count = Done t' r.
Proof. unfold attempt. rewrite N.eqb_refl. eauto. Qed.
Theorem retry_means_target_changed t1 t2 size count s1 s2 :
  attempt t1 size count = Retry s1 -> attempt t2 s1 count = Retry s2 -> t2 <> t1.
Proof. intros H1 H2 E. subst t2. apply retry_carries_observed in H1. subst s1. destruct (attempt_same t1 count) as (t' & r & E). congruence. Qed.
(* lock-freedom: whatever happened before, two consecutive attempts that see the same target end the loop *)
Theorem shrink_lock_free pre : forall t post size count, shrink_run (pre ++ t :: t :: post) size count <> None.
Proof.
  induction pre as [|x pre IH]; intros t post size count; cbn [app shrink_run].
  - destruct (attempt t size count) as [t' r|s'] eqn:E1; [discriminate|]. apply retry_carries_observed in E1. subst s'.
    destruct (attempt_same t count) as (t' & r & E). rewrite E. discriminate.
  - destruct (attempt x size count) as [t' r|sz]; [discriminate|]. specialize (IH t post sz count).
    destruct (shrink_run (pre ++ t :: t :: post) sz count) as [[[t' r] n]|]; [discriminate|contradiction].
Qed.
(* alone, the call needs at most two attempts, whatever the arguments *)
Theorem shrink_solo_two_attempts tgt size count : exists t' r n, shrink_run [tgt; tgt] size count = Some (t', r, n) /\ (n <= 2)%nat.
Proof.
  cbn [shrink_run]. destruct (attempt tgt size count) as [t' r|s'] eqn:E1; [exists t', r, 1%nat; split; [reflexivity|lia]|].
  apply retry_carries_observed in E1. subst s'. destruct (attempt_same tgt count) as (t' & r & E). rewrite E. exists t', r, 2%nat. split; [reflexivity|lia].
Qed.
(* the number of attempts is at most two more than the number of changes of the target between them *)
Fixpoint changes (obs : list N) : nat := match obs with a :: ((b :: _) as r) => (if a =? b then 0 else 1) + changes r | _ => 0 end.
Theorem shrink_attempts_bounded obs : forall size count t' r n, shrink_run obs size count = Some (t', r, n) ->
  (1 <= n <= 2 + changes (firstn n obs))%nat.
Proof.
  induction obs as [|a obs IH]; intros size count t' r n H; cbn [shrink_run] in H; [discriminate|].
  destruct (attempt a size count) as [t1 r1|s1] eqn:E1; [inversion H; subst; cbn; lia|].
  apply retry_carries_observed in E1. subst s1.
  destruct (shrink_run obs a count) as [[[t2 r2] n2]|] eqn:E2; [|discriminate]. inversion H; subst. clear H.
  pose proof (IH _ _ _ _ _ E2) as [Hn1 Hn2]. split; [lia|].
  destruct obs as [|b obs]; [discriminate|]. destruct n2 as [|n3]; [lia|]. cbn [firstn] in *.
  cbn [shrink_run] in E2. destruct (N.eqb_spec a b) as [->|Hne].
  - destruct (attempt_same b count) as (t3 & r3 & E3). rewrite E3 in E2. inversion E2; subst. cbn. lia.
  - change (changes (a :: b :: firstn n3 obs)) with ((if (a =? b)%N then 0 else 1) + changes (b :: firstn n3 obs))%nat.
    destruct (N.eqb_spec a b); [contradiction|]. lia.
Qed.

(* what the request does to the target: a shrink request never raises it and never lowers it below the clamped count; a grow request never lowers it *)
Theorem lazy_count_target auto maxb tgt size count : 1 <= maxb ->
  let c := N.min (N.max count 1) maxb in let '(t', r) := lazy_count auto maxb tgt size count in
  (t' = tgt \/ t' = c) /\ (r = Launch -> auto = true /\ t' = c /\ c <> size) /\ (t' <> tgt -> r = Launch) /\
  (auto = true -> size < c -> tgt <= t' /\ c <= t') /\ (auto = true -> c < size -> t' <= tgt).
Proof.
  intros Hm c. unfold lazy_count. fold c. destruct auto; cbn [negb]; [|repeat split; try (left; reflexivity); try discriminate; intros; try lia; try contradiction].
  destruct (N.eqb_spec c size) as [E|E]; [repeat split; try (left; reflexivity); try discriminate; intros; try lia; try contradiction|].
  destruct (N.ltb_spec size c) as [Hg|Hs].
  - unfold grow_request. destruct (N.leb_spec c tgt) as [H1|H1].
    + destruct (N.leb_spec c tgt); [|lia]. repeat split; try (left; reflexivity); try discriminate; intros; try lia; try contradiction.
    + destruct (N.leb_spec c tgt); [lia|]. repeat split; try (right; reflexivity); intros; try lia; try reflexivity.
  - cbn [shrink_run]. unfold attempt. destruct (N.eqb_spec tgt size) as [E1|E1]; [repeat split; try (right; reflexivity); intros; try lia; try reflexivity|].
    destruct (N.ltb_spec size tgt); [repeat split; try (left; reflexivity); try discriminate; intros; try lia; try contradiction|].
    destruct (N.leb_spec tgt c); [repeat split; try (left; reflexivity); try discriminate; intros; try lia; try contradiction|].
    cbv beta iota. rewrite N.eqb_refl. repeat split; try (right; reflexivity); intros; try lia; try reflexivity.
Qed.
Print Assumptions shrink_lock_free.
Print Assumptions shrink_attempts_bounded.
Print Assumptions lazy_count_target.

(* the spin of a loop that retries with the table's current size instead of the observed target (refuted variant, for the record): size 8 published, target 4
   pending, request for 2 - every attempt compares against 8 and fails *)
Definition attempt_bad (htsize tgt size count : N) : it :=
  match attempt tgt size count with Retry _ => Retry htsize | d => d end.
Fixpoint shrink_run_bad (n : nat) (htsize tgt size count : N) : option (N * res) :=
  match n with O => None | S n' => match attempt_bad htsize tgt size count with Done t' r => Some (t', r) | Retry s' => shrink_run_bad n' htsize tgt s' count end end.
Theorem retry_with_table_size_refuted : forall n, shrink_run_bad n 8 4 8 2 = None.
Proof. induction n as [|n IH]; [reflexivity|]. cbn [shrink_run_bad]. exact IH. Qed.

(* ---- the grow request: _uatomic_xchg_monotonic_increase(&resize_target, v), with other threads changing the target between attempts ----
     old1 = load ; do { old2 = old1 ; if (old2 >= v) return old2 ; } while ((old1 = cmpxchg(ptr, old2, v)) != old2) ; return old2                      *)
Inductive git := GDone (tgt' ret : N) | GRetry (old' : N).
(* one round with expected value old (already known to be < v is checked first), tgt = the value of the word at the cmpxchg *)
Definition grow_attempt (tgt old v : N) : git :=
  if v <=? old then GDone tgt old                 (* nothing to raise *)
  else if tgt =? old then GDone v old             (* exchanged *)
  else GRetry tgt.                                (* old1 = the value the cmpxchg returned *)
Fixpoint grow_run (obs : list N) (old v : N) : option (N * N * nat) :=
  match obs with
  | [] => None
  | t :: rest => match grow_attempt t old v with
                 | GDone t' r => Some (t', r, 1%nat)
                 | GRetry o' => match grow_run rest o' v with Some (t', r, n) => Some (t', r, S n) | None => None end
                 end
  end.
Lemma grow_retry_carries_observed tgt old v o' : grow_attempt tgt old v = GRetry o' -> o' = tgt /\ tgt <> old.
Proof. unfold grow_attempt. destruct (v <=? old); [discriminate|]. destruct (N.eqb_spec tgt old) as [E|E]; [discriminate|]. intros H. inversion H. subst. split; [reflexivity|exact E]. Qed.
Lemma grow_attempt_same tgt v : exists t' r, grow_attempt tgt tgt v = GDone t' r.
Proof. unfold grow_attempt. destruct (v <=? tgt); [eauto|]. rewrite N.eqb_refl. eauto. Qed.
(* lock-freedom of the grow request: two consecutive rounds that meet the same target end the loop *)
Theorem grow_lock_free pre : forall t post old v, grow_run (pre ++ t :: t :: post) old v <> None.
Proof.
  induction pre as [|x pre IH]; intros t post old v; cbn [app grow_run].
  - destruct (grow_attempt t old v) as [t' r|o'] eqn:E1; [discriminate|]. apply grow_retry_carries_observed in E1. destruct E1 as [-> _].
    destruct (grow_attempt_same t v) as (t' & r & E). rewrite E. discriminate.
  - destruct (grow_attempt x old v) as [t' r|o']; [discriminate|]. specialize (IH t post o' v).
    destruct (grow_run (pre ++ t :: t :: post) o' v) as [[[t' r] n]|]; [discriminate|contradiction].
Qed.
(* what it does when alone (the word holds tgt throughout, first expected value = the loaded tgt): one round *)
Theorem grow_solo tgt v : grow_run [tgt] tgt v = Some (N.max tgt v, tgt, 1%nat).
Proof. cbn [grow_run]. unfold grow_attempt. destruct (N.leb_spec v tgt); [f_equal; f_equal; f_equal; lia|]. rewrite N.eqb_refl. f_equal. f_equal. f_equal. lia. Qed.
(* the loop that keeps its first expected value (does not feed the cmpxchg's result back) spins for ever once another thread has changed the target: 2 loaded, the
   word raised to 8 by somebody else, request for 4 - every cmpxchg expects 2 *)
Definition grow_attempt_bad (tgt old v : N) : git := match grow_attempt tgt old v with GRetry _ => GRetry old | d => d end.
Fixpoint grow_run_bad (n : nat) (tgt old v : N) : option (N * N) :=
  match n with O => None | S n' => match grow_attempt_bad tgt old v with GDone t' r => Some (t', r) | GRetry o' => grow_run_bad n' tgt o' v end end.
Theorem grow_stale_expected_refuted : forall n, grow_run_bad n 8 2 4 = None.
Proof. induction n as [|n IH]; [reflexivity|]. cbn [grow_run_bad]. exact IH. Qed.
Print Assumptions grow_lock_free.
