(* scratch: the call_rcu helper futex handshake (also rcu_barrier completion, defer thread, workqueue) on TSO.
   Wakers: enqueue (locked RMW) ; smp_mb ; load futex ; if -1 { store futex 0 (buffered) ; FUTEX_WAKE }.
   Helper: dec futex ; smp_mb ; loop { take everything ; if queue empty { smp_mb ; while (load futex == -1) FUTEX_WAIT ; dec ; smp_mb } }.
   Theorem: the helper is never blocked with callbacks queued once every waker has finished its call. *)
From Coq Require Import List Arith NArith Bool Lia.
Import ListNotations.
Local Open Scope N_scope.

Definition M1 : N := 18446744073709551615.
Inductive wpc := W_Enq | W_Mb | W_Load | W_Store | W_Wake | W_Done.
Inductive hpc := H_Dec | H_Mb1 | H_Splice | H_Check | H_Mb2 | H_LoadF | H_Wait | H_Blocked.
Record st := { futex : N; qn : nat; wp : nat -> wpc; wb : nat -> bool; gq : nat -> bool (* ghost: enqueued since the helper last saw the queue empty *); hp : hpc }.
Inductive choice := WStep (w : nat) | WFlush (w : nat) | HStep | HSpur.
Definition updf {A} (f : nat -> A) (r : nat) (x : A) : nat -> A := fun u => if Nat.eqb u r then x else f u.

Definition exec (c : choice) (s : st) : st :=
  match c with
  | WStep w =>
      match wp s w with
      | W_Enq => {| futex := futex s; qn := S (qn s); wp := updf (wp s) w W_Mb; wb := wb s; gq := updf (gq s) w true; hp := hp s |}
      | W_Mb => {| futex := futex s; qn := qn s; wp := updf (wp s) w W_Load; wb := wb s; gq := gq s; hp := hp s |}
      | W_Load => {| futex := futex s; qn := qn s; wp := updf (wp s) w (if (if wb s w then 0 else futex s) =? M1 then W_Store else W_Done); wb := wb s; gq := gq s; hp := hp s |}
      | W_Store => {| futex := futex s; qn := qn s; wp := updf (wp s) w W_Wake; wb := updf (wb s) w true; gq := gq s; hp := hp s |}
      | W_Wake => if wb s w then s
                  else {| futex := futex s; qn := qn s; wp := updf (wp s) w W_Done; wb := wb s; gq := gq s;
                          hp := match hp s with H_Blocked => H_LoadF | p => p end |}
      | W_Done => s
      end
  | WFlush w => if wb s w then {| futex := 0; qn := qn s; wp := wp s; wb := updf (wb s) w false; gq := gq s; hp := hp s |} else s
  | HStep =>
      let seth p := {| futex := futex s; qn := qn s; wp := wp s; wb := wb s; gq := gq s; hp := p |} in
      match hp s with
      | H_Dec => {| futex := (if futex s =? 0 then M1 else futex s - 1); qn := qn s; wp := wp s; wb := wb s; gq := gq s; hp := H_Mb1 |}
      | H_Mb1 => seth H_Splice
      | H_Splice => {| futex := futex s; qn := O; wp := wp s; wb := wb s; gq := gq s; hp := H_Check |}
      | H_Check => match qn s with
                   | O => {| futex := futex s; qn := O; wp := wp s; wb := wb s; gq := fun _ => false; hp := H_Mb2 |}
                   | _ => seth H_Splice
                   end
      | H_Mb2 => seth H_LoadF
      | H_LoadF => seth (if futex s =? M1 then H_Wait else H_Dec)
      | H_Wait => seth (if futex s =? M1 then H_Blocked else H_Dec)
      | H_Blocked => s
      end
  | HSpur => match hp s with H_Blocked => {| futex := futex s; qn := qn s; wp := wp s; wb := wb s; gq := gq s; hp := H_LoadF |} | _ => s end
  end.

Definition SE (p : hpc) : bool := match p with H_Mb2 | H_LoadF | H_Wait | H_Blocked => true | _ => false end.
Definition pendb (p : wpc) : bool := match p with W_Mb | W_Load | W_Store | W_Wake => true | _ => false end.

Record Inv (s : st) : Prop := {
  I_b1 : forall w, wb s w = true -> wp s w = W_Wake;
  I_a0 : futex s = 0 \/ futex s = M1;
  I_dec : hp s = H_Dec -> futex s = 0;
  I_k3a : SE (hp s) = true -> qn s <> O -> exists w, gq s w = true;
  I_k3b : SE (hp s) = true -> futex s = M1 -> forall w, gq s w = true -> pendb (wp s w) = true;
  I_k3c : SE (hp s) = true -> forall w, gq s w = true -> wp s w = W_Wake -> wb s w = false -> futex s <> M1;
  I_j2 : hp s = H_Blocked -> futex s <> M1 -> exists w, wp s w = W_Wake
}.

Lemma updf_same {A} (f : nat -> A) r x : updf f r x r = x.
Proof. unfold updf. rewrite Nat.eqb_refl. reflexivity. Qed.
Lemma updf_other {A} (f : nat -> A) r x u : u <> r -> updf f r x u = f u.
Proof. unfold updf. intros H. destruct (Nat.eqb_spec u r); [contradiction|reflexivity]. Qed.
Lemma M1_nz : M1 <> 0. Proof. discriminate. Qed.

Lemma Inv_wstep s w wp' wb' : Inv s ->
  (forall u, u <> w -> wp' u = wp s u) -> (forall u, u <> w -> wb' u = wb s u) ->
  (wb' w = true -> wp' w = W_Wake) ->
  (SE (hp s) = true -> futex s = M1 -> gq s w = true -> pendb (wp' w) = true) ->
  (SE (hp s) = true -> gq s w = true -> wp' w = W_Wake -> wb' w = false -> futex s <> M1) ->
  (wp s w = W_Wake -> wp' w = W_Wake) ->
  Inv {| futex := futex s; qn := qn s; wp := wp'; wb := wb'; gq := gq s; hp := hp s |}.
Proof.
  intros HI e1 e2 c1 c2 c3 c4. constructor; cbn [futex qn wp wb gq hp].
  - intros u. destruct (Nat.eq_dec u w) as [->|Hu]; [exact c1|rewrite (e1 u Hu), (e2 u Hu); apply (I_b1 s HI)].
  - apply (I_a0 s HI).
  - apply (I_dec s HI).
  - apply (I_k3a s HI).
  - intros Hse Hf u. destruct (Nat.eq_dec u w) as [->|Hu]; [apply (c2 Hse Hf)|rewrite (e1 u Hu); apply (I_k3b s HI Hse Hf)].
  - intros Hse u. destruct (Nat.eq_dec u w) as [->|Hu]; [apply (c3 Hse)|rewrite (e1 u Hu), (e2 u Hu); apply (I_k3c s HI Hse)].
  - intros Hb Hf. destruct (I_j2 s HI Hb Hf) as [u Hu]. exists u.
    destruct (Nat.eq_dec u w) as [->|Hne]; [apply c4; exact Hu|rewrite (e1 u Hne); exact Hu].
Qed.

Definition seth (s : st) p : st := {| futex := futex s; qn := qn s; wp := wp s; wb := wb s; gq := gq s; hp := p |}.
Lemma Inv_hset s p' : Inv s -> (SE p' = true -> SE (hp s) = true) -> (p' = H_Dec -> futex s = 0) -> (p' = H_Blocked -> hp s = H_Blocked \/ futex s = M1) -> Inv (seth s p').
Proof.
  intros HI c1 c2 c3. constructor; cbn [seth futex qn wp wb gq hp].
  - apply (I_b1 s HI).
  - apply (I_a0 s HI).
  - exact c2.
  - intros H. apply (I_k3a s HI (c1 H)).
  - intros H. apply (I_k3b s HI (c1 H)).
  - intros H. apply (I_k3c s HI (c1 H)).
  - intros H Hf. destruct (c3 H) as [Hb|Hm]; [apply (I_j2 s HI Hb Hf)|contradiction].
Qed.

Lemma wb_false s w : Inv s -> wp s w <> W_Wake -> wb s w = false.
Proof. intros HI H. destruct (wb s w) eqn:E; [|reflexivity]. exfalso. apply H. apply (I_b1 s HI w E). Qed.

Lemma Inv_exec s c : Inv s -> Inv (exec c s).
Proof.
  intros HI. destruct c as [w|w| |]; unfold exec.
  - (* waker step *)
    destruct (wp s w) eqn:Ep.
    + (* enqueue *)
      constructor; cbn [futex qn wp wb gq hp].
      * intros u Hu. destruct (Nat.eq_dec u w) as [->|Hne]; [rewrite (wb_false s w HI) in Hu by (rewrite Ep; discriminate); discriminate|rewrite updf_other by exact Hne; apply (I_b1 s HI u Hu)].
      * apply (I_a0 s HI).
      * apply (I_dec s HI).
      * intros _ _. exists w. apply updf_same.
      * intros Hse Hf u. destruct (Nat.eq_dec u w) as [->|Hne]; [rewrite !updf_same; reflexivity|rewrite !updf_other by exact Hne; apply (I_k3b s HI Hse Hf)].
      * intros Hse u. destruct (Nat.eq_dec u w) as [->|Hne]; [rewrite !updf_same; discriminate|rewrite !updf_other by exact Hne; apply (I_k3c s HI Hse)].
      * intros Hb Hf. destruct (I_j2 s HI Hb Hf) as [u Hu]. exists u. rewrite updf_other; [exact Hu|]. intros ->. congruence.
    + (* mb *)
      apply (Inv_wstep s w); try exact HI; try (intros u Hu; apply updf_other; exact Hu); try (intros; reflexivity); rewrite ?updf_same; try discriminate; try reflexivity.
      * intros H. rewrite (wb_false s w HI) in H by (rewrite Ep; discriminate). discriminate.
      * rewrite Ep. discriminate.
    + (* load futex *)
      rewrite (wb_false s w HI) by (rewrite Ep; discriminate).
      apply (Inv_wstep s w); try exact HI; try (intros u Hu; apply updf_other; exact Hu); try (intros; reflexivity); rewrite ?updf_same.
      * intros H. rewrite (wb_false s w HI) in H by (rewrite Ep; discriminate). discriminate.
      * intros _ Hf _. rewrite Hf, N.eqb_refl. reflexivity.
      * intros _ _ H. destruct (futex s =? M1); discriminate.
      * rewrite Ep. discriminate.
    + (* store futex := 0 (buffered) *)
      apply (Inv_wstep s w); try exact HI; try (intros u Hu; apply updf_other; exact Hu); rewrite ?updf_same; try reflexivity; try discriminate; try (rewrite Ep; discriminate).
    + (* FUTEX_WAKE *)
      destruct (wb s w) eqn:Eb; [exact HI|].
      assert (Hse : SE (match hp s with H_Blocked => H_LoadF | p => p end) = true -> SE (hp s) = true) by (destruct (hp s); exact (fun x => x)).
      constructor; cbn [futex qn wp wb gq hp].
      * intros u Hu. destruct (Nat.eq_dec u w) as [->|Hne]; [congruence|rewrite updf_other by exact Hne; apply (I_b1 s HI u Hu)].
      * apply (I_a0 s HI).
      * intros H. apply (I_dec s HI). destruct (hp s); try discriminate; reflexivity.
      * intros H. apply (I_k3a s HI (Hse H)).
      * intros H Hf u Hg. destruct (Nat.eq_dec u w) as [->|Hne]; [exfalso; apply (I_k3c s HI (Hse H) w Hg Ep Eb); exact Hf|rewrite updf_other by exact Hne; apply (I_k3b s HI (Hse H) Hf u Hg)].
      * intros H u Hg. destruct (Nat.eq_dec u w) as [->|Hne]; [rewrite updf_same; discriminate|rewrite updf_other by exact Hne; apply (I_k3c s HI (Hse H) u Hg)].
      * intros H. destruct (hp s); discriminate.
    + exact HI.
  - (* flush of the buffered futex := 0 *)
    destruct (wb s w) eqn:Eb; [|exact HI].
    pose proof (I_b1 s HI w Eb) as Hw.
    constructor; cbn [futex qn wp wb gq hp].
    + intros u Hu. destruct (Nat.eq_dec u w) as [->|Hne]; [rewrite updf_same in Hu; discriminate|rewrite updf_other in Hu by exact Hne; apply (I_b1 s HI u Hu)].
    + left. reflexivity.
    + reflexivity.
    + apply (I_k3a s HI).
    + intros _ H. discriminate H.
    + intros _ u _ _ _. discriminate.
    + intros _ _. exists w. exact Hw.
  - (* helper step *)
    destruct (hp s) eqn:Eh.
    + (* dec *) rewrite (I_dec s HI Eh). cbn [N.eqb]. constructor; cbn [futex qn wp wb gq hp SE]; try discriminate; [apply (I_b1 s HI)|right; reflexivity].
    + change (Inv (seth s H_Splice)). apply Inv_hset; [exact HI|discriminate|discriminate|discriminate].
    + (* take everything *) constructor; cbn [futex qn wp wb gq hp SE]; try discriminate; [apply (I_b1 s HI)|apply (I_a0 s HI)].
    + destruct (qn s) eqn:Eq.
      * constructor; cbn [futex qn wp wb gq hp SE]; try discriminate; [apply (I_b1 s HI)|apply (I_a0 s HI)|intros _ H; contradiction].
      * rewrite <- Eq. change (Inv (seth s H_Splice)). apply Inv_hset; [exact HI|discriminate|discriminate|discriminate].
    + change (Inv (seth s H_LoadF)). apply Inv_hset; [exact HI|rewrite Eh; reflexivity|discriminate|discriminate].
    + destruct (N.eqb_spec (futex s) M1) as [E|E].
      * change (Inv (seth s H_Wait)). apply Inv_hset; [exact HI|rewrite Eh; reflexivity|discriminate|discriminate].
      * change (Inv (seth s H_Dec)). apply Inv_hset; [exact HI|discriminate| |discriminate]. intros _. destruct (I_a0 s HI) as [H|H]; [exact H|contradiction].
    + destruct (N.eqb_spec (futex s) M1) as [E|E].
      * change (Inv (seth s H_Blocked)). apply Inv_hset; [exact HI|rewrite Eh; reflexivity|discriminate|intros _; right; exact E].
      * change (Inv (seth s H_Dec)). apply Inv_hset; [exact HI|discriminate| |discriminate]. intros _. destruct (I_a0 s HI) as [H|H]; [exact H|contradiction].
    + exact HI.
  - (* spurious wake-up *)
    destruct (hp s) eqn:Eh; try exact HI. change (Inv (seth s H_LoadF)). apply Inv_hset; [exact HI|rewrite Eh; reflexivity|discriminate|discriminate].
Qed.

Definition init : st := {| futex := 0; qn := O; wp := fun _ => W_Enq; wb := fun _ => false; gq := fun _ => false; hp := H_Dec |}.
Lemma Inv_init : Inv init.
Proof. constructor; cbn [init futex qn wp wb gq hp SE]; try discriminate; [left; reflexivity|reflexivity]. Qed.

Lemma Inv_run cs : forall s0, Inv s0 -> Inv (fold_left (fun s c => exec c s) cs s0).
Proof. induction cs as [|c cs IH]; intros s0 H0; [exact H0|cbn [fold_left]; apply IH; apply Inv_exec; exact H0]. Qed.

(* any number of callers, every schedule and flush order: a helper asleep on its futex with every caller finished has no callback queued *)
Theorem helper_no_lost_wakeup : forall cs, let s := fold_left (fun s c => exec c s) cs init in
  hp s = H_Blocked -> (forall w, wp s w = W_Done \/ wp s w = W_Enq) -> qn s = O.
Proof.
  intros cs s Hb Hall.
  assert (HI : Inv s) by (apply Inv_run; apply Inv_init).
  assert (Hse : SE (hp s) = true) by (rewrite Hb; reflexivity).
  destruct (N.eq_dec (futex s) M1) as [E|E].
  - destruct (qn s) eqn:Eq; [reflexivity|exfalso].
    destruct (I_k3a s HI Hse) as [w Hw]; [rewrite Eq; discriminate|].
    pose proof (I_k3b s HI Hse E w Hw) as Hp. destruct (Hall w) as [H|H]; rewrite H in Hp; discriminate.
  - exfalso. destruct (I_j2 s HI Hb E) as [w Hw]. destruct (Hall w) as [H|H]; congruence.
Qed.
Print Assumptions helper_no_lost_wakeup.
