(* scratch: once every reader is between sections with an empty store buffer, the updater running alone finishes its wait
   within an explicit number of its own steps — from EVERY reachable state (never blocked, never sleeps) *)
From Coq Require Import List Arith NArith Bool Lia.
Import ListNotations.
Require Import Urcu.Futex.Futex Urcu.Futex.FutexInv.
Local Open Scope N_scope.

Section N.
Variable n : nat.
Notation exec := (exec n).
Notation Inv := (Inv n).

Definition quiescent (s : st) : Prop := forall r, outb (rp (rd s r)) = true /\ rb (rd s r) = [].
Fixpoint usolo (k : nat) (s : st) : st := match k with O => s | S k' => usolo k' (exec UStep s) end.
Definition mu (u : upc) : nat :=
  match u with
  | U_Done => 0 | U_Reset => 1 | U_Mb3 => 2
  | U_Scan todo [] => length todo + 3
  | U_Mb1 inp => length inp + 4
  | U_Dec inp => length inp + 5
  | U_LoadF k | U_Wait k => length k + 6
  | U_Mb2 k => length k + 7
  | U_Scan todo (k :: ks) => length todo + length (k :: ks) + 8
  | U_Blocked k => length k + 9
  end%nat.

Lemma q_ctr s : Inv s -> quiescent s -> forall r, ctr s r = 0.
Proof.
  intros HI HQ r. destruct (HQ r) as [Ho Hb]. pose proof (I_new n s HI r) as H. unfold newest in H. rewrite Hb in H. cbn in H. apply H.
  intros E. rewrite E in Ho. discriminate.
Qed.
Lemma q_noW s : quiescent s -> ~ W s.
Proof.
  intros HQ [[r H]|[r [H _]]]; destruct (HQ r) as [Ho _]; destruct (rp (rd s r)); discriminate.
Qed.
Lemma q_futex s : Inv s -> quiescent s -> inP2 (up s) = true -> futex s <> M1.
Proof. intros HI HQ Hp E. apply (q_noW s HQ). apply (I_k2 n s HI Hp E). Qed.
Lemma q_not_blocked s : Inv s -> quiescent s -> blocked (up s) = false.
Proof.
  intros HI HQ. destruct (blocked (up s)) eqn:Eb; [|reflexivity]. exfalso.
  destruct (N.eq_dec (futex s) M1) as [E|E].
  - apply (q_noW s HQ). apply (I_k2 n s HI); [destruct (up s); try discriminate; reflexivity|exact E].
  - destruct (I_j n s HI Eb E) as [r H]. destruct (HQ r) as [Ho _]. rewrite H in Ho. discriminate.
Qed.
Lemma q_step s : quiescent s -> quiescent (exec UStep s).
Proof.
  intros HQ. unfold Futex.exec. destruct (up s) as [inp|inp|todo kept|k|k|k|k| | | ];
    try (destruct todo as [|r0 todo]; [destruct kept|]);
    try destruct (futex s =? M1);
    first [exact HQ | intros r; apply HQ | intros r; cbn [membarrier rd rp rb]; split; [apply (proj1 (HQ r))|reflexivity]].
Qed.

(* every solo step of the updater strictly decreases the measure *)
Lemma mu_step s : Inv s -> quiescent s -> (0 < mu (up s))%nat -> (mu (up (exec UStep s)) < mu (up s))%nat.
Proof.
  intros HI HQ Hpos. pose proof (q_not_blocked s HI HQ) as Hnb. pose proof (q_futex s HI HQ) as Hf.
  unfold Futex.exec. destruct (up s) as [inp|inp|todo kept|k|k|k|k| | | ] eqn:Eu; cbn [up membarrier mu setu] in *; try lia; try discriminate.
  - destruct todo as [|r0 todo].
    + destruct kept as [|k ks]; cbn [up setu mu length]; lia.
    + rewrite (q_ctr s HI HQ r0). cbn [N.eqb]. cbn [up setu]. destruct kept as [|k ks]; cbn [mu length]; lia.
  - destruct (N.eqb_spec (futex s) M1) as [E|E]; [exfalso; apply (Hf eq_refl E)|]. cbn [up setu mu]. lia.
  - destruct (N.eqb_spec (futex s) M1) as [E|E]; [exfalso; apply (Hf eq_refl E)|]. cbn [up setu mu]. lia.
Qed.

Theorem gp_solo_terminates : forall m s, Inv s -> quiescent s -> (mu (up s) <= m)%nat -> up (usolo m s) = U_Done.
Proof.
  induction m as [|m IH]; intros s HI HQ Hm; cbn [usolo].
  - destruct (up s); cbn [mu] in Hm; try lia; try (destruct kept; cbn in Hm; lia). reflexivity.
  - apply IH; [apply (Inv_exec n); exact HI|apply q_step; exact HQ|].
    destruct (Nat.eq_dec (mu (up s)) 0) as [E|E].
    + assert (Hd : up s = U_Done) by (destruct (up s); cbn [mu] in E; try lia; try (destruct kept; cbn in E; lia); reflexivity).
      unfold Futex.exec. rewrite Hd. rewrite Hd. cbn. lia.
    + pose proof (mu_step s HI HQ ltac:(lia)). lia.
Qed.
End N.
Print Assumptions gp_solo_terminates.
