(* qsbr: the "waiting" flag / futex handshake between wait_for_readers() and the readers' quiescent-state announcement (src/urcu-qsbr.c:wait_for_readers,
   wait_gp; include/urcu/static/urcu-qsbr.h: urcu_qsbr_wake_up_gp, quiescent_state_update_and_wakeup).  Both sides have full fences between their accesses,
   so one pass of the updater is modelled on sequentially consistent steps, starting from ARBITRARY reader states (readers may still be anywhere in the
   wake-up path of an earlier pass, with stale flags):
     updater:  futex := -1 ; waiting[r] := 1 for every reader of the input list ; mb ; scan every reader (quiescent ones leave the list) ;
               list empty ? futex := 0, done : { while (futex == -1) FUTEX_WAIT(-1) }
     reader:   ctr := gp (quiescent) ; mb ; if (waiting) { waiting := 0 ; mb ; if (futex == -1) { futex := 0 ; FUTEX_WAKE } }
   Theorem: whenever the updater is asleep and not woken, some reader is still short of the end of its announcement - so once every reader has finished, the
   updater is not left asleep (no lost wake-up); spurious wake-ups are allowed at any time. *)
From Coq Require Import List Arith Bool Lia.
Import ListNotations.

Inductive rp := RIdle | R1 | R2 | R3 | R4 | R5 | RDone.
Inductive up := U0 | U1 (todo : list nat) | U2 | U3 (todo : list nat) | U5 | U6 | U7 | UOut.
Record st := { futex : bool (* true = -1 *); waiting : nat -> bool; rpc : nat -> rp; inp : nat -> bool; upc : up; woken : bool }.
Inductive choice := UStep | RStep (r : nat) | Spurious.
Definition upd {A} (f : nat -> A) (k : nat) (v : A) : nat -> A := fun x => if Nat.eqb x k then v else f x.
Definition is_idle (p : rp) : bool := match p with RIdle => true | _ => false end.

Section Q.
Variable inp0 : list nat.      (* the input list of this pass *)

Definition step (c : choice) (s : st) : st :=
  match c with
  | UStep =>
      match upc s with
      | U0 => {| futex := true; waiting := waiting s; rpc := rpc s; inp := inp s; upc := U1 inp0; woken := woken s |}
      | U1 (r :: l) => {| futex := futex s; waiting := upd (waiting s) r true; rpc := rpc s; inp := inp s; upc := U1 l; woken := woken s |}
      | U1 [] => {| futex := futex s; waiting := waiting s; rpc := rpc s; inp := inp s; upc := U2; woken := woken s |}
      | U2 => {| futex := futex s; waiting := waiting s; rpc := rpc s; inp := inp s; upc := U3 inp0; woken := woken s |}
      | U3 (r :: l) => {| futex := futex s; waiting := waiting s; rpc := rpc s; inp := (if is_idle (rpc s r) then inp s else upd (inp s) r false); upc := U3 l; woken := woken s |}
      | U3 [] => if existsb (inp s) inp0
                 then {| futex := futex s; waiting := waiting s; rpc := rpc s; inp := inp s; upc := U5; woken := woken s |}
                 else {| futex := false; waiting := waiting s; rpc := rpc s; inp := inp s; upc := UOut; woken := woken s |}
      | U5 => {| futex := futex s; waiting := waiting s; rpc := rpc s; inp := inp s; upc := (if futex s then U6 else UOut); woken := woken s |}
      | U6 => if futex s then {| futex := futex s; waiting := waiting s; rpc := rpc s; inp := inp s; upc := U7; woken := false |}
              else {| futex := futex s; waiting := waiting s; rpc := rpc s; inp := inp s; upc := UOut; woken := woken s |}
      | U7 => if woken s then {| futex := futex s; waiting := waiting s; rpc := rpc s; inp := inp s; upc := U5; woken := false |} else s
      | UOut => s
      end
  | RStep r =>
      let setp p := {| futex := futex s; waiting := waiting s; rpc := upd (rpc s) r p; inp := inp s; upc := upc s; woken := woken s |} in
      match rpc s r with
      | RIdle => setp R1
      | R1 => setp (if waiting s r then R2 else RDone)
      | R2 => {| futex := futex s; waiting := upd (waiting s) r false; rpc := upd (rpc s) r R3; inp := inp s; upc := upc s; woken := woken s |}
      | R3 => setp (if futex s then R4 else RDone)
      | R4 => {| futex := false; waiting := waiting s; rpc := upd (rpc s) r R5; inp := inp s; upc := upc s; woken := woken s |}
      | R5 => {| futex := futex s; waiting := waiting s; rpc := upd (rpc s) r RDone; inp := inp s; upc := upc s; woken := true |}
      | RDone => s
      end
  | Spurious => {| futex := futex s; waiting := waiting s; rpc := rpc s; inp := inp s; upc := upc s; woken := true |}
  end.

Definition flagged (s : st) (r : nat) : Prop :=
  match upc s with U0 | UOut => False | U1 l => ~ In r l | _ => True end.
Definition scanned (s : st) (r : nat) : Prop :=
  match upc s with U3 l => ~ In r l | U5 | U6 | U7 => True | _ => False end.
Definition onpath (p : rp) : Prop := match p with RIdle | R1 | R2 | R3 => True | _ => False end.
Definition waker (p : rp) : Prop := match p with R4 | R5 => True | _ => False end.

Record Inv (s : st) : Prop := {
  I_nd : NoDup inp0;
  I_todo : match upc s with U1 l | U3 l => exists pre, inp0 = pre ++ l | _ => True end;
  I_flag : forall r, In r inp0 -> flagged s r -> rpc s r = RIdle -> waiting s r = true;
  I_r1 : forall r, In r inp0 -> scanned s r -> inp s r = true -> rpc s r = R1 -> waiting s r = true;
  I_done : forall r, In r inp0 -> scanned s r -> inp s r = true -> (rpc s r = R5 \/ rpc s r = RDone) -> futex s = false;
  I_some : match upc s with U5 | U6 | U7 => exists r, In r inp0 /\ inp s r = true | _ => True end;
  I_sleep : upc s = U7 -> woken s = false ->
            (exists r, waker (rpc s r)) \/ (futex s = true /\ exists r, In r inp0 /\ inp s r = true /\ onpath (rpc s r))
}.

Lemma upd_same {A} (f : nat -> A) k v : upd f k v k = v.  Proof. unfold upd. now rewrite Nat.eqb_refl. Qed.
Lemma upd_other {A} (f : nat -> A) k v x : x <> k -> upd f k v x = f x.
Proof. unfold upd. intros H. destruct (Nat.eqb_spec x k); [contradiction|reflexivity]. Qed.

Lemma nodup_split_notin (pre : list nat) r l : NoDup (pre ++ r :: l) -> ~ In r l /\ ~ In r pre.
Proof. intros H. apply NoDup_remove_2 in H. split; intros Hin; apply H; apply in_or_app; [right|left]; exact Hin. Qed.

Lemma Inv_ustep s : Inv s -> Inv (step UStep s).
Proof.
  intros HI. pose proof HI as [Hnd Htd Hfl Hr1 Hdn Hsm Hsl]. unfold step.
  destruct (upc s) as [|[|r l]| |[|r l]| | | |] eqn:Eu.
  - (* U0 *) constructor; cbn [futex waiting rpc inp upc woken]; try exact Hnd; try exact I; try discriminate.
    + exists []. reflexivity.
    + intros r Hin Hf. unfold flagged in Hf; cbn in Hf. contradiction.
    + intros r _ Hs. unfold scanned in Hs; cbn in Hs. contradiction.
    + intros r _ Hs. unfold scanned in Hs; cbn in Hs. contradiction.
  - (* U1 [] *) constructor; cbn [futex waiting rpc inp upc woken]; try exact Hnd; try exact I; try discriminate.
    + intros r Hin _ Hp. apply (Hfl r Hin); [unfold flagged; rewrite Eu; intros []|exact Hp].
    + intros r _ Hs. unfold scanned in Hs; cbn in Hs. contradiction.
    + intros r _ Hs. unfold scanned in Hs; cbn in Hs. contradiction.
  - (* U1 (r :: l) *) destruct Htd as [pre Epre].
    constructor; cbn [futex waiting rpc inp upc woken]; try exact Hnd; try exact I; try discriminate.
    + exists (pre ++ [r]). rewrite <- app_assoc. exact Epre.
    + intros r0 Hin Hf Hp. unfold flagged in Hf; cbn in Hf. destruct (Nat.eq_dec r0 r) as [->|Hne]; [apply upd_same|].
      rewrite upd_other by exact Hne. apply (Hfl r0 Hin); [unfold flagged; rewrite Eu; intros [E|E]; [congruence|contradiction]|exact Hp].
    + intros r0 _ Hs. unfold scanned in Hs; cbn in Hs. contradiction.
    + intros r0 _ Hs. unfold scanned in Hs; cbn in Hs. contradiction.
  - (* U2 *) constructor; cbn [futex waiting rpc inp upc woken]; try exact Hnd; try exact I; try discriminate.
    + exists []. reflexivity.
    + intros r Hin _ Hp. apply (Hfl r Hin); [unfold flagged; rewrite Eu; exact I|exact Hp].
    + intros r Hin Hs. unfold scanned in Hs; cbn in Hs. contradiction.
    + intros r Hin Hs. unfold scanned in Hs; cbn in Hs. contradiction.
  - (* U3 [] *)
    assert (Hall : forall r, In r inp0 -> scanned s r) by (intros r _; unfold scanned; rewrite Eu; intros []).
    destruct (existsb (inp s) inp0) eqn:Ee.
    + constructor; cbn [futex waiting rpc inp upc woken]; try exact Hnd; try exact I; try discriminate.
      * intros r Hin _ Hp. apply (Hfl r Hin); [unfold flagged; rewrite Eu; exact I|exact Hp].
      * intros r Hin _. apply (Hr1 r Hin (Hall r Hin)).
      * intros r Hin _. apply (Hdn r Hin (Hall r Hin)).
      * apply existsb_exists in Ee. destruct Ee as (r & Hr & Hi). exists r. split; assumption.
    + constructor; cbn [futex waiting rpc inp upc woken]; try exact Hnd; try exact I; try discriminate.
      * intros r Hin Hf. unfold flagged in Hf; cbn in Hf. contradiction.
      * intros r _ Hs. unfold scanned in Hs; cbn in Hs. contradiction.
      * intros r _ Hs. unfold scanned in Hs; cbn in Hs. contradiction.
  - (* U3 (r :: l): scan of r *) destruct Htd as [pre Epre].
    assert (Hrl : ~ In r l /\ ~ In r pre) by (apply nodup_split_notin; rewrite <- Epre; exact Hnd).
    assert (Hsc : forall r0, scanned {| futex := futex s; waiting := waiting s; rpc := rpc s; inp := (if is_idle (rpc s r) then inp s else upd (inp s) r false); upc := U3 l; woken := woken s |} r0 -> r0 <> r -> scanned s r0).
    { intros r0 Hs Hne. unfold scanned in *; cbn [upc] in Hs. rewrite Eu. intros [E|E]; [congruence|contradiction]. }
    constructor; cbn [futex waiting rpc inp upc woken]; try exact Hnd; try exact I; try discriminate.
    + exists (pre ++ [r]). rewrite <- app_assoc. exact Epre.
    + intros r0 Hin _ Hp. apply (Hfl r0 Hin); [unfold flagged; rewrite Eu; exact I|exact Hp].
    + intros r0 Hin Hs Hi Hp. destruct (Nat.eq_dec r0 r) as [->|Hne].
      * destruct (is_idle (rpc s r)) eqn:Ei; [rewrite Hp in Ei; discriminate|rewrite upd_same in Hi; discriminate].
      * apply (Hr1 r0 Hin (Hsc r0 Hs Hne)); [|exact Hp]. destruct (is_idle (rpc s r)); [exact Hi|rewrite upd_other in Hi by exact Hne; exact Hi].
    + intros r0 Hin Hs Hi Hp. destruct (Nat.eq_dec r0 r) as [->|Hne].
      * destruct (is_idle (rpc s r)) eqn:Ei; [destruct Hp as [Hp|Hp]; rewrite Hp in Ei; discriminate|rewrite upd_same in Hi; discriminate].
      * apply (Hdn r0 Hin (Hsc r0 Hs Hne)); [|exact Hp]. destruct (is_idle (rpc s r)); [exact Hi|rewrite upd_other in Hi by exact Hne; exact Hi].
  - (* U5 *)
    assert (Hall : forall r, scanned s r) by (intros r; unfold scanned; rewrite Eu; exact I).
    destruct (futex s) eqn:Ef; constructor; cbn [futex waiting rpc inp upc woken]; try exact Hnd; try exact I; try discriminate; try exact Hsm.
    + intros r Hin _ Hp. apply (Hfl r Hin); [unfold flagged; rewrite Eu; exact I|exact Hp].
    + intros r Hin _. apply (Hr1 r Hin (Hall r)).
    + intros r Hin _ Hi Hp. apply (Hdn r Hin (Hall r) Hi Hp).
    + intros r Hin Hf. unfold flagged in Hf; cbn in Hf. contradiction.
    + intros r _ Hs. unfold scanned in Hs; cbn in Hs. contradiction.
    + intros r _ Hs. unfold scanned in Hs; cbn in Hs. contradiction.
  - (* U6: FUTEX_WAIT *)
    assert (Hall : forall r, scanned s r) by (intros r; unfold scanned; rewrite Eu; exact I).
    destruct (futex s) eqn:Ef; constructor; cbn [futex waiting rpc inp upc woken]; try exact Hnd; try exact I; try discriminate; try exact Hsm.
    + intros r Hin _ Hp. apply (Hfl r Hin); [unfold flagged; rewrite Eu; exact I|exact Hp].
    + intros r Hin _. apply (Hr1 r Hin (Hall r)).
    + intros r Hin _ Hi Hp. apply (Hdn r Hin (Hall r) Hi Hp).
    + (* going to sleep with futex = -1: a reader that stayed on the list has not finished *)
      intros _ _. destruct Hsm as (r & Hin & Hi).
      destruct (rpc s r) eqn:Ep; try (right; split; [reflexivity|exists r; rewrite Ep; repeat split; assumption]);
        try (left; exists r; rewrite Ep; exact I).
      pose proof (Hdn r Hin (Hall r) Hi (or_intror Ep)). discriminate.
    + intros r Hin Hf. unfold flagged in Hf; cbn in Hf. contradiction.
    + intros r _ Hs. unfold scanned in Hs; cbn in Hs. contradiction.
    + intros r _ Hs. unfold scanned in Hs; cbn in Hs. contradiction.
  - (* U7 *)
    assert (Hall : forall r, scanned s r) by (intros r; unfold scanned; rewrite Eu; exact I).
    destruct (woken s) eqn:Ew; [|exact HI].
    constructor; cbn [futex waiting rpc inp upc woken]; try exact Hnd; try exact I; try discriminate; try exact Hsm.
    + intros r Hin _ Hp. apply (Hfl r Hin); [unfold flagged; rewrite Eu; exact I|exact Hp].
    + intros r Hin _. apply (Hr1 r Hin (Hall r)).
    + intros r Hin _. apply (Hdn r Hin (Hall r)).
  - (* UOut *) exact HI.
Qed.

Lemma flagged_rstep s r : forall r0, flagged (step (RStep r) s) r0 <-> flagged s r0.
Proof. intros r0. unfold flagged, step. destruct (rpc s r); cbn [upc]; reflexivity. Qed.
Lemma scanned_rstep s r : forall r0, scanned (step (RStep r) s) r0 <-> scanned s r0.
Proof. intros r0. unfold scanned, step. destruct (rpc s r); cbn [upc]; reflexivity. Qed.

Lemma Inv_rstep s r : Inv s -> Inv (step (RStep r) s).
Proof.
  intros HI. pose proof HI as [Hnd Htd Hfl Hr1 Hdn Hsm Hsl].
  assert (Hfl' : forall r0, In r0 inp0 -> flagged (step (RStep r) s) r0 -> rpc s r0 = RIdle -> waiting s r0 = true) by (intros r0 Hin Hf; apply (Hfl r0 Hin); apply flagged_rstep in Hf; exact Hf).
  assert (Hr1' : forall r0, In r0 inp0 -> scanned (step (RStep r) s) r0 -> inp s r0 = true -> rpc s r0 = R1 -> waiting s r0 = true) by (intros r0 Hin Hs; apply (Hr1 r0 Hin); apply scanned_rstep in Hs; exact Hs).
  assert (Hdn' : forall r0, In r0 inp0 -> scanned (step (RStep r) s) r0 -> inp s r0 = true -> (rpc s r0 = R5 \/ rpc s r0 = RDone) -> futex s = false) by (intros r0 Hin Hs; apply (Hdn r0 Hin); apply scanned_rstep in Hs; exact Hs).
  revert Hfl' Hr1' Hdn'. unfold step. destruct (rpc s r) eqn:Ep; intros Hfl' Hr1' Hdn'.
  - (* RIdle -> R1: the reader has announced its quiescent state *)
    constructor; cbn [futex waiting rpc inp upc woken]; try exact Hnd; try exact Htd; try exact Hsm.
    + intros r0 Hin Hf Hp. destruct (Nat.eq_dec r0 r) as [->|Hne]; [rewrite upd_same in Hp; discriminate|rewrite upd_other in Hp by exact Hne; apply (Hfl' r0 Hin Hf Hp)].
    + intros r0 Hin Hs Hi Hp. destruct (Nat.eq_dec r0 r) as [->|Hne]; [|rewrite upd_other in Hp by exact Hne; apply (Hr1' r0 Hin Hs Hi Hp)].
      apply (Hfl r Hin); [|exact Ep]. unfold scanned in Hs; cbn [upc] in Hs. unfold flagged. destruct (upc s); try contradiction; exact I.
    + intros r0 Hin Hs Hi Hp. destruct (Nat.eq_dec r0 r) as [->|Hne]; [rewrite upd_same in Hp; destruct Hp; discriminate|rewrite upd_other in Hp by exact Hne; apply (Hdn' r0 Hin Hs Hi Hp)].
    + intros Eu Ew. destruct (Hsl Eu Ew) as [(r0 & Hw)|(Ef & r0 & Hin & Hi & Ho)].
      * left. exists r0. destruct (Nat.eq_dec r0 r) as [->|Hne]; [rewrite Ep in Hw; destruct Hw|rewrite upd_other by exact Hne; exact Hw].
      * right. split; [exact Ef|]. exists r0. destruct (Nat.eq_dec r0 r) as [->|Hne]; [rewrite upd_same; repeat split; assumption|rewrite upd_other by exact Hne; repeat split; assumption].
  - (* R1: look at the waiting flag *)
    constructor; cbn [futex waiting rpc inp upc woken]; try exact Hnd; try exact Htd; try exact Hsm.
    + intros r0 Hin Hf Hp. destruct (Nat.eq_dec r0 r) as [->|Hne]; [rewrite upd_same in Hp; destruct (waiting s r); discriminate|rewrite upd_other in Hp by exact Hne; apply (Hfl' r0 Hin Hf Hp)].
    + intros r0 Hin Hs Hi Hp. destruct (Nat.eq_dec r0 r) as [->|Hne]; [rewrite upd_same in Hp; destruct (waiting s r); discriminate|rewrite upd_other in Hp by exact Hne; apply (Hr1' r0 Hin Hs Hi Hp)].
    + intros r0 Hin Hs Hi Hp. destruct (Nat.eq_dec r0 r) as [->|Hne]; [|rewrite upd_other in Hp by exact Hne; apply (Hdn' r0 Hin Hs Hi Hp)].
      rewrite upd_same in Hp. rewrite (Hr1' r Hin Hs Hi Ep) in Hp. destruct Hp; discriminate.
    + intros Eu Ew. destruct (Hsl Eu Ew) as [(r0 & Hw)|(Ef & r0 & Hin & Hi & Ho)].
      * left. exists r0. destruct (Nat.eq_dec r0 r) as [->|Hne]; [rewrite Ep in Hw; destruct Hw|rewrite upd_other by exact Hne; exact Hw].
      * right. split; [exact Ef|]. exists r0. destruct (Nat.eq_dec r0 r) as [->|Hne]; [|rewrite upd_other by exact Hne; repeat split; assumption].
        rewrite upd_same. assert (Hs : scanned s r) by (unfold scanned; rewrite Eu; exact I). rewrite (Hr1 r Hin Hs Hi Ep). repeat split; assumption.
  - (* R2: clear the flag *)
    constructor; cbn [futex waiting rpc inp upc woken]; try exact Hnd; try exact Htd; try exact Hsm.
    + intros r0 Hin Hf Hp. destruct (Nat.eq_dec r0 r) as [->|Hne]; [rewrite upd_same in Hp; discriminate|rewrite upd_other in Hp by exact Hne; rewrite upd_other by exact Hne; apply (Hfl' r0 Hin Hf Hp)].
    + intros r0 Hin Hs Hi Hp. destruct (Nat.eq_dec r0 r) as [->|Hne]; [rewrite upd_same in Hp; discriminate|rewrite upd_other in Hp by exact Hne; rewrite upd_other by exact Hne; apply (Hr1' r0 Hin Hs Hi Hp)].
    + intros r0 Hin Hs Hi Hp. destruct (Nat.eq_dec r0 r) as [->|Hne]; [rewrite upd_same in Hp; destruct Hp; discriminate|rewrite upd_other in Hp by exact Hne; apply (Hdn' r0 Hin Hs Hi Hp)].
    + intros Eu Ew. destruct (Hsl Eu Ew) as [(r0 & Hw)|(Ef & r0 & Hin & Hi & Ho)].
      * left. exists r0. destruct (Nat.eq_dec r0 r) as [->|Hne]; [rewrite Ep in Hw; destruct Hw|rewrite upd_other by exact Hne; exact Hw].
      * right. split; [exact Ef|]. exists r0. destruct (Nat.eq_dec r0 r) as [->|Hne]; [rewrite upd_same; repeat split; assumption|rewrite upd_other by exact Hne; repeat split; assumption].
  - (* R3: look at the futex word *)
    constructor; cbn [futex waiting rpc inp upc woken]; try exact Hnd; try exact Htd; try exact Hsm.
    + intros r0 Hin Hf Hp. destruct (Nat.eq_dec r0 r) as [->|Hne]; [rewrite upd_same in Hp; destruct (futex s); discriminate|rewrite upd_other in Hp by exact Hne; apply (Hfl' r0 Hin Hf Hp)].
    + intros r0 Hin Hs Hi Hp. destruct (Nat.eq_dec r0 r) as [->|Hne]; [rewrite upd_same in Hp; destruct (futex s); discriminate|rewrite upd_other in Hp by exact Hne; apply (Hr1' r0 Hin Hs Hi Hp)].
    + intros r0 Hin Hs Hi Hp. destruct (Nat.eq_dec r0 r) as [->|Hne]; [|rewrite upd_other in Hp by exact Hne; apply (Hdn' r0 Hin Hs Hi Hp)].
      rewrite upd_same in Hp. destruct (futex s); [destruct Hp; discriminate|reflexivity].
    + intros Eu Ew. destruct (Hsl Eu Ew) as [(r0 & Hw)|(Ef & r0 & Hin & Hi & Ho)].
      * left. exists r0. destruct (Nat.eq_dec r0 r) as [->|Hne]; [rewrite Ep in Hw; destruct Hw|rewrite upd_other by exact Hne; exact Hw].
      * destruct (Nat.eq_dec r0 r) as [->|Hne]; [left; exists r; rewrite upd_same, Ef; exact I|].
        right. split; [exact Ef|]. exists r0. rewrite upd_other by exact Hne. repeat split; assumption.
  - (* R4: futex := 0 *)
    constructor; cbn [futex waiting rpc inp upc woken]; try exact Hnd; try exact Htd; try exact Hsm.
    + intros r0 Hin Hf Hp. destruct (Nat.eq_dec r0 r) as [->|Hne]; [rewrite upd_same in Hp; discriminate|rewrite upd_other in Hp by exact Hne; apply (Hfl' r0 Hin Hf Hp)].
    + intros r0 Hin Hs Hi Hp. destruct (Nat.eq_dec r0 r) as [->|Hne]; [rewrite upd_same in Hp; discriminate|rewrite upd_other in Hp by exact Hne; apply (Hr1' r0 Hin Hs Hi Hp)].
    + intros. reflexivity.
    + intros _ _. left. exists r. rewrite upd_same. exact I.
  - (* R5: FUTEX_WAKE *)
    constructor; cbn [futex waiting rpc inp upc woken]; try exact Hnd; try exact Htd; try exact Hsm; try discriminate.
    + intros r0 Hin Hf Hp. destruct (Nat.eq_dec r0 r) as [->|Hne]; [rewrite upd_same in Hp; discriminate|rewrite upd_other in Hp by exact Hne; apply (Hfl' r0 Hin Hf Hp)].
    + intros r0 Hin Hs Hi Hp. destruct (Nat.eq_dec r0 r) as [->|Hne]; [rewrite upd_same in Hp; discriminate|rewrite upd_other in Hp by exact Hne; apply (Hr1' r0 Hin Hs Hi Hp)].
    + intros r0 Hin Hs Hi Hp. destruct (Nat.eq_dec r0 r) as [->|Hne]; [apply (Hdn' r Hin Hs Hi); left; exact Ep|rewrite upd_other in Hp by exact Hne; apply (Hdn' r0 Hin Hs Hi Hp)].
  - exact HI.
Qed.

Lemma Inv_spurious s : Inv s -> Inv (step Spurious s).
Proof.
  intros [Hnd Htd Hfl Hr1 Hdn Hsm Hsl]. constructor; cbn [step futex waiting rpc inp upc woken]; try assumption. discriminate.
Qed.

Lemma Inv_step c s : Inv s -> Inv (step c s).
Proof. destruct c; [apply Inv_ustep|apply Inv_rstep|apply Inv_spurious]. Qed.

(* the pass starts from ANY reader configuration *)
Lemma Inv_start s : NoDup inp0 -> upc s = U0 -> Inv s.
Proof.
  intros Hnd Eu. constructor; try exact Hnd; try (rewrite Eu; exact I); try (rewrite Eu; discriminate).
  - intros r _ Hf. unfold flagged in Hf. rewrite Eu in Hf. contradiction.
  - intros r _ Hs. unfold scanned in Hs. rewrite Eu in Hs. contradiction.
  - intros r _ Hs. unfold scanned in Hs. rewrite Eu in Hs. contradiction.
Qed.

Definition run (cs : list choice) (s : st) : st := fold_left (fun x c => step c x) cs s.
Lemma Inv_run cs : forall s, Inv s -> Inv (run cs s).
Proof. induction cs as [|c cs IH]; intros s H; [exact H|cbn; apply IH; apply Inv_step; exact H]. Qed.

(* no lost wake-up: from any initial reader configuration and for every schedule, whenever the updater is asleep in FUTEX_WAIT and has not been woken, some reader
   is still short of the end of its announcement (it will either wake the updater or find the futex word already reset by a reader that will) *)
Theorem qsbr_no_lost_wakeup s0 cs : NoDup inp0 -> upc s0 = U0 ->
  let s := run cs s0 in upc s = U7 -> woken s = false -> exists r, rpc s r <> RDone /\ (waker (rpc s r) \/ (futex s = true /\ In r inp0 /\ inp s r = true)).
Proof.
  intros Hnd Eu s E7 Ew. pose proof (Inv_run cs s0 (Inv_start s0 Hnd Eu)) as HI. fold s in HI.
  destruct (I_sleep s HI E7 Ew) as [(r & Hw)|(Ef & r & Hin & Hi & Ho)].
  - exists r. split; [intros E; rewrite E in Hw; destruct Hw|left; exact Hw].
  - exists r. split; [intros E; rewrite E in Ho; destruct Ho|right; repeat split; assumption].
Qed.
Corollary qsbr_all_done_not_asleep s0 cs : NoDup inp0 -> upc s0 = U0 ->
  let s := run cs s0 in (forall r, rpc s r = RDone) -> upc s = U7 -> woken s = true.
Proof.
  intros Hnd Eu s Hall E7. destruct (woken s) eqn:Ew; [reflexivity|]. destruct (qsbr_no_lost_wakeup s0 cs Hnd Eu E7 Ew) as (r & Hne & _). destruct (Hne (Hall r)).
Qed.
End Q.
Print Assumptions qsbr_no_lost_wakeup.
Print Assumptions qsbr_all_done_not_asleep.
