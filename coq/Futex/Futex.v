(* scratch: the grace-period futex handshake of the memb flavor with sys_membarrier, on TSO.
   Readers run any number of sections and have NO fence (compiler barriers only); the updater's
   master barrier drains every store buffer.  Goal: the updater is never blocked on the futex
   unless some reader is still going to run (or finish) the wake-up path. *)
From Coq Require Import List Arith NArith Bool Lia.
Import ListNotations.
Local Open Scope N_scope.

Definition M1 : N := 18446744073709551615.          (* -1 as a 64-bit word *)
Inductive wr := WCtr (v : N) | WFut.               (* buffered store: own ctr := v, or futex := 0 *)
Definition is_fut (w : wr) : bool := match w with WFut => true | _ => false end.
Inductive rpc := R_Out | R_In | R_LoadF | R_StoreF | R_Wake | R_Done.
Record rst := { rp : rpc; rb : list wr }.
Inductive upc :=
| U_Dec (inp : list nat) | U_Mb1 (inp : list nat) | U_Scan (todo kept : list nat)
| U_Mb2 (kept : list nat) | U_LoadF (kept : list nat) | U_Wait (kept : list nat) | U_Blocked (kept : list nat)
| U_Mb3 | U_Reset | U_Done.
Record st := { futex : N; ctr : nat -> N; rd : nat -> rst; up : upc }.
Inductive choice := RStep (r : nat) | RFlush (r : nat) | UStep | USpur.

Definition updf {A} (f : nat -> A) (r : nat) (x : A) : nat -> A := fun u => if Nat.eqb u r then x else f u.
Fixpoint last_ctr (b : list wr) (d : N) : N := match b with [] => d | WCtr v :: b' => last_ctr b' v | WFut :: b' => last_ctr b' d end.
Definition has_fut (b : list wr) : bool := existsb is_fut b.

Section N.
Variable n : nat.                                    (* readers 0 .. n-1 exist *)
Definition any_fut (rdm : nat -> rst) : bool := existsb (fun r => has_fut (rb (rdm r))) (seq 0 n).
(* sys_membarrier: every store buffer is drained *)
Definition membarrier (s : st) (u : upc) : st :=
  {| futex := if any_fut (rd s) then 0 else futex s;
     ctr := fun r => last_ctr (rb (rd s r)) (ctr s r);
     rd := fun r => {| rp := rp (rd s r); rb := [] |};
     up := u |}.
Definition setr (s : st) r (x : rst) : st := {| futex := futex s; ctr := ctr s; rd := updf (rd s) r x; up := up s |}.
Definition setu (s : st) (u : upc) : st := {| futex := futex s; ctr := ctr s; rd := rd s; up := u |}.

Definition exec (c : choice) (s : st) : st :=
  match c with
  | RStep r =>
      if Nat.ltb r n then
      let x := rd s r in
      match rp x with
      | R_Out => setr s r {| rp := R_In; rb := rb x ++ [WCtr 1] |}
      | R_In => setr s r {| rp := R_LoadF; rb := rb x ++ [WCtr 0] |}
      | R_LoadF => let v := if has_fut (rb x) then 0 else futex s in
                   setr s r {| rp := if v =? M1 then R_StoreF else R_Done; rb := rb x |}
      | R_StoreF => setr s r {| rp := R_Wake; rb := rb x ++ [WFut] |}
      | R_Wake => match rb x with
                  | [] => let s1 := setr s r {| rp := R_Done; rb := [] |} in
                          match up s with U_Blocked k => setu s1 (U_LoadF k) | _ => s1 end
                  | _ => s
                  end
      | R_Done => setr s r {| rp := R_In; rb := rb x ++ [WCtr 1] |}      (* next section *)
      end else s
  | RFlush r =>
      let x := rd s r in
      match rb x with
      | [] => s
      | WCtr v :: b => {| futex := futex s; ctr := updf (ctr s) r v; rd := updf (rd s) r {| rp := rp x; rb := b |}; up := up s |}
      | WFut :: b => {| futex := 0; ctr := ctr s; rd := updf (rd s) r {| rp := rp x; rb := b |}; up := up s |}
      end
  | UStep =>
      match up s with
      | U_Dec inp => {| futex := (if futex s =? 0 then M1 else futex s - 1); ctr := ctr s; rd := rd s; up := U_Mb1 inp |}
      | U_Mb1 inp => membarrier s (U_Scan inp [])
      | U_Scan [] [] => setu s U_Mb3
      | U_Scan [] kept => setu s (U_Mb2 kept)
      | U_Scan (r :: todo) kept => setu s (U_Scan todo (if ctr s r =? 0 then kept else r :: kept))
      | U_Mb2 k => membarrier s (U_LoadF k)
      | U_LoadF k => setu s (if futex s =? M1 then U_Wait k else U_Dec k)
      | U_Wait k => setu s (if futex s =? M1 then U_Blocked k else U_Dec k)
      | U_Blocked k => s
      | U_Mb3 => membarrier s U_Reset
      | U_Reset => {| futex := 0; ctr := ctr s; rd := rd s; up := U_Done |}
      | U_Done => s
      end
  | USpur => match up s with U_Blocked k => setu s (U_LoadF k) | _ => s end
  end.
Definition run (cs : list choice) (s : st) : st := fold_left (fun s c => exec c s) cs s.
End N.
