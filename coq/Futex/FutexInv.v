(* scratch: no lost wake-up for the memb handshake with readers that run ANY number of sections *)
From Coq Require Import List Arith NArith Bool Lia.
Import ListNotations.
Require Import Urcu.Futex.Futex.
Local Open Scope N_scope.

Definition midb (p : rpc) : bool := match p with R_In | R_LoadF | R_StoreF => true | _ => false end.
Definition outb (p : rpc) : bool := match p with R_Out | R_Done => true | _ => false end.
Definition inP (u : upc) : bool := match u with U_Scan _ _ | U_Mb2 _ | U_LoadF _ | U_Wait _ | U_Blocked _ => true | _ => false end.
Definition inP2 (u : upc) : bool := match u with U_Scan _ (_ :: _) | U_Mb2 _ | U_LoadF _ | U_Wait _ | U_Blocked _ => true | _ => false end.
Definition blocked (u : upc) : bool := match u with U_Blocked _ => true | _ => false end.
Definition newest (s : st) (r : nat) : N := last_ctr (rb (rd s r)) (ctr s r).
Definition noctr (b : list wr) : Prop := forall v, ~ In (WCtr v) b.
Definition wkshape (b : list wr) : Prop := b = [] \/ last b (WCtr 0) = WFut.
Definition W (s : st) : Prop :=
  (exists r, midb (rp (rd s r)) = true) \/ (exists r, rp (rd s r) = R_Wake /\ has_fut (rb (rd s r)) = true).

Lemma has_fut_app a b : has_fut (a ++ b) = has_fut a || has_fut b.  Proof. unfold has_fut. apply existsb_app. Qed.
Lemma last_ctr_app b w d : last_ctr (b ++ [w]) d = match w with WCtr v => v | WFut => last_ctr b d end.
Proof. revert d. induction b as [|x b IH]; intros d; [destruct w; reflexivity|]. destruct x; cbn [app last_ctr]; apply IH. Qed.
Lemma last_ctr_noctr b d : noctr b -> last_ctr b d = d.
Proof. revert d. induction b as [|x b IH]; intros d H; [reflexivity|]. destruct x as [v|]; [exfalso; apply (H v); left; reflexivity|]. cbn. apply IH. intros v Hv. apply (H v). right. exact Hv. Qed.
Lemma last_ctr_changed b d : last_ctr b d <> d -> exists v, In (WCtr v) b.
Proof.
  revert d. induction b as [|x b IH]; intros d H; [cbn in H; contradiction|]. destruct x as [v|]; [exists v; left; reflexivity|].
  cbn in H. destruct (IH d H) as [v Hv]. exists v. right. exact Hv.
Qed.
Lemma wkshape_fut b : wkshape b -> b <> [] -> has_fut b = true.
Proof.
  intros [E|E] Hne; [contradiction|]. destruct (exists_last Hne) as (b' & x & ->). rewrite last_last in E. subst x. rewrite has_fut_app. apply orb_true_r.
Qed.
Lemma wkshape_pop w b : wkshape (w :: b) -> wkshape b.
Proof. intros [E|E]; [discriminate|]. destruct b as [|x b]; [left; reflexivity|right; exact E]. Qed.

Section N.
Variable n : nat.
Notation exec := (exec n).

Record Inv (s : st) : Prop := {
  I_b0 : forall r, ~ (r < n)%nat -> rb (rd s r) = [];
  I_b1 : forall r, has_fut (rb (rd s r)) = true -> rp (rd s r) = R_Wake;
  I_wk : forall r, rp (rd s r) = R_Wake -> wkshape (rb (rd s r));
  I_new : forall r, rp (rd s r) <> R_In -> newest s r = 0;
  I_k1 : inP (up s) = true -> futex s = M1 -> forall r, outb (rp (rd s r)) = true -> noctr (rb (rd s r));
  I_k2 : inP2 (up s) = true -> futex s = M1 -> W s;
  I_j : blocked (up s) = true -> futex s <> M1 -> exists r, rp (rd s r) = R_Wake
}.

Lemma any_fut_false s : Inv s -> any_fut n (rd s) = false -> forall r, has_fut (rb (rd s r)) = false.
Proof.
  intros HI H r. destruct (lt_dec r n) as [Hr|Hr]; [|rewrite (I_b0 s HI r Hr); reflexivity].
  unfold any_fut in H. destruct (has_fut (rb (rd s r))) eqn:E; [|reflexivity].
  assert (existsb (fun r0 => has_fut (rb (rd s r0))) (seq 0 n) = true); [|congruence].
  apply existsb_exists. exists r. split; [apply in_seq; lia|exact E].
Qed.
Lemma updf_same {A} (f : nat -> A) r x : updf f r x r = x.  Proof. unfold updf. rewrite Nat.eqb_refl. reflexivity. Qed.
Lemma updf_other {A} (f : nat -> A) r x u : u <> r -> updf f r x u = f u.
Proof. unfold updf. intros H. destruct (Nat.eqb_spec u r); [contradiction|reflexivity]. Qed.
Lemma W_mono (s s' : st) :
  (forall u, midb (rp (rd s u)) = true -> midb (rp (rd s' u)) = true \/ (rp (rd s' u) = R_Wake /\ has_fut (rb (rd s' u)) = true)) ->
  (forall u, rp (rd s u) = R_Wake -> has_fut (rb (rd s u)) = true -> rp (rd s' u) = R_Wake /\ has_fut (rb (rd s' u)) = true) -> W s -> W s'.
Proof.
  intros H1 H2 [[r H]|[r [Ha Hb]]]; [destruct (H1 r H) as [H'|H']; [left|right]; exists r; exact H'|right; exists r; apply (H2 r Ha Hb)].
Qed.

Lemma Inv_setr s r x : Inv s ->
  (~ (r < n)%nat -> rb x = []) ->
  (has_fut (rb x) = true -> rp x = R_Wake) ->
  (rp x = R_Wake -> wkshape (rb x)) ->
  (rp x <> R_In -> last_ctr (rb x) (ctr s r) = 0) ->
  (inP (up s) = true -> futex s = M1 -> outb (rp x) = true -> noctr (rb x)) ->
  (futex s = M1 -> midb (rp (rd s r)) = true -> midb (rp x) = true \/ (rp x = R_Wake /\ has_fut (rb x) = true)) ->
  (rp (rd s r) = R_Wake -> has_fut (rb (rd s r)) = true -> rp x = R_Wake /\ has_fut (rb x) = true) ->
  (rp (rd s r) = R_Wake -> rp x = R_Wake) ->
  Inv (setr s r x).
Proof.
  intros HI c0 c1 c1' c2 c3 c4 c4' c5. constructor; cbn [setr rd futex ctr up].
  - intros u Hu. destruct (Nat.eq_dec u r) as [->|Hne]; [rewrite updf_same; apply c0; exact Hu|rewrite updf_other by exact Hne; apply (I_b0 s HI u Hu)].
  - intros u. destruct (Nat.eq_dec u r) as [->|Hne]; [rewrite updf_same; exact c1|rewrite updf_other by exact Hne; apply (I_b1 s HI u)].
  - intros u. destruct (Nat.eq_dec u r) as [->|Hne]; [rewrite updf_same; exact c1'|rewrite updf_other by exact Hne; apply (I_wk s HI u)].
  - intros u. unfold newest; cbn [setr rd ctr]. destruct (Nat.eq_dec u r) as [->|Hne]; [rewrite updf_same; exact c2|rewrite updf_other by exact Hne; apply (I_new s HI u)].
  - intros Hp Hf u. destruct (Nat.eq_dec u r) as [->|Hne]; [rewrite updf_same; apply (c3 Hp Hf)|rewrite updf_other by exact Hne; apply (I_k1 s HI Hp Hf u)].
  - intros Hp Hf. apply (W_mono s); [| |apply (I_k2 s HI Hp Hf)]; intros u; cbn [setr rd];
      (destruct (Nat.eq_dec u r) as [->|Hne]; [rewrite updf_same|rewrite updf_other by exact Hne]);
      [apply (c4 Hf)|intros H; left; exact H|exact c4'|intros Ha Hb; split; assumption].
  - intros Hb Hf. destruct (I_j s HI Hb Hf) as [u Hu]. exists u.
    destruct (Nat.eq_dec u r) as [->|Hne]; [rewrite updf_same; apply c5; exact Hu|rewrite updf_other by exact Hne; exact Hu].
Qed.

Lemma nofut s r : Inv s -> rp (rd s r) <> R_Wake -> has_fut (rb (rd s r)) = false.
Proof. intros HI H. destruct (has_fut (rb (rd s r))) eqn:E; [|reflexivity]. exfalso. apply H. apply (I_b1 s HI r E). Qed.

Lemma Inv_rstep s r : Inv s -> Inv (exec (RStep r) s).
Proof.
  intros HI. unfold exec. destruct (Nat.ltb_spec r n) as [Hr|Hr]; [|exact HI].
  pose proof (I_new s HI r) as Hnw. unfold newest in Hnw.
  assert (Hpush1 : rp (rd s r) <> R_Wake -> rp (rd s r) <> R_In -> midb (rp (rd s r)) = false -> Inv (setr s r {| rp := R_In; rb := rb (rd s r) ++ [WCtr 1] |})).
  { intros Hw Hi Hm. apply Inv_setr; cbn [rp rb]; try exact HI; try discriminate; try (intros; contradiction).
    - rewrite has_fut_app, (nofut s r HI Hw). discriminate.
    - intros _ H. rewrite Hm in H. discriminate. }
  destruct (rp (rd s r)) eqn:Ep.
  - apply Hpush1; [discriminate|discriminate|reflexivity].
  - (* In -> LoadF : store ctr := 0 *)
    apply Inv_setr; cbn [rp rb]; rewrite ?Ep; try exact HI; try discriminate; try (intros; contradiction); try reflexivity.
    + rewrite has_fut_app, (nofut s r HI) by (rewrite Ep; discriminate). discriminate.
    + intros _. apply last_ctr_app.
    + intros _ _. left. reflexivity.
  - (* LoadF : load futex *)
    rewrite (nofut s r HI) by (rewrite Ep; discriminate).
    apply Inv_setr; cbn [rp rb]; rewrite ?Ep; try exact HI; try (intros; contradiction).
    + intros H. rewrite (nofut s r HI) in H by (rewrite Ep; discriminate). discriminate.
    + destruct (futex s =? M1); discriminate.
    + intros _. apply Hnw. discriminate.
    + intros Hp Hf. rewrite Hf, N.eqb_refl. discriminate.
    + intros Hf _. rewrite Hf, N.eqb_refl. left. reflexivity.
    + discriminate.
    + discriminate.
  - (* StoreF -> Wake *)
    apply Inv_setr; cbn [rp rb]; rewrite ?Ep; try exact HI; try (intros; contradiction); try reflexivity; try discriminate.
    + intros _. right. apply last_last.
    + intros _. rewrite last_ctr_app. apply Hnw. discriminate.
    + intros _ _. right. split; [reflexivity|]. rewrite has_fut_app. apply orb_true_r.
  - (* Wake : FUTEX_WAKE *)
    destruct (rb (rd s r)) eqn:Eb; [|exact HI].
    assert (Hcore : forall u', (inP u' = true -> inP (up s) = true) -> (inP2 u' = true -> inP2 (up s) = true) -> blocked u' = false ->
                     Inv (setu (setr s r {| rp := R_Done; rb := [] |}) u')).
    { intros u' Hp1 Hp2 Hbl. constructor; cbn [setu setr rd futex ctr up].
      - intros u Hu. destruct (Nat.eq_dec u r) as [->|Hne]; [rewrite updf_same; reflexivity|rewrite updf_other by exact Hne; apply (I_b0 s HI u Hu)].
      - intros u. destruct (Nat.eq_dec u r) as [->|Hne]; [rewrite updf_same; discriminate|rewrite updf_other by exact Hne; apply (I_b1 s HI u)].
      - intros u. destruct (Nat.eq_dec u r) as [->|Hne]; [rewrite updf_same; discriminate|rewrite updf_other by exact Hne; apply (I_wk s HI u)].
      - intros u. unfold newest; cbn [setu setr rd ctr]. destruct (Nat.eq_dec u r) as [->|Hne]; [rewrite updf_same; cbn; intros _; apply Hnw; discriminate|rewrite updf_other by exact Hne; apply (I_new s HI u)].
      - intros Hp Hf u. destruct (Nat.eq_dec u r) as [->|Hne]; [rewrite updf_same; intros _ v []|rewrite updf_other by exact Hne; apply (I_k1 s HI (Hp1 Hp) Hf u)].
      - intros Hp Hf. apply (W_mono s); [| |apply (I_k2 s HI (Hp2 Hp) Hf)]; intros u; cbn [setu setr rd];
          (destruct (Nat.eq_dec u r) as [->|Hne]; [rewrite updf_same|rewrite updf_other by exact Hne]);
          [rewrite Ep; discriminate|intros H; left; exact H|rewrite Eb; discriminate|intros Ha Hb; split; assumption].
      - rewrite Hbl. discriminate. }
    destruct (up s) eqn:Eu;
      try (apply (Hcore (U_LoadF kept)); [intros _; reflexivity|intros _; reflexivity|reflexivity]);
      match goal with |- Inv ?z => change z with (setu z (up s)) end; rewrite Eu;
      (apply Hcore; [intros H; exact H|intros H; exact H|reflexivity]).
  - apply Hpush1; [discriminate|discriminate|reflexivity].
Qed.

Lemma Inv_flush s r : Inv s -> Inv (exec (RFlush r) s).
Proof.
  intros HI. unfold exec. destruct (rb (rd s r)) as [|w b] eqn:Eb; [exact HI|].
  assert (Hrn : (r < n)%nat) by (destruct (lt_dec r n) as [H|H]; [exact H|rewrite (I_b0 s HI r H) in Eb; discriminate]).
  assert (Hwk : rp (rd s r) = R_Wake -> wkshape b) by (intros H; apply (wkshape_pop w); rewrite <- Eb; apply (I_wk s HI r H)).
  destruct w as [v|].
  - constructor; cbn [rd futex ctr up].
    + intros u Hu. rewrite updf_other by (intros ->; contradiction). apply (I_b0 s HI u Hu).
    + intros u. destruct (Nat.eq_dec u r) as [->|Hne]; [rewrite updf_same; cbn [rp rb]; intros H; apply (I_b1 s HI r); rewrite Eb; exact H|rewrite updf_other by exact Hne; apply (I_b1 s HI u)].
    + intros u. destruct (Nat.eq_dec u r) as [->|Hne]; [rewrite updf_same; cbn [rp rb]; exact Hwk|rewrite updf_other by exact Hne; apply (I_wk s HI u)].
    + intros u. unfold newest; cbn [rd ctr]. destruct (Nat.eq_dec u r) as [->|Hne].
      * rewrite !updf_same. cbn [rp rb]. intros Hp. pose proof (I_new s HI r Hp) as H. unfold newest in H. rewrite Eb in H. exact H.
      * rewrite !updf_other by exact Hne. apply (I_new s HI u).
    + intros Hp Hf u. destruct (Nat.eq_dec u r) as [->|Hne].
      * rewrite updf_same. cbn [rp rb]. intros Ho v0 Hin. apply (I_k1 s HI Hp Hf r Ho v0). rewrite Eb. right. exact Hin.
      * rewrite updf_other by exact Hne. apply (I_k1 s HI Hp Hf u).
    + intros Hp Hf. apply (W_mono s); [| |apply (I_k2 s HI Hp Hf)]; intros u; cbn [rd];
        (destruct (Nat.eq_dec u r) as [->|Hne]; [rewrite updf_same; cbn [rp rb]|rewrite updf_other by exact Hne]);
        [intros H; left; exact H|intros H; left; exact H|rewrite Eb; cbn; intros Ha Hb; split; assumption|intros Ha Hb; split; assumption].
    + intros Hb Hf. destruct (I_j s HI Hb Hf) as [u Hu]. exists u.
      destruct (Nat.eq_dec u r) as [->|Hne]; [rewrite updf_same; exact Hu|rewrite updf_other by exact Hne; exact Hu].
  - assert (Hw : rp (rd s r) = R_Wake) by (apply (I_b1 s HI r); rewrite Eb; reflexivity).
    constructor; cbn [rd futex ctr up]; try (intros _ H; discriminate H).
    + intros u Hu. rewrite updf_other by (intros ->; contradiction). apply (I_b0 s HI u Hu).
    + intros u. destruct (Nat.eq_dec u r) as [->|Hne]; [rewrite updf_same; intros _; exact Hw|rewrite updf_other by exact Hne; apply (I_b1 s HI u)].
    + intros u. destruct (Nat.eq_dec u r) as [->|Hne]; [rewrite updf_same; cbn [rp rb]; exact Hwk|rewrite updf_other by exact Hne; apply (I_wk s HI u)].
    + intros u. unfold newest; cbn [rd ctr]. destruct (Nat.eq_dec u r) as [->|Hne].
      * rewrite !updf_same. cbn [rp rb]. intros Hp. pose proof (I_new s HI r Hp) as H. unfold newest in H. rewrite Eb in H. exact H.
      * rewrite !updf_other by exact Hne. apply (I_new s HI u).
    + intros _ _. exists r. rewrite updf_same. exact Hw.
Qed.

Lemma Inv_setu s u' : Inv s -> (inP u' = true -> inP (up s) = true) -> (inP2 u' = true -> futex s = M1 -> W s) ->
  (blocked u' = true -> futex s <> M1 -> exists r, rp (rd s r) = R_Wake) -> Inv (setu s u').
Proof.
  intros HI c1 c2 c3. constructor; cbn [setu rd futex ctr up]; try apply HI; [intros Hp; apply (I_k1 s HI (c1 Hp))|exact c2|exact c3].
Qed.
Lemma Inv_memb s u' : Inv s -> (inP2 u' = true -> inP2 (up s) = true) -> blocked u' = false -> Inv (membarrier n s u').
Proof.
  intros HI c2 c3. constructor; cbn [membarrier rd futex ctr up rp rb].
  - reflexivity.
  - discriminate.
  - intros r _. left. reflexivity.
  - intros r. unfold newest; cbn [membarrier rd ctr rb last_ctr rp]. apply (I_new s HI r).
  - intros _ _ r _ v [].
  - intros Hp Hf. destruct (any_fut n (rd s)) eqn:Ea; [discriminate|].
    destruct (I_k2 s HI (c2 Hp) Hf) as [[r H]|[r [_ H]]]; [left; exists r; exact H|]. rewrite (any_fut_false s HI Ea r) in H. discriminate.
  - rewrite c3. discriminate.
Qed.

Lemma Inv_ustep s : Inv s -> Inv (exec UStep s).
Proof.
  intros HI. unfold exec. destruct (up s) eqn:Eu.
  - constructor; cbn [rd futex ctr up inP inP2 blocked]; try discriminate; apply HI.
  - apply Inv_memb; [exact HI|discriminate|reflexivity].
  - destruct todo as [|r todo].
    + destruct kept as [|k kept]; apply Inv_setu; try exact HI; try discriminate; rewrite ?Eu; [intros _; reflexivity|intros _; apply (I_k2 s HI); rewrite Eu; reflexivity].
    + apply Inv_setu; try exact HI; try discriminate; rewrite ?Eu; [intros _; reflexivity|].
      destruct (N.eqb_spec (ctr s r) 0) as [Ez|Ez]; [intros Hp; apply (I_k2 s HI); rewrite Eu; exact Hp|].
      intros _ Hf. assert (Hk1 := I_k1 s HI). rewrite Eu in Hk1. specialize (Hk1 eq_refl Hf r).
      pose proof (I_new s HI r) as Hnw. unfold newest in Hnw.
      destruct (rp (rd s r)) eqn:Ep; try (left; exists r; rewrite Ep; reflexivity).
      * exfalso. apply Ez. rewrite <- (Hnw ltac:(discriminate)). symmetry. apply last_ctr_noctr. apply Hk1. reflexivity.
      * right. exists r. split; [exact Ep|]. apply wkshape_fut; [apply (I_wk s HI r Ep)|].
        intros Eb. rewrite Eb in Hnw. cbn in Hnw. apply Ez. apply Hnw. discriminate.
      * exfalso. apply Ez. rewrite <- (Hnw ltac:(discriminate)). symmetry. apply last_ctr_noctr. apply Hk1. reflexivity.
  - apply Inv_memb; [exact HI|intros _; rewrite Eu; reflexivity|reflexivity].
  - destruct (N.eqb_spec (futex s) M1) as [Ef|Ef]; apply Inv_setu; try exact HI; try discriminate; rewrite ?Eu; try (intros _; reflexivity).
    intros _. apply (I_k2 s HI). rewrite Eu. reflexivity.
  - destruct (N.eqb_spec (futex s) M1) as [Ef|Ef]; apply Inv_setu; try exact HI; try discriminate; rewrite ?Eu; try (intros _; reflexivity).
    + intros _. apply (I_k2 s HI). rewrite Eu. reflexivity.
    + intros _ H. contradiction.
  - exact HI.
  - apply Inv_memb; [exact HI|discriminate|reflexivity].
  - constructor; cbn [rd futex ctr up inP inP2 blocked]; try discriminate; apply HI.
  - exact HI.
Qed.

Lemma Inv_exec s c : Inv s -> Inv (exec c s).
Proof.
  intros HI. destruct c as [r|r| |]; [apply Inv_rstep|apply Inv_flush|apply Inv_ustep|]; try exact HI.
  unfold exec. destruct (up s) eqn:Eu; try exact HI.
  apply Inv_setu; try exact HI; try discriminate; rewrite ?Eu; try (intros _; reflexivity).
  intros _. apply (I_k2 s HI). rewrite Eu. reflexivity.
Qed.

Definition init (inp : list nat) : st :=
  {| futex := 0; ctr := fun _ => 0; rd := fun r => {| rp := if Nat.ltb r n then R_Out else R_Done; rb := [] |}; up := U_Dec inp |}.
Lemma Inv_init inp : Inv (init inp).
Proof.
  constructor; cbn [init rd futex ctr up rb rp inP inP2 blocked]; try discriminate; try reflexivity;
    try (intros r _; left; reflexivity); try (intros r _; reflexivity).
Qed.

Lemma Inv_run cs : forall s0, Inv s0 -> Inv (fold_left (fun s c => exec c s) cs s0).
Proof. induction cs as [|c cs IH]; intros s0 H0; [exact H0|cbn [fold_left]; apply IH; apply Inv_exec; exact H0]. Qed.

(* readers run any number of sections; every schedule: a sleeping updater always has a reader that is inside a section or inside
   the exit/wake-up path *)
Theorem gp_no_lost_wakeup_memb_multi : forall cs inp, let s := run n cs (init inp) in
  blocked (up s) = true -> exists r, midb (rp (rd s r)) = true \/ rp (rd s r) = R_Wake.
Proof.
  intros cs inp s Hb. assert (HI : Inv s) by (apply Inv_run; apply Inv_init).
  destruct (N.eq_dec (futex s) M1) as [E|E].
  - assert (Hp : inP2 (up s) = true) by (destruct (up s); try discriminate; reflexivity).
    destruct (I_k2 s HI Hp E) as [[r H]|[r [H _]]]; exists r; [left|right]; exact H.
  - destruct (I_j s HI Hb E) as [r H]. exists r. right. exact H.
Qed.
End N.
Print Assumptions gp_no_lost_wakeup_memb_multi.
