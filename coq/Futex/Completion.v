(* The completion object of rcu_barrier() (src/urcu-call-rcu-impl.h: struct call_rcu_completion, rcu_barrier, _rcu_barrier_complete, call_rcu_completion_wait /
   _wake_up): a countdown of the helpers' markers, a futex word, and a reference count (the caller and every marker hold one reference).
   Part 1 - the reference count, any number of markers: the object is released exactly when the last holder has dropped its reference, and nobody touches it
            afterwards, because every holder drops its reference as its LAST access.  The variant in which a marker drops its reference first is refuted.
   Part 2 - the wake-up handshake between the marker that brings the countdown to zero and the caller, the other markers abstracted by nondeterminism (finite state,
            invariant checked by computation): the caller leaves only when the countdown is zero, and is never left asleep once the last marker has finished.
            The variant that issues FUTEX_WAKE before storing 0 is refuted. *)
From Coq Require Import List Arith Bool Lia.
Import ListNotations.

(* ---------- part 1: reference count ---------- *)
Inductive hold := Using | Dropped.           (* a holder still uses the object / has dropped its reference (its last access) *)
Record rst := { ref : nat; freed : bool; hs : list hold; bad : bool }.
Inductive rchoice := Touch (i : nat) | Put (i : nat).
Fixpoint setnth (l : list hold) (i : nat) (v : hold) : list hold :=
  match l, i with [], _ => [] | _ :: r, O => v :: r | x :: r, S j => x :: setnth r j v end.
Section R.
Variable put_first : bool.      (* false: the code as it is; true: the variant in which a holder may drop its reference and touch the object afterwards *)
Definition rstep (c : rchoice) (s : rst) : rst :=
  match c with
  | Touch i => match nth_error (hs s) i with
               | Some Using => {| ref := ref s; freed := freed s; hs := hs s; bad := bad s || freed s |}
               | Some Dropped => if put_first then {| ref := ref s; freed := freed s; hs := hs s; bad := bad s || freed s |} else s
               | None => s end
  | Put i => match nth_error (hs s) i with
             | Some Using => {| ref := ref s - 1; freed := Nat.eqb (ref s) 1; hs := setnth (hs s) i Dropped; bad := bad s || freed s |}
             | _ => s end
  end.
Fixpoint rrun (cs : list rchoice) (s : rst) : rst := match cs with [] => s | c :: r => rrun r (rstep c s) end.
End R.
Definition rinit (n : nat) : rst := {| ref := n; freed := false; hs := repeat Using n; bad := false |}.     (* urcu_ref_set(count + 1): n holders *)

Definition nusing (l : list hold) : nat := length (filter (fun h => match h with Using => true | _ => false end) l).
Definition RInv (s : rst) : Prop := ref s = nusing (hs s) /\ (freed s = true <-> ref s = 0) /\ bad s = false.
Lemma nusing_set l : forall i, nth_error l i = Some Using -> nusing l = S (nusing (setnth l i Dropped)).
Proof.
  induction l as [|x l IH]; intros i H; [destruct i; discriminate|]. destruct i as [|j]; cbn in H.
  - inversion H; subst. reflexivity.
  - cbn [setnth]. unfold nusing in *. cbn [filter]. destruct x; cbn [length]; rewrite (IH j H); reflexivity.
Qed.
Lemma RInv_step c s : RInv s -> RInv (rstep false c s).
Proof.
  intros (A & B & D). destruct c as [i|i]; cbn [rstep]; destruct (nth_error (hs s) i) as [[|]|] eqn:E; try (split; [exact A|split; [exact B|exact D]]).
  - (* a holder that still uses the object touches it: it is not released, because this holder's reference counts *)
    assert (Hpos : ref s <> 0) by (rewrite A, (nusing_set _ _ E); discriminate).
    assert (Hf : freed s = false) by (destruct (freed s); [exfalso; apply Hpos; apply B; reflexivity|reflexivity]).
    split; [exact A|split; [exact B|]]. cbn [bad]. rewrite D, Hf. reflexivity.
  - (* a holder drops its reference *)
    pose proof (nusing_set _ _ E) as Hn.
    assert (Hf : freed s = false) by (destruct (freed s); [exfalso; assert (ref s = 0) by (apply B; reflexivity); lia|reflexivity]).
    split; [cbn [ref hs]; lia|split].
    + cbn [freed ref]. split; [intros H; apply Nat.eqb_eq in H; lia|intros H; apply Nat.eqb_eq; lia].
    + cbn [bad]. rewrite D, Hf. reflexivity.
Qed.
Lemma RInv_init n : RInv (rinit (S n)).      (* the caller's own reference: at least one holder *)
Proof.
  assert (H : forall k, nusing (repeat Using k) = k) by (induction k as [|k IH]; [reflexivity|unfold nusing in *; cbn; rewrite IH; reflexivity]).
  unfold RInv, rinit. cbn [ref freed hs bad]. rewrite H. split; [reflexivity|split; [split; discriminate|reflexivity]].
Qed.
(* any number of holders, every order of accesses and drops: nobody touches the object after its release; it is released exactly when nobody uses it any more *)
Theorem completion_never_used_after_release : forall n cs, let s := rrun false cs (rinit (S n)) in
  bad s = false /\ (freed s = true <-> nusing (hs s) = 0).
Proof.
  intros n cs. assert (H : RInv (rrun false cs (rinit (S n)))).
  { generalize (RInv_init n). generalize (rinit (S n)). induction cs as [|c cs IH]; intros s0 H0; cbn [rrun]; [exact H0|]. apply IH. apply RInv_step. exact H0. }
  destruct H as (A & B & D). cbv zeta. split; [exact D|]. rewrite <- A. exact B.
Qed.
Theorem put_before_last_access_refuted : exists cs, bad (rrun true cs (rinit 2)) = true.
Proof. exists [Put 1%nat; Put 0%nat; Touch 1%nat]. reflexivity. Qed.

(* ---------- part 2: the wake-up handshake ---------- *)
Inductive lpc := L_None | L_LoadF | L_Store | L_Wake | L_Done.
Inductive wpc := W_Dec | W_LoadBc | W_LoadF | W_Wait | W_Sleep | W_Out.
Record hst := { bcpos : bool (* countdown > 0 *); last : lpc (* the marker that brings it to zero *); fneg : bool (* futex == -1 *); w : wpc; woken : bool }.
Inductive hchoice := CSubLast | CLast | CW | CSpurious.
Section H.
Variable store_first : bool.     (* true: the code as it is (store 0, then FUTEX_WAKE) *)
Definition hstep (c : hchoice) (s : hst) : hst :=
  match c with
  | CSubLast => if bcpos s then match last s with L_None => {| bcpos := false; last := L_LoadF; fneg := fneg s; w := w s; woken := woken s |} | _ => s end else s
  | CLast =>
      match last s with
      | L_LoadF => {| bcpos := bcpos s; last := (if fneg s then (if store_first then L_Store else L_Wake) else L_Done); fneg := fneg s; w := w s; woken := woken s |}
      | L_Store => {| bcpos := bcpos s; last := (if store_first then L_Wake else L_Done); fneg := false; w := w s; woken := woken s |}
      | L_Wake => {| bcpos := bcpos s; last := (if store_first then L_Done else L_Store); fneg := fneg s; w := w s; woken := match w s with W_Sleep => true | _ => woken s end |}
      | _ => s
      end
  | CW =>
      match w s with
      | W_Dec => {| bcpos := bcpos s; last := last s; fneg := true; w := W_LoadBc; woken := woken s |}
      | W_LoadBc => {| bcpos := bcpos s; last := last s; fneg := fneg s; w := (if bcpos s then W_LoadF else W_Out); woken := woken s |}
      | W_LoadF => {| bcpos := bcpos s; last := last s; fneg := fneg s; w := (if fneg s then W_Wait else W_Dec); woken := woken s |}
      | W_Wait => {| bcpos := bcpos s; last := last s; fneg := fneg s; w := (if fneg s then W_Sleep else W_Dec); woken := false |}      (* FUTEX_WAIT: sleeps only if the word is still -1 (else EAGAIN) *)
      | W_Sleep => if woken s then {| bcpos := bcpos s; last := last s; fneg := fneg s; w := W_LoadF; woken := false |} else s
      | W_Out => s
      end
  | CSpurious => match w s with W_Sleep => {| bcpos := bcpos s; last := last s; fneg := fneg s; w := w s; woken := true |} | _ => s end
  end.
Fixpoint hrun (cs : list hchoice) (s : hst) : hst := match cs with [] => s | c :: r => hrun r (hstep c s) end.
End H.
Definition hinit : hst := {| bcpos := true; last := L_None; fneg := false; w := W_Dec; woken := false |}.

(* the state space is finite: the set of reachable states is computed inside Coq (closure under every choice checked by computation) *)
Definition lpc_eqb (a b : lpc) : bool := match a, b with L_None, L_None | L_LoadF, L_LoadF | L_Store, L_Store | L_Wake, L_Wake | L_Done, L_Done => true | _, _ => false end.
Definition wpc_eqb (a b : wpc) : bool := match a, b with W_Dec, W_Dec | W_LoadBc, W_LoadBc | W_LoadF, W_LoadF | W_Wait, W_Wait | W_Sleep, W_Sleep | W_Out, W_Out => true | _, _ => false end.
Definition hst_eqb (a b : hst) : bool :=
  Bool.eqb (bcpos a) (bcpos b) && lpc_eqb (last a) (last b) && Bool.eqb (fneg a) (fneg b) && wpc_eqb (w a) (w b) && Bool.eqb (woken a) (woken b).
Lemma hst_eqb_eq a b : hst_eqb a b = true -> a = b.
Proof. destruct a as [[|] [| | | |] [|] [| | | | |] [|]], b as [[|] [| | | |] [|] [| | | | |] [|]]; cbn; intros H; try discriminate H; reflexivity. Qed.
Lemma hst_eqb_refl a : hst_eqb a a = true.
Proof. destruct a as [[|] [| | | |] [|] [| | | | |] [|]]; reflexivity. Qed.
Definition hmem (s : hst) (l : list hst) : bool := existsb (hst_eqb s) l.
Definition allc := [CSubLast; CLast; CW; CSpurious].
Definition grow (l : list hst) : list hst :=
  fold_left (fun acc s => fold_left (fun acc2 c => let s' := hstep true c s in if hmem s' acc2 then acc2 else acc2 ++ [s']) allc acc) l l.
Definition reachable_set : list hst := Nat.iter 24 grow [hinit].
Lemma reach_closed : forallb (fun s => forallb (fun c => hmem (hstep true c s) reachable_set) allc) reachable_set = true.
Proof. vm_compute. reflexivity. Qed.
Lemma hmem_in s l : hmem s l = true -> In s l.
Proof. unfold hmem. intros H. apply existsb_exists in H. destruct H as (x & Hx & E). apply hst_eqb_eq in E. subst. exact Hx. Qed.
Lemma in_hmem s l : In s l -> hmem s l = true.
Proof. intros H. unfold hmem. apply existsb_exists. exists s. split; [exact H|apply hst_eqb_refl]. Qed.
Lemma reach_step c s : In s reachable_set -> In (hstep true c s) reachable_set.
Proof.
  intros H. pose proof reach_closed as Hc. rewrite forallb_forall in Hc. specialize (Hc s H). rewrite forallb_forall in Hc.
  apply hmem_in. apply Hc. destruct c; cbn; tauto.
Qed.
Lemma reach_run cs : forall s, In s reachable_set -> In (hrun true cs s) reachable_set.
Proof. induction cs as [|c cs IH]; intros s H; cbn [hrun]; [exact H|]. apply IH. apply reach_step. exact H. Qed.
Lemma reach_init : In hinit reachable_set.
Proof. apply hmem_in. vm_compute. reflexivity. Qed.

(* rcu_barrier() returns only with every marker run; and once the last marker has finished its wake-up path the caller is not left asleep: it is out, awake, or woken *)
Definition prop1 (s : hst) : bool :=
  (match w s with W_Out => negb (bcpos s) | _ => true end) &&
  (match last s with L_Done => negb (match w s with W_Sleep => negb (woken s) | _ => false end) | _ => true end).
Theorem barrier_returns_after_markers_and_is_not_lost : forall cs, let s := hrun true cs hinit in
  (w s = W_Out -> bcpos s = false) /\ (last s = L_Done -> ~ (w s = W_Sleep /\ woken s = false)).
Proof.
  intros cs s. assert (Hall : forallb prop1 reachable_set = true) by (vm_compute; reflexivity).
  rewrite forallb_forall in Hall. pose proof (Hall s (reach_run cs hinit reach_init)) as Hs. clear Hall. clearbody s. unfold prop1 in Hs. rename Hs into Hall.
  destruct s as [[|] [| | | |] [|] [| | | | |] [|]]; cbn in *; try discriminate Hall; split; try (intros; discriminate); try reflexivity; try (intros _ [A B]; discriminate).
Qed.
(* ... and from there the caller, running alone, is out within 8 of its own steps *)
Definition prop2 (s : hst) : bool := match last s with L_Done => wpc_eqb (w (hrun true (repeat CW 8) s)) W_Out | _ => true end.
Theorem barrier_caller_finishes : forall cs, let s := hrun true cs hinit in last s = L_Done -> w (hrun true (repeat CW 8) s) = W_Out.
Proof.
  intros cs s Hl. assert (Hall : forallb prop2 reachable_set = true) by (vm_compute; reflexivity).
  rewrite forallb_forall in Hall. pose proof (Hall s (reach_run cs hinit reach_init)) as Hs. clear Hall. clearbody s. unfold prop2 in Hs. rewrite Hl in Hs. rename Hs into Hall.
  destruct (w (hrun true (repeat CW 8) s)); try discriminate Hall; reflexivity.
Qed.
(* FUTEX_WAKE before the store of 0: the woken caller re-checks the word, finds -1 and sleeps again; the store comes too late *)
Theorem wake_before_store_refuted : exists cs, let s := hrun false cs hinit in last s = L_Done /\ w s = W_Sleep /\ woken s = false /\ bcpos s = false.
Proof. exists [CW; CW; CW; CW; CSubLast; CLast; CLast; CW; CW; CW; CLast]. vm_compute. repeat split. Qed.
Print Assumptions completion_never_used_after_release.
Print Assumptions barrier_returns_after_markers_and_is_not_lost.
Print Assumptions barrier_caller_finishes.
