(* scratch: the urcu-wait.h waiter/waker handshake (WAITING -> WAKEUP -> RUNNING -> TEARDOWN) on TSO.  The waker's plain store of
   WAKEUP may sit in its store buffer; FUTEX_WAKE and the locked `or` need an empty buffer.  The waiter's node lives on its stack:
   after it returns, any access by the waker would be a use-after-return. *)
From Coq Require Import List Arith Bool Lia.
Import ListNotations.

(* state word as a record of bits; WAITING = all clear *)
Record word := { wakeup : bool; running : bool; teardown : bool }.
Definition WAITING : word := {| wakeup := false; running := false; teardown := false |}.
Definition is_waiting (w : word) : bool := negb (wakeup w) && negb (running w) && negb (teardown w).
Inductive kpc := K_Set | K_LoadR | K_Wake | K_Or | K_Done.
Inductive apc := A_Spin | A_Wait | A_Blocked | A_Load2 | A_OrRun | A_Td | A_Done.
Record st := { mem : word; kbuf : list word (* waker's buffered stores to the word *); kp : kpc; ap : apc; bad : bool (* waker touched the node after the waiter returned *) }.
Inductive choice := KStep | KFlush | AStep | ASpur.
Definition newest (s : st) : word := last (kbuf s) (mem s).
Definition dead (s : st) : bool := match ap s with A_Done => true | _ => false end.
Definition touch (s : st) : bool := bad s || dead s.

Definition exec (c : choice) (s : st) : st :=
  match c with
  | KStep =>
      match kp s with
      | K_Set => {| mem := mem s; kbuf := kbuf s ++ [{| wakeup := true; running := false; teardown := false |}]; kp := K_LoadR; ap := ap s; bad := touch s |}
      | K_LoadR => {| mem := mem s; kbuf := kbuf s; kp := if running (newest s) then K_Or else K_Wake; ap := ap s; bad := touch s |}
      | K_Wake => match kbuf s with
                  | [] => {| mem := mem s; kbuf := []; kp := K_Or; ap := match ap s with A_Blocked => A_Load2 | p => p end; bad := touch s |}
                  | _ => s end
      | K_Or => match kbuf s with
                | [] => {| mem := {| wakeup := wakeup (mem s); running := running (mem s); teardown := true |}; kbuf := []; kp := K_Done; ap := ap s; bad := touch s |}
                | _ => s end
      | K_Done => s
      end
  | KFlush => match kbuf s with [] => s | w :: b => {| mem := w; kbuf := b; kp := kp s; ap := ap s; bad := touch s |} end
  | AStep =>
      match ap s with
      | A_Spin => {| mem := mem s; kbuf := kbuf s; kp := kp s; ap := if is_waiting (mem s) then A_Wait else A_OrRun; bad := bad s |}
      | A_Wait => {| mem := mem s; kbuf := kbuf s; kp := kp s; ap := if is_waiting (mem s) then A_Blocked else A_Load2; bad := bad s |}
      | A_Blocked => s
      | A_Load2 => {| mem := mem s; kbuf := kbuf s; kp := kp s; ap := if is_waiting (mem s) then A_Wait else A_OrRun; bad := bad s |}
      | A_OrRun => {| mem := {| wakeup := wakeup (mem s); running := true; teardown := teardown (mem s) |}; kbuf := kbuf s; kp := kp s; ap := A_Td; bad := bad s |}
      | A_Td => {| mem := mem s; kbuf := kbuf s; kp := kp s; ap := if teardown (mem s) then A_Done else A_Td; bad := bad s |}
      | A_Done => s
      end
  | ASpur => match ap s with A_Blocked => {| mem := mem s; kbuf := kbuf s; kp := kp s; ap := A_Load2; bad := bad s |} | _ => s end
  end.
Definition init : st := {| mem := WAITING; kbuf := []; kp := K_Set; ap := A_Spin; bad := false |}.


(* boolean invariant; the reachable state space is finite, so closure under every choice is checked exhaustively *)
Definition WK : word := {| wakeup := true; running := false; teardown := false |}.
Definition word_eqb (a b : word) : bool := Bool.eqb (wakeup a) (wakeup b) && Bool.eqb (running a) (running b) && Bool.eqb (teardown a) (teardown b).
Definition kp_in (k : kpc) (l : list kpc) : bool := existsb (fun x => match x, k with K_Set, K_Set | K_LoadR, K_LoadR | K_Wake, K_Wake | K_Or, K_Or | K_Done, K_Done => true | _, _ => false end) l.
Definition ap_early (a : apc) : bool := match a with A_Spin | A_Wait | A_Blocked | A_Load2 => true | _ => false end.
Definition invb (s : st) : bool :=
  negb (bad s) &&
  (match kbuf s with
   | [] => true
   | [w] => word_eqb w WK && kp_in (kp s) [K_LoadR; K_Wake] && is_waiting (mem s) && ap_early (ap s)
   | _ => false end) &&
  (match kp s with K_Set => (match kbuf s with [] => true | _ => false end) && is_waiting (mem s) && ap_early (ap s) | _ => true end) &&
  (match kp s, kbuf s with K_Set, _ => true | _, [] => wakeup (mem s) | _, _ => true end) &&
  (match ap s with A_Blocked => kp_in (kp s) [K_Set; K_LoadR; K_Wake] | _ => true end) &&
  (if running (mem s) then match ap s with A_Td | A_Done => true | _ => false end else true) &&
  (if teardown (mem s) then kp_in (kp s) [K_Done] else true) &&
  (match ap s with A_Done => teardown (mem s) | _ => true end) &&
  (match kp s with K_Done => match kbuf s with [] => true | _ => false end | _ => true end).

Theorem invb_exec s c : invb s = true -> invb (exec c s) = true.
Proof.
  destruct s as [m b k a bd]. destruct bd; [intros H; discriminate H|].
  destruct b as [|w [|w2 b]]; [| |intros H; unfold invb in H; cbn [bad kbuf] in H; rewrite !andb_false_r in H; cbn in H; discriminate H].
  - destruct m as [[] [] []], k, a, c; intros H; try discriminate H; reflexivity.
  - destruct w as [[] [] []]; try (intros H; unfold invb in H; cbn in H; rewrite ?andb_false_r in H; discriminate H).
    destruct m as [[] [] []], k, a, c; intros H; try discriminate H; reflexivity.
Qed.
Lemma invb_init : invb init = true.  Proof. reflexivity. Qed.

(* every schedule: (1) the waker never touches the node after the waiter has returned; (2) a blocked waiter still has its wake-up
   coming (the waker has not passed its FUTEX_WAKE); (3) the waiter returns only after the waker's last access *)
Theorem waiter_handshake : forall cs, let s := fold_left (fun s c => exec c s) cs init in
  bad s = false /\ (ap s = A_Blocked -> kp s = K_Set \/ kp s = K_LoadR \/ kp s = K_Wake) /\ (ap s = A_Done -> kp s = K_Done /\ kbuf s = []).
Proof.
  intros cs s. assert (H : invb s = true).
  { unfold s. generalize invb_init. generalize init. induction cs as [|c cs IH]; intros s0 H0; [exact H0|cbn [fold_left]; apply IH; apply invb_exec; exact H0]. }
  unfold invb in H. repeat (apply andb_prop in H; destruct H as [H ?]).
  split; [destruct (bad s); [discriminate|reflexivity]|split].
  - intros Ea. rewrite Ea in *. destruct (kp s); cbn in *; try discriminate; tauto.
  - intros Ea. rewrite Ea in *. match goal with Ht : teardown (mem s) = true |- _ => rewrite Ht in * end.
    destruct (kp s); cbn in *; try discriminate. split; [reflexivity|]. destruct (kbuf s); [reflexivity|discriminate].
Qed.
Print Assumptions waiter_handshake.
