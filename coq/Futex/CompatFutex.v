(* The futex fallback of a platform without the futex system call (src/compat_futex.c: compat_futex_noasync): one process-wide mutex and condition variable.
     FUTEX_WAIT(uaddr, val):  lock ; while (uaddr[0] == val) pthread_cond_wait(cond, lock) ; unlock
     FUTEX_WAKE(uaddr):       lock ; pthread_cond_broadcast(cond) ; unlock
   and every caller of FUTEX_WAKE in the library stores the new value of the word BEFORE the call.  Model: any number of sleepers, one waker, the waker's store of
   the new value goes through its store buffer (x86-TSO; taking the mutex is a locked instruction: it needs the buffer drained); spurious wake-ups of
   pthread_cond_wait are allowed at any time.  Theorem (no lost wake-up): once the waker has returned, no sleeper is blocked on the condition variable or about to
   block, in every reachable state - so every sleeper returns.  Taking the mutex around the broadcast is what makes "check the word, then sleep" atomic with
   respect to the wake-up: the variant that broadcasts without the mutex is refuted by a concrete run. *)
From Coq Require Import List Arith Bool Lia.
Import ListNotations.

Inductive spc := S_Lock | S_Check | S_Wait | S_Blocked | S_Reacq | S_Unlock | S_Done.
Inductive wpc := W_Store | W_Lock | W_Bcast | W_Unlock | W_Done.
Inductive owner := Free | BySleeper (r : nat) | ByWaker.
Record st := { word : bool (* true: still the value the sleepers sleep on *); wbuf : bool (* the waker's store is in its buffer *);
               mtx : owner; sl : nat -> spc; wk : wpc }.
Inductive choice := Sl (r : nat) | Wk | Flush | Spurious (r : nat).
Definition upd (f : nat -> spc) (k : nat) (v : spc) : nat -> spc := fun x => if Nat.eqb x k then v else f x.
Definition is_free (o : owner) : bool := match o with Free => true | _ => false end.

Section M.
Variable locked_wake : bool.       (* true: the code as it is; false: the variant that broadcasts without taking the mutex *)

Definition step (c : choice) (s : st) : st :=
  match c with
  | Sl r =>
      match sl s r with
      | S_Lock => if is_free (mtx s) then {| word := word s; wbuf := wbuf s; mtx := BySleeper r; sl := upd (sl s) r S_Check; wk := wk s |} else s
      | S_Check => {| word := word s; wbuf := wbuf s; mtx := mtx s; sl := upd (sl s) r (if word s then S_Wait else S_Unlock); wk := wk s |}
      | S_Wait => {| word := word s; wbuf := wbuf s; mtx := Free; sl := upd (sl s) r S_Blocked; wk := wk s |}      (* release the mutex and queue on the condition variable, atomically *)
      | S_Blocked => s
      | S_Reacq => if is_free (mtx s) then {| word := word s; wbuf := wbuf s; mtx := BySleeper r; sl := upd (sl s) r S_Check; wk := wk s |} else s
      | S_Unlock => {| word := word s; wbuf := wbuf s; mtx := Free; sl := upd (sl s) r S_Done; wk := wk s |}
      | S_Done => s
      end
  | Wk =>
      match wk s with
      | W_Store => {| word := word s; wbuf := true; mtx := mtx s; sl := sl s; wk := if locked_wake then W_Lock else W_Bcast |}
      | W_Lock => if is_free (mtx s) && negb (wbuf s) then {| word := word s; wbuf := wbuf s; mtx := ByWaker; sl := sl s; wk := W_Bcast |} else s
      | W_Bcast => {| word := word s; wbuf := wbuf s; mtx := mtx s; sl := fun r => match sl s r with S_Blocked => S_Reacq | p => p end;
                      wk := if locked_wake then W_Unlock else W_Done |}
      | W_Unlock => {| word := word s; wbuf := wbuf s; mtx := Free; sl := sl s; wk := W_Done |}
      | W_Done => s
      end
  | Flush => if wbuf s then {| word := false; wbuf := false; mtx := mtx s; sl := sl s; wk := wk s |} else s
  | Spurious r => match sl s r with S_Blocked => {| word := word s; wbuf := wbuf s; mtx := mtx s; sl := upd (sl s) r S_Reacq; wk := wk s |} | _ => s end
  end.
Fixpoint run (cs : list choice) (s : st) : st := match cs with [] => s | c :: cs' => run cs' (step c s) end.
End M.

Definition init : st := {| word := true; wbuf := false; mtx := Free; sl := fun _ => S_Lock; wk := W_Store |}.

Lemma upd_same f k v : upd f k v k = v.  Proof. unfold upd. now rewrite Nat.eqb_refl. Qed.
Lemma upd_other f k v x : x <> k -> upd f k v x = f x.
Proof. unfold upd. intros H. destruct (Nat.eqb_spec x k); [contradiction|reflexivity]. Qed.

Definition holds (p : spc) : bool := match p with S_Check | S_Wait | S_Unlock => true | _ => false end.
Definition wordok (s : st) : Prop :=
  match wk s with W_Store => word s = true /\ wbuf s = false | W_Lock => word s = wbuf s | _ => word s = false /\ wbuf s = false end.
Record Inv (s : st) : Prop := {
  I_mx_s : forall r, holds (sl s r) = true <-> mtx s = BySleeper r;
  I_mx_w : (wk s = W_Bcast \/ wk s = W_Unlock) <-> mtx s = ByWaker;
  I_wd : wordok s;
  I_after : (wk s = W_Unlock \/ wk s = W_Done) -> forall r, sl s r <> S_Blocked /\ sl s r <> S_Wait
}.

Lemma Inv_init : Inv init.
Proof.
  constructor; cbn.
  - intros r. split; discriminate.
  - split; [intros [H|H]; discriminate|discriminate].
  - split; reflexivity.
  - intros [H|H]; discriminate.
Qed.

(* a sleeper r moves to p', the mutex becomes m' *)
Lemma Inv_sleeper s r p' m' :
  Inv s -> (holds p' = true <-> m' = BySleeper r) -> (forall r0, r0 <> r -> (holds (sl s r0) = true <-> m' = BySleeper r0)) ->
  ((wk s = W_Bcast \/ wk s = W_Unlock) <-> m' = ByWaker) ->
  ((wk s = W_Unlock \/ wk s = W_Done) -> p' <> S_Blocked /\ p' <> S_Wait) ->
  Inv {| word := word s; wbuf := wbuf s; mtx := m'; sl := upd (sl s) r p'; wk := wk s |}.
Proof.
  intros [A1 A2 A3 A4] H1 H2 H3 H4. constructor; cbn [word wbuf mtx sl wk].
  - intros r0. destruct (Nat.eq_dec r0 r) as [->|Hne]; [rewrite upd_same; exact H1|rewrite upd_other by exact Hne; apply H2; exact Hne].
  - exact H3.
  - exact A3.
  - intros H r0. destruct (Nat.eq_dec r0 r) as [->|Hne]; [rewrite upd_same; apply H4; exact H|rewrite upd_other by exact Hne; apply A4; exact H].
Qed.

Lemma Inv_step c s : Inv s -> Inv (step true c s).
Proof.
  intros HI. pose proof HI as [A1 A2 A3 A4]. destruct c as [r| | |r]; cbn [step].
  - (* a sleeper moves *)
    assert (Hex : forall r0, mtx s <> BySleeper r0 -> holds (sl s r0) = false).
    { intros r0 Hn. destruct (holds (sl s r0)) eqn:E; [|reflexivity]. apply A1 in E. contradiction. }
    assert (Hnotw : forall m, mtx s = m -> m <> ByWaker -> ~ (wk s = W_Bcast \/ wk s = W_Unlock)) by (intros m Em Hm H; apply A2 in H; congruence).
    destruct (sl s r) eqn:Er.
    + (* lock *) destruct (mtx s) eqn:Em; cbn [is_free]; try exact HI.
      apply Inv_sleeper; [exact HI|cbn; tauto| | |intros _; split; discriminate].
      * intros r0 Hne. rewrite (Hex r0) by (try rewrite Em; discriminate). split; [discriminate|intros E; inversion E; congruence].
      * split; [intros H; apply A2 in H; try rewrite Em in H; discriminate|discriminate].
    + (* check the word under the mutex *)
      assert (Em : mtx s = BySleeper r) by (apply A1; rewrite Er; reflexivity).
      apply Inv_sleeper; [exact HI| |intros r0 _; apply A1|exact A2|].
      * rewrite Em. destruct (word s); cbn; tauto.
      * intros H. assert (Hw : word s = false) by (unfold wordok in A3; destruct H as [H|H]; rewrite H in A3; apply A3). rewrite Hw. split; discriminate.
    + (* cond_wait: release the mutex and queue, atomically *)
      assert (Em : mtx s = BySleeper r) by (apply A1; rewrite Er; reflexivity).
      apply Inv_sleeper; [exact HI|cbn; split; discriminate| | |].
      * intros r0 Hne. rewrite (Hex r0) by (try rewrite Em; intros E; inversion E; congruence). split; discriminate.
      * split; [intros H; apply A2 in H; try rewrite Em in H; discriminate|discriminate].
      * intros H. exfalso. destruct (A4 H r) as [_ B]. contradiction.
    + exact HI.
    + (* re-acquire after a wake-up *)
      destruct (mtx s) eqn:Em; cbn [is_free]; try exact HI.
      apply Inv_sleeper; [exact HI|cbn; tauto| | |intros _; split; discriminate].
      * intros r0 Hne. rewrite (Hex r0) by (try rewrite Em; discriminate). split; [discriminate|intros E; inversion E; congruence].
      * split; [intros H; apply A2 in H; try rewrite Em in H; discriminate|discriminate].
    + (* unlock *)
      assert (Em : mtx s = BySleeper r) by (apply A1; rewrite Er; reflexivity).
      apply Inv_sleeper; [exact HI|cbn; split; discriminate| | |intros _; split; discriminate].
      * intros r0 Hne. rewrite (Hex r0) by (try rewrite Em; intros E; inversion E; congruence). split; discriminate.
      * split; [intros H; apply A2 in H; try rewrite Em in H; discriminate|discriminate].
    + exact HI.
  - (* the waker moves *)
    unfold wordok in A3. destruct (wk s) eqn:Ew.
    + (* the store of the new value enters the buffer *)
      constructor; cbn [word wbuf mtx sl wk]; [exact A1| | |intros [H|H]; discriminate].
      * split; [intros [H|H]; discriminate|]. intros H. apply A2 in H. destruct H; discriminate.
      * unfold wordok; cbn. apply A3.
    + (* lock: needs the mutex free and the buffer drained *)
      destruct (mtx s) eqn:Em; cbn [is_free andb]; try exact HI.
      destruct (wbuf s) eqn:Eb; cbn [negb]; [exact HI|].
      constructor; cbn [word wbuf mtx sl wk].
      * intros r. split; [intros H; apply A1 in H; discriminate|discriminate].
      * tauto.
      * unfold wordok; cbn. split; [exact A3|reflexivity].
      * intros [H|H]; discriminate.
    + (* broadcast under the mutex: every queued sleeper is woken; nobody is between its check and its queueing, because that takes the mutex *)
      assert (Em : mtx s = ByWaker) by (apply A2; left; reflexivity).
      constructor; cbn [word wbuf mtx sl wk].
      * intros r. rewrite <- A1. destruct (sl s r); cbn; tauto.
      * rewrite Em. tauto.
      * unfold wordok; cbn. exact A3.
      * intros _ r. destruct (sl s r) eqn:Er; try (split; discriminate).
        exfalso. assert (H : holds (sl s r) = true) by (rewrite Er; reflexivity). apply A1 in H. rewrite Em in H. discriminate.
    + (* unlock *)
      constructor; cbn [word wbuf mtx sl wk].
      * intros r. split; [intros H; apply A1 in H; assert (E : mtx s = ByWaker) by (apply A2; right; reflexivity); congruence|discriminate].
      * split; [intros [H|H]; discriminate|discriminate].
      * unfold wordok; cbn. exact A3.
      * intros _. apply A4. left. reflexivity.
    + exact HI.
  - (* the waker's store reaches memory *)
    destruct (wbuf s) eqn:Eb; [|exact HI].
    assert (Ew : wk s = W_Lock).
    { unfold wordok in A3. destruct (wk s); try reflexivity; destruct A3 as [_ H]; rewrite Eb in H; discriminate. }
    constructor; cbn [word wbuf mtx sl wk]; [exact A1|exact A2| |exact A4]. unfold wordok; cbn. rewrite Ew. reflexivity.
  - (* spurious wake-up *)
    destruct (sl s r) eqn:Er; try exact HI.
    apply Inv_sleeper; [exact HI| |intros r0 _; apply A1|exact A2|intros _; split; discriminate].
    cbn. split; [discriminate|]. intros E. apply A1 in E. rewrite Er in E. discriminate.
Qed.

Lemma Inv_run : forall cs s0, Inv s0 -> Inv (run true cs s0).
Proof. induction cs as [|c cs IH]; intros s0 H; cbn [run]; [exact H|]. apply IH. apply Inv_step. exact H. Qed.

Theorem compat_no_lost_wakeup : forall cs, let s := run true cs init in
  wk s = W_Done -> forall r, sl s r <> S_Blocked /\ sl s r <> S_Wait.
Proof.
  intros cs. assert (HI : forall s0, Inv s0 -> Inv (run true cs s0)).
  { induction cs as [|c cs IH]; intros s0 H; cbn [run]; [exact H|]. apply IH. apply Inv_step. exact H. }
  intros s Hd. apply (I_after _ (HI init Inv_init)). right. exact Hd.
Qed.
(* ... and the word holds the new value, so a sleeper that re-checks it leaves its loop *)
Theorem compat_word_is_new : forall cs, let s := run true cs init in wk s = W_Done -> word s = false /\ wbuf s = false.
Proof.
  intros cs s Hd. assert (HI : Inv s) by (apply Inv_run; apply Inv_init). destruct HI as [_ _ A3 _]. unfold wordok in A3. rewrite Hd in A3. exact A3.
Qed.

(* the variant that broadcasts without the mutex loses the wake-up: the sleeper checks the word, the waker stores, broadcasts to nobody and returns, the sleeper queues *)
Theorem unlocked_broadcast_refuted : exists cs, let s := run false cs init in wk s = W_Done /\ word s = false /\ sl s 0%nat = S_Blocked /\ mtx s = Free.
Proof. exists [Sl 0; Sl 0; Wk; Flush; Wk; Sl 0]%nat. vm_compute. repeat split. Qed.
Print Assumptions compat_no_lost_wakeup.
Print Assumptions compat_word_is_new.
