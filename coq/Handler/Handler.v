(* scratch: read-side sections in signal handlers (memb/mb/bp reader word).  A handler runs rcu_read_lock(); rcu_read_unlock() on the
   interrupted thread's own reader word and may itself be interrupted, at any program point and to any depth.  The reader word is
   (phase, nesting count); the global phase may change at any time. *)
From Coq Require Import List Arith Bool Lia.
Import ListNotations.

Definition word := (bool * nat)%type.
(* c' ~ c : same nesting count, and the very same word when the count is non-zero (only the stale phase bit of an idle reader may differ) *)
Definition sim (c' c : word) : Prop := snd c' = snd c /\ (snd c <> 0 -> c' = c).
Lemma sim_refl c : sim c c.  Proof. split; auto. Qed.
Lemma sim_trans a b c : sim a b -> sim b c -> sim a c.
Proof. intros [A1 A2] [B1 B2]. split; [congruence|]. intros H. rewrite (A2 ltac:(congruence)). apply B2. exact H. Qed.

(* the two stores, as functions of the value `tmp` read earlier and of the global phase read at the store *)
Definition lock_store (g : bool) (tmp : word) : word := if Nat.eqb (snd tmp) 0 then (g, 1) else (fst tmp, S (snd tmp)).
Definition unlock_store (tmp : word) : word := (fst tmp, snd tmp - 1).

(* any number of (nested) handlers run to completion between two steps of the interrupted code: reader word before -> after *)
Inductive handlers : word -> word -> Prop :=
| h_none c : handlers c c
| h_one c c1 c2 : handler c c1 -> handlers c1 c2 -> handlers c c2
(* one handler: [interruptions] tmp := ctr [interruptions] ctr := lock_store g tmp [interruptions: the handler's own section]
               tmp' := ctr [interruptions] ctr := unlock_store tmp' [interruptions] return *)
with handler : word -> word -> Prop :=
| h_run c a1 a2 g a3 a4 a5 : handlers c a1 -> handlers a1 a2 -> handlers (lock_store g a1) a3 -> handlers a3 a4 -> handlers (unlock_store a3) a5 ->
    handler c a5.
Scheme handlers_ind2 := Induction for handlers Sort Prop with handler_ind2 := Induction for handler Sort Prop.
Combined Scheme handlers_mut from handlers_ind2, handler_ind2.

Lemma lock_store_sim g t t' : sim t' t -> sim (lock_store g t') (lock_store g t) \/ (snd t = 0 /\ lock_store g t' = (g, 1) /\ lock_store g t = (g, 1)).
Proof.
  intros [H1 H2]. unfold lock_store. rewrite H1. destruct (Nat.eqb_spec (snd t) 0) as [E|E]; [right; auto|left]. rewrite (H2 E). apply sim_refl.
Qed.

(* frame property: whatever runs in handlers leaves the reader word as it found it (up to the phase bit of an idle reader) *)
Theorem handler_frame : (forall c c', handlers c c' -> sim c' c) /\ (forall c c', handler c c' -> sim c' c).
Proof.
  apply handlers_mut.
  - intros c. apply sim_refl.
  - intros c c1 c2 _ H1 _ H2. eapply sim_trans; eassumption.
  - intros c a1 a2 g a3 a4 a5 _ S1 _ S2 _ S3 _ S4 _ S5.
    (* S1: a1 ~ c ; S2: a2 ~ a1 (unused: the store uses tmp = a1) ; S3: a3 ~ lock_store g a1 ; S5: a5 ~ unlock_store a3 *)
    assert (L : snd (lock_store g a1) = S (snd a1) /\ (snd a1 <> 0 -> lock_store g a1 = (fst a1, S (snd a1)))).
    { unfold lock_store. destruct (Nat.eqb_spec (snd a1) 0) as [E|E]; cbn; [rewrite E; split; [reflexivity|contradiction]|split; [reflexivity|reflexivity]]. }
    destruct L as [L1 L2]. destruct S3 as [S31 S32]. rewrite L1 in S31, S32. specialize (S32 ltac:(lia)).
    assert (U : sim (unlock_store a3) a1).
    { rewrite S32. unfold unlock_store, sim; cbn. unfold lock_store. destruct (Nat.eqb_spec (snd a1) 0) as [E|E]; cbn.
      - split; [lia|intros H; contradiction].
      - split; [lia|intros _]. destruct a1 as [p n]; cbn in *. f_equal. lia. }
    eapply sim_trans; [exact S5|]. eapply sim_trans; [exact U|exact S1].
Qed.

(* the interrupted operation: rcu_read_lock with handlers between its read and its store has the effect of the uninterrupted one *)
Theorem lock_interrupted g c c1 : handlers c c1 -> sim (lock_store g c) (lock_store g c1) /\ snd (lock_store g c) = S (snd c1).
Proof.
  intros H. destruct (proj1 handler_frame c c1 H) as [H1 H2]. unfold lock_store. rewrite H1.
  destruct (Nat.eqb_spec (snd c) 0) as [E|E]; cbn; [split; [apply sim_refl|lia]|].
  rewrite (H2 E). split; [apply sim_refl|reflexivity].
Qed.
Theorem unlock_interrupted c c1 : snd c <> 0 -> handlers c c1 -> unlock_store c = unlock_store c1.
Proof. intros Hn H. destruct (proj1 handler_frame c c1 H) as [_ H2]. rewrite (H2 Hn). reflexivity. Qed.
Print Assumptions handler_frame.
