(* C19: the reader-word arithmetic of rcu_read_lock / rcu_read_unlock (include/urcu/static/urcu-memb.h, urcu-mb.h, urcu-bp.h) on machine words,
   with the constants of the source, and its abstraction to the (phase, nesting count) words of Handler.v.  These executable functions are what
   the correspondence driver evaluates on the reader-word stores observed in implementation traces. *)
From Coq Require Import NArith ZArith Bool Lia ZifyBool ZifyN.
Require Import Urcu.Handler.Handler Urcu.Gen.Generated.
Local Open Scope N_scope.
Ltac Zify.zify_post_hook ::= Z.div_mod_to_equations.

Definition P32 : N := 4294967296.
Definition nestw (w : N) : N := w mod P32.
Definition phasew (w : N) : bool := (w / P32) mod 2 =? 1.
(* _urcu_*_read_lock_update: outermost lock copies the global counter (count 1 + current phase), nested lock adds one *)
Definition lockw (g tmp : N) : N := if nestw tmp =? 0 then g else tmp + gp_count.
(* _urcu_*_read_unlock_update_and_wakeup: subtracts one *)
Definition unlockw (tmp : N) : N := tmp - gp_count.
(* frame relation of Handler.sim on machine words *)
Definition simw (w' w : N) : bool := (nestw w' =? nestw w) && ((nestw w =? 0) || (w' =? w)).
Definition absw (w : N) : word := (phasew w, N.to_nat (nestw w)).

(* the model's constants are the source's *)
Lemma consts : gp_count = 1 /\ gp_ctr_nest_mask = P32 - 1 /\ gp_ctr_phase = P32.
Proof. repeat split; reflexivity. Qed.
Lemma nestw_is_mask w : nestw w = N.land w gp_ctr_nest_mask.
Proof. unfold nestw. destruct consts as (_ & -> & _). change (P32 - 1) with (N.ones 32). rewrite N.land_ones. reflexivity. Qed.

Theorem simw_sound w' w : simw w' w = true -> sim (absw w') (absw w).
Proof.
  unfold simw. intros H. apply andb_true_iff in H. destruct H as [H1 H2]. apply N.eqb_eq in H1. apply orb_true_iff in H2.
  unfold sim, absw; cbn [fst snd]. split; [rewrite H1; reflexivity|]. intros Hn.
  destruct H2 as [H2|H2]; apply N.eqb_eq in H2; [rewrite H2 in Hn; contradiction|subst; reflexivity].
Qed.

(* the machine-word lock / unlock refine the abstract stores of Handler.v (no overflow of the nesting count) *)
Theorem unlockw_refines w : nestw w <> 0 -> absw (unlockw w) = unlock_store (absw w).
Proof.
  intros Hn. unfold unlockw, absw, unlock_store, phasew, nestw in *. destruct consts as (-> & _ & _). cbn [fst snd]. unfold P32 in *.
  assert (Hq : (w - 1) / 4294967296 = w / 4294967296) by lia.
  assert (Hr : (w - 1) mod 4294967296 = w mod 4294967296 - 1) by lia.
  rewrite Hq, Hr. f_equal. lia.
Qed.
Theorem lockw_refines g w : nestw w < P32 - 1 ->
  absw (lockw g w) = if nestw w =? 0 then absw g else (fst (absw w), S (snd (absw w))).
Proof.
  intros Hn. unfold lockw. destruct (nestw w =? 0) eqn:E; [reflexivity|]. apply N.eqb_neq in E.
  unfold absw, phasew, nestw in *. destruct consts as (-> & _ & _). cbn [fst snd]. unfold P32 in *.
  assert (Hq : (w + 1) / 4294967296 = w / 4294967296) by lia.
  assert (Hr : (w + 1) mod 4294967296 = w mod 4294967296 + 1) by lia.
  rewrite Hq, Hr. f_equal. lia.
Qed.
(* with g the global counter (count 1, some phase), the outermost lock is Handler.lock_store *)
Theorem lockw_is_lock_store g w : nestw w < P32 - 1 -> nestw g = 1 -> absw (lockw g w) = lock_store (phasew g) (absw w).
Proof.
  intros Hn Hg. rewrite lockw_refines by exact Hn. unfold lock_store, absw. cbn [fst snd].
  destruct (nestw w =? 0) eqn:E.
  - apply N.eqb_eq in E. rewrite E. cbn. rewrite Hg. reflexivity.
  - apply N.eqb_neq in E. destruct (Nat.eqb_spec (N.to_nat (nestw w)) 0) as [H|H]; [lia|reflexivity].
Qed.
Print Assumptions lockw_is_lock_store.
Print Assumptions unlockw_refines.
