(* remaining operation specifications, no-lost-update for any number of RMW steps, commutation on disjoint operands,
   and the store-buffering litmus on x86-TSO with and without an RMW between the store and the load *)
From Coq Require Import List Arith NArith ZArith Bool Lia Permutation.
Import ListNotations.
Require Import Urcu.Uatomic.Uatomic.
Local Open Scope N_scope.

Lemma Mpos w : 0 < 256 ^ N.of_nat w.
Proof. apply N.neq_0_lt_0. apply N.pow_nonzero. lia. Qed.
Lemma modw_modw w x : modw w (modw w x) = modw w x.
Proof. unfold modw. apply N.mod_mod. pose proof (Mpos w). lia. Qed.
Lemma modw_add_l w x y : modw w (modw w x + y) = modw w (x + y).
Proof. unfold modw. apply N.add_mod_idemp_l. pose proof (Mpos w). lia. Qed.
Lemma modw_small w x : x < 256 ^ N.of_nat w -> modw w x = x.
Proof. intros H. unfold modw. apply N.mod_small. exact H. Qed.

Theorem uatomic_set_spec m a w v : rd (fst (exec m a w (OSet v))) a w = modw w v.
Proof. cbn [exec fst]. apply rd_wr. Qed.
Theorem uatomic_read_spec m a w : exec m a w ORead = (m, rd m a w).
Proof. reflexivity. Qed.
Theorem uatomic_add_spec m a w v : rd (fst (exec m a w (OAdd v))) a w = modw w (rd m a w + v).
Proof. cbn [exec fst]. apply rd_wr. Qed.
Theorem uatomic_inc_spec m a w : rd (fst (exec m a w OInc)) a w = modw w (rd m a w + 1).
Proof. cbn [exec fst]. apply rd_wr. Qed.
Theorem uatomic_sub_spec m a w v : wfm m -> modw w (rd (fst (exec m a w (OSub v))) a w + v) = rd m a w.
Proof.
  intros Hm. pose proof (uatomic_sub_return_spec m a w v Hm) as H. cbn [exec] in H. destruct H as [H1 H2].
  cbn [exec fst]. rewrite H1. exact H2.
Qed.
Theorem uatomic_dec_spec m a w : wfm m -> modw w (rd (fst (exec m a w ODec)) a w + 1) = rd m a w.
Proof. intros Hm. exact (uatomic_sub_spec m a w 1 Hm). Qed.
Lemma lor_lt k x y : x < 2 ^ k -> y < 2 ^ k -> N.lor x y < 2 ^ k.
Proof.
  intros Hx Hy. destruct (N.eq_dec (N.lor x y) 0) as [->|Hne]; [apply N.neq_0_lt_0, N.pow_nonzero; lia|].
  apply N.log2_lt_pow2; [lia|]. rewrite N.log2_lor. apply N.max_lub_lt.
  - destruct (N.eq_dec x 0) as [->|E].
    + destruct (N.eq_dec y 0) as [->|Ey]; [rewrite N.lor_0_l in Hne; congruence|].
      apply N.log2_lt_pow2 in Hy; [|lia]. cbn. lia.
    + apply N.log2_lt_pow2; [lia|exact Hx].
  - destruct (N.eq_dec y 0) as [->|E].
    + destruct (N.eq_dec x 0) as [->|Ex]; [rewrite N.lor_0_l in Hne; congruence|].
      apply N.log2_lt_pow2 in Hx; [|lia]. cbn. lia.
    + apply N.log2_lt_pow2; [lia|exact Hy].
Qed.
Lemma land_lt k x y : x < 2 ^ k -> N.land x y < 2 ^ k.
Proof.
  intros Hx. destruct (N.eq_dec (N.land x y) 0) as [->|Hne]; [apply N.neq_0_lt_0, N.pow_nonzero; lia|].
  destruct (N.eq_dec x 0) as [->|E]; [rewrite N.land_0_l in Hne; congruence|].
  apply N.log2_lt_pow2; [lia|]. apply N.log2_lt_pow2 in Hx; [|lia].
  eapply N.le_lt_trans; [|exact Hx]. etransitivity; [apply N.log2_land|]. apply N.le_min_l.
Qed.
Lemma pow256 w : 256 ^ N.of_nat w = 2 ^ (8 * N.of_nat w).
Proof. rewrite N.pow_mul_r. reflexivity. Qed.
Theorem uatomic_and_spec m a w v : wfm m -> rd (fst (exec m a w (OAnd v))) a w = N.land (rd m a w) v.
Proof.
  intros Hm. cbn [exec fst]. rewrite rd_wr. apply modw_small.
  pose proof (rd_bound w m a Hm) as Hb. rewrite pow256 in *. apply land_lt. exact Hb.
Qed.
Theorem uatomic_or_spec m a w v : wfm m -> rd (fst (exec m a w (OOr v))) a w = N.lor (rd m a w) (modw w v).
Proof.
  intros Hm. cbn [exec fst]. rewrite rd_wr. apply modw_small.
  pose proof (rd_bound w m a Hm) as Hb.
  assert (Hv : modw w v < 256 ^ N.of_nat w) by (unfold modw; apply N.mod_lt; pose proof (Mpos w); lia).
  rewrite pow256 in *. apply lor_lt; assumption.
Qed.

(* -------- no lost update: any number of atomic add / sub steps on one location, in any order ------------------- *)
Definition apply_adds (m : mem) (a : N) (w : nat) (vs : list N) : mem := fold_left (fun m v => fst (exec m a w (OAdd v))) vs m.
Definition sumN (l : list N) : N := fold_right N.add 0 l.
Lemma apply_adds_value w a : forall vs m, rd (apply_adds m a w vs) a w = modw w (rd m a w + sumN vs) \/ vs = [] /\ rd (apply_adds m a w vs) a w = rd m a w.
Proof.
  induction vs as [|v vs IH]; intros m; [right; split; reflexivity|left].
  cbn [apply_adds fold_left]. fold (apply_adds (fst (exec m a w (OAdd v))) a w vs).
  destruct (IH (fst (exec m a w (OAdd v)))) as [E|[-> E]].
  - rewrite E, uatomic_add_spec, modw_add_l. f_equal. cbn [sumN fold_right]. fold (sumN vs). lia.
  - cbn [apply_adds fold_left]. rewrite uatomic_add_spec. f_equal. cbn. lia.
Qed.
Lemma sumN_perm l l' : Permutation l l' -> sumN l = sumN l'.
Proof.
  induction 1 as [|x l l' _ IH|x y l|l l' l'' _ IH1 _ IH2]; [reflexivity| | |congruence].
  - change (x + sumN l = x + sumN l'). rewrite IH. reflexivity.
  - change (y + (x + sumN l) = x + (y + sumN l)). lia.
Qed.
(* the value left by n concurrent atomic additions does not depend on the order in which they take effect: no update is lost *)
Theorem rmw_no_lost_update m a w vs vs' : wfm m -> Permutation vs vs' -> vs <> [] ->
  rd (apply_adds m a w vs) a w = modw w (rd m a w + sumN vs) /\ rd (apply_adds m a w vs') a w = rd (apply_adds m a w vs) a w.
Proof.
  intros Hm HP Hne.
  assert (Hne' : vs' <> []) by (intros ->; apply Permutation_sym, Permutation_nil in HP; congruence).
  destruct (apply_adds_value w a vs m) as [E|[E _]]; [|congruence].
  destruct (apply_adds_value w a vs' m) as [E'|[E' _]]; [|congruence].
  split; [exact E|]. rewrite E, E', (sumN_perm _ _ HP). reflexivity.
Qed.

(* operations on disjoint byte ranges commute (adjacent locations do not disturb each other) *)
Lemma rd_wr_other w1 w2 : forall m a1 a2 v, (a1 + N.of_nat w1 <= a2 \/ a2 + N.of_nat w2 <= a1) -> rd (wr m a1 w1 v) a2 w2 = rd m a2 w2.
Proof. intros m a1 a2 v H. apply rd_frame. intros x Hx. apply wr_frame. lia. Qed.
Lemma wr_comm w1 w2 : forall m a1 a2 v1 v2 x, (a1 + N.of_nat w1 <= a2 \/ a2 + N.of_nat w2 <= a1) ->
  wr (wr m a1 w1 v1) a2 w2 v2 x = wr (wr m a2 w2 v2) a1 w1 v1 x.
Proof.
  intros m a1 a2 v1 v2 x H.
  destruct (N.lt_ge_cases x a1) as [H1|H1]; [|destruct (N.lt_ge_cases x (a1 + N.of_nat w1)) as [H1'|H1']].
  - rewrite (wr_frame w1 _ a1 v1 x) by lia.
    destruct (N.lt_ge_cases x a2) as [H2|H2]; [rewrite !(wr_frame w2) by lia; apply wr_frame; lia|].
    destruct (N.lt_ge_cases x (a2 + N.of_nat w2)) as [H2'|H2']; [|rewrite !(wr_frame w2) by lia; apply wr_frame; lia].
    revert m a2 v2 H H1 H2 H2'. induction w2 as [|w2 IH]; intros m a2 v2 H H1 H2 H2'; [lia|].
    cbn [wr]. destruct (N.eqb_spec x a2); [reflexivity|]. apply IH; lia.
  - rewrite (wr_frame w2 _ a2 v2 x) by lia.
    revert m a1 v1 H H1 H1'. induction w1 as [|w1 IH]; intros m a1 v1 H H1 H1'; [lia|].
    cbn [wr]. destruct (N.eqb_spec x a1); [reflexivity|]. rewrite IH by lia. reflexivity.
  - rewrite (wr_frame w1 _ a1 v1 x) by lia.
    destruct (N.lt_ge_cases x a2) as [H2|H2]; [rewrite !(wr_frame w2) by lia; apply wr_frame; lia|].
    destruct (N.lt_ge_cases x (a2 + N.of_nat w2)) as [H2'|H2']; [|rewrite !(wr_frame w2) by lia; apply wr_frame; lia].
    revert m a2 v2 H H1' H2 H2'. induction w2 as [|w2 IH]; intros m a2 v2 H H1' H2 H2'; [lia|].
    cbn [wr]. destruct (N.eqb_spec x a2); [reflexivity|]. apply IH; lia.
Qed.
Theorem rmw_adjacent_commute m a1 w1 v1 a2 w2 v2 x : (a1 + N.of_nat w1 <= a2 \/ a2 + N.of_nat w2 <= a1) ->
  fst (exec (fst (exec m a1 w1 (OAdd v1))) a2 w2 (OAdd v2)) x = fst (exec (fst (exec m a2 w2 (OAdd v2))) a1 w1 (OAdd v1)) x.
Proof.
  intros H. cbn [exec fst]. rewrite (rd_wr_other w1 w2) by exact H. rewrite (rd_wr_other w2 w1) by lia. apply wr_comm. exact H.
Qed.

(* -------- store-buffering litmus on x86-TSO -------------------------------------------------------------------- *)
(* thread i: pc 0: store own flag := 1 (into the store buffer); pc 1: the RMW (enabled only on an empty buffer) when `rmw`,
   skipped otherwise; pc 2: load the other flag into r_i; pc 3: done.  Choices: Step i, Flush i. *)
Record sb := { pc0 : nat; pc1 : nat; b0 : bool; b1 : bool; mx : bool; my : bool; r0 : bool; r1 : bool }.
Inductive sbc := S0 | S1 | F0 | F1.
Definition sb_step (rmw : bool) (c : sbc) (s : sb) : sb :=
  match c with
  | F0 => if b0 s then {| pc0 := pc0 s; pc1 := pc1 s; b0 := false; b1 := b1 s; mx := true; my := my s; r0 := r0 s; r1 := r1 s |} else s
  | F1 => if b1 s then {| pc0 := pc0 s; pc1 := pc1 s; b0 := b0 s; b1 := false; mx := mx s; my := true; r0 := r0 s; r1 := r1 s |} else s
  | S0 => match pc0 s with
          | 0%nat => {| pc0 := 1; pc1 := pc1 s; b0 := true; b1 := b1 s; mx := mx s; my := my s; r0 := r0 s; r1 := r1 s |}
          | 1%nat => if rmw && b0 s then s else {| pc0 := 2; pc1 := pc1 s; b0 := b0 s; b1 := b1 s; mx := mx s; my := my s; r0 := r0 s; r1 := r1 s |}
          | 2%nat => {| pc0 := 3; pc1 := pc1 s; b0 := b0 s; b1 := b1 s; mx := mx s; my := my s; r0 := my s; r1 := r1 s |}
          | _ => s end
  | S1 => match pc1 s with
          | 0%nat => {| pc0 := pc0 s; pc1 := 1; b0 := b0 s; b1 := true; mx := mx s; my := my s; r0 := r0 s; r1 := r1 s |}
          | 1%nat => if rmw && b1 s then s else {| pc0 := pc0 s; pc1 := 2; b0 := b0 s; b1 := b1 s; mx := mx s; my := my s; r0 := r0 s; r1 := r1 s |}
          | 2%nat => {| pc0 := pc0 s; pc1 := 3; b0 := b0 s; b1 := b1 s; mx := mx s; my := my s; r0 := r0 s; r1 := mx s |}
          | _ => s end
  end.
Definition sb_init : sb := {| pc0 := 0; pc1 := 0; b0 := false; b1 := false; mx := false; my := false; r0 := true; r1 := true |}.
Definition sb_run (rmw : bool) (cs : list sbc) : sb := fold_left (fun s c => sb_step rmw c s) cs sb_init.
Definition sb_bad (s : sb) : bool := (pc0 s =? 3)%nat && (pc1 s =? 3)%nat && negb (r0 s) && negb (r1 s).
(* inductive invariant: once thread i has passed its RMW its flag is in memory (the RMW found the buffer empty);
   a thread that loaded 0 has finished; not both loaded 0 *)
Definition sb_inv (s : sb) : bool :=
  (if (1 <=? pc0 s)%nat then b0 s || mx s else negb (mx s) && negb (b0 s)) && (if (2 <=? pc0 s)%nat then mx s && negb (b0 s) else true) &&
  (if (1 <=? pc1 s)%nat then b1 s || my s else negb (my s) && negb (b1 s)) && (if (2 <=? pc1 s)%nat then my s && negb (b1 s) else true) &&
  (r0 s || (pc0 s =? 3)%nat) && (r1 s || (pc1 s =? 3)%nat) && (r0 s || r1 s) && (pc0 s <=? 3)%nat && (pc1 s <=? 3)%nat.
Lemma sb_inv_step c s : sb_inv s = true -> sb_inv (sb_step true c s) = true.
Proof.
  destruct s as [p0 p1 [|] [|] [|] [|] [|] [|]];
  destruct c; do 4 (try destruct p0 as [|p0]); do 4 (try destruct p1 as [|p1]); cbn; intros H; try reflexivity; try discriminate H; try exact H.
Qed.
Theorem rmw_full_barrier : forall cs, sb_bad (sb_run true cs) = false.
Proof.
  assert (H : forall cs s, sb_inv s = true -> sb_inv (fold_left (fun s c => sb_step true c s) cs s) = true).
  { induction cs as [|c cs IH]; intros s Hs; [exact Hs|]. cbn [fold_left]. apply IH. apply sb_inv_step. exact Hs. }
  intros cs. specialize (H cs sb_init eq_refl). unfold sb_run.
  destruct (fold_left (fun s c => sb_step true c s) cs sb_init) as [p0 p1 [|] [|] [|] [|] [|] [|]];
    do 4 (try destruct p0 as [|p0]); do 4 (try destruct p1 as [|p1]); cbn in *; try reflexivity; try discriminate H.
Qed.
(* without the RMW the forbidden outcome is reachable: the statement above is not vacuous *)
Theorem sb_relaxed_witness : sb_bad (sb_run false [S0; S1; S0; S1; S0; S1]) = true.
Proof. reflexivity. Qed.
