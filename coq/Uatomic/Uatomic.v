(* scratch: byte-level model of the uatomic operations for operand widths 1, 2, 4, 8 (little endian), with the frame property *)
From Coq Require Import List Arith NArith ZArith Bool Lia.
Import ListNotations.
Local Open Scope N_scope.
Ltac Zify.zify_post_hook ::= Z.div_mod_to_equations.

Definition mem := N -> N.                       (* address -> byte, every byte < 256 *)
Definition wfm (m : mem) : Prop := forall a, m a < 256.
Fixpoint rd (m : mem) (a : N) (w : nat) : N := match w with O => 0 | S w' => m a + 256 * rd m (a + 1) w' end.
Fixpoint wr (m : mem) (a : N) (w : nat) (v : N) : mem :=
  match w with O => m | S w' => fun x => if x =? a then v mod 256 else wr m (a + 1) w' (v / 256) x end.
Definition modw (w : nat) (v : N) : N := v mod 256 ^ N.of_nat w.

Lemma wr_frame w : forall m a v x, (x < a \/ a + N.of_nat w <= x) -> wr m a w v x = m x.
Proof.
  induction w as [|w IH]; intros m a v x Hx; cbn [wr]; [reflexivity|].
  destruct (N.eqb_spec x a) as [->|Hne]; [lia|]. apply IH. lia.
Qed.
Lemma wr_wf w : forall m a v, wfm m -> wfm (wr m a w v).
Proof.
  induction w as [|w IH]; intros m a v Hm x; cbn [wr]; [apply Hm|].
  destruct (x =? a); [apply N.mod_lt; lia|apply IH; exact Hm].
Qed.
Lemma rd_frame w : forall m m' a, (forall x, a <= x < a + N.of_nat w -> m' x = m x) -> rd m' a w = rd m a w.
Proof.
  induction w as [|w IH]; intros m m' a H; cbn [rd]; [reflexivity|].
  rewrite (H a) by lia. f_equal. f_equal. apply IH. intros x Hx. apply H. lia.
Qed.
Lemma rd_wr w : forall m a v, rd (wr m a w v) a w = modw w v.
Proof.
  induction w as [|w IH]; intros m a v; unfold modw; cbn [rd wr].
  - cbn. rewrite N.mod_1_r. reflexivity.
  - rewrite N.eqb_refl.
    replace (rd (fun x => if x =? a then v mod 256 else wr m (a + 1) w (v / 256) x) (a + 1) w) with (rd (wr m (a + 1) w (v / 256)) (a + 1) w).
    + rewrite IH. unfold modw. rewrite Nat2N.inj_succ, N.pow_succ_r'.
      rewrite N.mod_mul_r by (try apply N.pow_nonzero; lia). reflexivity.
    + apply rd_frame. intros x Hx. destruct (N.eqb_spec x a); [lia|reflexivity].
Qed.
Lemma rd_bound w : forall m a, wfm m -> rd m a w < 256 ^ N.of_nat w.
Proof.
  induction w as [|w IH]; intros m a Hm; cbn [rd]; [cbn; lia|].
  rewrite Nat2N.inj_succ, N.pow_succ_r'. pose proof (Hm a). pose proof (IH m (a + 1) Hm). nia.
Qed.

(* the operations: new memory and returned value (as unsigned numbers of the operand width) *)
Inductive op := OSet (v : N) | ORead | OXchg (v : N) | OCmpxchg (e n : N) | OAddRet (v : N) | OSubRet (v : N) | OAdd (v : N) | OSub (v : N) | OInc | ODec | OAnd (v : N) | OOr (v : N).
Definition sub_mod (w : nat) (a b : N) : N := modw w (a + (256 ^ N.of_nat w - modw w b)).
Definition exec (m : mem) (a : N) (w : nat) (o : op) : mem * N :=
  let old := rd m a w in
  match o with
  | OSet v => (wr m a w v, 0)
  | ORead => (m, old)
  | OXchg v => (wr m a w v, old)
  | OCmpxchg e n => if old =? modw w e then (wr m a w n, old) else (m, old)
  | OAddRet v => (wr m a w (old + v), modw w (old + v))
  | OSubRet v => (wr m a w (sub_mod w old v), sub_mod w old v)
  | OAdd v => (wr m a w (old + v), 0)
  | OSub v => (wr m a w (sub_mod w old v), 0)
  | OInc => (wr m a w (old + 1), 0)
  | ODec => (wr m a w (sub_mod w old 1), 0)
  | OAnd v => (wr m a w (N.land old v), 0)
  | OOr v => (wr m a w (N.lor old (modw w v)), 0)
  end.

(* no byte outside [a, a+w) changes, whatever the operation and operands *)
Theorem uatomic_frame m a w o x : (x < a \/ a + N.of_nat w <= x) -> fst (exec m a w o) x = m x.
Proof.
  intros Hx. unfold exec. destruct o; cbn [fst]; try reflexivity; try (apply wr_frame; exact Hx).
  destruct (rd m a w =? modw w e); cbn [fst]; [apply wr_frame; exact Hx|reflexivity].
Qed.
(* the value left in the operand, read back with the operand's width *)
Theorem uatomic_add_return_spec m a w v : let '(m', r) := exec m a w (OAddRet v) in r = modw w (rd m a w + v) /\ rd m' a w = r.
Proof. cbn [exec]. split; [reflexivity|apply rd_wr]. Qed.
Theorem uatomic_xchg_spec m a w v : wfm m -> let '(m', r) := exec m a w (OXchg v) in r = rd m a w /\ rd m' a w = modw w v.
Proof. intros _. cbn [exec]. split; [reflexivity|apply rd_wr]. Qed.
Theorem uatomic_cmpxchg_spec m a w e n : wfm m -> let '(m', r) := exec m a w (OCmpxchg e n) in
  r = rd m a w /\ rd m' a w = (if rd m a w =? modw w e then modw w n else rd m a w).
Proof. intros _. unfold exec. destruct (rd m a w =? modw w e); split; try reflexivity. apply rd_wr. Qed.
(* subtraction is addition of the two's complement: the result is the unique residue r with r + v = old (mod 2^(8w)) *)
Theorem uatomic_sub_return_spec m a w v : wfm m -> let '(m', r) := exec m a w (OSubRet v) in
  rd m' a w = r /\ modw w (r + v) = rd m a w.
Proof.
  intros Hm. cbn [exec]. split; [rewrite rd_wr; unfold sub_mod, modw; apply N.mod_mod; apply N.pow_nonzero; lia|].
  pose proof (rd_bound w m a Hm) as Hb. unfold sub_mod, modw. set (M := 256 ^ N.of_nat w) in *.
  assert (HM : 0 < M) by (unfold M; apply N.neq_0_lt_0; apply N.pow_nonzero; lia).
  rewrite N.add_mod_idemp_l by lia.
  replace (rd m a w + (M - v mod M) + v) with (rd m a w + (v / M + 1) * M).
  - rewrite N.mod_add by lia. apply N.mod_small. exact Hb.
  - pose proof (N.div_mod v M ltac:(lia)). pose proof (N.mod_lt v M ltac:(lia)). nia.
Qed.
Print Assumptions uatomic_frame.
Print Assumptions uatomic_sub_return_spec.
