(* scratch: grace period of the qsbr flavor (64-bit, single counter) on TSO.  Readers: online / quiescent_state / offline with
   their fences; the updater increments the global counter and waits until every reader's word in MEMORY is 0 or the new value.
   Theorem: when the grace period ends, no reader is still in an implicit section that began before the increment. *)
From Coq Require Import List Arith Bool Lia.
Import ListNotations.

Inductive rpc := Q_Off | Q_OnL (g : nat) | Q_OnF | Q_On | Q_QsL (g : nat) | Q_QsS (g : nat) | Q_QsF | Q_OffF.
Record reader := { rmem : nat; rbuf : list nat; pc : rpc; old_open : bool }.
Inductive where_ := W_input | W_qs.
Inductive uphase := U_Idle | U_Scan.
Record state := { gctr : nat; rd : nat -> reader; loc : nat -> where_; ph : uphase }.
Inductive choice := C_R (r : nat) (* next step of the operation in progress, or go online *) | C_Qs (r : nat) | C_Offl (r : nat) | C_Flush (r : nat) | C_UStart | C_UScan (r : nat).
Definition upd {A} (f : nat -> A) (k : nat) (v : A) : nat -> A := fun x => if Nat.eqb x k then v else f x.
Definition view (x : reader) : nat := last (rbuf x) (rmem x).
Definition in_sec (x : reader) : bool := match pc x with Q_On | Q_QsL _ | Q_QsS _ | Q_QsF | Q_OffF => true | _ => false end.
Definition setrd (s : state) r x : state := {| gctr := gctr s; rd := upd (rd s) r x; loc := loc s; ph := ph s |}.
Definition mk x b p o : reader := {| rmem := rmem x; rbuf := b; pc := p; old_open := o |}.

Definition step (c : choice) (s : state) : state :=
  match c with
  | C_R r =>
      let x := rd s r in
      match pc x with
      | Q_Off => setrd s r (mk x (rbuf x) (Q_OnL (gctr s)) (old_open x))
      | Q_OnL g => setrd s r (mk x (rbuf x ++ [g]) Q_OnF (old_open x))
      | Q_OnF => match rbuf x with [] => setrd s r (mk x [] Q_On (old_open x)) | _ => s end
      | Q_QsL g => match rbuf x with [] => setrd s r (mk x [] (Q_QsS g) (old_open x)) | _ => s end
      | Q_QsS g => setrd s r (mk x (rbuf x ++ [g]) Q_QsF (old_open x))
      | Q_QsF => match rbuf x with [] => setrd s r (mk x [] Q_On (old_open x)) | _ => s end
      | Q_OffF => match rbuf x with [] => setrd s r (mk x [0] Q_Off false) | _ => s end
      | Q_On => s
      end
  | C_Qs r =>
      let x := rd s r in
      match pc x with
      | Q_On => if Nat.eqb (gctr s) (view x) then setrd s r (mk x (rbuf x) Q_On false) else setrd s r (mk x (rbuf x) (Q_QsL (gctr s)) false)
      | _ => s
      end
  | C_Offl r => let x := rd s r in match pc x with Q_On => setrd s r (mk x (rbuf x) Q_OffF (old_open x)) | _ => s end
  | C_Flush r => let x := rd s r in match rbuf x with [] => s | w :: b => setrd s r {| rmem := w; rbuf := b; pc := pc x; old_open := old_open x |} end
  | C_UStart =>
      match ph s with
      | U_Idle => {| gctr := S (gctr s); rd := fun r => let x := rd s r in mk x (rbuf x) (pc x) (in_sec x); loc := fun _ => W_input; ph := U_Scan |}
      | U_Scan => s
      end
  | C_UScan r =>
      match ph s, loc s r with
      | U_Scan, W_input => if Nat.eqb (rmem (rd s r)) 0 || Nat.eqb (rmem (rd s r)) (gctr s)
                           then {| gctr := gctr s; rd := rd s; loc := upd (loc s) r W_qs; ph := ph s |} else s
      | _, _ => s
      end
  end.
Inductive ustep : state -> state -> Prop :=
| U_end s : ph s = U_Scan -> (forall r, loc s r <> W_input) -> ustep s {| gctr := gctr s; rd := rd s; loc := loc s; ph := U_Idle |}.
Inductive trans : state -> state -> Prop := T_choice c s : trans s (step c s) | T_ustep s s' : ustep s s' -> trans s s'.
Inductive reach (s0 : state) : state -> Prop := R_refl : reach s0 s0 | R_step s s' : reach s0 s -> trans s s' -> reach s0 s'.
Definition init : state := {| gctr := 1; rd := fun _ => {| rmem := 0; rbuf := []; pc := Q_Off; old_open := false |}; loc := fun _ => W_qs; ph := U_Idle |}.

(* per-reader facts that hold at all times, relative to the current global counter G *)
Definition RI (G : nat) (x : reader) : Prop :=
  Forall (fun w => w <= G) (rmem x :: rbuf x) /\
  match pc x with
  | Q_OnL g => 1 <= g <= G
  | Q_OnF => view x <> 0
  | Q_On | Q_OffF => rbuf x = [] /\ rmem x <> 0
  | Q_QsL g | Q_QsS g => rbuf x = [] /\ rmem x <> 0 /\ 1 <= g <= G
  | Q_QsF => Forall (fun w => w <> 0) (rmem x :: rbuf x)
  | _ => True
  end /\ (old_open x = true -> in_sec x = true).
(* a flagged reader has announced nothing since the increment: every word it has written is stale *)
Definition K (s : state) (r : nat) : Prop :=
  let x := rd s r in
  old_open x = true ->
  loc s r = W_input /\ Forall (fun w => w <> 0 /\ w <> gctr s) (rmem x :: rbuf x) /\
  match pc x with Q_QsL g | Q_QsS g => g <> gctr s | _ => True end.
Definition Inv (s : state) : Prop :=
  1 <= gctr s /\ (forall r, RI (gctr s) (rd s r)) /\ (ph s = U_Idle -> forall r, old_open (rd s r) = false) /\ (ph s = U_Scan -> forall r, K s r).

Lemma upd_same {A} (f : nat -> A) k v : upd f k v k = v.  Proof. unfold upd. now rewrite Nat.eqb_refl. Qed.
Lemma upd_other {A} (f : nat -> A) k v x : x <> k -> upd f k v x = f x.
Proof. unfold upd. intros H. destruct (Nat.eqb_spec x k); [contradiction|reflexivity]. Qed.

Lemma Inv_setrd s r x : Inv s -> RI (gctr s) x ->
  (ph s = U_Idle -> old_open x = false) ->
  (ph s = U_Scan -> old_open x = true -> old_open (rd s r) = true /\
     (Forall (fun w => w <> 0 /\ w <> gctr s) (rmem (rd s r) :: rbuf (rd s r)) -> (match pc (rd s r) with Q_QsL g | Q_QsS g => g <> gctr s | _ => True end) ->
      Forall (fun w => w <> 0 /\ w <> gctr s) (rmem x :: rbuf x) /\ match pc x with Q_QsL g | Q_QsS g => g <> gctr s | _ => True end)) ->
  Inv (setrd s r x).
Proof.
  intros (HG & HRI & HIdle & HK) Hx Hid Hoo. split; [exact HG|split; [|split]]; cbn [setrd gctr rd loc ph].
  - intros r0. destruct (Nat.eq_dec r0 r) as [->|Hne]; [rewrite upd_same; exact Hx|rewrite upd_other by exact Hne; apply HRI].
  - intros Hp r0. destruct (Nat.eq_dec r0 r) as [->|Hne]; [rewrite upd_same; apply Hid; exact Hp|rewrite upd_other by exact Hne; apply HIdle; exact Hp].
  - intros Hp r0. unfold K; cbn [setrd gctr rd loc ph]. destruct (Nat.eq_dec r0 r) as [->|Hne]; [rewrite upd_same|rewrite upd_other by exact Hne; apply (HK Hp r0)].
    intros Ho. destruct (Hoo Hp Ho) as [Ho' Hw]. destruct (HK Hp r Ho') as (Hl & Hall & Hg). destruct (Hw Hall Hg) as [A B]. split; [exact Hl|split; assumption].
Qed.

Lemma Forall_app1 {A} (P : A -> Prop) a l w : Forall P (a :: l) -> P w -> Forall P (a :: l ++ [w]).
Proof. intros H Hw. rewrite app_comm_cons. apply Forall_app. split; [exact H|constructor; [exact Hw|constructor]]. Qed.

Lemma last_cons_ne {A} (a : A) (l : list A) d : l <> [] -> last (a :: l) d = last l d.
Proof. destruct l; [contradiction|reflexivity]. Qed.
Lemma last_change_default {A} (l : list A) d d' : l <> [] -> last l d = last l d'.
Proof. induction l as [|a l IH]; [contradiction|]. intros _. destruct l as [|b l]; [reflexivity|]. change (last (b :: l) d = last (b :: l) d'). apply IH. discriminate. Qed.
Lemma view_flush (w : nat) (b : list nat) m : last b w = last (w :: b) m.
Proof. destruct b as [|c b]; [reflexivity|]. symmetry. rewrite last_cons_ne by discriminate. apply last_change_default. discriminate. Qed.

Ltac notsec Hoo Epc := let Ho := fresh in intros Ho; specialize (Hoo Ho); unfold in_sec in Hoo; rewrite Epc in Hoo; discriminate.

Lemma Inv_step c s : Inv s -> Inv (step c s).
Proof.
  intros HI. pose proof HI as (HG & HRI & HIdle & HK).
  destruct c as [r|r|r|r| |r]; cbn [step].
  - (* operation steps *)
    pose proof (HRI r) as (Hle & Hpc & Hoo). destruct (pc (rd s r)) eqn:Epc.
    + (* Q_Off: load the global counter *)
      apply Inv_setrd; [exact HI| | |]; unfold RI, mk; cbn [rmem rbuf pc old_open in_sec].
      * split; [exact Hle|split; [lia|notsec Hoo Epc]].
      * intros Hp. apply HIdle; exact Hp.
      * intros _. notsec Hoo Epc.
    + (* Q_OnL: store the announced value *)
      apply Inv_setrd; [exact HI| | |]; unfold RI, mk; cbn [rmem rbuf pc old_open in_sec].
      * split; [apply Forall_app1; [exact Hle|lia]|split; [unfold view; cbn; rewrite last_last; lia|notsec Hoo Epc]].
      * intros Hp. apply HIdle; exact Hp.
      * intros _. notsec Hoo Epc.
    + (* Q_OnF: trailing fence of online *)
      destruct (rbuf (rd s r)) eqn:Eb; [|exact HI].
      assert (Hnz : rmem (rd s r) <> 0) by (unfold view in Hpc; rewrite Eb in Hpc; exact Hpc).
      apply Inv_setrd; [exact HI| | |]; unfold RI, mk; cbn [rmem rbuf pc old_open in_sec].
      * split; [exact Hle|split; [split; [reflexivity|exact Hnz]|notsec Hoo Epc]].
      * intros Hp. apply HIdle; exact Hp.
      * intros _. notsec Hoo Epc.
    + exact HI.
    + (* Q_QsL: leading fence *)
      destruct Hpc as (Hb & Hnz & Hg). rewrite Hb.
      apply Inv_setrd; [exact HI| | |]; unfold RI, mk; cbn [rmem rbuf pc old_open in_sec].
      * rewrite Hb in Hle. split; [exact Hle|split; [split; [reflexivity|split; assumption]|intros _; reflexivity]].
      * intros Hp. apply HIdle; exact Hp.
      * intros _ Ho. split; [exact Ho|]. rewrite Hb, Epc. intros A B. split; assumption.
    + (* Q_QsS: store the loaded value *)
      destruct Hpc as (Hb & Hnz & Hg).
      apply Inv_setrd; [exact HI| | |]; unfold RI, mk; cbn [rmem rbuf pc old_open in_sec].
      * split; [apply Forall_app1; [exact Hle|lia]|split; [|intros _; reflexivity]].
        rewrite Hb. cbn. constructor; [exact Hnz|constructor; [lia|constructor]].
      * intros Hp. apply HIdle; exact Hp.
      * intros _ Ho. split; [exact Ho|]. rewrite Epc. intros A B. split; [|exact I]. apply Forall_app1; [exact A|]. split; [lia|exact B].
    + (* Q_QsF: trailing fence *)
      destruct (rbuf (rd s r)) eqn:Eb; [|exact HI].
      apply Inv_setrd; [exact HI| | |]; unfold RI, mk; cbn [rmem rbuf pc old_open in_sec].
      * split; [exact Hle|split; [split; [reflexivity|inversion Hpc; assumption]|intros _; reflexivity]].
      * intros Hp. apply HIdle; exact Hp.
      * intros _ Ho. split; [exact Ho|]. rewrite Eb. intros A _. split; [exact A|exact I].
    + (* Q_OffF: fence, then store 0: the reader leaves its section *)
      destruct Hpc as (Hb & Hnz). rewrite Hb.
      apply Inv_setrd; [exact HI| | |]; unfold RI, mk; cbn [rmem rbuf pc old_open in_sec].
      * split; [|split; [exact I|discriminate]]. rewrite Hb in Hle. inversion Hle; subst. constructor; [assumption|constructor; [lia|constructor]].
      * intros _. reflexivity.
      * intros _. discriminate.
  - (* quiescent state: the load of the global counter ends the previous implicit section *)
    pose proof (HRI r) as (Hle & Hpc & Hoo). destruct (pc (rd s r)) eqn:Epc; try exact HI.
    destruct Hpc as (Hb & Hnz).
    destruct (Nat.eqb_spec (gctr s) (view (rd s r))) as [E|E]; (apply Inv_setrd; [exact HI| | |]; unfold RI, mk; cbn [rmem rbuf pc old_open in_sec]).
    + split; [exact Hle|split; [split; assumption|discriminate]].
    + intros _. reflexivity.
    + intros _. discriminate.
    + split; [exact Hle|split; [split; [exact Hb|split; [exact Hnz|lia]]|discriminate]].
    + intros _. reflexivity.
    + intros _. discriminate.
  - (* going offline: still in the section until the store *)
    pose proof (HRI r) as (Hle & Hpc & Hoo). destruct (pc (rd s r)) eqn:Epc; try exact HI.
    apply Inv_setrd; [exact HI| | |]; unfold RI, mk; cbn [rmem rbuf pc old_open in_sec].
    + split; [exact Hle|split; [exact Hpc|intros _; reflexivity]].
    + intros Hp. apply HIdle; exact Hp.
    + intros _ Ho. split; [exact Ho|]. intros A _. split; [exact A|exact I].
  - (* flush *)
    pose proof (HRI r) as (Hle & Hpc & Hoo). destruct (rbuf (rd s r)) as [|w b] eqn:Eb; [exact HI|].
    assert (Hview : last b w = view (rd s r)) by (unfold view; rewrite Eb; apply view_flush).
    apply Inv_setrd; [exact HI| | |]; cbn.
    + unfold RI. cbn [pc rmem rbuf old_open in_sec]. split; [inversion Hle; assumption|split; [|exact Hoo]].
      destruct (pc (rd s r)) eqn:Epc; try exact Hpc; try (destruct Hpc as [Hb _]; discriminate Hb).
      * unfold view; cbn [rmem rbuf]. rewrite Hview. exact Hpc.
      * inversion Hpc; assumption.
    + intros Hp. apply HIdle; exact Hp.
    + intros _ Ho. split; [exact Ho|]. rewrite Eb. intros A B. split; [inversion A; assumption|exact B].
  - (* the updater increments the counter: every reader inside a section is flagged *)
    destruct (ph s) eqn:Eph; [|exact HI].
    split; [cbn; lia|split; [|split]]; cbn [gctr rd loc ph].
    + intros r. destruct (HRI r) as (Hle & Hpc & Hoo). unfold RI, mk; cbn [rmem rbuf pc old_open in_sec].
      split; [eapply Forall_impl; [|exact Hle]; cbn; intros; lia|split; [|exact (fun h => h)]].
      destruct (pc (rd s r)); try exact Hpc; try lia. destruct Hpc as (A & B & Cc); split; [exact A|split; [exact B|lia]]. destruct Hpc as (A & B & Cc); split; [exact A|split; [exact B|lia]].
    + discriminate.
    + intros _ r. unfold K, mk; cbn [gctr rd loc ph rmem rbuf pc old_open]. intros Ho.
      destruct (HRI r) as (Hle & Hpc & _). split; [reflexivity|].
      assert (Hstale : Forall (fun w => w <> S (gctr s)) (rmem (rd s r) :: rbuf (rd s r))) by (eapply Forall_impl; [|exact Hle]; cbn; intros; lia).
      unfold in_sec in Ho. destruct (pc (rd s r)) eqn:Epc; try discriminate.
      * destruct Hpc as [Hb Hnz]. rewrite Hb in *. split; [|exact I]. constructor; [split; [exact Hnz|inversion Hstale; assumption]|constructor].
      * destruct Hpc as (Hb & Hnz & Hg). rewrite Hb in *. split; [|lia]. constructor; [split; [exact Hnz|inversion Hstale; assumption]|constructor].
      * destruct Hpc as (Hb & Hnz & Hg). rewrite Hb in *. split; [|lia]. constructor; [split; [exact Hnz|inversion Hstale; assumption]|constructor].
      * split; [|exact I]. clear -Hpc Hstale. induction Hpc as [|a l Ha Hl IH]; [constructor|]. inversion Hstale; subst. constructor; [split; assumption|apply IH; assumption].
      * destruct Hpc as [Hb Hnz]. rewrite Hb in *. split; [|exact I]. constructor; [split; [exact Hnz|inversion Hstale; assumption]|constructor].
  - (* scan *)
    destruct (ph s) eqn:Eph; [exact HI|]. destruct (loc s r) eqn:El; [|exact HI].
    destruct (Nat.eqb (rmem (rd s r)) 0 || Nat.eqb (rmem (rd s r)) (gctr s)) eqn:Ec; [|exact HI].
    split; [exact HG|split; [exact HRI|split]]; cbn [gctr rd loc ph]; [discriminate|].
    intros _ r0. unfold K; cbn [gctr rd loc ph]. pose proof (HK eq_refl r0) as Kr. unfold K in Kr.
    destruct (Nat.eq_dec r0 r) as [->|Hne]; [rewrite upd_same|rewrite upd_other by exact Hne; exact Kr].
    intros Ho. destruct (Kr Ho) as (_ & Hall & _). exfalso. inversion Hall as [|? ? [H0 H1] _]; subst.
    apply orb_prop in Ec. destruct Ec as [E|E]; apply Nat.eqb_eq in E; contradiction.
Qed.

Lemma Inv_ustep s s' : Inv s -> ustep s s' -> Inv s'.
Proof.
  intros (HG & HRI & HIdle & HK) H. destruct H as [s Eph Hnone].
  split; [exact HG|split; [exact HRI|split]]; cbn [gctr rd loc ph]; [|discriminate].
  intros _ r. destruct (old_open (rd s r)) eqn:Ho; [|reflexivity]. destruct (HK Eph r Ho) as [Hl _]. destruct (Hnone r Hl).
Qed.

Lemma Inv_init : Inv init.
Proof. split; [cbn; lia|split; [|split]]; cbn; [|reflexivity|discriminate]. intros r. unfold RI; cbn. split; [constructor; [lia|constructor]|split; [exact I|discriminate]]. Qed.

Theorem gp_qsbr_waits_for_preexisting_sections : forall s, reach init s -> ph s = U_Idle -> forall r, old_open (rd s r) = false.
Proof.
  intros s Hr. assert (HI : Inv s).
  { induction Hr as [|s s' _ IH Ht]; [apply Inv_init|]. destruct Ht as [c s|s s' Hu]; [apply Inv_step; exact IH|eapply Inv_ustep; eassumption]. }
  destruct HI as (_ & _ & H & _). exact H.
Qed.
Print Assumptions gp_qsbr_waits_for_preexisting_sections.
