From Coq Require Import List Arith Bool Lia.
Import ListNotations.
Require Import Urcu.Gp.GpDynCore.

Definition all_in (p : bool) (l : list word) : Prop := Forall (fun w => fst w = p /\ snd w <> 0) l.

Definition RI (x : reader) : Prop :=
  match pc x with
  | R_Idle | R_Loaded _ => snd (view x) = 0
  | R_In p n => view x = (p, S n)
  end /\ (old_open x = true -> in_cs x = true).

Definition K (s : state) (r : nat) : Prop :=
  let x := rd s r in
  old_open x = true ->
  match pc x with
  | R_In p n =>
      all_in p (rmem x :: rbuf x) /\
      match ph s with
      | U_Scan1 => loc s r = W_input \/ (loc s r = W_cur /\ p = gpar s)
      | U_Scan2 => loc s r = W_cur /\ p = negb (gpar s)
      | _ => True
      end
  | _ => False
  end.

Definition scanning (s : state) : Prop := ph s = U_Scan1 \/ ph s = U_Scan2.

Definition Inv (s : state) : Prop :=
  (forall r, RI (rd s r)) /\
  (ph s = U_Idle -> forall r, old_open (rd s r) = false) /\
  (ph s = U_Scan2 -> forall r, loc s r <> W_input) /\
  (scanning s -> forall r, K s r).

Lemma upd_same {A} (f : nat -> A) k v : upd f k v k = v.
Proof. unfold upd. now rewrite Nat.eqb_refl. Qed.
Lemma upd_other {A} (f : nat -> A) k v x : x <> k -> upd f k v x = f x.
Proof. unfold upd. intros H. destruct (Nat.eqb_spec x k); [contradiction|reflexivity]. Qed.

Lemma view_app x w : last (rbuf x ++ [w]) (rmem x) = w.
Proof. apply last_last. Qed.

Lemma last_cons_ne {A} (a : A) (l : list A) d : l <> [] -> last (a :: l) d = last l d.
Proof. destruct l; [contradiction|reflexivity]. Qed.

Lemma last_change_default {A} (l : list A) d d' : l <> [] -> last l d = last l d'.
Proof. induction l as [|a l IH]; [contradiction|]. intros _. destruct l as [|b l]; [reflexivity|].
  change (last (b :: l) d = last (b :: l) d'). apply IH. discriminate. Qed.

Lemma view_flush (w : word) (b : list word) m : last b w = last (w :: b) m.
Proof. destruct b as [|c b]; [reflexivity|]. symmetry. rewrite last_cons_ne by discriminate.
  apply last_change_default. discriminate. Qed.

Lemma Inv_init isreg : Inv (init isreg).
Proof.
  repeat split; cbn; intros; try discriminate; auto.
Qed.

Ltac inv_reader_step s r r0 :=
  destruct (Nat.eq_dec r0 r) as [->|Hne];
  [rewrite ?upd_same | rewrite ?upd_other by exact Hne].

Lemma Inv_step c s : Inv s -> Inv (step c s).
Proof.
  intros HI. pose proof HI as (HRI & HIdle & HS2 & HK).
  destruct c as [r|r|r| |r|r|r]; cbn [step].
  - (* lock *)
    pose proof (HRI r) as [Hr Hoo]. destruct (pc (rd s r)) as [|p|p n] eqn:Epc.
    + (* Idle -> Loaded *)
      split; [|split; [|split]]; cbn.
      * intros r0. inv_reader_step s r r0; [|apply HRI]. split; cbn; [exact Hr|]. intros Ho. specialize (Hoo Ho). unfold in_cs in Hoo. rewrite Epc in Hoo. discriminate.
      * intros Hp r0. inv_reader_step s r r0; cbn; auto.
      * exact HS2.
      * intros Hsc r0. unfold K; cbn. inv_reader_step s r r0; cbn.
        -- intros Ho. specialize (Hoo Ho). unfold in_cs in Hoo. rewrite Epc in Hoo. discriminate.
        -- apply (HK Hsc r0).
    + (* Loaded -> In p 0 *)
      split; [|split; [|split]]; cbn.
      * intros r0. inv_reader_step s r r0; [|apply HRI]. split; cbn.
        -- unfold view; cbn. apply last_last.
        -- intros _. reflexivity.
      * intros Hp r0. inv_reader_step s r r0; cbn; auto.
      * exact HS2.
      * intros Hsc r0. unfold K; cbn. inv_reader_step s r r0; cbn.
        -- intros Ho. specialize (Hoo Ho). unfold in_cs in Hoo. rewrite Epc in Hoo. discriminate.
        -- apply (HK Hsc r0).
    + (* nested lock *)
      split; [|split; [|split]]; cbn.
      * intros r0. inv_reader_step s r r0; [|apply HRI]. split; cbn.
        -- unfold view; cbn. apply last_last.
        -- intros _. reflexivity.
      * intros Hp r0. inv_reader_step s r r0; cbn; auto.
      * exact HS2.
      * intros Hsc r0. unfold K; cbn. inv_reader_step s r r0; cbn.
        -- intros Ho. pose proof (HK Hsc r) as Kr. unfold K in Kr. rewrite Epc in Kr. specialize (Kr Ho).
           destruct Kr as [Hall Hloc]. split; [|exact Hloc].
           unfold all_in in *. rewrite app_comm_cons. apply Forall_app. split; [exact Hall|].
           constructor; [cbn; split; [reflexivity|lia]|constructor].
        -- apply (HK Hsc r0).
  - (* unlock *)
    pose proof (HRI r) as [Hr Hoo]. destruct (pc (rd s r)) as [|p|p n] eqn:Epc; [exact HI ..|].
    destruct n as [|n].
    + (* outermost *)
      split; [|split; [|split]]; cbn.
      * intros r0. inv_reader_step s r r0; [|apply HRI]. split; cbn.
        -- unfold view; cbn. rewrite last_last. reflexivity.
        -- discriminate.
      * intros Hp r0. inv_reader_step s r r0; cbn; auto.
      * exact HS2.
      * intros Hsc r0. unfold K; cbn. inv_reader_step s r r0; cbn.
        -- discriminate.
        -- apply (HK Hsc r0).
    + split; [|split; [|split]]; cbn.
      * intros r0. inv_reader_step s r r0; [|apply HRI]. split; cbn.
        -- unfold view; cbn. apply last_last.
        -- intros _. reflexivity.
      * intros Hp r0. inv_reader_step s r r0; cbn; auto.
      * exact HS2.
      * intros Hsc r0. unfold K; cbn. inv_reader_step s r r0; cbn.
        -- intros Ho. pose proof (HK Hsc r) as Kr. unfold K in Kr. rewrite Epc in Kr. specialize (Kr Ho).
           destruct Kr as [Hall Hloc]. split; [|exact Hloc].
           unfold all_in in *. rewrite app_comm_cons. apply Forall_app. split; [exact Hall|].
           constructor; [cbn; split; [reflexivity|lia]|constructor].
        -- apply (HK Hsc r0).
  - (* flush *)
    pose proof (HRI r) as [Hr Hoo]. destruct (rbuf (rd s r)) as [|w b] eqn:Eb; [exact HI|].
    assert (Hview : last b w = view (rd s r)) by (unfold view; rewrite Eb; apply view_flush).
    split; [|split; [|split]]; cbn.
    * intros r0. inv_reader_step s r r0; [|apply HRI]. split; cbn; [|exact Hoo].
      rewrite Hview. exact Hr.
    * intros Hp r0. inv_reader_step s r r0; cbn; auto.
    * exact HS2.
    * intros Hsc r0. unfold K; cbn. inv_reader_step s r r0; cbn.
      -- intros Ho. pose proof (HK Hsc r) as Kr. unfold K in Kr. specialize (Kr Ho).
         destruct (pc (rd s r)) as [|p|p n]; try contradiction.
         destruct Kr as [Hall Hloc]. split; [|exact Hloc].
         rewrite Eb in Hall. unfold all_in in *. inversion Hall; assumption.
      -- apply (HK Hsc r0).
  - (* updater next *)
    destruct (ph s) eqn:Eph.
    + (* Idle -> Started *)
      split; [|split; [|split]]; cbn.
      * intros r0. destruct (HRI r0) as [Hr Hoo]. split; cbn; [exact Hr|]. unfold in_cs; cbn. intros H. apply andb_prop in H. destruct H as [H _]. exact H.
      * discriminate.
      * discriminate.
      * intros [H|H]; discriminate.
    + (* Started -> Scan1 : membarrier *)
      split; [|split; [|split]]; cbn.
      * intros r0. destruct (HRI r0) as [Hr Hoo]. split; cbn; [|exact Hoo].
        unfold view at 1; cbn. exact Hr.
      * discriminate.
      * discriminate.
      * intros _ r0. unfold K; cbn. intros Ho. destruct (HRI r0) as [Hr Hoo]. specialize (Hoo Ho).
        unfold in_cs in Hoo. destruct (pc (rd s r0)) as [|p|p n]; try discriminate.
        split; [|left; rewrite Ho, orb_true_r; reflexivity]. unfold all_in. constructor; [|constructor]. rewrite Hr. cbn. split; [reflexivity|lia].
    + exact HI.
    + exact HI.
  - (* scan *)
    destruct (ph s) eqn:Eph; try exact HI.
    + (* Scan1 *)
      destruct (loc s r) eqn:El; try exact HI.
      assert (Hsc : scanning s) by (left; exact Eph).
      pose proof (HK Hsc) as HKs.
      assert (Hgoal : forall w, (old_open (rd s r) = true -> forall p n, pc (rd s r) = R_In p n ->
                         w = W_input \/ (w = W_cur /\ p = gpar s)) ->
                Inv {| gpar := gpar s; rd := rd s; loc := upd (loc s) r w; ph := U_Scan1; reg := reg s |}).
      { intros w Hw. split; [|split; [|split]]; cbn.
        - exact HRI.
        - intros Hx; discriminate Hx.
        - intros Hx; discriminate Hx.
        - intros _ r0. unfold K; cbn. pose proof (HKs r0) as Kr. unfold K in Kr. rewrite Eph in Kr.
          inv_reader_step s r r0; [|exact Kr].
          intros Ho. specialize (Kr Ho). destruct (pc (rd s r)) as [|p|p n] eqn:Epc; try contradiction.
          destruct Kr as [Hall _]. split; [exact Hall|]. eapply Hw; [exact Ho|reflexivity]. }
      pose proof (HKs r) as Kr. unfold K in Kr. rewrite Eph in Kr.
      destruct (Nat.eqb_spec (snd (rmem (rd s r))) 0) as [Hz|Hnz].
      * apply Hgoal. intros Ho p n Epc. specialize (Kr Ho). rewrite Epc in Kr.
        destruct Kr as [Hall _]. inversion Hall as [|? ? [_ Hc] _]. contradiction.
      * destruct (Bool.eqb_spec (fst (rmem (rd s r))) (gpar s)) as [Hpar|Hpar]; [|exact HI].
        apply Hgoal. intros Ho p n Epc. specialize (Kr Ho). rewrite Epc in Kr.
        destruct Kr as [Hall _]. right. split; [reflexivity|].
        inversion Hall as [|? ? [Hp _] _]. rewrite <- Hp. exact Hpar.
    + (* Scan2 *)
      destruct (loc s r) eqn:El; try exact HI.
      assert (Hsc : scanning s) by (right; exact Eph).
      pose proof (HK Hsc) as HKs.
      assert (Hgoal : (old_open (rd s r) = true -> False) ->
                Inv {| gpar := gpar s; rd := rd s; loc := upd (loc s) r W_qs; ph := U_Scan2; reg := reg s |}).
      { intros Hno. split; [|split; [|split]]; cbn.
        - exact HRI.
        - intros Hx; discriminate Hx.
        - intros _ r0. inv_reader_step s r r0; [discriminate|]. apply HS2. reflexivity.
        - intros _ r0. unfold K; cbn. pose proof (HKs r0) as Kr. unfold K in Kr. rewrite Eph in Kr.
          inv_reader_step s r r0; [intros Ho; destruct (Hno Ho)|exact Kr]. }
      pose proof (HKs r) as Kr. unfold K in Kr. rewrite Eph in Kr.
      destruct (Nat.eqb_spec (snd (rmem (rd s r))) 0) as [Hz|Hnz].
      * apply Hgoal. intros Ho. specialize (Kr Ho).
        destruct (pc (rd s r)) as [|p|p n]; try contradiction.
        destruct Kr as [Hall _]. inversion Hall as [|? ? [_ Hc] _]. contradiction.
      * destruct (Bool.eqb_spec (fst (rmem (rd s r))) (gpar s)) as [Hpar|Hpar]; [|exact HI].
        apply Hgoal. intros Ho. specialize (Kr Ho).
        destruct (pc (rd s r)) as [|p|p n]; try contradiction.
        destruct Kr as [Hall [_ Hp]]. inversion Hall as [|? ? [Hp' _] _].
        rewrite Hp' in Hpar. rewrite Hpar in Hp. destruct (gpar s); discriminate.
  - (* register: the thread is idle, hence not one of the sections the grace period waits for *)
    destruct (HRI r) as [Hr Hoo]. destruct (pc (rd s r)) eqn:Epc; try exact HI. destruct (rbuf (rd s r)); [|exact HI]. destruct (reg s r); [exact HI|].
    assert (Hno : old_open (rd s r) = false) by (destruct (old_open (rd s r)); [specialize (Hoo eq_refl); unfold in_cs in Hoo; rewrite Epc in Hoo; discriminate|reflexivity]).
    split; [|split; [|split]]; cbn [gpar rd loc ph reg]; try exact HRI; try exact HIdle.
    + intros Hp r0. destruct (Nat.eq_dec r0 r) as [->|Hne]; [rewrite upd_same, Hp; discriminate|rewrite upd_other by exact Hne; apply HS2; exact Hp].
    + intros Hsc r0. unfold K; cbn [gpar rd loc ph reg]. destruct (Nat.eq_dec r0 r) as [->|Hne]; [rewrite Hno; discriminate|rewrite upd_other by exact Hne; apply (HK Hsc r0)].
  - (* unregister *)
    destruct (HRI r) as [Hr Hoo]. destruct (pc (rd s r)) eqn:Epc; try exact HI. destruct (rbuf (rd s r)); [|exact HI]. destruct (reg s r); [|exact HI].
    assert (Hno : old_open (rd s r) = false) by (destruct (old_open (rd s r)); [specialize (Hoo eq_refl); unfold in_cs in Hoo; rewrite Epc in Hoo; discriminate|reflexivity]).
    split; [|split; [|split]]; cbn [gpar rd loc ph reg]; try exact HRI; try exact HIdle.
    + intros Hp r0. destruct (Nat.eq_dec r0 r) as [->|Hne]; [rewrite upd_same; discriminate|rewrite upd_other by exact Hne; apply HS2; exact Hp].
    + intros Hsc r0. unfold K; cbn [gpar rd loc ph reg]. destruct (Nat.eq_dec r0 r) as [->|Hne]; [rewrite Hno; discriminate|rewrite upd_other by exact Hne; apply (HK Hsc r0)].
Qed.

Lemma Inv_ustep s s' : Inv s -> ustep s s' -> Inv s'.
Proof.
  intros (HRI & HIdle & HS2 & HK) H. destruct H as [s Eph Hnone | s Eph Hnone].
  - (* flip *)
    assert (Hsc : scanning s) by (left; exact Eph).
    split; [|split; [|split]]; cbn; try exact HRI; try discriminate.
    + intros _. exact Hnone.
    + intros _ r. unfold K; cbn. pose proof (HK Hsc r) as Kr. unfold K in Kr. rewrite Eph in Kr.
      intros Ho. specialize (Kr Ho). destruct (pc (rd s r)) as [|p|p n]; try contradiction.
      destruct Kr as [Hall [Hin|[Hc Hp]]]; [destruct (Hnone r Hin)|].
      split; [exact Hall|]. split; [exact Hc|]. rewrite Hp. now rewrite negb_involutive.
  - (* end *)
    assert (Hsc : scanning s) by (right; exact Eph).
    split; [|split; [|split]]; cbn; try exact HRI; try discriminate.
    + intros _ r. destruct (old_open (rd s r)) eqn:Ho; [|reflexivity].
      pose proof (HK Hsc r) as Kr. unfold K in Kr. rewrite Eph in Kr. specialize (Kr Ho).
      destruct (pc (rd s r)) as [|p|p n]; try contradiction.
      destruct Kr as [_ [Hc _]]. destruct (Hnone r Hc).
    + intros [H|H]; discriminate.
Qed.

Theorem gp_dyn_waits_for_preexisting_readers :
  forall isreg s, reach (init isreg) s -> ph s = U_Idle -> forall r, old_open (rd s r) = false.
Proof.
  intros isreg s Hr. assert (HI : Inv s).
  { induction Hr as [|s s' _ IH Ht]; [apply Inv_init|].
    destruct Ht as [c s|s s' Hu]; [apply Inv_step; exact IH|eapply Inv_ustep; eassumption]. }
  destruct HI as (_ & H & _). exact H.
Qed.
Print Assumptions gp_dyn_waits_for_preexisting_readers.
