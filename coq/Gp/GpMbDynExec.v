(* Executable action interpreter for the mb-flavor grace-period model WITH DYNAMIC REGISTRATION (GpMbDyn.v) (refinement check of the traces of src/urcu.c built with RCU_MB): every action
   carries the value the implementation read or wrote; the interpreter checks it against the model state and performs the corresponding GpMb transition,
   or fails.  Soundness: an accepted action sequence is a GpMbDyn run, so gp_mbdyn_waits_for_preexisting_readers applies to it. *)
From Coq Require Import List Arith Bool Lia.
Import ListNotations.
Require Import Urcu.Gp.GpMbDyn.

Inductive mact :=
| MLoadGp (r : nat) (p : bool)          (* reader r: outermost rcu_read_lock loads the global phase p *)
| MStoreCtr (r : nat) (w : word)         (* reader r stores w = (phase, nesting) into its own word (lock, nested lock or unlock) *)
| MFence (r : nat)                       (* the smp_mb that ends the outermost rcu_read_lock (own buffer empty): the section has begun *)
| MFlush (r : nat) (w : word)            (* the oldest buffered store of r, of value w, reaches memory *)
| MSyncStart                             (* synchronize_rcu begins *)
| MMb                                    (* smp_mb_master of the updater: a local fence, nobody else's buffer is touched *)
| MScan (r : nat) (w : word)             (* updater reads reader r's word in wait_for_readers and sees w *)
| MFlip (p : bool)                       (* the global word with phase p becomes visible *)
| MEnd
| MReg (r : nat)                         (* rcu_register_thread() of thread r has completed (registry mutex released) *)
| MUnreg (r : nat).                      (* rcu_unregister_thread() of thread r has completed *)

Definition word_eqb (a b : word) : bool := Bool.eqb (fst a) (fst b) && Nat.eqb (snd a) (snd b).
Lemma word_eqb_eq a b : word_eqb a b = true -> a = b.
Proof. destruct a, b; unfold word_eqb; cbn. intros H. apply andb_prop in H. destruct H as [H1 H2].
  apply Bool.eqb_prop in H1. apply Nat.eqb_eq in H2. subst. reflexivity. Qed.

Section MBX.
Variable regs : list nat.      (* the thread ids that may ever register (finite: the updater's scans are checked over this list) *)
Definition inl (r : nat) : bool := existsb (Nat.eqb r) regs.
Lemma inl_In r : inl r = true -> In r regs.
Proof. unfold inl. rewrite existsb_exists. intros (x & Hx & E). apply Nat.eqb_eq in E. subst. exact Hx. Qed.

Definition mexec (a : mact) (s : state) : option state :=
  match a with
  | MLoadGp r p => match pc (rd s r) with R_Idle => if Bool.eqb p (gpar s) then Some (step (C_Lock r) s) else None | _ => None end
  | MStoreCtr r w =>
      match pc (rd s r) with
      | R_Idle | R_Fence _ => None
      | R_Loaded p => if word_eqb w (p, 1) then Some (step (C_Lock r) s) else None
      | R_In p n => if word_eqb w (p, S (S n)) then Some (step (C_Lock r) s)
                    else if word_eqb w (p, n) then Some (step (C_Unlock r) s) else None
      end
  | MFence r => match pc (rd s r), rbuf (rd s r) with R_Fence _, [] => Some (step (C_Lock r) s) | _, _ => None end
  | MFlush r w => match rbuf (rd s r) with w' :: _ => if word_eqb w w' then Some (step (C_Flush r) s) else None | [] => None end
  | MSyncStart => match ph s with U_Idle => Some (step C_UNext s) | _ => None end
  | MMb => match ph s with U_Started => Some (step C_UNext s) | _ => Some s end
  | MScan r w => match ph s with
                 | U_Scan1 | U_Scan2 => if word_eqb w (rmem (rd s r)) then Some (step (C_UScan r) s) else None
                 | _ => None end
  | MFlip p =>
      match ph s with
      | U_Scan1 => if forallb (fun r => match loc s r with W_input => false | _ => true end) regs && Bool.eqb p (negb (gpar s))
                   then Some {| gpar := negb (gpar s); rd := rd s; loc := loc s; ph := U_Scan2; reg := reg s |} else None
      | _ => None end
  | MEnd =>
      match ph s with
      | U_Scan2 => if forallb (fun r => match loc s r with W_cur => false | _ => true end) regs
                   then Some {| gpar := gpar s; rd := rd s; loc := loc s; ph := U_Idle; reg := reg s |} else None
      | _ => None end
  | MReg r => if inl r then match pc (rd s r), rbuf (rd s r), reg s r with R_Idle, [], false => Some (step (C_Reg r) s) | _, _, _ => None end else None
  | MUnreg r => if inl r then match pc (rd s r), rbuf (rd s r), reg s r with R_Idle, [], true => Some (step (C_Unreg r) s) | _, _, _ => None end else None
  end.

Fixpoint mrun (l : list mact) (s : state) : option state :=
  match l with [] => Some s | a :: l' => match mexec a s with Some s' => mrun l' s' | None => None end end.

Ltac fin He := first [discriminate He | injection He as <-].
Lemma reach_step s c : reach init s -> reach init (step c s).
Proof. intros H. eapply R_step; [exact H|apply T_choice]. Qed.

(* threads outside regs never register in an accepted run: they are never flagged and never waited for *)
Definition out_ok (s : state) : Prop :=
  forall r, inl r = false -> reg s r = false /\ old_open (rd s r) = false /\ (ph s = U_Scan1 \/ ph s = U_Scan2 -> loc s r = W_qs).
Definition AInv (s : state) : Prop := reach init s /\ out_ok s.

Lemma out_ok_reader s c r0 : (c = C_Lock r0 \/ c = C_Unlock r0 \/ c = C_Flush r0) -> out_ok s -> out_ok (step c s).
Proof.
  intros Hc Ho r Hr. destruct (Ho r Hr) as (A & B & Cc).
  destruct Hc as [->|[->| ->]]; cbn [step].
  - destruct (pc (rd s r0)) as [|p|p|p n]; try (destruct (rbuf (rd s r0))); cbn [setrd rd loc ph reg]; try (repeat split; assumption);
      (split; [exact A|split; [|exact Cc]]); unfold upd; destruct (Nat.eqb r r0) eqn:E; cbn; try exact B; apply Nat.eqb_eq in E; subst; exact B.
  - destruct (pc (rd s r0)) as [|p|p|p [|n]]; cbn [setrd rd loc ph reg]; try (repeat split; assumption);
      (split; [exact A|split; [|exact Cc]]); unfold upd; destruct (Nat.eqb r r0) eqn:E; cbn; try exact B; try reflexivity; apply Nat.eqb_eq in E; subst; exact B.
  - destruct (rbuf (rd s r0)); cbn [setrd rd loc ph reg]; [repeat split; assumption|]. split; [exact A|split; [|exact Cc]].
    unfold upd; destruct (Nat.eqb r r0) eqn:E; cbn; [apply Nat.eqb_eq in E; subst; exact B|exact B].
Qed.
Lemma out_ok_unext s : out_ok s -> out_ok (step C_UNext s).
Proof.
  intros Ho r Hr. destruct (Ho r Hr) as (A & B & Cc). cbn [step]. destruct (ph s) eqn:Eph; cbn; try (repeat split; assumption).
  - split; [exact A|split; [rewrite A; apply andb_false_r|intros [H|H]; discriminate]].
  - split; [exact A|split; [exact B|]]. intros _. rewrite A, B. reflexivity.
  - split; [exact A|split; [exact B|intros _; apply Cc; left; reflexivity]].
  - split; [exact A|split; [exact B|intros _; apply Cc; right; reflexivity]].
Qed.
Lemma out_ok_scan s r0 : out_ok s -> out_ok (step (C_UScan r0) s).
Proof.
  intros Ho r Hr. destruct (Ho r Hr) as (A & B & Cc).
  assert (Hsame : reg s r = false /\ old_open (rd s r) = false /\ (ph s = U_Scan1 \/ ph s = U_Scan2 -> loc s r = W_qs)) by (repeat split; assumption).
  assert (Hupd : forall w, (ph s = U_Scan1 \/ ph s = U_Scan2) -> loc s r0 <> W_qs ->
            reg s r = false /\ old_open (rd s r) = false /\ (ph s = U_Scan1 \/ ph s = U_Scan2 -> upd (loc s) r0 w r = W_qs)).
  { intros w Hsc Hne. split; [exact A|split; [exact B|]]. intros _. destruct (Nat.eq_dec r r0) as [->|Hrr]; [rewrite (Cc Hsc) in Hne; contradiction|].
    rewrite upd_other by exact Hrr. apply Cc. exact Hsc. }
  unfold step.
  destruct (ph s) eqn:Eph; [rewrite Eph; exact Hsame|rewrite Eph; exact Hsame| |].
  - destruct (loc s r0) eqn:El; [|rewrite Eph; exact Hsame|rewrite Eph; exact Hsame].
    destruct (Nat.eqb (snd (rmem (rd s r0))) 0); cbn [rd loc ph reg]; [apply (Hupd W_qs); [auto|congruence]|].
    destruct (Bool.eqb (fst (rmem (rd s r0))) (gpar s)); cbn [rd loc ph reg]; [apply (Hupd W_cur); [auto|congruence]|rewrite Eph; exact Hsame].
  - destruct (loc s r0) eqn:El; [rewrite Eph; exact Hsame| |rewrite Eph; exact Hsame].
    destruct (Nat.eqb (snd (rmem (rd s r0))) 0); cbn [rd loc ph reg]; [apply (Hupd W_qs); [auto|congruence]|].
    destruct (Bool.eqb (fst (rmem (rd s r0))) (gpar s)); cbn [rd loc ph reg]; [apply (Hupd W_qs); [auto|congruence]|rewrite Eph; exact Hsame].
Qed.
(* registration changes of a thread inside regs leave the others alone *)
Lemma out_ok_reg s r0 (c : choice) : inl r0 = true -> (c = C_Reg r0 \/ c = C_Unreg r0) -> out_ok s -> out_ok (step c s).
Proof.
  intros Hin Hc Ho r Hr. destruct (Ho r Hr) as (A & B & Cc). assert (Hne : r <> r0) by (intros ->; congruence).
  destruct Hc as [->| ->]; cbn [step]; destruct (pc (rd s r0)); try (repeat split; assumption); destruct (rbuf (rd s r0)); try (repeat split; assumption);
    destruct (reg s r0); try (repeat split; assumption); cbn [gpar rd loc ph reg]; rewrite !upd_other by exact Hne; repeat split; assumption.
Qed.

Theorem mexec_sound a s s' : AInv s -> mexec a s = Some s' -> AInv s'.
Proof.
  intros [Hr Ho] He. destruct a as [r p|r w|r|r w| | |r w|p| |r|r]; cbn [mexec] in He.
  - destruct (pc (rd s r)); try discriminate. destruct (Bool.eqb p (gpar s)); fin He. split; [exact (reach_step s (C_Lock r) Hr)|apply (out_ok_reader s (C_Lock r) r); auto].
  - destruct (pc (rd s r)) as [|p|p|p n]; try discriminate.
    + destruct (word_eqb w (p, 1)); fin He. split; [exact (reach_step s (C_Lock r) Hr)|apply (out_ok_reader s (C_Lock r) r); auto].
    + destruct (word_eqb w (p, S (S n))); [fin He; split; [exact (reach_step s (C_Lock r) Hr)|apply (out_ok_reader s (C_Lock r) r); auto]|].
      destruct (word_eqb w (p, n)); fin He. split; [exact (reach_step s (C_Unlock r) Hr)|apply (out_ok_reader s (C_Unlock r) r); auto].
  - destruct (pc (rd s r)); try discriminate. destruct (rbuf (rd s r)); fin He. split; [exact (reach_step s (C_Lock r) Hr)|apply (out_ok_reader s (C_Lock r) r); auto].
  - destruct (rbuf (rd s r)) as [|w' b]; try discriminate. destruct (word_eqb w w'); fin He. split; [exact (reach_step s (C_Flush r) Hr)|apply (out_ok_reader s (C_Flush r) r); auto].
  - destruct (ph s); fin He. split; [exact (reach_step s C_UNext Hr)|apply out_ok_unext; exact Ho].
  - destruct (ph s); fin He; try (split; assumption). split; [exact (reach_step s C_UNext Hr)|apply out_ok_unext; exact Ho].
  - destruct (ph s); try discriminate; destruct (word_eqb w (rmem (rd s r))); fin He; (split; [exact (reach_step s (C_UScan r) Hr)|apply out_ok_scan; exact Ho]).
  - destruct (ph s) eqn:Eph; try discriminate.
    destruct (forallb (fun r => match loc s r with W_input => false | _ => true end) regs && Bool.eqb p (negb (gpar s))) eqn:Eg; fin He.
    apply andb_prop in Eg. destruct Eg as [Eg _]. split.
    + eapply R_step; [exact Hr|]. apply T_ustep. apply U_flip; [exact Eph|].
      intros r Hl. destruct (inl r) eqn:Er.
      * rewrite forallb_forall in Eg. specialize (Eg r (inl_In r Er)). rewrite Hl in Eg. discriminate.
      * destruct (Ho r Er) as (_ & _ & Hq). rewrite Hq in Hl by (left; exact Eph). discriminate.
    + intros r Er. destruct (Ho r Er) as (A & B & Cc). cbn [gpar rd loc ph reg]. split; [exact A|split; [exact B|intros _; apply Cc; left; exact Eph]].
  - destruct (ph s) eqn:Eph; try discriminate.
    destruct (forallb (fun r => match loc s r with W_cur => false | _ => true end) regs) eqn:Eg; fin He. split.
    + eapply R_step; [exact Hr|]. apply T_ustep. apply U_end; [exact Eph|].
      intros r Hl. destruct (inl r) eqn:Er.
      * rewrite forallb_forall in Eg. specialize (Eg r (inl_In r Er)). rewrite Hl in Eg. discriminate.
      * destruct (Ho r Er) as (_ & _ & Hq). rewrite Hq in Hl by (right; exact Eph). discriminate.
    + intros r Er. destruct (Ho r Er) as (A & B & Cc). cbn [gpar rd loc ph reg]. split; [exact A|split; [exact B|intros [H|H]; discriminate]].
  - destruct (inl r) eqn:Ei; [|discriminate]. destruct (pc (rd s r)); try discriminate. destruct (rbuf (rd s r)); try discriminate. destruct (reg s r); fin He.
    split; [exact (reach_step s (C_Reg r) Hr)|apply (out_ok_reg s r (C_Reg r)); auto].
  - destruct (inl r) eqn:Ei; [|discriminate]. destruct (pc (rd s r)); try discriminate. destruct (rbuf (rd s r)); try discriminate. destruct (reg s r); fin He.
    split; [exact (reach_step s (C_Unreg r) Hr)|apply (out_ok_reg s r (C_Unreg r)); auto].
Qed.

Lemma AInv_init : AInv init.
Proof. split; [apply R_refl|]. intros r _. cbn. split; [reflexivity|split; [reflexivity|intros [H|H]; discriminate]]. Qed.

(* an accepted action sequence of the implementation - threads registering and unregistering at any moment - is a run of the proved model: when it ends
   outside a grace period, no reader that was registered and had completed its rcu_read_lock when a grace period began is still in that section *)
Theorem accepted_mbdyn_trace_satisfies_gp :
  forall l s', mrun l init = Some s' -> reach init s' /\ (ph s' = U_Idle -> forall r, old_open (rd s' r) = false).
Proof.
  intros l s' Hrun.
  assert (H : forall l s, AInv s -> mrun l s = Some s' -> AInv s').
  { induction l0 as [|a l0 IH]; intros s Hr He; cbn [mrun] in He; [inversion He; subst; exact Hr|].
    destruct (mexec a s) as [s1|] eqn:E1; [|discriminate]. apply (IH s1); [eapply mexec_sound; eassumption|exact He]. }
  destruct (H l init AInv_init Hrun) as [Hr _].
  split; [exact Hr|]. apply (gp_mbdyn_waits_for_preexisting_readers s' Hr).
Qed.
End MBX.
Print Assumptions accepted_mbdyn_trace_satisfies_gp.
