(* Executable action interpreter for the memb-flavor grace-period model (used by the refinement check of the implementation
   traces): every action carries the value the implementation read or wrote; the interpreter checks it against the model state
   and performs the corresponding GpCore transition, or fails.  Soundness: an accepted action sequence is a GpCore run, so the
   grace-period theorem applies to it. *)
From Coq Require Import List Arith Bool Lia.
Import ListNotations.
Require Import Urcu.Gp.GpCore Urcu.Gp.GpProof.

Inductive gact :=
| GLoadGp (r : nat) (p : bool)          (* reader r: outermost rcu_read_lock loads the global phase p *)
| GStoreCtr (r : nat) (w : word)         (* reader r stores w = (phase, nesting) into its own word (lock, nested lock or unlock) *)
| GFlush (r : nat) (w : word)            (* the oldest buffered store of r, of value w, reaches memory *)
| GSyncStart                             (* synchronize_rcu begins (its first full barrier) *)
| GMembarrier                            (* smp_mb_master: every reader's store buffer is drained *)
| GScan (r : nat) (w : word)             (* updater reads reader r's word in wait_for_readers and sees w *)
| GFlip (p : bool)                       (* updater stores the global word with phase p *)
| GEnd.                                  (* synchronize_rcu's last barrier *)

Definition word_eqb (a b : word) : bool := Bool.eqb (fst a) (fst b) && Nat.eqb (snd a) (snd b).
Lemma word_eqb_eq a b : word_eqb a b = true -> a = b.
Proof. destruct a, b; unfold word_eqb; cbn. intros H. apply andb_prop in H. destruct H as [H1 H2].
  apply Bool.eqb_prop in H1. apply Nat.eqb_eq in H2. subst. reflexivity. Qed.

Fixpoint iter_step (n : nat) (c : choice) (s : state) : state := match n with O => s | S n' => step c (iter_step n' c s) end.
Fixpoint drain_all (regs : list nat) (s : state) : state :=
  match regs with
  | [] => s
  | r :: regs' => drain_all regs' (iter_step (length (rbuf (rd s r))) (C_Flush r) s)
  end.

Definition gexec (regs : list nat) (a : gact) (s : state) : option state :=
  match a with
  | GLoadGp r p => match pc (rd s r) with R_Idle => if Bool.eqb p (gpar s) then Some (step (C_Lock r) s) else None | _ => None end
  | GStoreCtr r w =>
      match pc (rd s r) with
      | R_Idle => None
      | R_Loaded p => if word_eqb w (p, 1) then Some (step (C_Lock r) s) else None
      | R_In p n => if word_eqb w (p, S (S n)) then Some (step (C_Lock r) s)
                    else if word_eqb w (p, n) then Some (step (C_Unlock r) s) else None
      end
  | GFlush r w => match rbuf (rd s r) with w' :: _ => if word_eqb w w' then Some (step (C_Flush r) s) else None | [] => None end
  | GSyncStart => match ph s with U_Idle => Some (step C_UNext s) | _ => None end
  | GMembarrier => match ph s with U_Started => Some (step C_UNext (drain_all regs s)) | _ => Some (drain_all regs s) end
  | GScan r w => match ph s with
                 | U_Scan1 | U_Scan2 => if word_eqb w (rmem (rd s r)) then Some (step (C_UScan r) s) else None
                 | _ => None end
  | GFlip p =>
      match ph s with
      | U_Scan1 => if forallb (fun r => match loc s r with W_input => false | _ => true end) regs && Bool.eqb p (negb (gpar s))
                   then Some {| gpar := negb (gpar s); rd := rd s; loc := loc s; ph := U_Scan2; reg := reg s |} else None
      | _ => None end
  | GEnd =>
      match ph s with
      | U_Scan2 => if forallb (fun r => match loc s r with W_cur => false | _ => true end) regs
                   then Some {| gpar := gpar s; rd := rd s; loc := loc s; ph := U_Idle; reg := reg s |} else None
      | _ => None end
  end.

Fixpoint grun (regs : list nat) (l : list gact) (s : state) : option state :=
  match l with [] => Some s | a :: l' => match gexec regs a s with Some s' => grun regs l' s' | None => None end end.

(* ---- soundness of the interpreter w.r.t. GpCore ---- *)
Ltac fin He := first [discriminate He | injection He as <-].
Definition covers (regs : list nat) (s : state) : Prop := forall r, reg s r = true -> In r regs.
Definition unreg_qs (s : state) : Prop := forall r, reg s r = false -> loc s r = W_qs /\ old_open (rd s r) = false.

Lemma reach_trans s0 s s' : reach s0 s -> reach s s' -> reach s0 s'.
Proof. intros H1 H2. induction H2; [exact H1|eapply R_step; eassumption]. Qed.
Lemma reach_step s0 s c : reach s0 s -> reach s0 (step c s).
Proof. intros H. eapply R_step; [exact H|apply T_choice]. Qed.
Lemma reach_iter s0 c n : forall s, reach s0 s -> reach s0 (iter_step n c s).
Proof. induction n as [|n IH]; intros s H; cbn [iter_step]; [exact H|]. apply reach_step. apply IH. exact H. Qed.
Lemma reach_drain s0 regs : forall s, reach s0 s -> reach s0 (drain_all regs s).
Proof. induction regs as [|r regs IH]; intros s H; cbn [drain_all]; [exact H|]. apply IH. apply reach_iter. exact H. Qed.

Lemma step_reg c s : reg (step c s) = reg s.
Proof.
  destruct c as [r|r|r| |r]; cbn [step].
  - destruct (pc (rd s r)); reflexivity.
  - destruct (pc (rd s r)) as [| |p [|n]]; reflexivity.
  - destruct (rbuf (rd s r)); reflexivity.
  - destruct (ph s); reflexivity.
  - destruct (ph s); try reflexivity; destruct (loc s r); try reflexivity;
      destruct (Nat.eqb (snd (rmem (rd s r))) 0); try reflexivity; destruct (Bool.eqb (fst (rmem (rd s r))) (gpar s)); reflexivity.
Qed.

Lemma unreg_qs_reach isreg : forall s, reach (init isreg) s -> unreg_qs s.
Proof.
  intros s Hr. induction Hr as [|s s' Hr IH Ht]; [intros r _; split; reflexivity|].
  destruct Ht as [c s|s s' Hu].
  - intros r Hreg. rewrite step_reg in Hreg. destruct (IH r Hreg) as [Hl Ho].
    destruct c as [r0|r0|r0| |r0]; cbn [step].
    + destruct (pc (rd s r0)); cbn; (split; [exact Hl|]); unfold upd; destruct (Nat.eqb r r0) eqn:E; cbn; try exact Ho;
        apply Nat.eqb_eq in E; subst; exact Ho.
    + destruct (pc (rd s r0)) as [| |p [|n]]; cbn; try (split; assumption); (split; [exact Hl|]); unfold upd; destruct (Nat.eqb r r0) eqn:E; cbn;
        try exact Ho; try reflexivity; apply Nat.eqb_eq in E; subst; exact Ho.
    + destruct (rbuf (rd s r0)); cbn; [split; assumption|]. split; [exact Hl|]. unfold upd; destruct (Nat.eqb r r0) eqn:E; cbn; [apply Nat.eqb_eq in E; subst; exact Ho|exact Ho].
    + destruct (ph s); cbn; try (split; assumption).
      * split; [exact Hl|]. rewrite Hreg. apply andb_false_r.
      * rewrite Hreg, Ho. cbn. split; reflexivity.
    + destruct (ph s); cbn; try (split; assumption); destruct (loc s r0) eqn:El; cbn; try (split; assumption);
        destruct (Nat.eqb (snd (rmem (rd s r0))) 0); cbn; try (split; assumption);
        try (destruct (Bool.eqb (fst (rmem (rd s r0))) (gpar s)); cbn; try (split; assumption));
        (split; [|exact Ho]); unfold upd; destruct (Nat.eqb r r0) eqn:E; try exact Hl; apply Nat.eqb_eq in E; subst; congruence.
  - destruct Hu; intros r Hreg; cbn in *; apply IH; exact Hreg.
Qed.

Theorem gexec_sound isreg regs a s s' : reach (init isreg) s -> covers regs s -> gexec regs a s = Some s' -> reach (init isreg) s'.
Proof.
  intros Hr Hc He. destruct a as [r p|r w|r w| | |r w|p|]; cbn [gexec] in He.
  - destruct (pc (rd s r)); try discriminate. destruct (Bool.eqb p (gpar s)); fin He. exact (reach_step _ s (C_Lock r) Hr).
  - destruct (pc (rd s r)) as [|p|p n]; try discriminate.
    + destruct (word_eqb w (p, 1)); fin He. exact (reach_step _ s (C_Lock r) Hr).
    + destruct (word_eqb w (p, S (S n))); [fin He; exact (reach_step _ s (C_Lock r) Hr)|].
      destruct (word_eqb w (p, n)); fin He. exact (reach_step _ s (C_Unlock r) Hr).
  - destruct (rbuf (rd s r)) as [|w' b]; try discriminate. destruct (word_eqb w w'); fin He. exact (reach_step _ s (C_Flush r) Hr).
  - destruct (ph s); fin He. exact (reach_step _ s C_UNext Hr).
  - destruct (ph s); fin He; try (apply reach_drain; exact Hr). exact (reach_step _ _ C_UNext (reach_drain _ regs s Hr)).
  - destruct (ph s); try discriminate; destruct (word_eqb w (rmem (rd s r))); fin He; exact (reach_step _ s (C_UScan r) Hr).
  - destruct (ph s) eqn:Eph; try discriminate.
    destruct (forallb (fun r => match loc s r with W_input => false | _ => true end) regs && Bool.eqb p (negb (gpar s))) eqn:Eg; fin He.
    apply andb_prop in Eg. destruct Eg as [Eg _]. eapply R_step; [exact Hr|]. apply T_ustep. apply U_flip; [exact Eph|].
    intros r Hl. destruct (reg s r) eqn:Er.
    + rewrite forallb_forall in Eg. specialize (Eg r (Hc r Er)). rewrite Hl in Eg. discriminate.
    + destruct (unreg_qs_reach isreg s Hr r Er) as [Hq _]. congruence.
  - destruct (ph s) eqn:Eph; try discriminate.
    destruct (forallb (fun r => match loc s r with W_cur => false | _ => true end) regs) eqn:Eg; fin He.
    eapply R_step; [exact Hr|]. apply T_ustep. apply U_end; [exact Eph|].
    intros r Hl. destruct (reg s r) eqn:Er.
    + rewrite forallb_forall in Eg. specialize (Eg r (Hc r Er)). rewrite Hl in Eg. discriminate.
    + destruct (unreg_qs_reach isreg s Hr r Er) as [Hq _]. congruence.
Qed.

Lemma gexec_reg regs a s s' : gexec regs a s = Some s' -> reg s' = reg s.
Proof.
  assert (Hd : forall regs s, reg (drain_all regs s) = reg s).
  { induction regs0 as [|r regs0 IH]; intros s0; cbn [drain_all]; [reflexivity|]. rewrite IH.
    induction (length (rbuf (rd s0 r))) as [|n IHn]; cbn [iter_step]; [reflexivity|]. rewrite step_reg. exact IHn. }
  intros He. destruct a as [r p|r w|r w| | |r w|p|]; cbn [gexec] in He.
  - destruct (pc (rd s r)); try discriminate. destruct (Bool.eqb p (gpar s)); fin He. exact (step_reg (C_Lock r) s).
  - destruct (pc (rd s r)) as [|p|p n]; try discriminate.
    + destruct (word_eqb w (p, 1)); fin He. exact (step_reg (C_Lock r) s).
    + destruct (word_eqb w (p, S (S n))); [fin He; exact (step_reg (C_Lock r) s)|]. destruct (word_eqb w (p, n)); fin He. exact (step_reg (C_Unlock r) s).
  - destruct (rbuf (rd s r)) as [|w' b]; try discriminate. destruct (word_eqb w w'); fin He. exact (step_reg (C_Flush r) s).
  - destruct (ph s); fin He. exact (step_reg C_UNext s).
  - destruct (ph s); fin He; try apply Hd. transitivity (reg (drain_all regs s)); [exact (step_reg C_UNext (drain_all regs s))|apply Hd].
  - destruct (ph s); try discriminate; destruct (word_eqb w (rmem (rd s r))); fin He; exact (step_reg (C_UScan r) s).
  - destruct (ph s); try discriminate. destruct (_ && _); fin He; reflexivity.
  - destruct (ph s); try discriminate. destruct (forallb _ _); fin He; reflexivity.
Qed.

(* an accepted action sequence of the implementation is a run of the proved model: when it ends outside a grace period,
   no registered reader that was inside a section when a grace period began is still flagged *)
Theorem accepted_trace_satisfies_gp isreg regs : (forall r, isreg r = true -> In r regs) ->
  forall l s', grun regs l (init isreg) = Some s' -> reach (init isreg) s' /\ (ph s' = U_Idle -> forall r, old_open (rd s' r) = false).
Proof.
  intros Hc l s' Hrun.
  assert (H : forall l s, reach (init isreg) s -> reg s = isreg -> grun regs l s = Some s' -> reach (init isreg) s').
  { induction l0 as [|a l0 IH]; intros s Hr Hreg He; cbn [grun] in He; [inversion He; subst; exact Hr|].
    destruct (gexec regs a s) as [s1|] eqn:E1; [|discriminate].
    apply (IH s1); [eapply gexec_sound; [exact Hr| |exact E1]|rewrite (gexec_reg _ _ _ _ E1); exact Hreg|exact He].
    intros r Hr'. apply Hc. rewrite <- Hreg. exact Hr'. }
  assert (Hr : reach (init isreg) s') by (apply (H l (init isreg)); [apply R_refl|reflexivity|exact Hrun]).
  split; [exact Hr|]. apply (gp_waits_for_preexisting_readers isreg s' Hr).
Qed.
Print Assumptions accepted_trace_satisfies_gp.
