(* Executable action interpreter for the memb-flavor grace-period model (used by the refinement check of the implementation
   traces): every action carries the value the implementation read or wrote; the interpreter checks it against the model state
   and performs the corresponding GpCore transition, or fails.  Soundness: an accepted action sequence is a GpCore run, so the
   grace-period theorem applies to it. *)
From Coq Require Import List Arith Bool Lia.
Import ListNotations.
Require Import Urcu.Gp.GpDynCore Urcu.Gp.GpDynProof.

Inductive gact :=
| GLoadGp (r : nat) (p : bool)          (* reader r: outermost rcu_read_lock loads the global phase p *)
| GStoreCtr (r : nat) (w : word)         (* reader r stores w = (phase, nesting) into its own word (lock, nested lock or unlock) *)
| GFlush (r : nat) (w : word)            (* the oldest buffered store of r, of value w, reaches memory *)
| GSyncStart                             (* synchronize_rcu begins (its first full barrier) *)
| GMembarrier                            (* smp_mb_master: every reader's store buffer is drained *)
| GScan (r : nat) (w : word)             (* updater reads reader r's word in wait_for_readers and sees w *)
| GFlip (p : bool)                       (* updater stores the global word with phase p *)
| GEnd                                   (* synchronize_rcu's last barrier *)
| GReg (r : nat)                         (* rcu_register_thread() of r completed *)
| GUnreg (r : nat).                      (* rcu_unregister_thread() of r completed *)

Definition word_eqb (a b : word) : bool := Bool.eqb (fst a) (fst b) && Nat.eqb (snd a) (snd b).
Lemma word_eqb_eq a b : word_eqb a b = true -> a = b.
Proof. destruct a, b; unfold word_eqb; cbn. intros H. apply andb_prop in H. destruct H as [H1 H2].
  apply Bool.eqb_prop in H1. apply Nat.eqb_eq in H2. subst. reflexivity. Qed.

Fixpoint iter_step (n : nat) (c : choice) (s : state) : state := match n with O => s | S n' => step c (iter_step n' c s) end.
Fixpoint drain_all (regs : list nat) (s : state) : state :=
  match regs with
  | [] => s
  | r :: regs' => drain_all regs' (iter_step (length (rbuf (rd s r))) (C_Flush r) s)
  end.

Definition gexec (regs : list nat) (a : gact) (s : state) : option state :=
  match a with
  | GLoadGp r p => match pc (rd s r) with R_Idle => if Bool.eqb p (gpar s) then Some (step (C_Lock r) s) else None | _ => None end
  | GStoreCtr r w =>
      match pc (rd s r) with
      | R_Idle => None
      | R_Loaded p => if word_eqb w (p, 1) then Some (step (C_Lock r) s) else None
      | R_In p n => if word_eqb w (p, S (S n)) then Some (step (C_Lock r) s)
                    else if word_eqb w (p, n) then Some (step (C_Unlock r) s) else None
      end
  | GFlush r w => match rbuf (rd s r) with w' :: _ => if word_eqb w w' then Some (step (C_Flush r) s) else None | [] => None end
  | GSyncStart => match ph s with U_Idle => Some (step C_UNext s) | _ => None end
  | GMembarrier => match ph s with U_Started => Some (step C_UNext (drain_all regs s)) | _ => Some (drain_all regs s) end
  | GScan r w => match ph s with
                 | U_Scan1 | U_Scan2 => if word_eqb w (rmem (rd s r)) then Some (step (C_UScan r) s) else None
                 | _ => None end
  | GFlip p =>
      match ph s with
      | U_Scan1 => if forallb (fun r => match loc s r with W_input => false | _ => true end) regs && Bool.eqb p (negb (gpar s))
                   then Some {| gpar := negb (gpar s); rd := rd s; loc := loc s; ph := U_Scan2; reg := reg s |} else None
      | _ => None end
  | GEnd =>
      match ph s with
      | U_Scan2 => if forallb (fun r => match loc s r with W_cur => false | _ => true end) regs
                   then Some {| gpar := gpar s; rd := rd s; loc := loc s; ph := U_Idle; reg := reg s |} else None
      | _ => None end
  | GReg r => if existsb (Nat.eqb r) regs then match pc (rd s r), rbuf (rd s r), reg s r with R_Idle, [], false => Some (step (C_Reg r) s) | _, _, _ => None end else None
  | GUnreg r => if existsb (Nat.eqb r) regs then match pc (rd s r), rbuf (rd s r), reg s r with R_Idle, [], true => Some (step (C_Unreg r) s) | _, _, _ => None end else None
  end.

Fixpoint grun (regs : list nat) (l : list gact) (s : state) : option state :=
  match l with [] => Some s | a :: l' => match gexec regs a s with Some s' => grun regs l' s' | None => None end end.

(* ---- soundness of the interpreter w.r.t. GpDynCore ---- *)
Ltac fin He := first [discriminate He | injection He as <-].
Definition init0 : state := init (fun _ => false).
Definition covers (regs : list nat) (s : state) : Prop := forall r, reg s r = true -> In r regs.
Definition unreg_qs (s : state) : Prop := forall r, reg s r = false -> loc s r = W_qs /\ old_open (rd s r) = false.

Lemma reach_step s0 s c : reach s0 s -> reach s0 (step c s).
Proof. intros H. eapply R_step; [exact H|apply T_choice]. Qed.
Lemma reach_iter s0 c n : forall s, reach s0 s -> reach s0 (iter_step n c s).
Proof. induction n as [|n IH]; intros s H; cbn [iter_step]; [exact H|]. apply reach_step. apply IH. exact H. Qed.
Lemma reach_drain s0 regs : forall s, reach s0 s -> reach s0 (drain_all regs s).
Proof. induction regs as [|r regs IH]; intros s H; cbn [drain_all]; [exact H|]. apply IH. apply reach_iter. exact H. Qed.

Lemma Inv_reach s : reach init0 s -> Inv s.
Proof. intros Hr. induction Hr as [|s s' _ IH Ht]; [apply Inv_init|]. destruct Ht as [c s|s s' Hu]; [apply Inv_step; exact IH|eapply Inv_ustep; eassumption]. Qed.

(* the registry only changes by C_Reg / C_Unreg *)
Lemma step_reg c s : (forall r, c <> C_Reg r) -> (forall r, c <> C_Unreg r) -> reg (step c s) = reg s.
Proof.
  intros H1 H2. destruct c as [r|r|r| |r|r|r]; cbn [step]; try (exfalso; eapply H1; reflexivity); try (exfalso; eapply H2; reflexivity).
  - destruct (pc (rd s r)); reflexivity.
  - destruct (pc (rd s r)) as [| |p [|n]]; reflexivity.
  - destruct (rbuf (rd s r)); reflexivity.
  - destruct (ph s); reflexivity.
  - destruct (ph s); try reflexivity; destruct (loc s r); try reflexivity;
      destruct (Nat.eqb (snd (rmem (rd s r))) 0); try reflexivity; destruct (Bool.eqb (fst (rmem (rd s r))) (gpar s)); reflexivity.
Qed.
Lemma iter_reg n r : forall s, reg (iter_step n (C_Flush r) s) = reg s.
Proof. induction n as [|n IH]; intros s; cbn [iter_step]; [reflexivity|]. rewrite step_reg by (intros; discriminate). apply IH. Qed.
Lemma drain_reg regs : forall s, reg (drain_all regs s) = reg s.
Proof. induction regs as [|r regs IH]; intros s; cbn [drain_all]; [reflexivity|]. rewrite IH. apply iter_reg. Qed.

(* an unregistered thread sits on no list the updater waits on and is not flagged *)
Lemma unreg_qs_reach : forall s, reach init0 s -> unreg_qs s.
Proof.
  intros s Hr. induction Hr as [|s s' Hr IH Ht]; [intros r _; split; reflexivity|].
  pose proof (Inv_reach s Hr) as (HRI & _).
  destruct Ht as [c s|s s' Hu].
  - intros r Hreg.
    destruct c as [r0|r0|r0| |r0|r0|r0]; cbn [step] in Hreg |- *.
    + assert (Hreg' : reg s r = false) by (destruct (pc (rd s r0)); exact Hreg). destruct (IH r Hreg') as [Hl Ho].
      destruct (pc (rd s r0)); cbn; (split; [exact Hl|]); unfold upd; destruct (Nat.eqb r r0) eqn:E; cbn; try exact Ho; apply Nat.eqb_eq in E; subst; exact Ho.
    + assert (Hreg' : reg s r = false) by (destruct (pc (rd s r0)) as [| |p [|n]]; exact Hreg). destruct (IH r Hreg') as [Hl Ho].
      destruct (pc (rd s r0)) as [| |p [|n]]; cbn; try (split; assumption); (split; [exact Hl|]); unfold upd; destruct (Nat.eqb r r0) eqn:E; cbn; try exact Ho; try reflexivity;
        apply Nat.eqb_eq in E; subst; exact Ho.
    + assert (Hreg' : reg s r = false) by (destruct (rbuf (rd s r0)); exact Hreg). destruct (IH r Hreg') as [Hl Ho].
      destruct (rbuf (rd s r0)); cbn; [split; assumption|]. split; [exact Hl|]. unfold upd; destruct (Nat.eqb r r0) eqn:E; cbn; [apply Nat.eqb_eq in E; subst; exact Ho|exact Ho].
    + assert (Hreg' : reg s r = false) by (destruct (ph s); exact Hreg). destruct (IH r Hreg') as [Hl Ho].
      destruct (ph s); cbn; try (split; assumption).
      * split; [exact Hl|]. rewrite Hreg'. apply andb_false_r.
      * rewrite Hreg', Ho. split; reflexivity.
    + assert (Hreg' : reg s r = false).
      { destruct (ph s); try exact Hreg; destruct (loc s r0); try exact Hreg; destruct (Nat.eqb (snd (rmem (rd s r0))) 0); try exact Hreg; destruct (Bool.eqb (fst (rmem (rd s r0))) (gpar s)); exact Hreg. }
      destruct (IH r Hreg') as [Hl Ho].
      destruct (ph s); cbn; try (split; assumption); destruct (loc s r0) eqn:El; cbn; try (split; assumption);
        destruct (Nat.eqb (snd (rmem (rd s r0))) 0); cbn; try (split; assumption);
        try (destruct (Bool.eqb (fst (rmem (rd s r0))) (gpar s)); cbn; try (split; assumption));
        (split; [|exact Ho]); unfold upd; destruct (Nat.eqb r r0) eqn:E; try exact Hl; apply Nat.eqb_eq in E; subst; congruence.
    + (* register r0 *)
      destruct (pc (rd s r0)) eqn:Ep; try apply (IH r Hreg). destruct (rbuf (rd s r0)); try apply (IH r Hreg). destruct (reg s r0) eqn:Er; try apply (IH r Hreg).
      cbn [reg loc rd] in Hreg |- *. unfold upd in Hreg |- *. destruct (Nat.eqb r r0); [discriminate|]. apply (IH r Hreg).
    + (* unregister r0 *)
      destruct (pc (rd s r0)) eqn:Ep; try apply (IH r Hreg). destruct (rbuf (rd s r0)); try apply (IH r Hreg). destruct (reg s r0) eqn:Er; try apply (IH r Hreg).
      cbn [reg loc rd] in Hreg |- *. unfold upd in Hreg |- *. destruct (Nat.eqb_spec r r0) as [->|Hne].
      * split; [reflexivity|]. destruct (HRI r0) as [_ Hoo]. destruct (old_open (rd s r0)); [|reflexivity].
        specialize (Hoo eq_refl). unfold in_cs in Hoo. rewrite Ep in Hoo. discriminate.
      * apply (IH r Hreg).
  - destruct Hu; intros r Hreg; cbn in *; apply (IH r Hreg).
Qed.

Definition AInv (regs : list nat) (s : state) : Prop := reach init0 s /\ covers regs s.

Theorem gexec_sound regs a s s' : AInv regs s -> gexec regs a s = Some s' -> AInv regs s'.
Proof.
  intros [Hr Hc] He.
  assert (Hkeep : forall c, (forall r, c <> C_Reg r) -> (forall r, c <> C_Unreg r) -> AInv regs (step c s)).
  { intros c H1 H2. split; [apply reach_step; exact Hr|]. intros r Hreg. rewrite step_reg in Hreg by assumption. apply Hc. exact Hreg. }
  destruct a as [r p|r w|r w| | |r w|p| |r|r]; cbn [gexec] in He.
  - destruct (pc (rd s r)); try discriminate. destruct (Bool.eqb p (gpar s)); fin He. apply (Hkeep (C_Lock r)); intros; discriminate.
  - destruct (pc (rd s r)) as [|p|p n]; try discriminate.
    + destruct (word_eqb w (p, 1)); fin He. apply (Hkeep (C_Lock r)); intros; discriminate.
    + destruct (word_eqb w (p, S (S n))); [fin He; apply (Hkeep (C_Lock r)); intros; discriminate|].
      destruct (word_eqb w (p, n)); fin He. apply (Hkeep (C_Unlock r)); intros; discriminate.
  - destruct (rbuf (rd s r)) as [|w' b]; try discriminate. destruct (word_eqb w w'); fin He. apply (Hkeep (C_Flush r)); intros; discriminate.
  - destruct (ph s); fin He. apply (Hkeep C_UNext); intros; discriminate.
  - assert (Hd : AInv regs (drain_all regs s)) by (split; [apply reach_drain; exact Hr|intros r Hreg; rewrite drain_reg in Hreg; apply Hc; exact Hreg]).
    destruct (ph s); fin He; try exact Hd. destruct Hd as [Hd1 Hd2]. split; [exact (reach_step init0 (drain_all regs s) C_UNext Hd1)|].
    intros r Hreg. change (reg (step C_UNext (drain_all regs s)) r = true) in Hreg. rewrite step_reg in Hreg by (intros; discriminate). apply Hd2. exact Hreg.
  - destruct (ph s); try discriminate; destruct (word_eqb w (rmem (rd s r))); fin He; apply (Hkeep (C_UScan r)); intros; discriminate.
  - destruct (ph s) eqn:Eph; try discriminate.
    destruct (forallb (fun r => match loc s r with W_input => false | _ => true end) regs && Bool.eqb p (negb (gpar s))) eqn:Eg; fin He.
    apply andb_prop in Eg. destruct Eg as [Eg _]. split; [|exact Hc]. eapply R_step; [exact Hr|]. apply T_ustep. apply U_flip; [exact Eph|].
    intros r Hl. destruct (reg s r) eqn:Er.
    + rewrite forallb_forall in Eg. specialize (Eg r (Hc r Er)). rewrite Hl in Eg. discriminate.
    + destruct (unreg_qs_reach s Hr r Er) as [Hq _]. congruence.
  - destruct (ph s) eqn:Eph; try discriminate.
    destruct (forallb (fun r => match loc s r with W_cur => false | _ => true end) regs) eqn:Eg; fin He.
    split; [|exact Hc]. eapply R_step; [exact Hr|]. apply T_ustep. apply U_end; [exact Eph|].
    intros r Hl. destruct (reg s r) eqn:Er.
    + rewrite forallb_forall in Eg. specialize (Eg r (Hc r Er)). rewrite Hl in Eg. discriminate.
    + destruct (unreg_qs_reach s Hr r Er) as [Hq _]. congruence.
  - destruct (existsb (Nat.eqb r) regs) eqn:Ei; [|discriminate]. destruct (pc (rd s r)) eqn:Ep; try discriminate. destruct (rbuf (rd s r)) eqn:Eb; try discriminate. destruct (reg s r) eqn:Er; fin He.
    split; [exact (reach_step init0 s (C_Reg r) Hr)|]. intros r0 Hreg. change (reg (step (C_Reg r) s) r0 = true) in Hreg. cbn [step] in Hreg. rewrite Ep, Eb, Er in Hreg. cbn [reg] in Hreg.
    destruct (Nat.eq_dec r0 r) as [->|Hne]; [|rewrite upd_other in Hreg by exact Hne; apply Hc; exact Hreg].
    apply existsb_exists in Ei. destruct Ei as (x & Hx & E). apply Nat.eqb_eq in E. subst. exact Hx.
  - destruct (existsb (Nat.eqb r) regs) eqn:Ei; [|discriminate]. destruct (pc (rd s r)) eqn:Ep; try discriminate. destruct (rbuf (rd s r)) eqn:Eb; try discriminate. destruct (reg s r) eqn:Er; fin He.
    split; [exact (reach_step init0 s (C_Unreg r) Hr)|]. intros r0 Hreg. change (reg (step (C_Unreg r) s) r0 = true) in Hreg. cbn [step] in Hreg. rewrite Ep, Eb, Er in Hreg. cbn [reg] in Hreg.
    destruct (Nat.eq_dec r0 r) as [->|Hne]; [rewrite upd_same in Hreg; discriminate|rewrite upd_other in Hreg by exact Hne; apply Hc; exact Hreg].
Qed.

(* an accepted action sequence of the implementation - threads registering and unregistering at any moment - is a run of the proved model: when it ends outside
   a grace period, no reader that was registered and had completed its rcu_read_lock when a grace period began is still in that section *)
Theorem accepted_dyn_trace_satisfies_gp regs :
  forall l s', grun regs l init0 = Some s' -> reach init0 s' /\ (ph s' = U_Idle -> forall r, old_open (rd s' r) = false).
Proof.
  intros l s' Hrun.
  assert (H : forall l s, AInv regs s -> grun regs l s = Some s' -> AInv regs s').
  { induction l0 as [|a l0 IH]; intros s HA He; cbn [grun] in He; [inversion He; subst; exact HA|].
    destruct (gexec regs a s) as [s1|] eqn:E1; [|discriminate]. apply (IH s1); [eapply gexec_sound; eassumption|exact He]. }
  assert (HA0 : AInv regs init0) by (split; [apply R_refl|intros r Hreg; discriminate Hreg]).
  destruct (H l init0 HA0 Hrun) as [Hr _].
  split; [exact Hr|]. apply (gp_dyn_waits_for_preexisting_readers (fun _ => false) s' Hr).
Qed.
Print Assumptions accepted_dyn_trace_satisfies_gp.
