(* two-phase grace period with a DYNAMIC registry (C_Reg / C_Unreg: rcu_register_thread / rcu_unregister_thread at any moment, the thread idle with an empty store buffer), unbounded readers and nesting, x86-TSO store buffers
   on the reader words, updater master barrier = membarrier (drains every reader buffer). *)
From Coq Require Import List Arith Bool Lia.
Import ListNotations.

Definition word := (bool * nat)%type.            (* phase bit, nesting count *)

Inductive rpc := R_Idle | R_Loaded (p : bool) | R_In (p : bool) (n : nat).   (* n = nesting - 1 *)

Record reader := {
  rmem : word;               (* committed reader word *)
  rbuf : list word;          (* store buffer, oldest first *)
  pc : rpc;
  old_open : bool            (* ghost: has an outermost section open whose lock completed before the current GP started *)
}.

Inductive where_ := W_input | W_cur | W_qs.
Inductive uphase := U_Idle | U_Started | U_Scan1 | U_Scan2.

Record state := {
  gpar : bool;
  rd : nat -> reader;
  loc : nat -> where_;
  ph : uphase;
  reg : nat -> bool          (* registered readers (the registry the updater scans) *)
}.

Inductive choice :=
| C_Lock (r : nat)        (* next step of rcu_read_lock on r *)
| C_Unlock (r : nat)      (* rcu_read_unlock on r (one store) *)
| C_Flush (r : nat)
| C_UNext                 (* updater: advance to next phase if allowed *)
| C_UScan (r : nat)       (* updater: classify reader r *)
| C_Reg (r : nat)         (* rcu_register_thread() of r: joins the list the first scan works on, or the registry *)
| C_Unreg (r : nat).      (* rcu_unregister_thread() of r: deleted from whichever list holds it *)

Definition upd {A} (f : nat -> A) (k : nat) (v : A) : nat -> A := fun x => if Nat.eqb x k then v else f x.

Definition view (x : reader) : word := last (rbuf x) (rmem x).
Definition in_cs (x : reader) : bool := match pc x with R_In _ _ => true | _ => false end.
Definition flush_all (x : reader) : reader :=
  {| rmem := view x; rbuf := []; pc := pc x; old_open := old_open x |}.

Definition step (c : choice) (s : state) : state :=
  match c with
  | C_Lock r =>
      let x := rd s r in
      match pc x with
      | R_Idle => {| gpar := gpar s; rd := upd (rd s) r {| rmem := rmem x; rbuf := rbuf x; pc := R_Loaded (gpar s); old_open := old_open x |}; loc := loc s; ph := ph s; reg := reg s |}
      | R_Loaded p => {| gpar := gpar s; rd := upd (rd s) r {| rmem := rmem x; rbuf := rbuf x ++ [(p, 1)]; pc := R_In p 0; old_open := old_open x |}; loc := loc s; ph := ph s; reg := reg s |}
      | R_In p n => {| gpar := gpar s; rd := upd (rd s) r {| rmem := rmem x; rbuf := rbuf x ++ [(p, S (S n))]; pc := R_In p (S n); old_open := old_open x |}; loc := loc s; ph := ph s; reg := reg s |}
      end
  | C_Unlock r =>
      let x := rd s r in
      match pc x with
      | R_In p 0 => {| gpar := gpar s; rd := upd (rd s) r {| rmem := rmem x; rbuf := rbuf x ++ [(p, 0)]; pc := R_Idle; old_open := false |}; loc := loc s; ph := ph s; reg := reg s |}
      | R_In p (S n) => {| gpar := gpar s; rd := upd (rd s) r {| rmem := rmem x; rbuf := rbuf x ++ [(p, S n)]; pc := R_In p n; old_open := old_open x |}; loc := loc s; ph := ph s; reg := reg s |}
      | _ => s
      end
  | C_Flush r =>
      let x := rd s r in
      match rbuf x with
      | [] => s
      | w :: b => {| gpar := gpar s; rd := upd (rd s) r {| rmem := w; rbuf := b; pc := pc x; old_open := old_open x |}; loc := loc s; ph := ph s; reg := reg s |}
      end
  | C_UNext =>
      match ph s with
      | U_Idle =>    (* synchronize_rcu starts: ghost marks the pre-existing sections *)
          {| gpar := gpar s; rd := fun r => let x := rd s r in {| rmem := rmem x; rbuf := rbuf x; pc := pc x; old_open := in_cs x && reg s r |}; loc := loc s; ph := U_Started; reg := reg s |}
      | U_Started => (* smp_mb_master #1 = membarrier: every reader buffer drained; registry -> input
                        (old_open implies registered, lemma old_open_registered in GpProof.v, so the disjunct is redundant) *)
          {| gpar := gpar s; rd := fun r => flush_all (rd s r); loc := fun r => if reg s r || old_open (rd s r) then W_input else W_qs; ph := U_Scan1; reg := reg s |}
      | U_Scan1 =>
          s   (* allowed only when input is empty: expressed by C_UFlip below through a decidable oracle *)
      | U_Scan2 => s
      end
  | C_UScan r =>
      let x := rd s r in
      match ph s, loc s r with
      | U_Scan1, W_input =>
          if Nat.eqb (snd (rmem x)) 0 then {| gpar := gpar s; rd := rd s; loc := upd (loc s) r W_qs; ph := ph s; reg := reg s |}
          else if Bool.eqb (fst (rmem x)) (gpar s) then {| gpar := gpar s; rd := rd s; loc := upd (loc s) r W_cur; ph := ph s; reg := reg s |}
          else s
      | U_Scan2, W_cur =>
          if Nat.eqb (snd (rmem x)) 0 then {| gpar := gpar s; rd := rd s; loc := upd (loc s) r W_qs; ph := ph s; reg := reg s |}
          else if Bool.eqb (fst (rmem x)) (gpar s) then {| gpar := gpar s; rd := rd s; loc := upd (loc s) r W_qs; ph := ph s; reg := reg s |}
          else s
      | _, _ => s
      end
  | C_Reg r =>
      let x := rd s r in
      match pc x, rbuf x with
      | R_Idle, [] => if reg s r then s else
          {| gpar := gpar s; rd := rd s; loc := upd (loc s) r (match ph s with U_Scan1 => W_input | _ => W_qs end); ph := ph s; reg := upd (reg s) r true |}
      | _, _ => s
      end
  | C_Unreg r =>
      let x := rd s r in
      match pc x, rbuf x with
      | R_Idle, [] => if reg s r then {| gpar := gpar s; rd := rd s; loc := upd (loc s) r W_qs; ph := ph s; reg := upd (reg s) r false |} else s
      | _, _ => s
      end
  end.

(* The two guarded transitions need "no reader left in the list": the list is unbounded here, so the
   emptiness test is a premise of a relational step. *)
Inductive ustep : state -> state -> Prop :=
| U_flip s : ph s = U_Scan1 -> (forall r, loc s r <> W_input) ->
    ustep s {| gpar := negb (gpar s); rd := rd s; loc := loc s; ph := U_Scan2; reg := reg s |}
| U_end s : ph s = U_Scan2 -> (forall r, loc s r <> W_cur) ->
    ustep s {| gpar := gpar s; rd := rd s; loc := loc s; ph := U_Idle; reg := reg s |}.

Inductive trans : state -> state -> Prop :=
| T_choice c s : trans s (step c s)
| T_ustep s s' : ustep s s' -> trans s s'.

Inductive reach (s0 : state) : state -> Prop :=
| R_refl : reach s0 s0
| R_step s s' : reach s0 s -> trans s s' -> reach s0 s'.

Definition init (isreg : nat -> bool) : state :=
  {| gpar := false; rd := fun _ => {| rmem := (false, 0); rbuf := []; pc := R_Idle; old_open := false |};
     loc := fun _ => W_qs; ph := U_Idle; reg := isreg |}.
