(* Executable action interpreter for the mb-flavor grace-period model (refinement check of the traces of src/urcu.c built with RCU_MB): every action
   carries the value the implementation read or wrote; the interpreter checks it against the model state and performs the corresponding GpMb transition,
   or fails.  Soundness: an accepted action sequence is a GpMb run, so gp_mb_waits_for_preexisting_readers applies to it. *)
From Coq Require Import List Arith Bool Lia.
Import ListNotations.
Require Import Urcu.Gp.GpMb.

Inductive mact :=
| MLoadGp (r : nat) (p : bool)          (* reader r: outermost rcu_read_lock loads the global phase p *)
| MStoreCtr (r : nat) (w : word)         (* reader r stores w = (phase, nesting) into its own word (lock, nested lock or unlock) *)
| MFence (r : nat)                       (* the smp_mb that ends the outermost rcu_read_lock (own buffer empty): the section has begun *)
| MFlush (r : nat) (w : word)            (* the oldest buffered store of r, of value w, reaches memory *)
| MSyncStart                             (* synchronize_rcu begins *)
| MMb                                    (* smp_mb_master of the updater: a local fence, nobody else's buffer is touched *)
| MScan (r : nat) (w : word)             (* updater reads reader r's word in wait_for_readers and sees w *)
| MFlip (p : bool)                       (* the global word with phase p becomes visible *)
| MEnd.

Definition word_eqb (a b : word) : bool := Bool.eqb (fst a) (fst b) && Nat.eqb (snd a) (snd b).
Lemma word_eqb_eq a b : word_eqb a b = true -> a = b.
Proof. destruct a, b; unfold word_eqb; cbn. intros H. apply andb_prop in H. destruct H as [H1 H2].
  apply Bool.eqb_prop in H1. apply Nat.eqb_eq in H2. subst. reflexivity. Qed.

Section MBX.
Variable isreg : nat -> bool.
Notation step := (step isreg).
Notation reach := (reach isreg).

Definition mexec (regs : list nat) (a : mact) (s : state) : option state :=
  match a with
  | MLoadGp r p => match pc (rd s r) with R_Idle => if Bool.eqb p (gpar s) then Some (step (C_Lock r) s) else None | _ => None end
  | MStoreCtr r w =>
      match pc (rd s r) with
      | R_Idle | R_Fence _ => None
      | R_Loaded p => if word_eqb w (p, 1) then Some (step (C_Lock r) s) else None
      | R_In p n => if word_eqb w (p, S (S n)) then Some (step (C_Lock r) s)
                    else if word_eqb w (p, n) then Some (step (C_Unlock r) s) else None
      end
  | MFence r => match pc (rd s r), rbuf (rd s r) with R_Fence _, [] => Some (step (C_Lock r) s) | _, _ => None end
  | MFlush r w => match rbuf (rd s r) with w' :: _ => if word_eqb w w' then Some (step (C_Flush r) s) else None | [] => None end
  | MSyncStart => match ph s with U_Idle => Some (step C_UNext s) | _ => None end
  | MMb => match ph s with U_Started => Some (step C_UNext s) | _ => Some s end
  | MScan r w => match ph s with
                 | U_Scan1 | U_Scan2 => if word_eqb w (rmem (rd s r)) then Some (step (C_UScan r) s) else None
                 | _ => None end
  | MFlip p =>
      match ph s with
      | U_Scan1 => if forallb (fun r => match loc s r with W_input => false | _ => true end) regs && Bool.eqb p (negb (gpar s))
                   then Some {| gpar := negb (gpar s); rd := rd s; loc := loc s; ph := U_Scan2 |} else None
      | _ => None end
  | MEnd =>
      match ph s with
      | U_Scan2 => if forallb (fun r => match loc s r with W_cur => false | _ => true end) regs
                   then Some {| gpar := gpar s; rd := rd s; loc := loc s; ph := U_Idle |} else None
      | _ => None end
  end.

Fixpoint mrun (regs : list nat) (l : list mact) (s : state) : option state :=
  match l with [] => Some s | a :: l' => match mexec regs a s with Some s' => mrun regs l' s' | None => None end end.

Ltac fin He := first [discriminate He | injection He as <-].
Lemma reach_step s c : reach init s -> reach init (step c s).
Proof. intros H. eapply R_step; [exact H|apply T_choice]. Qed.

(* unregistered threads are never flagged and never waited for *)
Definition unreg_ok (s : state) : Prop :=
  forall r, isreg r = false -> old_open (rd s r) = false /\ (ph s = U_Scan1 \/ ph s = U_Scan2 -> loc s r = W_qs).
Lemma unreg_reach : forall s, reach init s -> unreg_ok s.
Proof.
  intros s Hr. induction Hr as [|s s' Hr IH Ht]; [intros r _; split; [reflexivity|intros [H|H]; discriminate]|].
  destruct Ht as [c s|s s' Hu].
  - intros r Hreg. destruct (IH r Hreg) as [Ho Hl].
    destruct c as [r0|r0|r0| |r0]; cbn [GpMb.step].
    + destruct (pc (rd s r0)) as [|p|p|p n]; try (destruct (rbuf (rd s r0))); cbn [setrd rd loc ph]; try (split; assumption);
        (split; [|exact Hl]); unfold upd; destruct (Nat.eqb r r0) eqn:E; cbn; try exact Ho; apply Nat.eqb_eq in E; subst; exact Ho.
    + destruct (pc (rd s r0)) as [|p|p|p [|n]]; cbn [setrd rd loc ph]; try (split; assumption);
        (split; [|exact Hl]); unfold upd; destruct (Nat.eqb r r0) eqn:E; cbn; try exact Ho; try reflexivity; apply Nat.eqb_eq in E; subst; exact Ho.
    + destruct (rbuf (rd s r0)); cbn [setrd rd loc ph]; [split; assumption|]. split; [|exact Hl].
      unfold upd; destruct (Nat.eqb r r0) eqn:E; cbn; [apply Nat.eqb_eq in E; subst; exact Ho|exact Ho].
    + destruct (ph s) eqn:Eph; cbn; try (split; assumption).
      * split; [rewrite Hreg; apply andb_false_r|intros [H|H]; discriminate].
      * split; [exact Ho|]. intros _. rewrite Hreg, Ho. reflexivity.
      * split; [exact Ho|intros _; apply Hl; left; reflexivity].
      * split; [exact Ho|intros _; apply Hl; right; reflexivity].
    + (* scan of r0: an unregistered r sits in W_qs, so r0 <> r whenever the scan changes anything *)
      assert (Hsame : old_open (rd s r) = false /\ (ph s = U_Scan1 \/ ph s = U_Scan2 -> loc s r = W_qs)) by (split; assumption).
      assert (Hupd : forall w, (ph s = U_Scan1 \/ ph s = U_Scan2) -> loc s r0 <> W_qs ->
                old_open (rd s r) = false /\ (ph s = U_Scan1 \/ ph s = U_Scan2 -> upd (loc s) r0 w r = W_qs)).
      { intros w Hsc Hne. split; [exact Ho|]. intros _. destruct (Nat.eq_dec r r0) as [->|Hrr]; [rewrite (Hl Hsc) in Hne; contradiction|].
        rewrite upd_other by exact Hrr. apply Hl. exact Hsc. }
      unfold GpMb.step.
      destruct (ph s) eqn:Eph; [rewrite Eph; exact Hsame|rewrite Eph; exact Hsame| |].
      * destruct (loc s r0) eqn:El; [|rewrite Eph; exact Hsame|rewrite Eph; exact Hsame].
        destruct (Nat.eqb (snd (rmem (rd s r0))) 0); cbn [rd loc ph]; [apply (Hupd W_qs); [auto|congruence]|].
        destruct (Bool.eqb (fst (rmem (rd s r0))) (gpar s)); cbn [rd loc ph]; [apply (Hupd W_cur); [auto|congruence]|rewrite Eph; exact Hsame].
      * destruct (loc s r0) eqn:El; [rewrite Eph; exact Hsame| |rewrite Eph; exact Hsame].
        destruct (Nat.eqb (snd (rmem (rd s r0))) 0); cbn [rd loc ph]; [apply (Hupd W_qs); [auto|congruence]|].
        destruct (Bool.eqb (fst (rmem (rd s r0))) (gpar s)); cbn [rd loc ph]; [apply (Hupd W_qs); [auto|congruence]|rewrite Eph; exact Hsame].
  - destruct Hu as [s Eph Hn|s Eph Hn]; intros r Hreg; destruct (IH r Hreg) as [Ho Hl]; cbn; (split; [exact Ho|]).
    + intros _. apply Hl. left; exact Eph.
    + intros [H|H]; discriminate.
Qed.

Theorem mexec_sound regs a s s' : (forall r, isreg r = true -> In r regs) -> reach init s -> mexec regs a s = Some s' -> reach init s'.
Proof.
  intros Hc Hr He. destruct a as [r p|r w|r|r w| | |r w|p|]; cbn [mexec] in He.
  - destruct (pc (rd s r)); try discriminate. destruct (Bool.eqb p (gpar s)); fin He. exact (reach_step s (C_Lock r) Hr).
  - destruct (pc (rd s r)) as [|p|p|p n]; try discriminate.
    + destruct (word_eqb w (p, 1)); fin He. exact (reach_step s (C_Lock r) Hr).
    + destruct (word_eqb w (p, S (S n))); [fin He; exact (reach_step s (C_Lock r) Hr)|].
      destruct (word_eqb w (p, n)); fin He. exact (reach_step s (C_Unlock r) Hr).
  - destruct (pc (rd s r)); try discriminate. destruct (rbuf (rd s r)); fin He. exact (reach_step s (C_Lock r) Hr).
  - destruct (rbuf (rd s r)) as [|w' b]; try discriminate. destruct (word_eqb w w'); fin He. exact (reach_step s (C_Flush r) Hr).
  - destruct (ph s); fin He. exact (reach_step s C_UNext Hr).
  - destruct (ph s); fin He; try exact Hr. exact (reach_step s C_UNext Hr).
  - destruct (ph s); try discriminate; destruct (word_eqb w (rmem (rd s r))); fin He; exact (reach_step s (C_UScan r) Hr).
  - destruct (ph s) eqn:Eph; try discriminate.
    destruct (forallb (fun r => match loc s r with W_input => false | _ => true end) regs && Bool.eqb p (negb (gpar s))) eqn:Eg; fin He.
    apply andb_prop in Eg. destruct Eg as [Eg _]. eapply R_step; [exact Hr|]. apply T_ustep. apply U_flip; [exact Eph|].
    intros r Hl. destruct (isreg r) eqn:Er.
    + rewrite forallb_forall in Eg. specialize (Eg r (Hc r Er)). rewrite Hl in Eg. discriminate.
    + destruct (unreg_reach s Hr r Er) as [_ Hq]. rewrite Hq in Hl by (left; exact Eph). discriminate.
  - destruct (ph s) eqn:Eph; try discriminate.
    destruct (forallb (fun r => match loc s r with W_cur => false | _ => true end) regs) eqn:Eg; fin He.
    eapply R_step; [exact Hr|]. apply T_ustep. apply U_end; [exact Eph|].
    intros r Hl. destruct (isreg r) eqn:Er.
    + rewrite forallb_forall in Eg. specialize (Eg r (Hc r Er)). rewrite Hl in Eg. discriminate.
    + destruct (unreg_reach s Hr r Er) as [_ Hq]. rewrite Hq in Hl by (right; exact Eph). discriminate.
Qed.

(* an accepted action sequence of the implementation is a run of the proved model: when it ends outside a grace period, no registered reader that
   had completed its rcu_read_lock (store drained by its own fence) when a grace period began is still flagged *)
Theorem accepted_mb_trace_satisfies_gp regs : (forall r, isreg r = true -> In r regs) ->
  forall l s', mrun regs l init = Some s' -> reach init s' /\ (ph s' = U_Idle -> forall r, old_open (rd s' r) = false).
Proof.
  intros Hc l s' Hrun.
  assert (H : forall l s, reach init s -> mrun regs l s = Some s' -> reach init s').
  { induction l0 as [|a l0 IH]; intros s Hr He; cbn [mrun] in He; [inversion He; subst; exact Hr|].
    destruct (mexec regs a s) as [s1|] eqn:E1; [|discriminate]. apply (IH s1); [eapply mexec_sound; eassumption|exact He]. }
  assert (Hr : reach init s') by (apply (H l init); [apply R_refl|exact Hrun]).
  split; [exact Hr|]. apply (gp_mb_waits_for_preexisting_readers isreg s' Hr).
Qed.
End MBX.
Print Assumptions accepted_mb_trace_satisfies_gp.
