(* Executable action interpreter for the qsbr grace-period model (refinement check of the traces of src/urcu-qsbr.c, 64-bit single counter): every action carries
   the value the implementation read or wrote; the interpreter checks it against the model state and performs the corresponding GpQsbr transitions, or fails.
   Soundness: every state reached by an accepted action sequence satisfies the model's invariant, hence the grace-period theorem: when a grace period has ended, no
   registered reader is still in an implicit section that was open when the incremented counter became visible. *)
From Coq Require Import List Arith Bool Lia.
Import ListNotations.
Require Import Urcu.Gp.GpQsbr.

Inductive qact :=
| QLoad (r g : nat)        (* thread r loads the global counter (rcu_thread_online, or rcu_quiescent_state) and sees g *)
| QStore (r w : nat)       (* thread r stores w into its reader word (online / quiescent state: the value loaded; offline: 0) *)
| QFence (r : nat)         (* a full fence of thread r (own buffer empty) *)
| QFlush (r w : nat)       (* the oldest buffered store of r, of value w, reaches memory *)
| QRet (r : nat)           (* an operation of r returns: it must be complete *)
| UInc (g : nat)           (* the incremented global counter g becomes visible *)
| UScan (r w : nat)        (* the updater reads reader r's word and sees w *)
| UEnd.                    (* wait_for_readers is over *)

Definition isin (regs : list nat) (r : nat) : bool := existsb (Nat.eqb r) regs.
Definition qexec (regs : list nat) (a : qact) (s : state) : option state :=
  match a with
  | QLoad r g => if isin regs r && Nat.eqb g (gctr s) then
                   match pc (rd s r) with Q_Off => Some (step (C_R r) s) | Q_On => Some (step (C_Qs r) s) | _ => None end
                 else None
  | QStore r w => if isin regs r then
                    match pc (rd s r) with
                    | Q_OnL g | Q_QsS g => if Nat.eqb w g then Some (step (C_R r) s) else None
                    | Q_On => if Nat.eqb w 0 then Some (step (C_R r) (step (C_Offl r) s)) else None      (* rcu_thread_offline: store 0 *)
                    | Q_QsL g => if Nat.eqb w g then Some (step (C_R r) (step (C_R r) s)) else None          (* the store itself is sequentially consistent: leading fence + store *)
                    | _ => None
                    end
                  else None
  | QFence r => if isin regs r then
                  match pc (rd s r), rbuf (rd s r) with
                  | Q_OnF, [] | Q_QsL _, [] | Q_QsF, [] => Some (step (C_R r) s)
                  | Q_On, [] | Q_Off, [] => Some s
                  | _, _ => None
                  end
                else None
  | QFlush r w => if isin regs r then match rbuf (rd s r) with w' :: _ => if Nat.eqb w w' then Some (step (C_Flush r) s) else None | [] => None end else None
  | QRet r => match pc (rd s r) with Q_On | Q_Off => Some s | _ => None end
  | UInc g => match ph s with U_Idle => if Nat.eqb g (S (gctr s)) then Some (step C_UStart s) else None | _ => None end
  | UScan r w => match ph s with U_Scan => if isin regs r && Nat.eqb w (rmem (rd s r)) then Some (step (C_UScan r) s) else None | _ => None end
  | UEnd => match ph s with
            | U_Scan => if forallb (fun r => match loc s r with W_input => false | _ => true end) regs
                        then Some {| gctr := gctr s; rd := rd s; loc := loc s; ph := U_Idle |} else None
            | _ => None end
  end.
Fixpoint qrun (regs : list nat) (l : list qact) (s : state) : option state :=
  match l with [] => Some s | a :: l' => match qexec regs a s with Some s' => qrun regs l' s' | None => None end end.

(* the scenario's initial state: the threads of regs are registered and online, having announced the initial counter value 1 *)
Definition init_on (regs : list nat) : state :=
  {| gctr := 1; rd := fun r => if isin regs r then {| rmem := 1; rbuf := []; pc := Q_On; old_open := false |} else {| rmem := 0; rbuf := []; pc := Q_Off; old_open := false |};
     loc := fun _ => W_qs; ph := U_Idle |}.

(* threads outside regs never move *)
Definition Pr (regs : list nat) (s : state) : Prop := forall r, isin regs r = false -> pc (rd s r) = Q_Off.

Lemma Inv_init_on regs : Inv (init_on regs) /\ Pr regs (init_on regs).
Proof.
  split.
  - split; [cbn; lia|split; [|split]]; cbn [init_on gctr rd loc ph]; [|intros _ r; destruct (isin regs r); reflexivity|discriminate].
    intros r. unfold RI. destruct (isin regs r); cbn.
    + split; [repeat constructor|split; [split; [reflexivity|discriminate]|discriminate]].
    + split; [constructor; [lia|constructor]|split; [exact I|discriminate]].
  - intros r Hr. cbn. rewrite Hr. reflexivity.
Qed.

Lemma Pr_step regs c s : Pr regs s -> (match c with C_R r | C_Qs r | C_Offl r | C_Flush r => isin regs r = true | _ => True end) -> Pr regs (step c s).
Proof.
  intros HP Hc r Hr. specialize (HP r Hr).
  assert (Hset : forall r0 x, isin regs r0 = true -> pc (rd (setrd s r0 x) r) = Q_Off).
  { intros r0 x H0. cbn [setrd rd]. rewrite upd_other; [exact HP|]. intros E. subst. congruence. }
  destruct c as [r0|r0|r0|r0| |r0]; cbn [step].
  - destruct (pc (rd s r0)); try (apply Hset; exact Hc); try exact HP; destruct (rbuf (rd s r0)); try (apply Hset; exact Hc); exact HP.
  - destruct (pc (rd s r0)); try exact HP. destruct (Nat.eqb _ _); apply Hset; exact Hc.
  - destruct (pc (rd s r0)); try exact HP. apply Hset; exact Hc.
  - destruct (rbuf (rd s r0)); [exact HP|apply Hset; exact Hc].
  - destruct (ph s); [cbn; exact HP|exact HP].
  - destruct (ph s); [exact HP|]. destruct (loc s r0); [|exact HP]. destruct (_ || _); [cbn; exact HP|exact HP].
Qed.

Opaque step.
Lemma qexec_inv regs a s s' : Inv s -> Pr regs s -> qexec regs a s = Some s' -> Inv s' /\ Pr regs s'.
Proof.
  intros HI HP H.
  assert (S1 : forall c, (match c with C_R r | C_Qs r | C_Offl r | C_Flush r => isin regs r = true | _ => True end) -> Inv (step c s) /\ Pr regs (step c s))
    by (intros c Hc; split; [apply Inv_step; exact HI|apply Pr_step; assumption]).
  destruct a as [r g|r w|r|r w|r|g|r w|]; unfold qexec in H.
  - destruct (isin regs r) eqn:Er; cbn [andb] in H; [|discriminate]. destruct (Nat.eqb g (gctr s)); [|discriminate].
    destruct (pc (rd s r)); try discriminate; injection H as <-; apply S1; exact Er.
  - destruct (isin regs r) eqn:Er; [|discriminate].
    destruct (pc (rd s r)); try discriminate; destruct (Nat.eqb _ _); try discriminate; injection H as <-; try (apply S1; exact Er).
    + destruct (S1 (C_Offl r) Er) as [A B]. split; [apply Inv_step; exact A|apply Pr_step; [exact B|exact Er]].
    + destruct (S1 (C_R r) Er) as [A B]. split; [apply Inv_step; exact A|apply Pr_step; [exact B|exact Er]].
  - destruct (isin regs r) eqn:Er; [|discriminate].
    destruct (pc (rd s r)); destruct (rbuf (rd s r)); try discriminate; injection H as <-; try (split; assumption); apply S1; exact Er.
  - destruct (isin regs r) eqn:Er; [|discriminate]. destruct (rbuf (rd s r)); [discriminate|]. destruct (Nat.eqb _ _); [|discriminate].
    injection H as <-. apply S1; exact Er.
  - destruct (pc (rd s r)); try discriminate; injection H as <-; split; assumption.
  - destruct (ph s); [|discriminate]. destruct (Nat.eqb _ _); [|discriminate]. injection H as <-. apply S1; exact I.
  - destruct (ph s); [discriminate|]. destruct (isin regs r && _); [|discriminate]. injection H as <-. apply S1; exact I.
  - (* the end of the grace period: every registered reader has been seen quiescent or current; the others never entered a section *)
    destruct (ph s) eqn:Eph; [discriminate|]. destruct (forallb _ regs) eqn:Ef; [|discriminate]. injection H as <-.
    destruct HI as (HG & HRI & HIdle & HK). split; [|exact HP].
    split; [exact HG|split; [exact HRI|split]]; cbn [gctr rd loc ph]; [|discriminate].
    intros _ r. destruct (old_open (rd s r)) eqn:Ho; [|reflexivity]. exfalso.
    destruct (HK Eph r Ho) as [Hl _]. destruct (isin regs r) eqn:Er.
    + unfold isin in Er. apply existsb_exists in Er. destruct Er as (r' & Hin & E). apply Nat.eqb_eq in E. subst r'.
      rewrite forallb_forall in Ef. specialize (Ef r Hin). rewrite Hl in Ef. discriminate.
    + destruct (HRI r) as (_ & _ & Hoo). specialize (Hoo Ho). unfold in_sec in Hoo. rewrite (HP r Er) in Hoo. discriminate.
Qed.
Transparent step.

Theorem accepted_qsbr_trace_satisfies_gp regs : forall l s, qrun regs l (init_on regs) = Some s ->
  ph s = U_Idle -> forall r, old_open (rd s r) = false.
Proof.
  intros l s H. assert (HH : Inv s /\ Pr regs s).
  { destruct (Inv_init_on regs) as [HI HP]. revert H HI HP. generalize (init_on regs). induction l as [|a l IH]; intros s0 H HI HP; cbn [qrun] in H.
    - inversion H; subst. split; assumption.
    - destruct (qexec regs a s0) as [s1|] eqn:E; [|discriminate]. destruct (qexec_inv regs a s0 s1 HI HP E) as [HI1 HP1]. apply (IH s1 H HI1 HP1). }
  destruct HH as [(_ & _ & Hid & _) _]. exact Hid.
Qed.
Print Assumptions accepted_qsbr_trace_satisfies_gp.

(* the interpreter accepts a run with a grace period waiting for a reader (non-vacuity), and rejects the same run when the reader's online fence is missing *)
Example accepts_a_grace_period :
  qrun [0; 1]%nat [QStore 0 0; QFlush 0 0; QFence 0; QRet 0; QLoad 0 1; QStore 0 1; UInc 2; UScan 1 1; QFlush 0 1; QFence 0; QRet 0; UScan 0 1; QLoad 1 2; QFence 1; QStore 1 2; QFlush 1 2; QFence 1; QRet 1; UScan 1 2; QLoad 0 2; QFence 0; QStore 0 2; QFlush 0 2; QFence 0; QRet 0; UScan 0 2; UEnd]%nat (init_on [0; 1]%nat) <> None.
Proof. vm_compute. discriminate. Qed.
Example rejects_online_without_fence :
  qrun [0; 1]%nat [QStore 0 0; QFlush 0 0; QFence 0; QRet 0; QLoad 0 1; QStore 0 1; QRet 0]%nat (init_on [0; 1]%nat) = None.
Proof. vm_compute. reflexivity. Qed.
