(* two-phase grace period for the mb flavor on TSO with a DYNAMIC registry (threads register and unregister at any moment relative to the
   grace period, any number of times; register / unregister take the registry mutex: the thread is outside any section and its store buffer is empty): the reader's lock is "store ctr; smp_mb" (the section counts as
   begun once its own fence has drained the store), the updater's barriers are local (no membarrier).  Unbounded readers
   and nesting.  Theorem: when the grace period ends, no section that had begun before it started is still open. *)
From Coq Require Import List Arith Bool Lia.
Import ListNotations.

Definition word := (bool * nat)%type.
Inductive rpc := R_Idle | R_Loaded (p : bool) | R_Fence (p : bool) | R_In (p : bool) (n : nat).
Record reader := { rmem : word; rbuf : list word; pc : rpc; old_open : bool }.
Inductive where_ := W_input | W_cur | W_qs.
Inductive uphase := U_Idle | U_Started | U_Scan1 | U_Scan2.
Record state := { gpar : bool; rd : nat -> reader; loc : nat -> where_; ph : uphase; reg : nat -> bool (* the registry *) }.
Inductive choice := C_Lock (r : nat) | C_Unlock (r : nat) | C_Flush (r : nat) | C_UNext | C_UScan (r : nat) | C_Reg (r : nat) | C_Unreg (r : nat).
Definition upd {A} (f : nat -> A) (k : nat) (v : A) : nat -> A := fun x => if Nat.eqb x k then v else f x.
Definition view (x : reader) : word := last (rbuf x) (rmem x).
Definition in_cs (x : reader) : bool := match pc x with R_In _ _ => true | _ => false end.
Definition setrd (s : state) r x : state := {| gpar := gpar s; rd := upd (rd s) r x; loc := loc s; ph := ph s; reg := reg s |}.

Definition step (c : choice) (s : state) : state :=
  match c with
  | C_Lock r =>
      let x := rd s r in
      match pc x with
      | R_Idle => setrd s r {| rmem := rmem x; rbuf := rbuf x; pc := R_Loaded (gpar s); old_open := old_open x |}
      | R_Loaded p => setrd s r {| rmem := rmem x; rbuf := rbuf x ++ [(p, 1)]; pc := R_Fence p; old_open := old_open x |}
      | R_Fence p => match rbuf x with [] => setrd s r {| rmem := rmem x; rbuf := []; pc := R_In p 0; old_open := old_open x |} | _ => s end
      | R_In p n => setrd s r {| rmem := rmem x; rbuf := rbuf x ++ [(p, S (S n))]; pc := R_In p (S n); old_open := old_open x |}
      end
  | C_Unlock r =>
      let x := rd s r in
      match pc x with
      | R_In p 0 => setrd s r {| rmem := rmem x; rbuf := rbuf x ++ [(p, 0)]; pc := R_Idle; old_open := false |}
      | R_In p (S n) => setrd s r {| rmem := rmem x; rbuf := rbuf x ++ [(p, S n)]; pc := R_In p n; old_open := old_open x |}
      | _ => s
      end
  | C_Flush r =>
      let x := rd s r in
      match rbuf x with [] => s | w :: b => setrd s r {| rmem := w; rbuf := b; pc := pc x; old_open := old_open x |} end
  | C_UNext =>
      match ph s with
      | U_Idle => {| gpar := gpar s; rd := fun r => let x := rd s r in {| rmem := rmem x; rbuf := rbuf x; pc := pc x; old_open := in_cs x && reg s r |}; loc := loc s; ph := U_Started; reg := reg s |}
      | U_Started => {| gpar := gpar s; rd := rd s; loc := fun r => if reg s r || old_open (rd s r) then W_input else W_qs; ph := U_Scan1; reg := reg s |}     (* local smp_mb: readers' buffers untouched *)
      | _ => s
      end
  | C_UScan r =>
      let x := rd s r in
      match ph s, loc s r with
      | U_Scan1, W_input =>
          if Nat.eqb (snd (rmem x)) 0 then {| gpar := gpar s; rd := rd s; loc := upd (loc s) r W_qs; ph := ph s; reg := reg s |}
          else if Bool.eqb (fst (rmem x)) (gpar s) then {| gpar := gpar s; rd := rd s; loc := upd (loc s) r W_cur; ph := ph s; reg := reg s |} else s
      | U_Scan2, W_cur =>
          if Nat.eqb (snd (rmem x)) 0 then {| gpar := gpar s; rd := rd s; loc := upd (loc s) r W_qs; ph := ph s; reg := reg s |}
          else if Bool.eqb (fst (rmem x)) (gpar s) then {| gpar := gpar s; rd := rd s; loc := upd (loc s) r W_qs; ph := ph s; reg := reg s |} else s
      | _, _ => s
      end
  | C_Reg r =>       (* rcu_register_thread(): under the registry mutex; the new reader joins the list the first scan is working on, or the registry *)
      let x := rd s r in
      match pc x, rbuf x with
      | R_Idle, [] => if reg s r then s else
          {| gpar := gpar s; rd := rd s; loc := upd (loc s) r (match ph s with U_Scan1 => W_input | _ => W_qs end); ph := ph s; reg := upd (reg s) r true |}
      | _, _ => s
      end
  | C_Unreg r =>     (* rcu_unregister_thread(): the reader is deleted from whichever list holds it *)
      let x := rd s r in
      match pc x, rbuf x with
      | R_Idle, [] => if reg s r then {| gpar := gpar s; rd := rd s; loc := upd (loc s) r W_qs; ph := ph s; reg := upd (reg s) r false |} else s
      | _, _ => s
      end
  end.
Inductive ustep : state -> state -> Prop :=
| U_flip s : ph s = U_Scan1 -> (forall r, loc s r <> W_input) -> ustep s {| gpar := negb (gpar s); rd := rd s; loc := loc s; ph := U_Scan2; reg := reg s |}
| U_end s : ph s = U_Scan2 -> (forall r, loc s r <> W_cur) -> ustep s {| gpar := gpar s; rd := rd s; loc := loc s; ph := U_Idle; reg := reg s |}.
Inductive trans : state -> state -> Prop := T_choice c s : trans s (step c s) | T_ustep s s' : ustep s s' -> trans s s'.
Inductive reach (s0 : state) : state -> Prop := R_refl : reach s0 s0 | R_step s s' : reach s0 s -> trans s s' -> reach s0 s'.
Definition init : state :=
  {| gpar := false; rd := fun _ => {| rmem := (false, 0); rbuf := []; pc := R_Idle; old_open := false |}; loc := fun _ => W_qs; ph := U_Idle; reg := fun _ => false |}.

Definition all_in (p : bool) (l : list word) : Prop := Forall (fun w => fst w = p /\ snd w <> 0) l.
Definition RI (x : reader) : Prop :=
  match pc x with
  | R_Idle | R_Loaded _ => snd (view x) = 0
  | R_Fence p => view x = (p, 1)
  | R_In p n => view x = (p, S n) /\ all_in p (rmem x :: rbuf x)
  end /\ (old_open x = true -> in_cs x = true).
Definition K (s : state) (r : nat) : Prop :=
  let x := rd s r in
  old_open x = true ->
  match pc x with
  | R_In p n => match ph s with
                | U_Scan1 => loc s r = W_input \/ (loc s r = W_cur /\ p = gpar s)
                | U_Scan2 => loc s r = W_cur /\ p = negb (gpar s)
                | _ => True
                end
  | _ => False
  end.
Definition scanning (s : state) : Prop := ph s = U_Scan1 \/ ph s = U_Scan2.
Definition Inv (s : state) : Prop :=
  (forall r, RI (rd s r)) /\ (ph s = U_Idle -> forall r, old_open (rd s r) = false) /\
  (ph s = U_Scan2 -> forall r, loc s r <> W_input) /\ (scanning s -> forall r, K s r).

Lemma upd_same {A} (f : nat -> A) k v : upd f k v k = v.  Proof. unfold upd. now rewrite Nat.eqb_refl. Qed.
Lemma upd_other {A} (f : nat -> A) k v x : x <> k -> upd f k v x = f x.
Proof. unfold upd. intros H. destruct (Nat.eqb_spec x k); [contradiction|reflexivity]. Qed.
Lemma last_cons_ne {A} (a : A) (l : list A) d : l <> [] -> last (a :: l) d = last l d.
Proof. destruct l; [contradiction|reflexivity]. Qed.
Lemma last_change_default {A} (l : list A) d d' : l <> [] -> last l d = last l d'.
Proof. induction l as [|a l IH]; [contradiction|]. intros _. destruct l as [|b l]; [reflexivity|]. change (last (b :: l) d = last (b :: l) d'). apply IH. discriminate. Qed.
Lemma view_flush (w : word) (b : list word) m : last b w = last (w :: b) m.
Proof. destruct b as [|c b]; [reflexivity|]. symmetry. rewrite last_cons_ne by discriminate. apply last_change_default. discriminate. Qed.

(* a reader-local step: K of that reader only depends on pc / old_open / phase / loc *)
Lemma Inv_setrd s r x : Inv s -> RI x ->
  (ph s = U_Idle -> old_open x = false) ->
  (old_open x = true -> old_open (rd s r) = true /\ match pc x, pc (rd s r) with R_In p _, R_In q _ => p = q | _, _ => False end) ->
  Inv (setrd s r x).
Proof.
  intros (HRI & HIdle & HS2 & HK) Hx Hid Hoo. split; [|split; [|split]]; cbn [setrd gpar rd loc ph reg].
  - intros r0. destruct (Nat.eq_dec r0 r) as [->|Hne]; [rewrite upd_same; exact Hx|rewrite upd_other by exact Hne; apply HRI].
  - intros Hp r0. destruct (Nat.eq_dec r0 r) as [->|Hne]; [rewrite upd_same; apply Hid; exact Hp|rewrite upd_other by exact Hne; apply HIdle; exact Hp].
  - exact HS2.
  - intros Hsc r0. unfold K; cbn [setrd gpar rd loc ph reg]. destruct (Nat.eq_dec r0 r) as [->|Hne]; [rewrite upd_same|rewrite upd_other by exact Hne; apply (HK Hsc r0)].
    intros Ho. destruct (Hoo Ho) as [Ho' Hpc]. pose proof (HK Hsc r) as Kr. unfold K in Kr. specialize (Kr Ho').
    destruct (pc x) as [| | |p n]; try contradiction. destruct (pc (rd s r)) as [| | |q m]; try contradiction. subst q. exact Kr.
Qed.

Lemma Inv_step c s : Inv s -> Inv (step c s).
Proof.
  intros HI. pose proof HI as (HRI & HIdle & HS2 & HK).
  destruct c as [r|r|r| |r|r|r]; cbn [step].
  - (* lock *)
    pose proof (HRI r) as [Hr Hoo]. destruct (pc (rd s r)) as [|p|p|p n] eqn:Epc.
    + apply Inv_setrd; [exact HI| | |]; cbn.
      * split; cbn; [exact Hr|]. intros Ho. specialize (Hoo Ho). unfold in_cs in Hoo. rewrite Epc in Hoo. discriminate.
      * intros Hp. apply HIdle; exact Hp.
      * intros Ho. specialize (Hoo Ho). unfold in_cs in Hoo. rewrite Epc in Hoo. discriminate.
    + apply Inv_setrd; [exact HI| | |]; cbn.
      * split; cbn; [unfold view; cbn; apply last_last|]. intros Ho. specialize (Hoo Ho). unfold in_cs in Hoo. rewrite Epc in Hoo. discriminate.
      * intros Hp. apply HIdle; exact Hp.
      * intros Ho. specialize (Hoo Ho). unfold in_cs in Hoo. rewrite Epc in Hoo. discriminate.
    + destruct (rbuf (rd s r)) eqn:Eb; [|exact HI].
      assert (Hm : rmem (rd s r) = (p, 1)) by (unfold view in Hr; rewrite Eb in Hr; exact Hr).
      apply Inv_setrd; [exact HI| | |]; cbn.
      * split; cbn; [|intros _; reflexivity]. unfold view; cbn. split; [exact Hm|]. constructor; [rewrite Hm; cbn; split; [reflexivity|lia]|constructor].
      * intros Hp. apply HIdle; exact Hp.
      * intros Ho. specialize (Hoo Ho). unfold in_cs in Hoo. rewrite Epc in Hoo. discriminate.
    + destruct Hr as [Hv Hall]. apply Inv_setrd; [exact HI| | |]; cbn.
      * split; cbn; [|intros _; reflexivity]. split; [unfold view; cbn; apply last_last|].
        unfold all_in in *. rewrite app_comm_cons. apply Forall_app. split; [exact Hall|]. constructor; [cbn; split; [reflexivity|lia]|constructor].
      * intros Hp. apply HIdle; exact Hp.
      * intros Ho. rewrite Epc. split; [exact Ho|reflexivity].
  - (* unlock *)
    pose proof (HRI r) as [Hr Hoo]. destruct (pc (rd s r)) as [|p|p|p n] eqn:Epc; [exact HI ..|].
    destruct Hr as [Hv Hall]. destruct n as [|n].
    + apply Inv_setrd; [exact HI| | |]; cbn.
      * split; cbn; [unfold view; cbn; rewrite last_last; reflexivity|discriminate].
      * intros _. reflexivity.
      * discriminate.
    + apply Inv_setrd; [exact HI| | |]; cbn.
      * split; cbn; [|intros _; reflexivity]. split; [unfold view; cbn; apply last_last|].
        unfold all_in in *. rewrite app_comm_cons. apply Forall_app. split; [exact Hall|]. constructor; [cbn; split; [reflexivity|lia]|constructor].
      * intros Hp. apply HIdle; exact Hp.
      * intros Ho. rewrite Epc. split; [exact Ho|reflexivity].
  - (* flush *)
    pose proof (HRI r) as [Hr Hoo]. destruct (rbuf (rd s r)) as [|w b] eqn:Eb; [exact HI|].
    assert (Hview : last b w = view (rd s r)) by (unfold view; rewrite Eb; apply view_flush).
    apply Inv_setrd; [exact HI| | |]; cbn.
    + assert (Ev : view {| rmem := w; rbuf := b; pc := pc (rd s r); old_open := old_open (rd s r) |} = view (rd s r)) by exact Hview.
      unfold RI. cbn [pc rmem rbuf old_open]. rewrite Ev. split; [|exact Hoo].
      destruct (pc (rd s r)) as [|p|p|p n]; try exact Hr. destruct Hr as [Hv Hall]. split; [exact Hv|]. unfold all_in in *. inversion Hall; assumption.
    + intros Hp. apply HIdle; exact Hp.
    + intros Ho. split; [exact Ho|]. destruct (pc (rd s r)) as [| | |p n] eqn:Epc; try (specialize (Hoo Ho); unfold in_cs in Hoo; rewrite Epc in Hoo; discriminate). reflexivity.
  - (* updater next *)
    destruct (ph s) eqn:Eph; try exact HI.
    + split; [|split; [|split]]; cbn.
      * intros r0. destruct (HRI r0) as [Hr Hoo]. split; cbn; [exact Hr|]. unfold in_cs; cbn. intros H. apply andb_prop in H. exact (proj1 H).
      * discriminate.
      * discriminate.
      * intros [H|H]; discriminate.
    + (* Started -> Scan1: nothing is drained; the pre-existing sections already satisfy the scan invariant *)
      split; [|split; [|split]]; cbn; try exact HRI; try discriminate.
      intros _ r0. unfold K; cbn. intros Ho. destruct (HRI r0) as [Hr Hoo]. specialize (Hoo Ho).
      unfold in_cs in Hoo. destruct (pc (rd s r0)) as [| | |p n]; try discriminate. left. rewrite Ho. rewrite orb_true_r. reflexivity.
  - (* scan *)
    destruct (ph s) eqn:Eph; try exact HI.
    + destruct (loc s r) eqn:El; try exact HI.
      assert (Hsc : scanning s) by (left; exact Eph). pose proof (HK Hsc) as HKs.
      assert (Hgoal : forall w, (old_open (rd s r) = true -> forall p n, pc (rd s r) = R_In p n -> w = W_input \/ (w = W_cur /\ p = gpar s)) ->
                Inv {| gpar := gpar s; rd := rd s; loc := upd (loc s) r w; ph := U_Scan1; reg := reg s |}).
      { intros w Hw. split; [|split; [|split]]; cbn; try exact HRI; try discriminate.
        intros _ r0. unfold K; cbn. pose proof (HKs r0) as Kr. unfold K in Kr. rewrite Eph in Kr.
        destruct (Nat.eq_dec r0 r) as [->|Hne]; [rewrite upd_same|rewrite upd_other by exact Hne; exact Kr].
        intros Ho. specialize (Kr Ho). destruct (pc (rd s r)) as [| | |p n] eqn:Epc; try contradiction. eapply Hw; [exact Ho|reflexivity]. }
      destruct (HRI r) as [Hr _].
      destruct (Nat.eqb_spec (snd (rmem (rd s r))) 0) as [Hz|Hnz].
      * apply Hgoal. intros Ho p n Epc. rewrite Epc in Hr. destruct Hr as [_ Hall]. inversion Hall as [|? ? [_ Hc] _]. contradiction.
      * destruct (Bool.eqb_spec (fst (rmem (rd s r))) (gpar s)) as [Hpar|Hpar]; [|exact HI].
        apply Hgoal. intros Ho p n Epc. rewrite Epc in Hr. destruct Hr as [_ Hall]. right. split; [reflexivity|].
        inversion Hall as [|? ? [Hp _] _]. rewrite <- Hp. exact Hpar.
    + destruct (loc s r) eqn:El; try exact HI.
      assert (Hsc : scanning s) by (right; exact Eph). pose proof (HK Hsc) as HKs.
      assert (Hgoal : (old_open (rd s r) = true -> False) -> Inv {| gpar := gpar s; rd := rd s; loc := upd (loc s) r W_qs; ph := U_Scan2; reg := reg s |}).
      { intros Hno. split; [|split; [|split]]; cbn; try exact HRI; try discriminate.
        - intros _ r0. destruct (Nat.eq_dec r0 r) as [->|Hne]; [rewrite upd_same; discriminate|rewrite upd_other by exact Hne; apply HS2; reflexivity].
        - intros _ r0. unfold K; cbn. pose proof (HKs r0) as Kr. unfold K in Kr. rewrite Eph in Kr.
          destruct (Nat.eq_dec r0 r) as [->|Hne]; [rewrite upd_same; intros Ho; destruct (Hno Ho)|rewrite upd_other by exact Hne; exact Kr]. }
      pose proof (HKs r) as Kr. unfold K in Kr. rewrite Eph in Kr. destruct (HRI r) as [Hr _].
      destruct (Nat.eqb_spec (snd (rmem (rd s r))) 0) as [Hz|Hnz].
      * apply Hgoal. intros Ho. specialize (Kr Ho). destruct (pc (rd s r)) as [| | |p n]; try contradiction.
        destruct Hr as [_ Hall]. inversion Hall as [|? ? [_ Hc] _]. contradiction.
      * destruct (Bool.eqb_spec (fst (rmem (rd s r))) (gpar s)) as [Hpar|Hpar]; [|exact HI].
        apply Hgoal. intros Ho. specialize (Kr Ho). destruct (pc (rd s r)) as [| | |p n]; try contradiction.
        destruct Kr as [_ Hp]. destruct Hr as [_ Hall]. inversion Hall as [|? ? [Hp' _] _].
        rewrite Hp' in Hpar. rewrite Hpar in Hp. destruct (gpar s); discriminate.
  - (* register: the thread is idle, hence not one of the sections the grace period waits for *)
    destruct (HRI r) as [Hr Hoo]. destruct (pc (rd s r)) eqn:Epc; try exact HI. destruct (rbuf (rd s r)); [|exact HI]. destruct (reg s r); [exact HI|].
    assert (Hno : old_open (rd s r) = false) by (destruct (old_open (rd s r)); [specialize (Hoo eq_refl); unfold in_cs in Hoo; rewrite Epc in Hoo; discriminate|reflexivity]).
    split; [|split; [|split]]; cbn [gpar rd loc ph reg]; try exact HRI; try exact HIdle.
    + intros Hp r0. destruct (Nat.eq_dec r0 r) as [->|Hne]; [rewrite upd_same, Hp; discriminate|rewrite upd_other by exact Hne; apply HS2; exact Hp].
    + intros Hsc r0. unfold K; cbn [gpar rd loc ph reg]. destruct (Nat.eq_dec r0 r) as [->|Hne]; [rewrite Hno; discriminate|rewrite upd_other by exact Hne; apply (HK Hsc r0)].
  - (* unregister *)
    destruct (HRI r) as [Hr Hoo]. destruct (pc (rd s r)) eqn:Epc; try exact HI. destruct (rbuf (rd s r)); [|exact HI]. destruct (reg s r); [|exact HI].
    assert (Hno : old_open (rd s r) = false) by (destruct (old_open (rd s r)); [specialize (Hoo eq_refl); unfold in_cs in Hoo; rewrite Epc in Hoo; discriminate|reflexivity]).
    split; [|split; [|split]]; cbn [gpar rd loc ph reg]; try exact HRI; try exact HIdle.
    + intros Hp r0. destruct (Nat.eq_dec r0 r) as [->|Hne]; [rewrite upd_same; discriminate|rewrite upd_other by exact Hne; apply HS2; exact Hp].
    + intros Hsc r0. unfold K; cbn [gpar rd loc ph reg]. destruct (Nat.eq_dec r0 r) as [->|Hne]; [rewrite Hno; discriminate|rewrite upd_other by exact Hne; apply (HK Hsc r0)].
Qed.

Lemma Inv_ustep s s' : Inv s -> ustep s s' -> Inv s'.
Proof.
  intros (HRI & HIdle & HS2 & HK) H. destruct H as [s Eph Hnone | s Eph Hnone].
  - assert (Hsc : scanning s) by (left; exact Eph).
    split; [|split; [|split]]; cbn; try exact HRI; try discriminate.
    + intros _. exact Hnone.
    + intros _ r. unfold K; cbn. pose proof (HK Hsc r) as Kr. unfold K in Kr. rewrite Eph in Kr.
      intros Ho. specialize (Kr Ho). destruct (pc (rd s r)) as [| | |p n]; try contradiction.
      destruct Kr as [Hin|[Hc Hp]]; [destruct (Hnone r Hin)|]. split; [exact Hc|]. rewrite Hp. now rewrite negb_involutive.
  - assert (Hsc : scanning s) by (right; exact Eph).
    split; [|split; [|split]]; cbn; try exact HRI; try discriminate.
    + intros _ r. destruct (old_open (rd s r)) eqn:Ho; [|reflexivity].
      pose proof (HK Hsc r) as Kr. unfold K in Kr. rewrite Eph in Kr. specialize (Kr Ho).
      destruct (pc (rd s r)) as [| | |p n]; try contradiction. destruct Kr as [Hc _]. destruct (Hnone r Hc).
    + intros [H|H]; discriminate.
Qed.

Lemma Inv_init : Inv init.  Proof. repeat split; cbn; intros; try discriminate; auto. Qed.

Theorem gp_mbdyn_waits_for_preexisting_readers : forall s, reach init s -> ph s = U_Idle -> forall r, old_open (rd s r) = false.
Proof.
  intros s Hr. assert (HI : Inv s).
  { induction Hr as [|s s' _ IH Ht]; [apply Inv_init|]. destruct Ht as [c s|s s' Hu]; [apply Inv_step; exact IH|eapply Inv_ustep; eassumption]. }
  destruct HI as (_ & H & _). exact H.
Qed.
Print Assumptions gp_mbdyn_waits_for_preexisting_readers.
