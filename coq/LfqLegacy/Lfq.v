(* scratch: step-level model of the RCU lock-free queue (static/rculfqueue.h), no node reuse *)
From Coq Require Import List Arith NArith Bool Lia.
Import ListNotations.
Require Import Urcu.Base.MachD.
Local Open Scope N_scope.

Inductive qloc := LHead | LTail | LNext (n : N).
Definition qloc_eqb (a b : qloc) : bool :=
  match a, b with LHead, LHead => true | LTail, LTail => true | LNext x, LNext y => N.eqb x y | _, _ => false end.

Inductive qop := OEnq (node : N) | ODeq.
Inductive qpc :=
| Q_Idle | Q_Stuck
| E_LoadTail (node c : N)                      (* c = 0: cds_lfq_enqueue_rcu; c = head: enqueue_dummy inside a dequeue of head *)
| E_Mb (node tail c : N)                        (* cmm_emit_legacy_smp_mb() *)
| E_Cas (node tail c : N)
| E_Swing (node tail new : N) (done : bool) (c : N)
| E_Ret
| D_LoadHead | D_LoadNext (head : N) | D_LoadNext2 (head : N) | D_CasHead (head next : N) | D_Free (head : N) | D_Ret (r : N).
Record qst := { qcur : qpc; qtodo : list qop; qsup : list N }.     (* qsup: ids this thread's make_dummy() will return *)

Section CFG.
Variable isD : N -> bool.                                         (* node->dummy, immutable *)

Definition qact (s : qst) : act qloc :=
  match qcur s with
  | Q_Idle => match qtodo s with [] => ADone _ | OEnq n :: _ => ACall _ 0%nat n | ODeq :: _ => ACall _ 1%nat 0 end
  | Q_Stuck => ADone _
  | E_LoadTail _ _ => ALoad _ LTail
  | E_Mb _ _ _ => AFence _
  | E_Cas node tail _ => ACas _ (LNext tail) 0 node
  | E_Swing _ tail new _ _ => ACas _ LTail tail new
  | E_Ret => ARet _ 0%nat 0
  | D_LoadHead => ALoad _ LHead
  | D_LoadNext h | D_LoadNext2 h => ALoad _ (LNext h)
  | D_CasHead h nx => ACas _ LHead h nx
  | D_Free h => ACall _ 9%nat h
  | D_Ret r => ARet _ 1%nat r
  end.

Definition qnext (s : qst) (r : N) : qst :=
  let go p := {| qcur := p; qtodo := qtodo s; qsup := qsup s |} in
  match qcur s with
  | Q_Idle => match qtodo s with
              | [] => s
              | OEnq n :: rest => {| qcur := E_LoadTail n 0; qtodo := rest; qsup := qsup s |}
              | ODeq :: rest => {| qcur := D_LoadHead; qtodo := rest; qsup := qsup s |}
              end
  | Q_Stuck => s
  | E_LoadTail node c => go (E_Mb node r c)
  | E_Mb node tail c => go (E_Cas node tail c)
  | E_Cas node tail c => if r =? 0 then go (E_Swing node tail node true c) else go (E_Swing node tail r false c)
  | E_Swing node _ _ done c => if done then (if c =? 0 then go E_Ret else go (D_LoadNext2 c)) else go (E_LoadTail node c)
  | E_Ret => go Q_Idle
  | D_LoadHead => go (D_LoadNext r)
  | D_LoadNext h =>
      if isD h && (r =? 0) then go (D_Ret 0)
      else if r =? 0 then match qsup s with
                          | d :: sup => {| qcur := E_LoadTail d h; qtodo := qtodo s; qsup := sup |}
                          | [] => go Q_Stuck
                          end
      else go (D_CasHead h r)
  | D_LoadNext2 h => go (D_CasHead h r)
  | D_CasHead h _ => if r =? h then (if isD h then go (D_Free h) else go (D_Ret h)) else go D_LoadHead
  | D_Free _ => go D_LoadHead
  | D_Ret _ => go Q_Idle
  end.
Definition qprog : prog qloc := {| pst := qst; pact := qact; pnext := qnext; ppost := fun _ _ => [] |}.
End CFG.

Definition run_q (isD : N -> bool) (m0 : mem qloc) (threads : nat -> list qop * list N) (cs : list choice) :=
  snd (run qloc qloc_eqb (qprog isD) cs
        {| smem := m0; sthr := fun t => {| tpc := ({| qcur := Q_Idle; qtodo := fst (threads t); qsup := snd (threads t) |} : pst qloc (qprog isD)); tbuf := [] |} |}).
