(* scratch: initial states satisfy the invariant and the simulation; end-to-end statement *)
From Coq Require Import List Arith NArith Bool Lia.
Import ListNotations.
Require Import Urcu.Base.MachD Urcu.LfqLegacy.Lfq Urcu.LfqLegacy.LfqInv Urcu.Base.Lin Urcu.LfqLegacy.LfqLin.
Local Open Scope N_scope.

Section INIT.
Variable isD : N -> bool.
Variable d0 : N.
Hypothesis Hd0 : d0 <> 0.
Variable threads : nat -> list qop * list N.
Definition futl (t : nat) : list N := enqs (fst (threads t)) ++ snd (threads t).
Hypothesis Hfresh : forall t n, In n (futl t) -> n <> 0 /\ n <> d0.
Hypothesis Hdisj : forall t u n, In n (futl t) -> In n (futl u) -> t = u.
Hypothesis Hnodup : forall t, NoDup (futl t).
Hypothesis Huser : forall t n, In n (enqs (fst (threads t))) -> isD n = false.
Hypothesis Hsup : forall t d, In d (snd (threads t)) -> isD d = true.
Hypothesis Hd0D : isD d0 = true.

Definition m0 : mem qloc := fun l => match l with LHead | LTail => d0 | LNext _ => 0 end.
Definition s0 : state qloc (qprog isD) :=
  {| smem := m0; sthr := fun t => {| tpc := ({| qcur := Q_Idle; qtodo := fst (threads t); qsup := snd (threads t) |} : pst qloc (qprog isD)); tbuf := [] |} |}.
Definition a0 : Lin.ast qop N (list N) := {| sig := []; pm := fun _ => Idle _ _ |}.

Lemma Ins0 x : LfqInv.Ins isD d0 s0 x -> x = d0.
Proof. intros H. apply (reachf_zero (LfqInv.nx isD s0) d0 x); [reflexivity|exact H]. Qed.

Lemma Inv_s0 : LfqInv.Inv isD d0 s0.
Proof.
  constructor.
  - intros t. reflexivity.
  - exists d0. split; [apply r_refl|reflexivity].
  - apply r_refl.
  - apply r_refl.
  - intros t. exact I.
  - intros t n Hn. destruct (Hfresh t n Hn) as [A B]. split; [intros H; apply B; apply Ins0; exact H|split; [exact A|reflexivity]].
  - intros t u n. apply Hdisj.
  - intros t. apply Hnodup.
Qed.

Lemma Sim_s0 : Sim isD s0 a0.
Proof.
  constructor.
  - exists []. split; [apply ch_nil; reflexivity|]. unfold nonD; cbn. rewrite Hd0D. reflexivity.
  - intros t. reflexivity.
  - intros t n. apply Huser.
  - intros t d. apply Hsup.
Qed.

(* any number of threads, any operation lists over fresh nodes, every schedule: the history with its linearisation points is
   accepted by the FIFO automaton; hence (Lin.accepted_implies_hw) the operations in linearisation order are a legal FIFO
   history agreeing with every thread's own view and with real-time order *)
Theorem lfq_linearizable : forall cs, exists a' L,
  Lin.runl qop N (list N) qspec N.eq_dec a0 (trace isD cs s0) = Some (a', L) /\
  Lin.legal qop N (list N) qspec [] L /\
  (forall t, Lin.tops qop N t L = Lin.hcomp qop N t None (trace isD cs s0) ++ Lin.pre qop N (pm _ _ _ a' t)).
Proof.
  intros cs. destruct (lfq_accepted isD d0 Hd0 cs s0 a0 Inv_s0 Sim_s0) as (a' & L & E).
  exists a', L. split; [exact E|]. destruct (Lin.accepted_implies_hw qop N (list N) qspec N.eq_dec [] _ a' L E) as (A & B & _).
  split; assumption.
Qed.
End INIT.
Print Assumptions lfq_linearizable.
