(* scratch: chain invariant of the RCU lock-free queue model, every schedule, any number of threads *)
From Coq Require Import List Arith NArith Bool Lia Permutation.
Import ListNotations.
Require Import Urcu.Base.MachD Urcu.LfqLegacy.Lfq.
Local Open Scope N_scope.

Section FUN.
Definition lnkf (f : N -> N) (a b : N) : Prop := f a = b /\ b <> 0.
Inductive reachf (f : N -> N) (a : N) : N -> Prop :=
| r_refl : reachf f a a
| r_step b c : lnkf f a b -> reachf f b c -> reachf f a c.
Lemma reachf_trans f a b c : reachf f a b -> reachf f b c -> reachf f a c.
Proof. intros H1 H2. induction H1 as [|a a' b Hl H1 IH]; [exact H2|]. eapply r_step; [exact Hl|apply IH; exact H2]. Qed.
Lemma reachf_one f a b : f a = b -> b <> 0 -> reachf f a b.
Proof. intros H1 H2. eapply r_step; [split; [exact H1|exact H2]|apply r_refl]. Qed.
(* links are frozen: a non-null next never changes *)
Lemma reachf_frozen f f' a b : (forall x, f x <> 0 -> f' x = f x) -> reachf f a b -> reachf f' a b.
Proof.
  intros He H. induction H as [|a a' b [Hl Hn] H IH]; [apply r_refl|].
  eapply r_step; [split; [rewrite He; [exact Hl|congruence]|exact Hn]|exact IH].
Qed.
Lemma reachf_zero f a b : f a = 0 -> reachf f a b -> b = a.
Proof. intros Hz H. destruct H as [|a' b [Hl Hn] H]; [reflexivity|congruence]. Qed.
(* the only new link is lst -> node, and node has no successor: nothing else becomes reachable *)
Lemma reachf_app_inv f f' lst node a b :
  (forall x, x <> lst -> f' x = f x) -> f' lst = node -> f' node = 0 -> reachf f' a b -> reachf f a b \/ b = node.
Proof.
  intros He Hl Hn H. induction H as [|a a' b [Hs Hz] H IH]; [left; apply r_refl|].
  destruct (N.eq_dec a lst) as [->|Hne].
  - right. assert (E : a' = node) by congruence. rewrite E in H. apply (reachf_zero f' node b Hn H).
  - destruct IH as [IH|IH]; [left|right; exact IH]. eapply r_step; [split; [rewrite <- (He a Hne); exact Hs|exact Hz]|exact IH].
Qed.
Lemma reachf_linear f a x y : reachf f a x -> reachf f a y -> f y = 0 -> reachf f x y.
Proof.
  intros Hx. induction Hx as [|a a' x [Hl Hn] Hx IH]; intros Hy Hz; [exact Hy|].
  destruct Hy as [|a'' y [Hl2 Hn2] Hy]; [congruence|]. apply IH; [congruence|exact Hz].
Qed.
Lemma zero_unique f a x y : reachf f a x -> reachf f a y -> f x = 0 -> f y = 0 -> x = y.
Proof. intros Hx Hy Zx Zy. symmetry. apply (reachf_zero f x y Zx). apply (reachf_linear f a x y Hx Hy Zy). Qed.
End FUN.

Section INV.
Variable isD : N -> bool.
Variable d0 : N.
Hypothesis Hd0 : d0 <> 0.
Notation P := (qprog isD).
Notation st := (state qloc P).
Definition TH (s : st) (t : nat) : tstate qloc P := sthr _ _ s t.
Definition QS (s : st) (t : nat) : qst := tpc _ _ (TH s t).
Definition nx (s : st) (a : N) : N := smem _ _ s (LNext a).
Definition Ins (s : st) (x : N) : Prop := reachf (nx s) d0 x.

Definition mine (p : qpc) : list N :=
  match p with E_LoadTail n _ | E_Mb n _ _ | E_Cas n _ _ | E_Swing n _ _ false _ => [n] | _ => [] end.
Fixpoint enqs (l : list qop) : list N := match l with [] => [] | OEnq n :: r => n :: enqs r | ODeq :: r => enqs r end.
Definition fut (p : qst) : list N := mine (qcur p) ++ enqs (qtodo p) ++ qsup p.

Definition oIns (s : st) (c : N) : Prop := c = 0 \/ Ins s c.
Definition Loc (s : st) (p : qpc) : Prop :=
  match p with
  | E_LoadTail _ c => oIns s c
  | E_Mb _ tail c | E_Cas _ tail c => Ins s tail /\ oIns s c
  | E_Swing _ tail new done c => Ins s tail /\ Ins s new /\ oIns s c /\ (done = true -> c <> 0 -> nx s c <> 0)
  | D_LoadNext h => Ins s h /\ reachf (nx s) h (smem _ _ s LHead)
  | D_LoadNext2 h => Ins s h /\ nx s h <> 0
  | D_CasHead h nxt => Ins s h /\ nxt <> 0 /\ nx s h = nxt
  | _ => True
  end.

Record Inv (s : st) : Prop := {
  Q_buf : forall t, tbuf _ _ (TH s t) = [];
  Q_last : exists last, Ins s last /\ nx s last = 0;
  Q_head : Ins s (smem _ _ s LHead);
  Q_tail : Ins s (smem _ _ s LTail);
  Q_loc : forall t, Loc s (qcur (QS s t));
  Q_fut : forall t n, In n (fut (QS s t)) -> ~ Ins s n /\ n <> 0 /\ nx s n = 0;
  Q_disj : forall t u n, In n (fut (QS s t)) -> In n (fut (QS s u)) -> t = u;
  Q_nodup : forall t, NoDup (fut (QS s t))
}.

Notation tup := (tupd qloc P).
Definition mkst (m : mem qloc) (th : nat -> tstate qloc P) : st := {| smem := m; sthr := th |}.
Definition mkts (p : qst) : tstate qloc P := {| tpc := (p : pst qloc P); tbuf := [] |}.

Lemma qloc_eqb_spec a b : reflect (a = b) (qloc_eqb a b).
Proof. destruct a as [| |n], b as [| |m]; cbn; try (constructor; congruence). destruct (N.eqb_spec n m); constructor; congruence. Qed.
Lemma upd_s m l v : upd qloc qloc_eqb m l v l = v.
Proof. apply (upd_same qloc qloc_eqb qloc_eqb_spec). Qed.
Lemma upd_o m l v l' : l <> l' -> upd qloc qloc_eqb m l v l' = m l'.
Proof. apply (upd_other qloc qloc_eqb qloc_eqb_spec). Qed.

Lemma Loc_mono (s s' : st) p :
  (forall x, Ins s x -> Ins s' x) -> (forall a, nx s a <> 0 -> nx s' a = nx s a) ->
  reachf (nx s) (smem _ _ s LHead) (smem _ _ s' LHead) -> Loc s p -> Loc s' p.
Proof.
  intros Hi Hf Hhd. assert (Ho : forall c, oIns s c -> oIns s' c) by (intros c [H|H]; [left; exact H|right; apply Hi; exact H]).
  destruct p; cbn [Loc]; try exact (fun x => x).
  - apply Ho.
  - intros [A B]. split; [apply Hi; exact A|apply Ho; exact B].
  - intros [A B]. split; [apply Hi; exact A|apply Ho; exact B].
  - intros (A & B & Cc & D). split; [apply Hi; exact A|split; [apply Hi; exact B|split; [apply Ho; exact Cc|]]].
    intros Hd Hc. rewrite (Hf _ (D Hd Hc)). apply (D Hd Hc).
  - intros [A B]. split; [apply Hi; exact A|]. apply (reachf_frozen (nx s)); [exact Hf|]. eapply reachf_trans; [exact B|exact Hhd].
  - intros [A B]. split; [apply Hi; exact A|rewrite (Hf _ B); exact B].
  - intros (A & B & Cc). split; [apply Hi; exact A|split; [exact B|]]. rewrite Hf; [exact Cc|congruence].
Qed.

(* a step of thread t that leaves every next pointer unchanged (it may move head or tail to an inserted node) *)
Lemma Inv_same_next (s : st) t m' (p' : qst) : Inv s ->
  (forall a, m' (LNext a) = nx s a) -> Ins s (m' LHead) -> Ins s (m' LTail) ->
  reachf (nx s) (smem _ _ s LHead) (m' LHead) ->
  Loc s (qcur p') ->
  (forall n, In n (fut p') -> In n (fut (QS s t))) -> NoDup (fut p') ->
  Inv (mkst m' (tup (sthr _ _ s) t (mkts p'))).
Proof.
  intros HI Hm Hh Ht Hhd Hl Hf Hnd.
  set (s' := mkst m' (tup (sthr _ _ s) t (mkts p'))).
  assert (Enx : forall a, nx s' a = nx s a) by (intros a; apply Hm).
  assert (Ei : forall x, Ins s x -> Ins s' x).
  { intros x H. unfold Ins in *. apply (reachf_frozen (nx s)); [intros y _; apply Enx|exact H]. }
  assert (Ei' : forall x, Ins s' x -> Ins s x).
  { intros x H. unfold Ins in *. apply (reachf_frozen (nx s')); [intros y _; symmetry; apply Enx|exact H]. }
  assert (Eq : forall u, QS s' u = if Nat.eqb u t then p' else QS s u).
  { intros u. unfold QS, TH, s'; cbn. unfold tupd. destruct (Nat.eqb u t); reflexivity. }
  assert (Hsub : forall u n, In n (fut (QS s' u)) -> In n (fut (QS s u))).
  { intros u n. rewrite Eq. destruct (Nat.eqb_spec u t) as [->|_]; [apply Hf|exact (fun x => x)]. }
  constructor.
  - intros u. unfold TH, s'; cbn. unfold tupd. destruct (Nat.eqb u t); [reflexivity|apply (Q_buf s HI u)].
  - destruct (Q_last s HI) as [l [A B]]. exists l. split; [apply Ei; exact A|rewrite Enx; exact B].
  - apply Ei. exact Hh.
  - apply Ei. exact Ht.
  - intros u. rewrite Eq. apply (Loc_mono s s'); [exact Ei|intros a _; apply Enx|exact Hhd|].
    destruct (Nat.eqb u t); [exact Hl|apply (Q_loc s HI u)].
  - intros u n Hn. destruct (Q_fut s HI u n (Hsub u n Hn)) as (A & B & Cc). split; [intros H; apply A; apply Ei'; exact H|split; [exact B|rewrite Enx; exact Cc]].
  - intros u v n Hu Hv. apply (Q_disj s HI u v n (Hsub u n Hu) (Hsub v n Hv)).
  - intros u. rewrite Eq. destruct (Nat.eqb u t); [exact Hnd|apply (Q_nodup s HI u)].
Qed.

(* the successful cmpxchg(&tail->next, NULL, node) *)
Lemma Inv_app (s : st) t m' (p' : qst) lst node : Inv s ->
  Ins s lst -> nx s lst = 0 -> In node (fut (QS s t)) ->
  m' (LNext lst) = node -> (forall a, a <> lst -> m' (LNext a) = nx s a) ->
  m' LHead = smem _ _ s LHead -> m' LTail = smem _ _ s LTail ->
  (forall s', (forall x, Ins s x -> Ins s' x) -> Ins s' node -> (forall a, nx s a <> 0 -> nx s' a = nx s a) -> nx s' lst = node ->
              Loc s' (qcur p')) ->
  (forall n, In n (fut p') -> In n (fut (QS s t)) /\ n <> node) -> NoDup (fut p') ->
  Inv (mkst m' (tup (sthr _ _ s) t (mkts p'))).
Proof.
  intros HI Hli Hlz Hnode Hm1 Hm2 Hmh Hmt Hl Hf Hnd.
  set (s' := mkst m' (tup (sthr _ _ s) t (mkts p'))).
  destruct (Q_fut s HI t node Hnode) as (Hnn & Hn0 & Hnz).
  assert (Hnl : node <> lst) by (intros ->; contradiction).
  assert (Efz : forall a, nx s a <> 0 -> nx s' a = nx s a).
  { intros a Ha. apply Hm2. intros ->. contradiction. }
  assert (Ei : forall x, Ins s x -> Ins s' x) by (intros x H; unfold Ins in *; apply (reachf_frozen (nx s)); [exact Efz|exact H]).
  assert (Enode : Ins s' node) by (unfold Ins; eapply reachf_trans; [apply Ei; exact Hli|apply reachf_one; [exact Hm1|exact Hn0]]).
  assert (Ei' : forall x, Ins s' x -> Ins s x \/ x = node).
  { intros x H. unfold Ins in *. apply (reachf_app_inv (nx s) (nx s') lst node); [intros y Hy; apply Hm2; exact Hy|exact Hm1| |exact H].
    unfold nx at 1; cbn. rewrite (Hm2 node Hnl). exact Hnz. }
  assert (Eq : forall u, QS s' u = if Nat.eqb u t then p' else QS s u).
  { intros u. unfold QS, TH, s'; cbn. unfold tupd. destruct (Nat.eqb u t); reflexivity. }
  assert (Hsub : forall u n, In n (fut (QS s' u)) -> In n (fut (QS s u)) /\ n <> node).
  { intros u n. rewrite Eq. destruct (Nat.eqb_spec u t) as [->|Hne]; [apply Hf|].
    intros H. split; [exact H|]. intros ->. apply Hne. apply (Q_disj s HI u t node H Hnode). }
  constructor.
  - intros u. unfold TH, s'; cbn. unfold tupd. destruct (Nat.eqb u t); [reflexivity|apply (Q_buf s HI u)].
  - exists node. split; [exact Enode|]. unfold nx; cbn. rewrite (Hm2 node Hnl). exact Hnz.
  - unfold s'; cbn. rewrite Hmh. apply Ei. apply (Q_head s HI).
  - unfold s'; cbn. rewrite Hmt. apply Ei. apply (Q_tail s HI).
  - intros u. rewrite Eq. destruct (Nat.eqb u t); [apply Hl; [exact Ei|exact Enode|exact Efz|exact Hm1]|].
    apply (Loc_mono s s'); [exact Ei|exact Efz|unfold s'; cbn; rewrite Hmh; apply r_refl|apply (Q_loc s HI u)].
  - intros u n Hn. destruct (Hsub u n Hn) as [Hn1 Hn2]. destruct (Q_fut s HI u n Hn1) as (A & B & Cc).
    split; [intros H; destruct (Ei' n H) as [H'|H']; [apply A; exact H'|contradiction]|split; [exact B|]].
    unfold nx; cbn. rewrite Hm2; [exact Cc|]. intros ->. contradiction.
  - intros u v n Hu Hv. apply (Q_disj s HI u v n (proj1 (Hsub u n Hu)) (proj1 (Hsub v n Hv))).
  - intros u. rewrite Eq. destruct (Nat.eqb u t); [exact Hnd|apply (Q_nodup s HI u)].
Qed.

Definition eff (m : mem qloc) (a : act qloc) : mem qloc * N :=
  match a with
  | ALoad _ l => (m, m l)
  | ACas _ l e n => ((if N.eqb (m l) e then upd qloc qloc_eqb m l n else m), m l)
  | _ => (m, 0)
  end.
Lemma exec_shape (s : st) t : Inv s ->
  let p := QS s t in
  fst (exec qloc qloc_eqb P (Step t) s) =
    match qact p with
    | ADone _ => s
    | a => let '(m1, r) := eff (smem _ _ s) a in mkst m1 (tup (sthr _ _ s) t (mkts (qnext isD p r)))
    end.
Proof.
  intros HI p. unfold exec, tstep. change (sthr qloc P s t) with (TH s t). change (tpc qloc P (TH s t)) with p.
  rewrite (Q_buf s HI t). cbn [pact pnext ppost qprog buf_lookup drain].
  unfold qact. destruct (qcur p); try (destruct (qtodo p) as [|[]]); cbn [eff fst snd drain]; reflexivity.
Qed.

Lemma NoDup_move {A} (a b : list A) d : NoDup (a ++ d :: b) -> NoDup (d :: a ++ b).
Proof. intros H. apply (Permutation_NoDup (l := a ++ d :: b)); [symmetry; apply Permutation_middle|exact H]. Qed.

Lemma Inv_step (s : st) t : Inv s -> Inv (fst (exec qloc qloc_eqb P (Step t) s)).
Proof.
  intros HI. rewrite (exec_shape s t HI). cbv zeta.
  pose proof (Q_loc s HI t) as Hl. pose proof (Q_nodup s HI t) as Hnd. pose proof (Q_fut s HI t) as Hfu.
  set (p := QS s t) in *.
  assert (Hsame : forall p', Loc s (qcur p') -> (forall n, In n (fut p') -> In n (fut p)) -> NoDup (fut p') ->
                   Inv (mkst (smem _ _ s) (tup (sthr _ _ s) t (mkts p')))).
  { intros p' A B Cc. apply (Inv_same_next s t); try assumption; [intros a; reflexivity|apply (Q_head s HI)|apply (Q_tail s HI)|apply r_refl]. }
  unfold qact, qnext. unfold fut in Hnd, Hfu, Hsame. destruct (qcur p) eqn:Ep; cbn [eff fst snd].
  - (* Idle *)
    destruct (qtodo p) as [|[n|] rest] eqn:Et; [exact HI| |]; cbn [eff]; apply Hsame; cbn [qcur qtodo qsup mine enqs Loc app]; try exact I;
      try (left; reflexivity); try (intros n0 H; exact H); try exact Hnd.
  - exact HI.
  - (* E_LoadTail *)
    apply Hsame; cbn [qcur qtodo qsup mine Loc]; [split; [apply (Q_tail s HI)|exact Hl]|intros n H; exact H|exact Hnd].
  - (* E_Mb *)
    apply Hsame; cbn [qcur qtodo qsup mine Loc]; [exact Hl|intros n H; exact H|exact Hnd].
  - (* E_Cas *)
    destruct Hl as [Htl Hc]. change (smem qloc P s (LNext tail)) with (nx s tail).
    destruct (N.eqb_spec (nx s tail) 0) as [Ez|Enz].
    + apply (Inv_app s t _ _ tail node HI Htl Ez).
      * change (QS s t) with p. unfold fut. rewrite Ep. left. reflexivity.
      * apply upd_s.
      * intros a Ha. apply upd_o. congruence.
      * apply upd_o. discriminate.
      * apply upd_o. discriminate.
      * intros s' Hi Hn Hf Hlst. cbn [qcur Loc]. split; [apply Hi; exact Htl|split; [exact Hn|split; [destruct Hc as [H|H]; [left; exact H|right; apply Hi; exact H]|]]].
        intros _ Hc0. destruct Hc as [H|H]; [contradiction|].
        destruct (N.eq_dec c tail) as [->|Hct]; [rewrite Hlst; apply (proj1 (proj2 (Hfu node (or_introl eq_refl))))|].
        assert (Hcz : nx s c <> 0) by (intros Hz; apply Hct; apply (zero_unique (nx s) d0 c tail H Htl Hz Ez)).
        rewrite (Hf c Hcz). exact Hcz.
      * unfold fut. cbn [qcur qtodo qsup mine app]. intros n Hn. split; [change (QS s t) with p; unfold fut; rewrite Ep; right; exact Hn|].
        intros ->. cbn [mine app] in Hnd. inversion Hnd; contradiction.
      * unfold fut. cbn [qcur qtodo qsup mine app]. cbn [mine app] in Hnd. inversion Hnd; assumption.
    + apply Hsame; cbn [qcur qtodo qsup mine Loc]; [|intros n H; exact H|exact Hnd].
      split; [exact Htl|split; [|split; [exact Hc|discriminate]]].
      unfold Ins. eapply reachf_trans; [exact Htl|apply reachf_one; [reflexivity|exact Enz]].
  - (* E_Swing *)
    destruct Hl as (Htl & Hnw & Hc & Hd).
    assert (Hgen : forall m', (forall a, m' (LNext a) = nx s a) -> Ins s (m' LHead) -> Ins s (m' LTail) ->
              reachf (nx s) (smem _ _ s LHead) (m' LHead) ->
              Inv (mkst m' (tup (sthr _ _ s) t (mkts (if done then if c =? 0 then {| qcur := E_Ret; qtodo := qtodo p; qsup := qsup p |}
                                                                       else {| qcur := D_LoadNext2 c; qtodo := qtodo p; qsup := qsup p |}
                                                        else {| qcur := E_LoadTail node c; qtodo := qtodo p; qsup := qsup p |}))))).
    { intros m' A B Cc Dd. apply (Inv_same_next s t); try assumption; change (QS s t) with p; unfold fut; rewrite ?Ep; destruct done; cbn [mine app].
      - destruct (N.eqb_spec c 0) as [E|E]; cbn [qcur Loc]; [exact I|]. destruct Hc as [H|H]; [contradiction|]. split; [exact H|apply Hd; [reflexivity|exact E]].
      - cbn [qcur Loc]. exact Hc.
      - destruct (c =? 0); cbn [qcur qtodo qsup mine app]; intros n H; exact H.
      - cbn [qcur qtodo qsup mine app]. intros n H; exact H.
      - destruct (c =? 0); cbn [qcur qtodo qsup mine app]; exact Hnd.
      - cbn [qcur qtodo qsup mine app]. exact Hnd. }
    destruct (N.eqb_spec (smem qloc P s LTail) tail) as [E|E].
    + apply Hgen; [intros a; apply upd_o; discriminate|rewrite upd_o by discriminate; apply (Q_head s HI)|rewrite upd_s; exact Hnw|rewrite upd_o by discriminate; apply r_refl].
    + apply Hgen; [intros a; reflexivity|apply (Q_head s HI)|apply (Q_tail s HI)|apply r_refl].
  - (* E_Ret *) apply Hsame; cbn [qcur qtodo qsup mine Loc app]; [exact I|intros n H; exact H|exact Hnd].
  - (* D_LoadHead *) apply Hsame; cbn [qcur qtodo qsup mine Loc app]; [split; [apply (Q_head s HI)|apply r_refl]|intros n H; exact H|exact Hnd].
  - (* D_LoadNext *)
    change (smem qloc P s (LNext head)) with (nx s head).
    destruct (isD head && (nx s head =? 0)) eqn:E1; [apply Hsame; cbn [qcur qtodo qsup mine Loc app]; [exact I|intros n H; exact H|exact Hnd]|].
    destruct (N.eqb_spec (nx s head) 0) as [Ez|Enz].
    + destruct (qsup p) as [|d sup] eqn:Es.
      * apply Hsame; cbn [qcur qtodo qsup mine Loc app]; [exact I|intros n H; exact H|exact Hnd].
      * apply Hsame; cbn [qcur qtodo qsup mine Loc app].
        -- right. exact (proj1 Hl).
        -- intros n [->|H]; [apply in_or_app; right; left; reflexivity|]. apply in_app_or in H. destruct H as [H|H]; apply in_or_app; [left; exact H|right; right; exact H].
        -- cbn [mine app] in Hnd. apply (NoDup_move (enqs (qtodo p)) sup d Hnd).
    + apply Hsame; cbn [qcur qtodo qsup mine Loc app]; [split; [exact (proj1 Hl)|split; [exact Enz|reflexivity]]|intros n H; exact H|exact Hnd].
  - (* D_LoadNext2 *)
    change (smem qloc P s (LNext head)) with (nx s head). destruct Hl as [Hh Hz].
    apply Hsame; cbn [qcur qtodo qsup mine Loc app]; [split; [exact Hh|split; [exact Hz|reflexivity]]|intros n H; exact H|exact Hnd].
  - (* D_CasHead *)
    destruct Hl as (Hh & Hz & Hnx).
    assert (Hin : Ins s next) by (unfold Ins; eapply reachf_trans; [exact Hh|apply reachf_one; [exact Hnx|exact Hz]]).
    assert (Hgen : forall m' pc', (forall a, m' (LNext a) = nx s a) -> Ins s (m' LHead) -> Ins s (m' LTail) ->
              reachf (nx s) (smem _ _ s LHead) (m' LHead) -> Loc s pc' -> mine pc' = [] ->
              Inv (mkst m' (tup (sthr _ _ s) t (mkts {| qcur := pc'; qtodo := qtodo p; qsup := qsup p |})))).
    { intros m' pc' A B Cc Dd D E. apply (Inv_same_next s t); try assumption; change (QS s t) with p; unfold fut; rewrite ?Ep; cbn [qcur qtodo qsup mine app]; rewrite ?E; [intros n H; exact H|exact Hnd]. }
    destruct (N.eqb_spec (smem qloc P s LHead) head) as [E|E].
    + assert (Hfw : reachf (nx s) (smem qloc P s LHead) next) by (rewrite E; apply reachf_one; [exact Hnx|exact Hz]).
      destruct (isD head); apply Hgen; try (intros a; apply upd_o; discriminate); try (rewrite upd_s; exact Hin);
        try (rewrite upd_o by discriminate; apply (Q_tail s HI)); try exact I; try reflexivity; rewrite upd_s; exact Hfw.
    + apply Hgen; [intros a; reflexivity|apply (Q_head s HI)|apply (Q_tail s HI)|apply r_refl|exact I|reflexivity].
  - (* D_Free *) apply Hsame; cbn [qcur qtodo qsup mine Loc app]; [exact I|intros n H; exact H|exact Hnd].
  - (* D_Ret *) apply Hsame; cbn [qcur qtodo qsup mine Loc app]; [exact I|intros n H; exact H|exact Hnd].
Qed.

Lemma Inv_exec (s : st) c : Inv s -> Inv (fst (exec qloc qloc_eqb P c s)).
Proof.
  intros HI. destruct c as [t|t]; [apply Inv_step; exact HI|].
  unfold exec. change (sthr qloc P s t) with (TH s t). rewrite (Q_buf s HI t). exact HI.
Qed.

Theorem lfq_chain_all_schedules : forall cs s, Inv s -> Inv (fst (run qloc qloc_eqb P cs s)).
Proof.
  intros cs. induction cs as [|c cs IH]; intros s HI; cbn [run]; [exact HI|].
  pose proof (Inv_exec s c HI) as H1. destruct (exec qloc qloc_eqb P c s) as [s1 e]. cbn [fst] in H1.
  specialize (IH s1 H1). destruct (run qloc qloc_eqb P cs s1) as [s2 es]. exact IH.
Qed.
End INV.
Print Assumptions lfq_chain_all_schedules.
