(* scratch: the RCU lock-free queue model is linearizable w.r.t. the FIFO specification (every schedule) *)
From Coq Require Import List Arith NArith Bool Lia.
Import ListNotations.
Require Import Urcu.Base.MachD Urcu.LfqLegacy.Lfq Urcu.LfqLegacy.LfqInv Urcu.Base.Lin.
Local Open Scope N_scope.

Definition qspec (q : list N) (o : qop) : list N * N :=
  match o with OEnq n => (q ++ [n], 0) | ODeq => match q with [] => ([], 0) | x :: q' => (q', x) end end.

Inductive chainf (f : N -> N) : N -> list N -> Prop :=
| ch_nil a : f a = 0 -> chainf f a []
| ch_cons a b l : f a = b -> b <> 0 -> chainf f b l -> chainf f a (b :: l).
Fixpoint cend (a : N) (l : list N) : N := match l with [] => a | b :: l' => cend b l' end.
Lemma chain_end f a l : chainf f a l -> f (cend a l) = 0 /\ reachf f a (cend a l).
Proof.
  intros H. induction H as [a Hz|a b l Hb Hn H [IH1 IH2]]; cbn [cend]; [split; [exact Hz|apply r_refl]|].
  split; [exact IH1|]. eapply r_step; [split; [exact Hb|exact Hn]|exact IH2].
Qed.
Lemma chain_app f f' lst node a l : chainf f a l -> cend a l = lst ->
  (forall x, x <> lst -> f' x = f x) -> f' lst = node -> node <> 0 -> f' node = 0 -> f lst = 0 -> chainf f' a (l ++ [node]).
Proof.
  intros H. induction H as [a Hz|a b l Hb Hn H IH]; cbn [cend app]; intros He Hf Hl Hn0 Hnz Hlz.
  - subst a. apply (ch_cons f' lst node []); [exact Hl|exact Hn0|apply ch_nil; exact Hnz].
  - apply (ch_cons f' a b); [|exact Hn|apply IH; assumption]. rewrite Hf; [exact Hb|]. intros ->. congruence.
Qed.
Lemma chain_ext f f' a l : (forall x, f' x = f x) -> chainf f a l -> chainf f' a l.
Proof. intros He H. induction H as [a Hz|a b l Hb Hn H IH]; [apply ch_nil; rewrite He; exact Hz|apply (ch_cons f' a b); [rewrite He; exact Hb|exact Hn|exact IH]]. Qed.

Section SIM.
Variable isD : N -> bool.
Variable d0 : N.
Hypothesis Hd0 : d0 <> 0.
Notation P := (qprog isD).
Notation st := (state qloc P).
Notation QInv := (LfqInv.Inv isD d0).
Notation nx := (LfqInv.nx isD).
Notation QS := (LfqInv.QS isD).
Notation Ins := (LfqInv.Ins isD d0).
Notation ast := (Lin.ast qop N (list N)).
Notation runl := (Lin.runl qop N (list N) qspec N.eq_dec).
Notation ev := (Lin.ev qop N).
Notation pend := (Lin.pend qop N).

Definition nonD (l : list N) : list N := filter (fun x => negb (isD x)) l.
Definition AbsQ (s : st) (q : list N) : Prop :=
  exists l, chainf (nx s) (smem _ _ s LHead) l /\ q = nonD (smem _ _ s LHead :: l).

Definition enq_pend (n c : N) (x : pend) : Prop :=
  if c =? 0 then x = Called _ _ (OEnq n) /\ isD n = false else x = Called _ _ ODeq /\ isD n = true.
Definition PR (p : qpc) (x : pend) : Prop :=
  match p with
  | Q_Idle => x = Idle _ _
  | Q_Stuck => x = Called _ _ ODeq
  | E_LoadTail n c | E_Mb n _ c | E_Cas n _ c | E_Swing n _ _ false c => enq_pend n c x
  | E_Swing n _ _ true c => if c =? 0 then x = Done _ _ (OEnq n) 0 else x = Called _ _ ODeq
  | E_Ret => exists n, x = Done _ _ (OEnq n) 0
  | D_LoadHead | D_LoadNext _ | D_LoadNext2 _ | D_CasHead _ _ | D_Free _ => x = Called _ _ ODeq
  | D_Ret r => x = Done _ _ ODeq r
  end.
Record Sim (s : st) (a : ast) : Prop := {
  S_q : AbsQ s (sig _ _ _ a);
  S_pr : forall t, PR (qcur (QS s t)) (pm _ _ _ a t);
  S_user : forall t n, In n (enqs (qtodo (QS s t))) -> isD n = false;
  S_sup : forall t d, In d (qsup (QS s t)) -> isD d = true
}.

(* the history events and linearisation points of one scheduler choice, as a function of the current state *)
Definition evs_of (s : st) (c : choice) : list ev :=
  match c with
  | Flush _ => []
  | Step t =>
      let p := QS s t in
      match qcur p with
      | Q_Idle => match qtodo p with OEnq n :: _ => [Lin.Inv _ _ t (OEnq n)] | ODeq :: _ => [Lin.Inv _ _ t ODeq] | [] => [] end
      | E_Cas _ tail c => if (c =? 0) && (nx s tail =? 0) then [Lin _ _ t] else []
      | D_CasHead h _ => if (smem _ _ s LHead =? h) && negb (isD h) then [Lin _ _ t] else []
      | D_LoadNext h => if isD h && (nx s h =? 0) then [Lin _ _ t] else []
      | E_Ret => [Res _ _ t 0]
      | D_Ret r => [Res _ _ t r]
      | _ => []
      end
  end.
Fixpoint trace (cs : list choice) (s : st) : list ev :=
  match cs with [] => [] | c :: cs' => evs_of s c ++ trace cs' (fst (exec qloc qloc_eqb P c s)) end.

Lemma Ins_nz (s : st) x : Ins s x -> x <> 0.
Proof. intros H. unfold LfqInv.Ins in H. destruct H as [|b c [_ Hn] H]. - exact Hd0. - clear -H Hn. induction H as [|a b c [_ Hb] H IH]; [exact Hn|apply IH; exact Hb]. Qed.

Notation tup := (tupd qloc P).
Notation mkst := (LfqInv.mkst isD).
Notation mkts := (LfqInv.mkts isD).
Definition setpm (a : ast) t (x : pend) : ast := Lin.setp _ _ _ a t x.

(* generic re-establishment of Sim after a step of thread t *)
Lemma Sim_upd (s : st) (a a' : ast) t m' (p' : qst) :
  Sim s a -> AbsQ (mkst m' (tup (sthr _ _ s) t (mkts p'))) (sig _ _ _ a') ->
  PR (qcur p') (pm _ _ _ a' t) -> (forall u, u <> t -> pm _ _ _ a' u = pm _ _ _ a u) ->
  (forall n, In n (enqs (qtodo p')) -> isD n = false) -> (forall d, In d (qsup p') -> isD d = true) ->
  Sim (mkst m' (tup (sthr _ _ s) t (mkts p'))) a'.
Proof.
  intros HS Hq Hp Ho Hu Hd.
  assert (Eq : forall u, QS (mkst m' (tup (sthr _ _ s) t (mkts p'))) u = if Nat.eqb u t then p' else QS s u).
  { intros u. unfold LfqInv.QS, LfqInv.TH, LfqInv.mkst; cbn. unfold tupd. destruct (Nat.eqb u t); reflexivity. }
  constructor.
  - exact Hq.
  - intros u. rewrite Eq. destruct (Nat.eqb_spec u t) as [->|Hne]; [exact Hp|rewrite (Ho u Hne); apply (S_pr s a HS u)].
  - intros u n. rewrite Eq. destruct (Nat.eqb u t); [apply Hu|apply (S_user s a HS u n)].
  - intros u d. rewrite Eq. destruct (Nat.eqb u t); [apply Hd|apply (S_sup s a HS u d)].
Qed.

Lemma AbsQ_same (s : st) q m' th : AbsQ s q -> (forall x, m' (LNext x) = nx s x) -> m' LHead = smem _ _ s LHead -> AbsQ (mkst m' th) q.
Proof.
  intros [l [Hc Hq]] Hn Hh. exists l. unfold LfqInv.mkst; cbn [smem]. rewrite Hh. split; [|exact Hq].
  apply (chain_ext (nx s)); [intros x; apply Hn|exact Hc].
Qed.

Lemma nonD_app l1 l2 : nonD (l1 ++ l2) = nonD l1 ++ nonD l2.
Proof. unfold nonD. apply filter_app. Qed.

Ltac same_q HS := apply (AbsQ_same _ _ _ _ (S_q _ _ HS)); [intros x; reflexivity|reflexivity].

Lemma sim_step (s : st) (a : ast) c : QInv s -> Sim s a ->
  exists a' l, runl a (evs_of s c) = Some (a', l) /\ Sim (fst (exec qloc qloc_eqb P c s)) a'.
Proof.
  intros HI HS. destruct c as [t|t].
  2:{ exists a, []. split; [reflexivity|]. unfold exec. change (sthr qloc P s t) with (LfqInv.TH isD s t). rewrite (Q_buf isD d0 s HI t). exact HS. }
  rewrite (LfqInv.exec_shape isD d0 s t HI). cbv zeta. unfold evs_of.
  pose proof (S_pr s a HS t) as Hpr. pose proof (Q_loc isD d0 s HI t) as Hl.
  pose proof (S_user s a HS t) as Hus. pose proof (S_sup s a HS t) as Hsu. pose proof (Q_fut isD d0 s HI t) as Hfu.
  set (p := QS s t) in *.
  (* steps without event that leave head and every next pointer unchanged *)
  assert (Hquiet : forall p', PR (qcur p') (pm _ _ _ a t) -> (forall n, In n (enqs (qtodo p')) -> isD n = false) -> (forall d, In d (qsup p') -> isD d = true) ->
            exists a' l, runl a [] = Some (a', l) /\ Sim (mkst (smem _ _ s) (tup (sthr _ _ s) t (mkts p'))) a').
  { intros p' A B Cc. exists a, []. split; [reflexivity|]. apply (Sim_upd s a a t); try assumption; [same_q HS|intros u _; reflexivity]. }
  unfold qact, qnext, LfqInv.fut in *. destruct (qcur p) eqn:Ep; cbn [LfqInv.eff fst snd PR] in *.
  - (* Idle *)
    destruct (qtodo p) as [|[n|] rest] eqn:Et; cbn [LfqInv.eff].
    + exists a, []. split; [reflexivity|exact HS].
    + exists (setpm a t (Called _ _ (OEnq n))), []. split; [cbn [Lin.runl]; rewrite Hpr; reflexivity|].
      apply (Sim_upd s a _ t); cbn [qcur qtodo qsup]; try assumption; [same_q HS| | |].
      * cbn [PR setpm Lin.setp pm]. rewrite Lin.upd_same. unfold enq_pend; cbn. split; [reflexivity|apply Hus; left; reflexivity].
      * intros u Hu. cbn [setpm Lin.setp pm]. apply Lin.upd_other. exact Hu.
      * intros m Hm. apply Hus. right. exact Hm.
    + exists (setpm a t (Called _ _ ODeq)), []. split; [cbn [Lin.runl]; rewrite Hpr; reflexivity|].
      apply (Sim_upd s a _ t); cbn [qcur qtodo qsup]; try assumption; [same_q HS| |].
      * cbn [PR setpm Lin.setp pm]. rewrite Lin.upd_same. reflexivity.
      * intros u Hu. cbn [setpm Lin.setp pm]. apply Lin.upd_other. exact Hu.
  - exists a, []. split; [reflexivity|exact HS].
  - (* E_LoadTail *) apply Hquiet; cbn [qcur qtodo qsup PR]; assumption.
  - (* E_Mb *) apply Hquiet; cbn [qcur qtodo qsup PR]; assumption.
  - (* E_Cas *)
    destruct Hl as [Htl Hc]. change (smem qloc P s (LNext tail)) with (nx s tail).
    destruct (N.eqb_spec (nx s tail) 0) as [Ez|Enz].
    + (* appended *)
      destruct (Hfu node (or_introl eq_refl)) as (Hnn & Hn0 & Hnz).
      assert (Hnt : node <> tail) by (intros ->; contradiction).
      destruct (S_q s a HS) as [l [Hch Hq]].
      assert (Hend : cend (smem _ _ s LHead) l = tail).
      { destruct (chain_end _ _ _ Hch) as [E1 E2].
        apply (zero_unique (nx s) d0); [|exact Htl|exact E1|exact Ez].
        unfold LfqInv.Ins. eapply reachf_trans; [apply (Q_head isD d0 s HI)|exact E2]. }
      assert (Hch' : forall th, chainf (nx (mkst (MachD.upd qloc qloc_eqb (smem _ _ s) (LNext tail) node) th)) (smem _ _ s LHead) (l ++ [node])).
      { intros th. apply (chain_app (nx s) _ tail node _ _ Hch Hend).
        - intros x Hx. unfold LfqInv.nx, LfqInv.mkst; cbn [smem]. apply upd_o. congruence.
        - unfold LfqInv.nx, LfqInv.mkst; cbn [smem]. apply upd_s.
        - exact Hn0.
        - unfold LfqInv.nx, LfqInv.mkst; cbn [smem]. rewrite upd_o by congruence. exact Hnz.
        - exact Ez. }
      unfold enq_pend in Hpr. destruct (N.eqb_spec c 0) as [Ec|Ec]; cbn [andb].
      * destruct Hpr as [Hpm HnD].
        exists {| sig := sig _ _ _ a ++ [node]; pm := Lin.upd _ _ (pm _ _ _ a) t (Done _ _ (OEnq node) 0) |}, [(t, OEnq node, 0)].
        split; [cbn [Lin.runl]; rewrite Hpm; reflexivity|].
        apply (Sim_upd s a _ t); cbn [qcur qtodo qsup sig pm]; try assumption.
        -- exists (l ++ [node]). unfold LfqInv.mkst at 2 3; cbn [smem]. rewrite !upd_o by discriminate. split; [apply Hch'|].
           rewrite Hq. change (smem qloc P s LHead :: l ++ [node]) with ((smem qloc P s LHead :: l) ++ [node]). rewrite nonD_app.
           f_equal. unfold nonD; cbn [filter]. rewrite HnD. reflexivity.
        -- cbn [PR]. rewrite Lin.upd_same. subst c. reflexivity.
        -- intros u Hu. apply Lin.upd_other. exact Hu.
      * destruct Hpr as [Hpm HnD]. exists a, []. split; [reflexivity|].
        apply (Sim_upd s a a t); cbn [qcur qtodo qsup]; try assumption; [| |intros u _; reflexivity].
        -- exists (l ++ [node]). unfold LfqInv.mkst at 2 3; cbn [smem]. rewrite !upd_o by discriminate. split; [apply Hch'|].
           rewrite Hq. change (smem qloc P s LHead :: l ++ [node]) with ((smem qloc P s LHead :: l) ++ [node]). rewrite nonD_app.
           unfold nonD at 3; cbn [filter]. rewrite HnD. cbn. rewrite app_nil_r. reflexivity.
        -- cbn [PR]. destruct (N.eqb_spec c 0); [contradiction|exact Hpm].
    + rewrite andb_false_r. apply Hquiet; cbn [qcur qtodo qsup PR]; assumption.
  - (* E_Swing *)
    assert (Hgen : forall m', (forall x, m' (LNext x) = nx s x) -> m' LHead = smem _ _ s LHead ->
              exists a' l, runl a [] = Some (a', l) /\
                Sim (mkst m' (tup (sthr _ _ s) t (mkts (if done then if c =? 0 then {| qcur := E_Ret; qtodo := qtodo p; qsup := qsup p |}
                                                                       else {| qcur := D_LoadNext2 c; qtodo := qtodo p; qsup := qsup p |}
                                                        else {| qcur := E_LoadTail node c; qtodo := qtodo p; qsup := qsup p |})))) a').
    { intros m' A B. exists a, []. split; [reflexivity|]. apply (Sim_upd s a a t); try assumption.
      - apply (AbsQ_same _ _ _ _ (S_q _ _ HS)); assumption.
      - destruct done; [destruct (N.eqb_spec c 0) as [E|E]; cbn [qcur PR]; [exists node; exact Hpr|exact Hpr]|cbn [qcur PR]; exact Hpr].
      - intros u _; reflexivity.
      - destruct done; [destruct (c =? 0)|]; cbn [qtodo]; exact Hus.
      - destruct done; [destruct (c =? 0)|]; cbn [qsup]; exact Hsu. }
    destruct (smem qloc P s LTail =? tail); apply Hgen; try (intros x; reflexivity); try reflexivity; try (intros x; apply upd_o; discriminate); try (apply upd_o; discriminate).
  - (* E_Ret *)
    destruct Hpr as [n Hpm]. exists (setpm a t (Idle _ _)), []. split; [cbn [Lin.runl]; rewrite Hpm; destruct (N.eq_dec 0 0); [reflexivity|contradiction]|].
    apply (Sim_upd s a _ t); cbn [qcur qtodo qsup]; try assumption; [same_q HS| |].
    + cbn [PR setpm Lin.setp pm]. apply Lin.upd_same.
    + intros u Hu. cbn [setpm Lin.setp pm]. apply Lin.upd_other. exact Hu.
  - (* D_LoadHead *) apply Hquiet; cbn [qcur qtodo qsup PR]; assumption.
  - (* D_LoadNext *)
    destruct Hl as [Hh Hfw]. change (smem qloc P s (LNext head)) with (nx s head).
    destruct (isD head && (nx s head =? 0)) eqn:E1.
    + apply andb_prop in E1. destruct E1 as [Ed Ez]. apply N.eqb_eq in Ez.
      destruct (S_q s a HS) as [l [Hch Hq]].
      assert (Eh : smem _ _ s LHead = head) by (apply (reachf_zero (nx s) head _ Ez Hfw)).
      rewrite Eh in Hch, Hq. assert (El : l = []) by (inversion Hch; [reflexivity|congruence]). subst l.
      assert (Eq0 : sig _ _ _ a = []) by (rewrite Hq; unfold nonD; cbn [filter]; rewrite Ed; reflexivity).
      exists {| sig := []; pm := Lin.upd _ _ (pm _ _ _ a) t (Done _ _ ODeq 0) |}, [(t, ODeq, 0)].
      split; [cbn [Lin.runl]; rewrite Hpr, Eq0; reflexivity|].
      apply (Sim_upd s a _ t); cbn [qcur qtodo qsup sig pm]; try assumption.
      * rewrite <- Eq0. same_q HS.
      * cbn [PR]. apply Lin.upd_same.
      * intros u Hu. apply Lin.upd_other. exact Hu.
    + destruct (N.eqb_spec (nx s head) 0) as [Ez|Enz].
      * destruct (qsup p) as [|d sup] eqn:Es; apply Hquiet; cbn [qcur qtodo qsup PR]; try assumption.
        -- unfold enq_pend. destruct (N.eqb_spec head 0) as [E|E]; [exfalso; apply (Ins_nz s head Hh E)|]. split; [exact Hpr|apply Hsu; left; reflexivity].
        -- intros d' Hd'. apply Hsu. right. exact Hd'.
      * apply Hquiet; cbn [qcur qtodo qsup PR]; assumption.
  - (* D_LoadNext2 *) apply Hquiet; cbn [qcur qtodo qsup PR]; assumption.
  - (* D_CasHead *)
    destruct Hl as (Hh & Hz & Hnx).
    destruct (N.eqb_spec (smem qloc P s LHead) head) as [E|E]; cbn [andb].
    + destruct (S_q s a HS) as [l [Hch Hq]]. rewrite E in Hch, Hq.
      assert (Hl' : exists l', l = next :: l' /\ chainf (nx s) next l').
      { inversion Hch as [a0 Hz0|a0 b l' Hb Hbn Hc']; [congruence|]. exists l'. subst. split; [reflexivity|exact Hc']. }
      destruct Hl' as [l' [-> Hc']].
      assert (HQ' : forall th q', q' = nonD (next :: l') -> AbsQ (mkst (MachD.upd qloc qloc_eqb (smem _ _ s) LHead next) th) q').
      { intros th q' ->. exists l'. unfold LfqInv.mkst; cbn [smem]. rewrite upd_s. split; [|reflexivity].
        apply (chain_ext (nx s)); [intros x; unfold LfqInv.nx; cbn [smem]; apply upd_o; discriminate|exact Hc']. }
      destruct (isD head) eqn:Ed; cbn [negb].
      * exists a, []. split; [reflexivity|]. apply (Sim_upd s a a t); cbn [qcur qtodo qsup PR]; try assumption; [|intros u _; reflexivity].
        apply HQ'. rewrite Hq. unfold nonD at 1. cbn [filter]. rewrite Ed. reflexivity.
      * exists {| sig := nonD (next :: l'); pm := Lin.upd _ _ (pm _ _ _ a) t (Done _ _ ODeq head) |}, [(t, ODeq, head)].
        split; [cbn [Lin.runl]; rewrite Hpr, Hq; unfold nonD at 1; cbn [filter]; rewrite Ed; reflexivity|].
        apply (Sim_upd s a _ t); cbn [qcur qtodo qsup PR sig pm]; try assumption; [apply HQ'; reflexivity|apply Lin.upd_same|intros u Hu; apply Lin.upd_other; exact Hu].
    + apply Hquiet; cbn [qcur qtodo qsup PR]; assumption.
  - (* D_Free *) apply Hquiet; cbn [qcur qtodo qsup PR]; assumption.
  - (* D_Ret *)
    exists (setpm a t (Idle _ _)), []. split; [cbn [Lin.runl]; rewrite Hpr; destruct (N.eq_dec r r); [reflexivity|contradiction]|].
    apply (Sim_upd s a _ t); cbn [qcur qtodo qsup]; try assumption; [same_q HS| |].
    + cbn [PR setpm Lin.setp pm]. apply Lin.upd_same.
    + intros u Hu. cbn [setpm Lin.setp pm]. apply Lin.upd_other. exact Hu.
Qed.

(* every schedule: the history together with the linearisation points is accepted by the FIFO automaton *)
Theorem lfq_accepted : forall cs s a, QInv s -> Sim s a -> exists a' l, runl a (trace cs s) = Some (a', l).
Proof.
  intros cs. induction cs as [|c cs IH]; intros s a HI HS; cbn [trace].
  - exists a, []. reflexivity.
  - destruct (sim_step s a c HI HS) as (a1 & l1 & E1 & HS1).
    pose proof (LfqInv.Inv_exec isD d0 s c HI) as HI1.
    destruct (IH _ a1 HI1 HS1) as (a2 & l2 & E2). exists a2, (l1 ++ l2).
    eapply Lin.runl_app_some; eassumption.
Qed.
End SIM.
Print Assumptions lfq_accepted.
