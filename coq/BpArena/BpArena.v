(* scratch: the urcu-bp reader registry arena.  Chunks are only ever appended or grown in place, so a slot (chunk index, slot index)
   is a stable name; arena_alloc is first-fit over the chunk list with at most one expansion; mremap's outcome is an oracle. *)
From Coq Require Import List Arith Bool Lia.
Import ListNotations.

Definition chunk := list bool.                 (* alloc bit of each reader slot; capacity = length *)
Definition arena := list chunk.
Section ARENA.
Variable INIT : nat.
Hypothesis Hinit : 0 < INIT.

Fixpoint first_free (c : chunk) : option nat :=
  match c with [] => None | false :: _ => Some 0 | true :: c' => option_map S (first_free c') end.
Fixpoint set_nth (c : chunk) (j : nat) : chunk := match c, j with [], _ => [] | _ :: c', 0 => true :: c' | b :: c', S j' => b :: set_nth c' j' end.
Fixpoint clr_nth (c : chunk) (j : nat) : chunk := match c, j with [], _ => [] | _ :: c', 0 => false :: c' | b :: c', S j' => b :: clr_nth c' j' end.
(* first chunk that has a free slot *)
Fixpoint find (a : arena) (i : nat) : option (nat * nat) :=
  match a with [] => None | c :: a' => match first_free c with Some j => Some (i, j) | None => find a' (S i) end end.
Fixpoint upd_chunk (a : arena) (i : nat) (f : chunk -> chunk) : arena :=
  match a, i with [], _ => [] | c :: a', 0 => f c :: a' | c :: a', S i' => c :: upd_chunk a' i' f end.
Definition expand (a : arena) (mremap_ok : bool) : arena :=
  match rev a with
  | [] => [repeat false INIT]
  | lastc :: front => if mremap_ok then rev front ++ [lastc ++ repeat false (length lastc)]
                      else a ++ [repeat false (2 * length lastc)]
  end.
Definition alloc (a : arena) (mremap_ok : bool) : arena * option (nat * nat) :=
  match find a 0 with
  | Some (i, j) => (upd_chunk a i (fun c => set_nth c j), Some (i, j))
  | None => let a' := expand a mremap_ok in
            match find a' 0 with Some (i, j) => (upd_chunk a' i (fun c => set_nth c j), Some (i, j)) | None => (a', None) end
  end.
Definition get (a : arena) (i j : nat) : bool := nth j (nth i a []) false.
Definition free (a : arena) (i j : nat) : arena := upd_chunk a i (fun c => clr_nth c j).
Definition wf (a : arena) : Prop := forall c, In c a -> c <> [].

Lemma first_free_spec c j : first_free c = Some j -> nth j c true = false /\ j < length c /\ forall k, k < j -> nth k c false = true.
Proof.
  revert j. induction c as [|b c IH]; intros j H; cbn in H; [discriminate|]. destruct b.
  - destruct (first_free c) as [j'|] eqn:E; [|discriminate]. inversion H; subst. destruct (IH j' eq_refl) as (A & B & Cc).
    split; [exact A|split; [cbn; lia|]]. intros k Hk. destruct k; [reflexivity|cbn; apply Cc; lia].
  - inversion H; subst. split; [reflexivity|split; [cbn; lia|intros k Hk; lia]].
Qed.
Lemma first_free_none c : first_free c = None -> forall k, k < length c -> nth k c false = true.
Proof.
  induction c as [|b c IH]; intros H k Hk; [cbn in Hk; lia|]. cbn in H. destruct b; [|discriminate].
  destruct (first_free c) eqn:E; [discriminate|]. destruct k; [reflexivity|cbn; apply IH; [reflexivity|cbn in Hk; lia]].
Qed.
Lemma find_spec a : forall i0 i j, find a i0 = Some (i, j) -> i0 <= i /\ i - i0 < length a /\
  first_free (nth (i - i0) a []) = Some j /\ forall k, k < i - i0 -> first_free (nth k a []) = None.
Proof.
  induction a as [|c a IH]; intros i0 i j H; cbn in H; [discriminate|].
  destruct (first_free c) as [j'|] eqn:E.
  - inversion H; subst. rewrite Nat.sub_diag. cbn. repeat split; try lia. exact E.
  - destruct (IH _ _ _ H) as (A & B & Cc & D). replace (i - i0) with (S (i - S i0)) by lia. cbn. repeat split; try lia; [exact Cc|].
    intros k Hk. destruct k; [exact E|apply D; lia].
Qed.
Lemma find_none a : forall i0, find a i0 = None -> forall c, In c a -> first_free c = None.
Proof.
  induction a as [|c a IH]; intros i0 H c0 Hc; [destruct Hc|]. cbn in H. destruct (first_free c) eqn:E; [discriminate|].
  destruct Hc as [<-|Hc]; [exact E|apply (IH _ H c0 Hc)].
Qed.
Lemma get_upd_same a : forall i f, i < length a -> nth i (upd_chunk a i f) [] = f (nth i a []).
Proof. induction a as [|c a IH]; intros i f H; [cbn in H; lia|]. destruct i; [reflexivity|cbn; apply IH; cbn in H; lia]. Qed.
Lemma get_upd_other a : forall i i' f, i' <> i -> nth i' (upd_chunk a i f) [] = nth i' a [].
Proof. induction a as [|c a IH]; intros i i' f H; [destruct i, i'; reflexivity|]. destruct i, i'; try reflexivity; [contradiction|cbn; apply IH; lia]. Qed.
Lemma set_nth_same c : forall j, j < length c -> nth j (set_nth c j) false = true.
Proof. induction c as [|b c IH]; intros j H; [cbn in H; lia|]. destruct j; [reflexivity|cbn; apply IH; cbn in H; lia]. Qed.
Lemma set_nth_other c : forall j j', j' <> j -> nth j' (set_nth c j) false = nth j' c false.
Proof. induction c as [|b c IH]; intros j j' H; [destruct j, j'; reflexivity|]. destruct j, j'; try reflexivity; [contradiction|cbn; apply IH; lia]. Qed.

(* allocation without expansion: the slot was free, is now taken, it is the first free slot of the first chunk that has one, and no
   other slot changes *)
Theorem alloc_first_fit a ok i j : find a 0 = Some (i, j) ->
  alloc a ok = (upd_chunk a i (fun c => set_nth c j), Some (i, j)) /\ get a i j = false /\
  get (fst (alloc a ok)) i j = true /\
  (forall i' j', (i', j') <> (i, j) -> get (fst (alloc a ok)) i' j' = get a i' j') /\
  (forall i' j', (i' < i \/ (i' = i /\ j' < j)) -> j' < length (nth i' a []) -> get a i' j' = true).
Proof.
  intros H. unfold alloc. rewrite H. destruct (find_spec a 0 i j H) as (_ & B & Cc & D). rewrite Nat.sub_0_r in *.
  destruct (first_free_spec _ _ Cc) as (F1 & F2 & F3). cbn [fst]. split; [reflexivity|split; [|split; [|split]]].
  - unfold get. rewrite <- F1. apply nth_indep. exact F2.
  - unfold get. rewrite get_upd_same by exact B. apply set_nth_same. exact F2.
  - intros i' j' Hne. unfold get. destruct (Nat.eq_dec i' i) as [->|Hi]; [rewrite get_upd_same by exact B; apply set_nth_other; congruence|rewrite get_upd_other by exact Hi; reflexivity].
  - intros i' j' [Hlt|[-> Hlt]] Hlen; unfold get; [apply (first_free_none _ (D i' Hlt)); exact Hlen|apply F3; exact Hlt].
Qed.

Lemma expand_shape a ok : a <> [] -> exists front lastc, a = front ++ [lastc] /\
  expand a ok = if ok then front ++ [lastc ++ repeat false (length lastc)] else a ++ [repeat false (2 * length lastc)].
Proof.
  intros Hne. unfold expand. destruct (rev a) as [|lastc front] eqn:Er.
  - exfalso. apply Hne. apply (f_equal (@rev _)) in Er. rewrite rev_involutive in Er. exact Er.
  - exists (rev front), lastc. split; [|reflexivity]. apply (f_equal (@rev _)) in Er. rewrite rev_involutive in Er. exact Er.
Qed.
(* expansion appends or grows the last chunk: every existing slot keeps its name and its bit *)
Theorem expand_stable a ok i j : j < length (nth i a []) -> get (expand a ok) i j = get a i j.
Proof.
  intros Hj. assert (Hi : i < length a) by (destruct (Nat.lt_ge_cases i (length a)) as [H|H]; [exact H|rewrite nth_overflow in Hj by exact H; cbn in Hj; lia]).
  assert (Hne : a <> []) by (intros ->; cbn in Hi; lia).
  destruct (expand_shape a ok Hne) as (front & lastc & Ea & Ee). rewrite Ee. unfold get. destruct ok.
  - subst a. destruct (Nat.lt_ge_cases i (length front)) as [H|H].
    + rewrite !app_nth1 by exact H. reflexivity.
    + rewrite app_length in Hi. cbn in Hi. assert (Ei : i = length front) by lia. subst i. rewrite nth_middle in Hj. rewrite !nth_middle. apply app_nth1. exact Hj.
  - rewrite app_nth1 by exact Hi. reflexivity.
Qed.
(* after an expansion there is a free slot: arena_alloc never fails (given mmap succeeds, which the code aborts on otherwise) *)
Theorem alloc_never_null a ok : wf a -> snd (alloc a ok) <> None.
Proof.
  intros Hwf. unfold alloc. destruct (find a 0) as [[i j]|] eqn:E; [discriminate|].
  destruct (find (expand a ok) 0) as [[i j]|] eqn:E2; [discriminate|]. exfalso.
  pose proof (find_none _ _ E2) as Hn. destruct a as [|c0 a0].
  - unfold expand in Hn. cbn in Hn. specialize (Hn (repeat false INIT) (or_introl eq_refl)). destruct INIT; [lia|]. cbn in Hn. discriminate.
  - destruct (expand_shape (c0 :: a0) ok ltac:(discriminate)) as (front & lastc & Ea & Ee). rewrite Ee in Hn.
    assert (Hl : lastc <> []) by (apply Hwf; rewrite Ea; apply in_or_app; right; left; reflexivity).
    destruct ok.
    + specialize (Hn (lastc ++ repeat false (length lastc)) ltac:(apply in_or_app; right; left; reflexivity)).
      assert (Hk := first_free_none _ Hn (length lastc)). rewrite app_length, repeat_length in Hk. specialize (Hk ltac:(destruct lastc; [contradiction|cbn; lia])).
      rewrite app_nth2 in Hk by lia. rewrite Nat.sub_diag in Hk. destruct lastc; [contradiction|]. cbn in Hk. discriminate.
    + specialize (Hn (repeat false (2 * length lastc)) ltac:(apply in_or_app; right; left; reflexivity)).
      destruct lastc; [contradiction|]. cbn in Hn. discriminate.
Qed.
End ARENA.

(* urcu_bp_prune_registry (child side of fork): every allocated slot except the forking thread's own is released *)
Fixpoint prune_chunk (c : chunk) (keep : option nat) (j : nat) : chunk :=
  match c with [] => [] | b :: c' => (if match keep with Some k => Nat.eqb k j | None => false end then b else false) :: prune_chunk c' keep (S j) end.
Fixpoint prune_from (a : arena) (mi mj : nat) (i : nat) : arena :=
  match a with [] => [] | c :: a' => prune_chunk c (if Nat.eqb i mi then Some mj else None) 0 :: prune_from a' mi mj (S i) end.
Definition prune (a : arena) (mi mj : nat) : arena := prune_from a mi mj 0.

Lemma prune_chunk_nth c keep : forall j0 j, nth j (prune_chunk c keep j0) false = if match keep with Some k => Nat.eqb k (j0 + j) | None => false end then nth j c false else false.
Proof.
  induction c as [|b c IH]; intros j0 j; cbn [prune_chunk]; [destruct j, keep as [k|]; cbn; try destruct (Nat.eqb k _); reflexivity|].
  destruct j; cbn [nth].
  - rewrite Nat.add_0_r. reflexivity.
  - rewrite IH. replace (S j0 + j) with (j0 + S j) by lia. reflexivity.
Qed.
Lemma prune_chunk_length c keep j0 : length (prune_chunk c keep j0) = length c.
Proof. revert j0. induction c as [|b c IH]; intros j0; cbn; [reflexivity|rewrite IH; reflexivity]. Qed.
Lemma prune_from_nth a mi mj : forall i0 i, nth i (prune_from a mi mj i0) [] = prune_chunk (nth i a []) (if Nat.eqb (i0 + i) mi then Some mj else None) 0.
Proof.
  induction a as [|c a IH]; intros i0 i; cbn [prune_from]; [destruct i; reflexivity|].
  destruct i; cbn [nth]; [rewrite Nat.add_0_r; reflexivity|]. rewrite IH. replace (S i0 + i) with (i0 + S i) by lia. reflexivity.
Qed.
(* after the prune exactly the forking thread's slot keeps its state; every other slot is free; chunks keep their capacity (nothing moves) *)
Theorem prune_spec a mi mj i j :
  get (prune a mi mj) i j = (if Nat.eqb i mi && Nat.eqb j mj then get a i j else false) /\ length (nth i (prune a mi mj) []) = length (nth i a []).
Proof.
  unfold get, prune. rewrite prune_from_nth. cbn [Nat.add]. split; [|apply prune_chunk_length].
  rewrite prune_chunk_nth. cbn [Nat.add]. destruct (Nat.eqb_spec i mi) as [->|Hi]; cbn [andb]; [|reflexivity].
  rewrite (Nat.eqb_sym mj j). reflexivity.
Qed.
Print Assumptions alloc_first_fit.
Print Assumptions alloc_never_null.
Print Assumptions prune_spec.
