(* executable entry point of the wfcqueue model (used by the correspondence driver) and its tie to the source constants *)
From Coq Require Import List Arith NArith Bool Lia.
Import ListNotations.
Require Import Urcu.Base.MachE Urcu.Wfcq.Wfcq Urcu.Gen.Generated.
Local Open Scope N_scope.

Definition init_mem : mem wloc := fun l => match l with LHead => 0 | LTail => vhead | LNext _ => 0 end.
Definition init_state (threads : nat -> list wop) : state wloc wprog :=
  {| smem := init_mem; sthr := fun t => {| tpc := ({| wcur := W_Idle; wtodo := threads t |} : pst wloc wprog); tbuf := [] |} |}.
Definition run_w (threads : nat -> list wop) (cs : list choice) : list (event wloc) :=
  snd (run wloc wloc_eqb wprog cs (init_state threads)).

(* the model's adaptative-wait threshold is the source's WFCQ_ADAPT_ATTEMPTS *)
Lemma adapt_is_source_constant : N.of_nat adapt = wfcq_adapt_attempts.
Proof. reflexivity. Qed.
