From Coq Require Import List Arith NArith Bool Lia.
Import ListNotations.
Require Import Urcu.Base.MachE Urcu.Wfcq.Wfcq Urcu.Wfcq.WfcqInv.
Local Open Scope N_scope.

Notation tup := (tupd wloc wprog).
Definition mkst (m : mem wloc) (th : nat -> tstate wloc wprog) : st9 := {| smem := m; sthr := th |}.
Definition mkts (p : wst) (b : sbuf wloc) : tstate wloc wprog := {| tpc := (p : pst wloc wprog); tbuf := b |}.

Lemma TH_same (s : st9) m t x : TH (mkst m (tup (sthr _ _ s) t x)) t = x.
Proof. unfold TH; cbn. apply tupd_same. Qed.
Lemma TH_other (s : st9) m t x u : u <> t -> TH (mkst m (tup (sthr _ _ s) t x)) u = TH s u.
Proof. intros H. unfold TH; cbn. apply tupd_other; exact H. Qed.

Lemma last_cons_ge {A} (x : A) l d : last (x :: l) d = last l x.
Proof. revert x d. induction l as [|y l IH]; intros x d; [reflexivity|].
  change (last (x :: y :: l) d) with (last (y :: l) d). rewrite (IH y d). symmetry. apply (IH y x). Qed.

Lemma chain_mono (s s' : st9) l : forall a,
  (forall x b, nxt s x b -> nxt s' x b) -> chain s a l -> chain s' a l.
Proof.
  induction l as [|x l IH]; intros a Hl Hc; cbn in *; [exact I|].
  destruct Hc as (Hn & Hx & Hc). split; [apply Hl; exact Hn|]. split; [exact Hx|]. apply IH; assumption.
Qed.

(* ---------- frame: memory, witnesses, D's buffer and futures unchanged ---------- *)
Section FRAME.
Variables s s' : st9.
Hypothesis HM : forall l, M s' l = M s l.
Hypothesis HW : forall u a b, wit s' u a b <-> wit s u a b.
Hypothesis HB0 : BUF s' 0 = BUF s 0.

Lemma fr_hv : hv s' = hv s.
Proof. unfold hv. rewrite HB0, HM. reflexivity. Qed.
Lemma fr_view a : view s' a = view s a.
Proof. unfold view. rewrite fr_hv, HM. reflexivity. Qed.
Lemma fr_pend a b : pend s' a b <-> pend s a b.
Proof. unfold pend; split; intros [u Hu]; exists u; apply HW; exact Hu. Qed.
Lemma fr_nxt a b : nxt s' a b <-> nxt s a b.
Proof. unfold nxt. rewrite fr_view, fr_pend. tauto. Qed.
Lemma fr_chain l : forall a, chain s' a l <-> chain s a l.
Proof. induction l as [|x l IH]; intros a; cbn; [tauto|]. rewrite fr_nxt, IH. tauto. Qed.
Lemma fr_terminal a : terminal s' a <-> terminal s a.
Proof. unfold terminal. rewrite fr_view. split; intros [A B]; (split; [exact A|]); intros b Hb; apply (B b); apply fr_pend; exact Hb. Qed.

Lemma fr_dq_inv aq : PC s' 0 = PC s 0 -> dq_inv s aq -> dq_inv s' aq.
Proof.
  intros Hpc. unfold dq_inv. rewrite Hpc.
  destruct (PC s 0); rewrite ?fr_hv, ?HB0, ?HM; try (intros (rest & H); exists rest; revert H); rewrite ?fr_chain, ?fr_terminal; tauto.
Qed.

Lemma Inv_frame aq :
  (forall u, future s' u = future s u) ->
  (is_deq_pc (PC s' 0) /\ only_deq (TODO s' 0)) ->
  (forall t, t <> 0%nat -> is_enq_pc (PC s' t) /\ only_enq (TODO s' t)) ->
  (forall t, t <> 0%nat -> (length (BUF s' t) <= 1)%nat /\ match PC s' t with E_Xchg _ | E_Store _ _ => BUF s' t = [] | _ => True end) ->
  (forall t l v, t <> 0%nat -> In (l, v) (BUF s' t) -> exists a, a <> 0 /\ l = next_of a) ->
  (forall b, pend s 1 b -> dq_normal (PC s' 0)) ->
  dq_inv s' aq ->
  Inv s aq -> Inv s' aq.
Proof.
  intros HF R0 R Hlen Hbuf Hnorm Hdq [A1 A2 A3 A4 A5 A6 A7 A8 A9 A10 A11 A12]. constructor.
  - exact R0.
  - exact R.
  - exact A3.
  - exact Hdq.
  - intros t a b Hw. apply HW in Hw. destruct (A5 t a b Hw) as (P1 & P2 & P3 & P4). rewrite fr_view.
    split; [exact P1|]. split; [exact P2|]. split; [exact P3|]. intros u b' Hu. apply HW in Hu. apply (P4 u b' Hu).
  - intros b Hb. apply fr_pend in Hb. destruct (A6 b Hb) as [N1 N2]. split; [apply (Hnorm b Hb)|rewrite HB0; exact N2].
  - exact Hlen.
  - exact Hbuf.
  - rewrite HB0. exact A9.
  - intros t n. rewrite HF. intros Hn. destruct (A10 t n Hn) as (F1 & F2 & F3 & F4 & F5). unfold fresh. rewrite !HM.
    split; [exact F1|]. split; [exact F2|]. split; [exact F3|]. split; [|exact F5]. intros b Hb. apply fr_pend in Hb. apply (F4 b Hb).
  - intros t u n. rewrite !HF. apply A11.
  - intros t. rewrite HF. apply A12.
Qed.
End FRAME.
