From Coq Require Import List Arith NArith Bool Lia.
Import ListNotations.
Require Import Urcu.Base.MachE Urcu.Wfcq.Wfcq.
Local Open Scope N_scope.

Definition wit (s : st9) (t : nat) (a b : N) : Prop :=
  t <> 0%nat /\ (PC s t = E_Store b a \/ In (next_of a, b) (BUF s t)).
Definition pend (s : st9) (a b : N) : Prop := exists t, wit s t a b.
Definition hv (s : st9) : N := match BUF s 0 with [] => M s LHead | (_, v) :: _ => v end.
Definition view (s : st9) (a : N) : N := if a =? 1 then hv s else M s (LNext a).
Definition nxt (s : st9) (a b : N) : Prop := b <> 0 /\ (view s a = b \/ (view s a = 0 /\ pend s a b)).
Fixpoint chain (s : st9) (a : N) (l : list N) : Prop :=
  match l with [] => True | x :: l' => nxt s a x /\ 2 <= x /\ chain s x l' end.
Definition terminal (s : st9) (a : N) : Prop := view s a = 0 /\ forall b, ~ pend s a b.

Definition is_enq_pc (p : wpc) : Prop := match p with W_Idle | E_Mb _ | E_Xchg _ | E_Store _ _ | E_Ret _ => True | _ => False end.
Definition is_deq_pc (p : wpc) : Prop := match p with E_Mb _ | E_Xchg _ | E_Store _ _ | E_Ret _ => False | _ => True end.
Definition only_enq (l : list wop) : Prop := Forall (fun o => match o with OEnq _ => True | ODeq => False end) l.
Definition only_deq (l : list wop) : Prop := Forall (fun o => match o with ODeq => True | OEnq _ => False end) l.

Fixpoint enqs (l : list wop) : list N :=
  match l with [] => [] | OEnq n :: r => n :: enqs r | ODeq :: r => enqs r end.
Definition future (s : st9) t : list N :=
  match PC s t with E_Mb n | E_Xchg n => [n] | _ => [] end ++ enqs (TODO s t).
Definition fresh (s : st9) (aq : list N) (n : N) : Prop :=
  2 <= n /\ M s (LNext n) = 0 /\ ~ In n aq /\ (forall b, ~ pend s n b) /\ M s LTail <> n.

(* the part of the invariant that depends on where the dequeuer (thread 0) is *)
Definition dq_inv (s : st9) (aq : list N) : Prop :=
  match PC s 0 with
  | D_LoadNext n | D_InitHead n =>
      exists rest, aq = n :: rest /\ hv s = n /\ BUF s 0 = [] /\
                   chain s n rest /\ M s LTail = last rest n /\ terminal s (M s LTail)
  | D_Cas n =>
      exists rest, aq = n :: rest /\ hv s = 0 /\ (BUF s 0 = [] \/ BUF s 0 = [(LHead, 0)]) /\
                   chain s n rest /\ M s LTail = last rest n /\ terminal s (M s LTail)
  | D_Sync1 n _ | D_Wait1 n _ =>
      exists rest, aq = n :: rest /\ hv s = 0 /\ BUF s 0 = [] /\
                   chain s n rest /\ M s LTail = last rest n /\ terminal s (M s LTail)
  | D_StoreHead n nx =>
      exists rest, aq = n :: nx :: rest /\ (hv s = n \/ hv s = 0) /\ BUF s 0 = [] /\ 2 <= nx /\
                   chain s nx rest /\ M s LTail = last rest nx /\ terminal s (M s LTail)
  | D_Mb _ =>
      chain s 1 aq /\ M s LTail = last aq 1 /\ terminal s (M s LTail) /\
      (BUF s 0 = [] \/ exists v rest, BUF s 0 = [(LHead, v)] /\ aq = v :: rest)
  | _ =>
      chain s 1 aq /\ M s LTail = last aq 1 /\ terminal s (M s LTail) /\ BUF s 0 = []
  end.
Definition dq_normal (p : wpc) : Prop :=
  match p with D_LoadNext _ | D_InitHead _ | D_Cas _ | D_Sync1 _ _ | D_Wait1 _ _ | D_StoreHead _ _ => False | _ => True end.

Record Inv (s : st9) (aq : list N) : Prop := {
  I_role0 : is_deq_pc (PC s 0) /\ only_deq (TODO s 0);
  I_role : forall t, t <> 0%nat -> is_enq_pc (PC s t) /\ only_enq (TODO s t);
  I_aq : Forall (fun x => 2 <= x) aq /\ NoDup aq;
  I_dq : dq_inv s aq;
  I_pend : forall t a b, wit s t a b ->
             view s a = 0 /\ 2 <= b /\ a <> 0 /\ (forall u b', wit s u a b' -> u = t /\ b' = b);
  I_ph : forall b, pend s 1 b -> dq_normal (PC s 0) /\ BUF s 0 = [];
  I_len : forall t, t <> 0%nat -> (length (BUF s t) <= 1)%nat /\
             (match PC s t with E_Xchg _ | E_Store _ _ => BUF s t = [] | _ => True end);
  I_buf : forall t l v, t <> 0%nat -> In (l, v) (BUF s t) -> exists a, a <> 0 /\ l = next_of a;
  I_buf0 : forall l v, In (l, v) (BUF s 0) -> l = LHead;
  I_fresh : forall t n, In n (future s t) -> fresh s aq n;
  I_disj : forall t u n, In n (future s t) -> In n (future s u) -> t = u;
  I_nodup : forall t, NoDup (future s t)
}.
