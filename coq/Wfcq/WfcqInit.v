(* initial states satisfy the wfcqueue invariant (non-vacuity, and the statement "from the initial state") *)
From Coq Require Import List Arith NArith Bool Lia.
Import ListNotations.
Require Import Urcu.Base.MachE Urcu.Wfcq.Wfcq Urcu.Wfcq.WfcqInv Urcu.Wfcq.WfcqProof1 Urcu.Wfcq.WfcqProof2 Urcu.Wfcq.WfcqProof3 Urcu.Wfcq.WfcqProof4 Urcu.Wfcq.WfcqProof5 Urcu.Wfcq.WfcqRun.
Local Open Scope N_scope.

Section INIT.
Variable threads : nat -> list wop.
Hypothesis H0 : only_deq (threads 0%nat).
Hypothesis Hen : forall t, t <> 0%nat -> only_enq (threads t).
Hypothesis Hge : forall t n, In n (enqs (threads t)) -> 2 <= n.
Hypothesis Hdisj : forall t u n, In n (enqs (threads t)) -> In n (enqs (threads u)) -> t = u.
Hypothesis Hnodup : forall t, NoDup (enqs (threads t)).

Let s0 := init_state threads.
Lemma no_wit t a b : ~ wit s0 t a b.
Proof. intros [_ [H|H]]; [discriminate H|exact H]. Qed.
Lemma no_pend a b : ~ pend s0 a b.
Proof. intros [t H]. exact (no_wit t a b H). Qed.

Lemma Inv_init : Inv s0 [].
Proof.
  constructor.
  - split; [exact I|exact H0].
  - intros t Ht. split; [exact I|apply Hen; exact Ht].
  - split; constructor.
  - cbn. repeat split; try reflexivity. intros b. apply no_pend.
  - intros t a b H. destruct (no_wit t a b H).
  - intros b H. destruct (no_pend 1 b H).
  - intros t Ht. split; [cbn; lia|exact I].
  - intros t l v _ [].
  - intros l v [].
  - intros t n Hn. cbn in Hn. repeat split.
    + apply (Hge t). exact Hn.
    + intros [].
    + intros b. apply no_pend.
    + cbn. unfold vhead. pose proof (Hge t n Hn). lia.
  - intros t u n. cbn. apply Hdisj.
  - intros t. cbn. apply Hnodup.
Qed.

(* every state reached from the initial state by any schedule satisfies the invariant, with the ghost queue computed by gupd *)
Theorem wfcq_chain_from_init : forall cs, Inv (fst (grun cs (s0, []))) (snd (grun cs (s0, []))).
Proof. intros cs. apply wfcq_chain_all_schedules. exact Inv_init. Qed.
End INIT.
Print Assumptions wfcq_chain_from_init.
