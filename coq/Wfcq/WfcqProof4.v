From Coq Require Import List Arith NArith Bool Lia.
Import ListNotations.
Require Import Urcu.Base.MachE Urcu.Wfcq.Wfcq Urcu.Wfcq.WfcqInv Urcu.Wfcq.WfcqProof1 Urcu.Wfcq.WfcqProof2 Urcu.Wfcq.WfcqProof3.
Local Open Scope N_scope.

(* dq_inv with the program point as an explicit argument *)
Definition dqc (s : st9) (p : wpc) (aq : list N) : Prop :=
  match p with
  | D_LoadNext n | D_InitHead n =>
      exists rest, aq = n :: rest /\ hv s = n /\ BUF s 0 = [] /\
                   chain s n rest /\ M s LTail = last rest n /\ terminal s (M s LTail)
  | D_Cas n =>
      exists rest, aq = n :: rest /\ hv s = 0 /\ (BUF s 0 = [] \/ BUF s 0 = [(LHead, 0)]) /\
                   chain s n rest /\ M s LTail = last rest n /\ terminal s (M s LTail)
  | D_Sync1 n _ | D_Wait1 n _ =>
      exists rest, aq = n :: rest /\ hv s = 0 /\ BUF s 0 = [] /\
                   chain s n rest /\ M s LTail = last rest n /\ terminal s (M s LTail)
  | D_StoreHead n nx =>
      exists rest, aq = n :: nx :: rest /\ (hv s = n \/ hv s = 0) /\ BUF s 0 = [] /\ 2 <= nx /\
                   chain s nx rest /\ M s LTail = last rest nx /\ terminal s (M s LTail)
  | D_Mb _ =>
      chain s 1 aq /\ M s LTail = last aq 1 /\ terminal s (M s LTail) /\
      (BUF s 0 = [] \/ exists v rest, BUF s 0 = [(LHead, v)] /\ aq = v :: rest)
  | _ =>
      chain s 1 aq /\ M s LTail = last aq 1 /\ terminal s (M s LTail) /\ BUF s 0 = []
  end.
Lemma dq_inv_dqc s aq : dq_inv s aq = dqc s (PC s 0) aq.
Proof. reflexivity. Qed.

Lemma fr_dqc (s s' : st9) p aq :
  (forall l, M s' l = M s l) -> (forall u a b, wit s' u a b <-> wit s u a b) -> BUF s' 0 = BUF s 0 ->
  dqc s p aq -> dqc s' p aq.
Proof.
  intros HM HW HB0. unfold dqc.
  destruct p; rewrite ?(fr_hv s s' HM HB0), ?HB0, ?HM; try (intros (rest & H); exists rest; revert H);
    rewrite ?(fr_chain s s' HM HW HB0), ?(fr_terminal s s' HM HW HB0); tauto.
Qed.

Lemma enqs_only_deq l : only_deq l -> enqs l = [].
Proof. induction 1 as [|o l Ho _ IH]; [reflexivity|]. destruct o; [destruct Ho|exact IH]. Qed.

(* the dequeuer changes only its program point *)
Lemma Inv_deq_pc (s : st9) aq (p' : wst) :
  is_deq_pc (wcur p') -> only_deq (wtodo p') ->
  (forall b, pend s 1 b -> dq_normal (wcur p')) ->
  dqc s (wcur p') aq ->
  Inv s aq -> Inv (mkst (smem _ _ s) (tup (sthr _ _ s) 0%nat (mkts p' (BUF s 0)))) aq.
Proof.
  intros Hdeq Hod Hph Hdq HI. set (s' := mkst _ _).
  assert (HT : forall u, u <> 0%nat -> TH s' u = TH s u) by (intros u Hne; unfold s'; apply TH_other; exact Hne).
  assert (H0 : TH s' 0 = mkts p' (BUF s 0)) by (unfold s'; apply TH_same).
  assert (HM : forall l, M s' l = M s l) by reflexivity.
  assert (HW : forall u a b, wit s' u a b <-> wit s u a b).
  { intros u a b. unfold wit, PC, BUF. destruct (Nat.eq_dec u 0) as [->|Hne]; [tauto|rewrite HT by exact Hne; tauto]. }
  assert (HB0 : BUF s' 0 = BUF s 0) by (unfold BUF at 1; rewrite H0; reflexivity).
  assert (HPC0 : PC s' 0 = wcur p') by (unfold PC; rewrite H0; reflexivity).
  apply (Inv_frame s s' HM HW HB0); try exact HI.
  - intros u. unfold future, PC, TODO. destruct (Nat.eq_dec u 0) as [->|Hne]; [|rewrite HT by exact Hne; reflexivity].
    rewrite H0; cbn. rewrite (enqs_only_deq _ Hod).
    destruct (I_role0 _ _ HI) as [R1 R2]. unfold TODO in R2. rewrite (enqs_only_deq _ R2).
    unfold PC in R1. destruct (wcur p'); try destruct Hdeq; destruct (wcur (tpc wloc wprog (TH s 0))); try destruct R1; reflexivity.
  - unfold PC, TODO. rewrite H0. split; assumption.
  - intros u Hu. unfold PC, TODO. rewrite HT by exact Hu. apply (I_role _ _ HI u Hu).
  - intros u Hu. unfold PC, BUF. rewrite HT by exact Hu. apply (I_len _ _ HI u Hu).
  - intros u l v Hu. unfold BUF. rewrite HT by exact Hu. apply (I_buf _ _ HI u l v Hu).
  - intros b Hb. rewrite HPC0. apply (Hph b Hb).
  - rewrite dq_inv_dqc, HPC0. apply (fr_dqc s s' _ aq HM HW HB0). exact Hdq.
Qed.

Lemma view_ge2 s x : 2 <= x -> view s x = M s (LNext x).
Proof. intros H. unfold view. destruct (N.eqb_spec x 1); [lia|reflexivity]. Qed.

(* the dequeuer saw a non-null head.next: that node is the first element of the abstract queue *)
Lemma dqc_first (s : st9) aq r :
  Inv s aq -> chain s 1 aq -> M s LTail = last aq 1 -> terminal s (M s LTail) -> BUF s 0 = [] ->
  hv s = r -> r <> 0 ->
  dqc s (D_LoadNext r) aq /\ (forall b, ~ pend s 1 b).
Proof.
  intros HI Hc Ht Hterm Hb Hhv Hr. split.
  - destruct aq as [|x rest].
    + cbn in Ht. rewrite Ht in Hterm. destruct Hterm as [Tv _]. unfold view in Tv. cbn in Tv. congruence.
    + cbn in Hc. destruct Hc as ([_ [Hv|[Hv _]]] & Hx2 & Hc); unfold view in Hv; cbn in Hv; [|congruence].
      assert (E : x = r) by congruence. clear Hv. subst x. exists rest. split; [reflexivity|]. split; [exact Hhv|]. split; [exact Hb|].
      split; [exact Hc|]. split; [rewrite Ht; apply last_cons_ge|exact Hterm].
  - intros b [u Hu]. destruct (I_pend _ _ HI u 1 b Hu) as (V & _). unfold view in V. cbn in V. congruence.
Qed.

(* the dequeuer saw a non-null node.next: it is the second element *)
Lemma dqc_second (s : st9) aq n rest r :
  Inv s aq -> aq = n :: rest -> chain s n rest -> M s LTail = last rest n -> terminal s (M s LTail) ->
  M s (LNext n) = r -> r <> 0 ->
  exists rest', rest = r :: rest' /\ 2 <= r /\ chain s r rest' /\ M s LTail = last rest' r.
Proof.
  intros HI Eaq Hc Ht Hterm Hm Hr.
  assert (Hn2 : 2 <= n) by (destruct (I_aq _ _ HI) as [Aq _]; subst aq; inversion Aq; assumption).
  destruct rest as [|x rest'].
  - cbn in Ht. rewrite Ht in Hterm. destruct Hterm as [Tv _]. rewrite (view_ge2 s n Hn2) in Tv. congruence.
  - cbn in Hc. destruct Hc as ([_ [Hv|[Hv _]]] & Hx2 & Hc); rewrite (view_ge2 s n Hn2) in Hv; [|congruence].
    assert (E : x = r) by congruence. clear Hv. subst x. exists rest'. split; [reflexivity|]. split; [exact Hx2|]. split; [exact Hc|].
    rewrite Ht. apply last_cons_ge.
Qed.

(* ---------- dequeuer steps that touch its buffer or memory ---------- *)

(* all links starting at nodes (>= 2) are unaffected by changes to the dequeuer's head view *)
Section HEADVIEW.
Variables s s' : st9.
Hypothesis HMn : forall a, M s' (LNext a) = M s (LNext a).
Hypothesis HW : forall u a b, wit s' u a b <-> wit s u a b.
Lemma hvw_pend a b : pend s' a b <-> pend s a b.
Proof. unfold pend; split; intros [u Hu]; exists u; apply HW; exact Hu. Qed.
Lemma hvw_nxt x b : 2 <= x -> (nxt s' x b <-> nxt s x b).
Proof. intros Hx. unfold nxt. rewrite !view_ge2 by exact Hx. rewrite HMn, hvw_pend. tauto. Qed.
Lemma hvw_chain l : forall x, 2 <= x -> (chain s' x l <-> chain s x l).
Proof.
  induction l as [|y l IH]; intros x Hx; cbn; [tauto|]. rewrite (hvw_nxt x y Hx).
  split; intros (A & B & C); (split; [exact A|]; split; [exact B|]); apply (IH y B); exact C.
Qed.
Lemma hvw_terminal x : 2 <= x -> (terminal s' x <-> terminal s x).
Proof.
  intros Hx. unfold terminal. rewrite !view_ge2 by exact Hx. rewrite HMn.
  split; intros [A B]; (split; [exact A|]); intros b Hb; apply (B b); apply hvw_pend; exact Hb.
Qed.
End HEADVIEW.

Lemma future0_nil (s : st9) : is_deq_pc (PC s 0) -> only_deq (TODO s 0) -> future s 0 = [].
Proof.
  intros R1 R2. unfold future. rewrite (enqs_only_deq _ R2). destruct (PC s 0); try destruct R1; reflexivity.
Qed.

(* generic: the dequeuer changes its own buffer / head.next / tail; no link from the head is pending *)
Lemma Inv_deq_mem (s s' : st9) aq aq' :
  (forall a, M s' (LNext a) = M s (LNext a)) ->
  (forall u, u <> 0%nat -> TH s' u = TH s u) ->
  (forall b, ~ pend s 1 b) ->
  (is_deq_pc (PC s' 0) /\ only_deq (TODO s' 0)) ->
  (Forall (fun x => 2 <= x) aq' /\ NoDup aq') -> (forall x, In x aq' -> In x aq) ->
  dq_inv s' aq' ->
  (forall l v, In (l, v) (BUF s' 0) -> l = LHead) ->
  (forall m, 2 <= m -> M s LTail <> m -> M s' LTail <> m) ->
  Inv s aq -> Inv s' aq'.
Proof.
  intros HMn HT Hnp R0 Haq Hsub Hdq Hb0 Htl HI.
  assert (HW : forall u a b, wit s' u a b <-> wit s u a b).
  { intros u a b. unfold wit, PC, BUF. destruct (Nat.eq_dec u 0) as [->|Hne]; [tauto|rewrite HT by exact Hne; tauto]. }
  assert (HP : forall a b, pend s' a b <-> pend s a b) by (intros a b; unfold pend; split; intros [u Hu]; exists u; apply HW; exact Hu).
  assert (HF : forall u, future s' u = future s u).
  { intros u. destruct (Nat.eq_dec u 0) as [->|Hne].
    - rewrite (future0_nil s' (proj1 R0) (proj2 R0)). destruct (I_role0 _ _ HI) as [Q1 Q2]. rewrite (future0_nil s Q1 Q2). reflexivity.
    - unfold future, PC, TODO. rewrite HT by exact Hne. reflexivity. }
  constructor.
  - exact R0.
  - intros u Hu. unfold PC, TODO. rewrite HT by exact Hu. apply (I_role _ _ HI u Hu).
  - exact Haq.
  - exact Hdq.
  - intros u a b Hu. apply HW in Hu. destruct (I_pend _ _ HI u a b Hu) as (P1 & P2 & P3 & P4).
    assert (a <> 1) by (intros ->; apply (Hnp b); exists u; exact Hu).
    assert (Ha2 : 2 <= a) by lia.
    split; [rewrite (view_ge2 s' a Ha2), HMn, <- (view_ge2 s a Ha2); exact P1|]. split; [exact P2|]. split; [exact P3|].
    intros w b' Hw. apply HW in Hw. apply (P4 w b' Hw).
  - intros b Hb. apply HP in Hb. destruct (Hnp b Hb).
  - intros u Hu. unfold PC, BUF. rewrite HT by exact Hu. apply (I_len _ _ HI u Hu).
  - intros u l v Hu. unfold BUF. rewrite HT by exact Hu. apply (I_buf _ _ HI u l v Hu).
  - exact Hb0.
  - intros u m. rewrite HF. intros Hm. destruct (I_fresh _ _ HI u m Hm) as (F1 & F2 & F3 & F4 & F5).
    split; [exact F1|]. split; [rewrite HMn; exact F2|]. split; [intros Hin; apply F3; apply Hsub; exact Hin|].
    split; [intros b Hb; apply HP in Hb; apply (F4 b Hb)|apply Htl; assumption].
  - intros u w m. rewrite !HF. apply (I_disj _ _ HI).
  - intros u. rewrite HF. apply (I_nodup _ _ HI).
Qed.

Section SAMEVIEW.
Variables s s' : st9.
Hypothesis Hview : forall a, view s' a = view s a.
Hypothesis HW : forall u a b, wit s' u a b <-> wit s u a b.
Lemma sv_pend a b : pend s' a b <-> pend s a b.
Proof. unfold pend; split; intros [u Hu]; exists u; apply HW; exact Hu. Qed.
Lemma sv_nxt a b : nxt s' a b <-> nxt s a b.
Proof. unfold nxt. rewrite Hview, sv_pend. tauto. Qed.
Lemma sv_chain l : forall a, chain s' a l <-> chain s a l.
Proof. induction l as [|x l IH]; intros a; cbn; [tauto|]. rewrite sv_nxt, IH. tauto. Qed.
Lemma sv_terminal a : terminal s' a <-> terminal s a.
Proof. unfold terminal. rewrite Hview. split; intros [A B]; (split; [exact A|]); intros b Hb; apply (B b); apply sv_pend; exact Hb. Qed.
End SAMEVIEW.

Lemma wit_deq_upd (s : st9) m x u a b :
  wit (mkst m (tup (sthr _ _ s) 0%nat x)) u a b <-> wit s u a b.
Proof.
  unfold wit, PC, BUF. destruct (Nat.eq_dec u 0) as [->|Hne]; [tauto|]. rewrite TH_other by exact Hne. tauto.
Qed.

Lemma Inv_deq_inithead (s : st9) aq n todo :
  tpc _ _ (TH s 0) = {| wcur := D_InitHead n; wtodo := todo |} -> Inv s aq ->
  Inv (mkst (smem _ _ s) (tup (sthr _ _ s) 0%nat (mkts {| wcur := D_Cas n; wtodo := todo |} (BUF s 0 ++ [(LHead, 0)])))) aq.
Proof.
  intros Epc HI. assert (EPC : PC s 0 = D_InitHead n) by (unfold PC; rewrite Epc; reflexivity).
  pose proof (I_dq _ _ HI) as Hdq. rewrite dq_inv_dqc, EPC in Hdq. destruct Hdq as (rest & Eaq & Hhv & Hb & Hc & Ht & Hterm).
  destruct (I_aq _ _ HI) as [Aq And]. assert (Hn2 : 2 <= n) by (subst aq; inversion Aq; assumption).
  assert (Hr2 : Forall (fun x => 2 <= x) rest) by (subst aq; inversion Aq; assumption).
  rewrite Hb. cbn [app]. set (s' := mkst _ _).
  assert (H0 : TH s' 0 = mkts {| wcur := D_Cas n; wtodo := todo |} [(LHead, 0)]) by (unfold s'; apply TH_same).
  assert (HW : forall u a b, wit s' u a b <-> wit s u a b) by (intros; apply wit_deq_upd).
  assert (HMn : forall a, M s' (LNext a) = M s (LNext a)) by reflexivity.
  apply (Inv_deq_mem s s' aq aq); try exact HI; try tauto.
  - intros u Hu. unfold s'. apply TH_other. exact Hu.
  - intros b Hb1. destruct (I_ph _ _ HI b Hb1) as [Hn _]. rewrite EPC in Hn. exact Hn.
  - unfold PC, TODO. rewrite H0; cbn. split; [exact I|]. destruct (I_role0 _ _ HI) as [_ R]. unfold TODO in R. rewrite Epc in R. exact R.
  - rewrite dq_inv_dqc. unfold PC. rewrite H0. cbn [wcur tpc mkts]. exists rest. split; [exact Eaq|].
    split; [unfold hv, BUF; rewrite H0; reflexivity|]. split; [right; unfold BUF; rewrite H0; reflexivity|].
    split; [apply (hvw_chain s s' HMn HW); assumption|]. split; [exact Ht|].
    change (M s' LTail) with (M s LTail). apply (hvw_terminal s s' HMn HW); [rewrite Ht; apply last_ge2; assumption|exact Hterm].
  - intros l v. unfold BUF. rewrite H0. cbn. intros [E|[]]. inversion E. reflexivity.
Qed.

Lemma Inv_deq_storehead (s : st9) aq n nx todo :
  tpc _ _ (TH s 0) = {| wcur := D_StoreHead n nx; wtodo := todo |} -> Inv s aq ->
  Inv (mkst (smem _ _ s) (tup (sthr _ _ s) 0%nat (mkts {| wcur := D_Mb n; wtodo := todo |} (BUF s 0 ++ [(LHead, nx)])))) (tl aq).
Proof.
  intros Epc HI. assert (EPC : PC s 0 = D_StoreHead n nx) by (unfold PC; rewrite Epc; reflexivity).
  pose proof (I_dq _ _ HI) as Hdq. rewrite dq_inv_dqc, EPC in Hdq. destruct Hdq as (rest & Eaq & Hhv & Hb & Hnx & Hc & Ht & Hterm).
  destruct (I_aq _ _ HI) as [Aq And]. subst aq. inversion Aq as [|? ? Hn2 Aq1]; subst. inversion Aq1 as [|? ? _ Hr2]; subst.
  inversion And as [|? ? _ And1]; subst. cbn [tl].
  rewrite Hb. cbn [app]. set (s' := mkst _ _).
  assert (H0 : TH s' 0 = mkts {| wcur := D_Mb n; wtodo := todo |} [(LHead, nx)]) by (unfold s'; apply TH_same).
  assert (HW : forall u a b, wit s' u a b <-> wit s u a b) by (intros; apply wit_deq_upd).
  assert (HMn : forall a, M s' (LNext a) = M s (LNext a)) by reflexivity.
  apply (Inv_deq_mem s s' (n :: nx :: rest) (nx :: rest)); try exact HI; try tauto.
  - intros u Hu. unfold s'. apply TH_other. exact Hu.
  - intros b Hb1. destruct (I_ph _ _ HI b Hb1) as [Hn _]. rewrite EPC in Hn. exact Hn.
  - unfold PC, TODO. rewrite H0; cbn. split; [exact I|]. destruct (I_role0 _ _ HI) as [_ R]. unfold TODO in R. rewrite Epc in R. exact R.
  - intros x Hx. right; exact Hx.
  - rewrite dq_inv_dqc. unfold PC. rewrite H0. cbn [wcur tpc mkts dqc].
    split.
    { cbn [chain]. split; [|split; [exact Hnx|apply (hvw_chain s s' HMn HW); assumption]].
      split; [lia|]. left. unfold view. replace (1 =? 1) with true by reflexivity. unfold hv, BUF. rewrite H0. reflexivity. }
    split; [change (M s' LTail) with (M s LTail); rewrite Ht; symmetry; apply last_cons_ge|].
    split; [change (M s' LTail) with (M s LTail); apply (hvw_terminal s s' HMn HW); [rewrite Ht; apply last_ge2; assumption|exact Hterm]|].
    right. exists nx, rest. split; [unfold BUF; rewrite H0; reflexivity|reflexivity].
  - intros l v. unfold BUF. rewrite H0. cbn. intros [E|[]]. inversion E. reflexivity.
Qed.

Lemma Inv_deq_flush (s : st9) aq l v b' :
  BUF s 0 = (l, v) :: b' -> Inv s aq ->
  Inv (mkst (upd wloc wloc_eqb (smem _ _ s) l v) (tup (sthr _ _ s) 0%nat (mkts (tpc _ _ (TH s 0)) b'))) aq.
Proof.
  intros Eb HI. assert (l = LHead) by (apply (I_buf0 _ _ HI l v); rewrite Eb; left; reflexivity). subst l.
  pose proof (I_dq _ _ HI) as Hdq. rewrite dq_inv_dqc in Hdq.
  assert (Hhv : hv s = v) by (unfold hv; rewrite Eb; reflexivity).
  assert (Hb' : b' = []).
  { unfold dqc in Hdq. destruct (PC s 0); rewrite Eb in Hdq;
      try (destruct Hdq as (_ & _ & _ & Hx); discriminate Hx);
      try (destruct Hdq as (r & _ & _ & Hx & _); discriminate Hx);
      try (destruct Hdq as (r & _ & _ & _ & Hx & _); discriminate Hx).
    - destruct Hdq as (r & _ & _ & [Hx|Hx] & _); [discriminate|inversion Hx; reflexivity].
    - destruct Hdq as (_ & _ & _ & [Hx|(v' & r & Hx & _)]); [discriminate|inversion Hx; reflexivity]. }
  subst b'. set (s' := mkst _ _).
  assert (H0 : TH s' 0 = mkts (tpc _ _ (TH s 0)) []) by (unfold s'; apply TH_same).
  assert (HW : forall u a b, wit s' u a b <-> wit s u a b) by (intros; apply wit_deq_upd).
  assert (HMn : forall a, M s' (LNext a) = M s (LNext a)) by reflexivity.
  assert (HMt : M s' LTail = M s LTail) by reflexivity.
  assert (HB' : BUF s' 0 = []) by (unfold BUF; rewrite H0; reflexivity).
  assert (Hhv' : hv s' = hv s) by (unfold hv at 1; rewrite HB'; rewrite Hhv; reflexivity).
  assert (Hview : forall a, view s' a = view s a) by (intros a; unfold view; rewrite Hhv', HMn; reflexivity).
  assert (HPC : PC s' 0 = PC s 0) by (unfold PC; rewrite H0; reflexivity).
  apply (Inv_deq_mem s s' aq aq); try exact HI; try tauto.
  - intros u Hu. unfold s'. apply TH_other. exact Hu.
  - intros b Hb1. destruct (I_ph _ _ HI b Hb1) as [_ Hn]. rewrite Eb in Hn. discriminate.
  - rewrite HPC. unfold TODO. rewrite H0. apply (I_role0 _ _ HI).
  - apply (I_aq _ _ HI).
  - rewrite dq_inv_dqc, HPC. unfold dqc in *. destruct (PC s 0); rewrite ?Hhv', ?HB', ?HMt; rewrite Eb in Hdq;
      try (destruct Hdq as (_ & _ & _ & Hx); discriminate Hx);
      try (destruct Hdq as (r & _ & _ & Hx & _); discriminate Hx);
      try (destruct Hdq as (r & _ & _ & _ & Hx & _); discriminate Hx).
    + destruct Hdq as (r & E1 & E2 & _ & E4 & E5 & E6). exists r. split; [exact E1|]. split; [exact E2|]. split; [left; reflexivity|].
      split; [apply (sv_chain s s' Hview HW); exact E4|]. split; [exact E5|apply (sv_terminal s s' Hview HW); exact E6].
    + destruct Hdq as (E1 & E2 & E3 & _). split; [apply (sv_chain s s' Hview HW); exact E1|]. split; [exact E2|].
      split; [apply (sv_terminal s s' Hview HW); exact E3|left; reflexivity].
  - rewrite HB'. intros l v0 [].
Qed.

Lemma last_in_or {A} (l : list A) d : l <> [] -> In (last l d) l.
Proof. intros H. destruct l as [|x r] using rev_ind; [contradiction|]. rewrite last_last. apply in_or_app. right; left; reflexivity. Qed.

Lemma Inv_deq_cas_ok (s : st9) aq n todo :
  tpc _ _ (TH s 0) = {| wcur := D_Cas n; wtodo := todo |} -> BUF s 0 = [] -> M s LTail = n -> Inv s aq ->
  Inv (mkst (upd wloc wloc_eqb (smem _ _ s) LTail vhead) (tup (sthr _ _ s) 0%nat (mkts {| wcur := D_Mb n; wtodo := todo |} []))) (tl aq).
Proof.
  intros Epc Eb Etail HI. assert (EPC : PC s 0 = D_Cas n) by (unfold PC; rewrite Epc; reflexivity).
  pose proof (I_dq _ _ HI) as Hdq. rewrite dq_inv_dqc, EPC in Hdq. destruct Hdq as (rest & Eaq & Hhv & _ & Hc & Ht & Hterm).
  destruct (I_aq _ _ HI) as [Aq And]. subst aq. pose proof (Forall_inv Aq) as Hn2. pose proof (Forall_inv_tail Aq) as Hr2.
  apply NoDup_cons_iff in And as [Hnotin And1].
  assert (rest = []).
  { destruct rest as [|x r]; [reflexivity|]. exfalso. apply Hnotin. rewrite <- Etail at 1. rewrite Ht. apply last_in_or. discriminate. }
  subst rest. cbn [tl]. set (s' := mkst _ _).
  assert (H0 : TH s' 0 = mkts {| wcur := D_Mb n; wtodo := todo |} []) by (unfold s'; apply TH_same).
  assert (HW : forall u a b, wit s' u a b <-> wit s u a b) by (intros; apply wit_deq_upd).
  assert (HMn : forall a, M s' (LNext a) = M s (LNext a)) by reflexivity.
  assert (Hnp : forall b, ~ pend s 1 b).
  { intros b Hb1. destruct (I_ph _ _ HI b Hb1) as [Hn _]. rewrite EPC in Hn. exact Hn. }
  apply (Inv_deq_mem s s' [n] []); try exact HI.
  - exact HMn.
  - intros u Hu. unfold s'. apply TH_other. exact Hu.
  - exact Hnp.
  - unfold PC, TODO. rewrite H0; cbn. split; [exact I|]. destruct (I_role0 _ _ HI) as [_ R]. unfold TODO in R. rewrite Epc in R. exact R.
  - split; constructor.
  - intros x [].
  - rewrite dq_inv_dqc. unfold PC. rewrite H0. cbn [wcur tpc mkts dqc chain last].
    split; [exact I|]. split; [reflexivity|]. split.
    + change (M s' LTail) with 1. split.
      * unfold view. replace (1 =? 1) with true by reflexivity. unfold hv, BUF. rewrite H0. cbn [tbuf mkts].
        change (M s' LHead) with (M s LHead). unfold hv in Hhv. rewrite Eb in Hhv. exact Hhv.
      * intros b [u Hu]. apply HW in Hu. apply (Hnp b). exists u. exact Hu.
    + left. unfold BUF. rewrite H0. reflexivity.
  - unfold BUF. rewrite H0. intros l v [].
  - intros m Hm _. change (M s' LTail) with 1. lia.
Qed.
