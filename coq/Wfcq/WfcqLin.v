(* wfcqueue model: every history (enqueue with its "was non-empty" result, blocking dequeue) is linearizable w.r.t. the FIFO
   specification, for every schedule incl. flush order.  The linearisation points are read off the EVENT trace of the machine
   (the same trace the lock-step correspondence compares with static/wfcqueue.h): the tail exchange of an enqueue, the
   tail load that sees the sentinel (empty answer), the head store / successful tail cmpxchg of a dequeue. *)
From Coq Require Import List Arith NArith Bool Lia.
Import ListNotations.
Require Import Urcu.Base.Lin.
Require Import Urcu.Base.MachE Urcu.Wfcq.Wfcq Urcu.Wfcq.WfcqInv Urcu.Wfcq.WfcqProof1 Urcu.Wfcq.WfcqProof5 Urcu.Wfcq.WfcqRun Urcu.Wfcq.WfcqInit.
Local Open Scope N_scope.

(* FIFO specification: enqueue answers whether the queue was non-empty, dequeue answers the oldest node or 0 *)
Definition wspec (q : list N) (o : wop) : list N * N :=
  match o with
  | OEnq n => (q ++ [n], match q with [] => 0 | _ => 1 end)
  | ODeq => match q with [] => ([], 0) | x :: q' => (q', x) end
  end.

Notation ast := (Lin.ast wop N (list N)).
Notation runl := (Lin.runl wop N (list N) wspec N.eq_dec).
Notation lev := (Lin.ev wop N).
Notation lpend := (Lin.pend wop N).

(* history events and linearisation points of one machine event *)
Definition is0 (t : nat) : bool := match t with O => true | _ => false end.
Definition ev_of (e : option (event wloc)) : list lev :=
  match e with
  | Some (Ev _ t a r) =>
      match a with
      | ACall _ O n => [Lin.Inv _ _ t (OEnq n)]
      | ACall _ (S _) _ => [Lin.Inv _ _ t ODeq]
      | AXchg _ LTail _ => [Lin.Lin _ _ t]
      | ALoad _ LTail => if is0 t && (r =? vhead) then [Lin.Lin _ _ t] else []
      | AStore _ LHead v => if is0 t && negb (v =? 0) then [Lin.Lin _ _ t] else []
      | ACas _ LTail e' _ => if is0 t && (r =? e') then [Lin.Lin _ _ t] else []
      | ARet _ _ x => [Lin.Res _ _ t x]
      | _ => []
      end
  | _ => []
  end.
Fixpoint gtrace (cs : list choice) (g : st9 * list N) : list lev :=
  match cs with [] => [] | c :: cs' => ev_of (snd (exec wloc wloc_eqb wprog c (fst g))) ++ gtrace cs' (gexec c g) end.

Definition PR (p : wpc) (x : lpend) : Prop :=
  match p with
  | W_Idle => x = Idle _ _
  | E_Mb n | E_Xchg n => x = Called _ _ (OEnq n)
  | E_Store n old => x = Done _ _ (OEnq n) (if old =? vhead then 0 else 1)
  | E_Ret b => exists n, x = Done _ _ (OEnq n) b
  | D_Mb node => x = Done _ _ ODeq node
  | D_Ret r => x = Done _ _ ODeq r
  | _ => x = Called _ _ ODeq
  end.
Record Sim (s : st9) (aq : list N) (a : ast) : Prop := {
  S_q : sig _ _ _ a = aq;
  S_pr : forall t, PR (PC s t) (pm _ _ _ a t)
}.

Definition mkst (m : mem wloc) (th : nat -> tstate wloc wprog) : st9 := {| smem := m; sthr := th |}.

Lemma Sim_upd (s : st9) aq aq' (a a' : ast) t m' (ts' : tstate wloc wprog) :
  Sim s aq a -> sig _ _ _ a' = aq' -> PR (wcur (tpc _ _ ts')) (pm _ _ _ a' t) ->
  (forall u, u <> t -> pm _ _ _ a' u = pm _ _ _ a u) ->
  Sim (mkst m' (tupd wloc wprog (sthr _ _ s) t ts')) aq' a'.
Proof.
  intros HS Hq Hp Ho. constructor; [exact Hq|].
  intros u. unfold PC, TH, mkst; cbn [sthr]. destruct (Nat.eq_dec u t) as [->|Hne].
  - rewrite tupd_same. exact Hp.
  - rewrite tupd_other by exact Hne. rewrite (Ho u Hne). apply (S_pr s aq a HS u).
Qed.

(* the tail designates the sentinel exactly when the ghost queue is empty *)
Lemma last_ge2 (l : list N) d : 2 <= d -> Forall (fun x => 2 <= x) l -> 2 <= last l d.
Proof.
  intros Hd H. induction H as [|x l Hx H IH]; [exact Hd|].
  destruct l as [|y l']; [exact Hx|]. change (last (x :: y :: l') d) with (last (y :: l') d). exact IH.
Qed.
Lemma tail_vhead_iff s aq : Inv s aq -> (M s LTail =? vhead) = match aq with [] => true | _ => false end.
Proof.
  intros HI. pose proof (I_dq _ _ HI) as Hdq. destruct (I_aq _ _ HI) as [Hge _]. unfold dq_inv in Hdq.
  assert (Hn : M s LTail = last aq 1 -> (M s LTail =? vhead) = match aq with [] => true | _ => false end).
  { intros E. rewrite E. destruct aq as [|x r]; [reflexivity|].
    assert (2 <= last (x :: r) 1).
    { inversion Hge as [|? ? Hx Hr]; subst. destruct r as [|y r']; [exact Hx|].
      change (last (x :: y :: r') 1) with (last (y :: r') 1).
      assert (G : forall d, last (y :: r') d = last (y :: r') 2).
      { clear. revert y. induction r' as [|z r IH]; intros y d; [reflexivity|]. change (last (y :: z :: r) d) with (last (z :: r) d).
        change (last (y :: z :: r) 2) with (last (z :: r) 2). apply IH. }
      rewrite G. apply last_ge2; [lia|exact Hr]. }
    unfold vhead. apply N.eqb_neq. lia. }
  assert (Hm : forall n rest, aq = n :: rest -> M s LTail = last rest n -> (M s LTail =? vhead) = match aq with [] => true | _ => false end).
  { intros n rest -> E. rewrite E. inversion Hge as [|? ? Hx Hr]; subst. pose proof (last_ge2 rest n Hx Hr). unfold vhead. apply N.eqb_neq. lia. }
  destruct (PC s 0).
  1-9,17: (destruct Hdq as (_ & E & _); apply Hn; exact E).
  1-5: (destruct Hdq as (rest & Eaq & _ & _ & _ & E & _); apply (Hm _ _ Eaq E)).
  - destruct Hdq as (rest & Eaq & _ & _ & Hnx & _ & E & _). rewrite Eaq in *.
    inversion Hge as [|? ? Hx Hr]; subst. inversion Hr as [|? ? Hx2 Hr2]; subst.
    rewrite E. pose proof (last_ge2 rest next Hx2 Hr2). unfold vhead. apply N.eqb_neq. lia.
  - destruct Hdq as (_ & E & _). apply Hn; exact E.
Qed.

Lemma exec_Step t (s : st9) : exec wloc wloc_eqb wprog (Step t) s =
  match tstep wloc wloc_eqb wprog (M s) (TH s t) with
  | None => (s, None)
  | Some (m', ts', r) => (mkst m' (tupd wloc wprog (sthr _ _ s) t ts'), Some (Ev wloc t (wact (tpc _ _ (TH s t))) r))
  end.
Proof. reflexivity. Qed.

Lemma gupd_char aq t (a : act wloc) r : gupd aq (Some (Ev wloc t a r)) =
  match a with
  | AXchg _ LTail v => aq ++ [v]
  | AStore _ LHead v => if is0 t && negb (v =? 0) then tl aq else aq
  | ACas _ LTail e' _ => if is0 t && (r =? e') then tl aq else aq
  | _ => aq
  end.
Proof.
  destruct a as [l|l v|l v|l e' n| | | |op arg|op x|]; try (destruct t; reflexivity);
  destruct l; try (destruct t; reflexivity); destruct t; cbn [gupd is0 andb negb]; try reflexivity.
  destruct (v =? 0); reflexivity.
Qed.

Definition setpm (a : ast) t (x : lpend) : ast := Lin.setp _ _ _ a t x.

Lemma sim_step (s : st9) aq (a : ast) c : Inv s aq -> Sim s aq a ->
  exists a' l, runl a (ev_of (snd (exec wloc wloc_eqb wprog c s))) = Some (a', l) /\
               Sim (fst (gexec c (s, aq))) (snd (gexec c (s, aq))) a'.
Proof.
  intros HI HS. destruct c as [t|t].
  2:{ (* flush: no history event, no pc change, ghost unchanged *)
    unfold gexec, exec; cbn [fst snd]. change (sthr wloc wprog s t) with (TH s t). fold (BUF s t).
    destruct (BUF s t) as [|[l v] b']; cbn [fst snd gupd ev_of].
    - exists a, []. split; [reflexivity|exact HS].
    - exists a, []. split; [reflexivity|]. constructor; [apply (S_q _ _ _ HS)|].
      intros u. unfold PC, TH; cbn [sthr]. destruct (Nat.eq_dec u t) as [->|Hne].
      + rewrite tupd_same. cbn [tpc]. apply (S_pr _ _ _ HS t).
      + rewrite tupd_other by exact Hne. apply (S_pr _ _ _ HS u). }
  unfold gexec. cbn [fst snd]. rewrite exec_Step.
  pose proof (S_pr _ _ _ HS t) as Hpr. pose proof (S_q _ _ _ HS) as Hq.
  assert (Hrole : t <> 0%nat -> is_enq_pc (PC s t)) by (intros Ht; apply (I_role _ _ HI t Ht)).
  pose proof (I_dq _ _ HI) as Hdq. unfold dq_inv in Hdq.
  destruct (tstep wloc wloc_eqb wprog (M s) (TH s t)) as [[[m' ts'] r]|] eqn:Et; cbn [fst snd].
  2:{ exists a, []. split; [reflexivity|exact HS]. }
  unfold tstep in Et. cbn [pact pnext wprog] in Et. unfold wact in Et, Hpr |- *. unfold PC in Hpr, Hrole, Hdq.
  fold (BUF s t) in Et.
  assert (Hquiet : forall p', PR (wcur p') (pm _ _ _ a t) -> forall b e,
             ev_of (Some e) = [] -> gupd aq (Some e) = aq ->
             exists a' l, runl a (ev_of (Some e)) = Some (a', l) /\
               Sim (mkst m' (tupd wloc wprog (sthr _ _ s) t {| tpc := (p' : pst _ wprog); tbuf := b |})) (gupd aq (Some e)) a').
  { intros p' Hp b e E1 E2. rewrite E1, E2. exists a, []. split; [reflexivity|].
    apply (Sim_upd s aq aq a a t); [exact HS|exact Hq|exact Hp|intros u _; reflexivity]. }
  destruct (tpc _ _ (TH s t)) as [pc todo] eqn:Etp. cbn [wcur wtodo] in *.
  destruct pc as [|n|n|n old|rb| | |att|att|node|node|node|node att|node att|node nx|node|rr]; cbn [PR] in Hpr; unfold wnext in Et; cbn [wcur wtodo] in Et.
  - (* Idle *)
    destruct todo as [|[n|] rest]; [discriminate| |]; inversion Et; subst m' ts' r; rewrite gupd_char; cbn [ev_of is0 andb negb]; cbv beta iota.
    + exists (setpm a t (Called _ _ (OEnq n))), []. split; [cbn [Lin.runl]; rewrite Hpr; reflexivity|].
      apply (Sim_upd s aq aq a _ t); [exact HS|exact Hq| |].
      * cbn [tpc wcur PR setpm Lin.setp pm]. rewrite Lin.upd_same. reflexivity.
      * intros u Hu. cbn [setpm Lin.setp pm]. apply Lin.upd_other. exact Hu.
    + exists (setpm a t (Called _ _ ODeq)), []. split; [cbn [Lin.runl]; rewrite Hpr; reflexivity|].
      apply (Sim_upd s aq aq a _ t); [exact HS|exact Hq| |].
      * cbn [tpc wcur PR setpm Lin.setp pm]. rewrite Lin.upd_same. reflexivity.
      * intros u Hu. cbn [setpm Lin.setp pm]. apply Lin.upd_other. exact Hu.
  - (* E_Mb *)
    destruct (BUF s t); [|discriminate]. inversion Et; subst m' ts' r. apply Hquiet; [exact Hpr|reflexivity|apply gupd_char].
  - (* E_Xchg: linearisation point of the enqueue *)
    destruct (BUF s t); [|discriminate]. inversion Et; subst m' ts' r. rewrite gupd_char; cbn [ev_of is0 andb negb]; cbv beta iota.
    exists {| sig := aq ++ [n]; pm := Lin.upd _ _ (pm _ _ _ a) t (Done _ _ (OEnq n) (match aq with [] => 0 | _ => 1 end)) |},
           [(t, OEnq n, match aq with [] => 0 | _ => 1 end)].
    split; [cbn [Lin.runl]; rewrite Hpr, Hq; reflexivity|].
    apply (Sim_upd s aq _ a _ t); [exact HS|reflexivity| |intros u Hu; apply Lin.upd_other; exact Hu].
    cbn [tpc wcur PR pm]. rewrite Lin.upd_same. change (smem wloc wprog s LTail) with (M s LTail).
    rewrite (tail_vhead_iff s aq HI). destruct aq; reflexivity.
  - (* E_Store *)
    inversion Et; subst m' ts' r.
    assert (Ht : t <> 0%nat).
    { intros ->. destruct (I_role0 _ _ HI) as [R _]. unfold PC in R. rewrite Etp in R. exact R. }
    assert (E1 : ev_of (Some (Ev wloc t (AStore wloc (next_of old) n) 0)) = []).
    { destruct t as [|t']; [congruence|]. cbn [ev_of is0 andb]. destruct (next_of old); reflexivity. }
    assert (E2 : gupd aq (Some (Ev wloc t (AStore wloc (next_of old) n) 0)) = aq).
    { rewrite gupd_char. destruct t as [|t']; [congruence|]. cbn [is0 andb]. destruct (next_of old); reflexivity. }
    rewrite E1, E2. exists a, []. split; [reflexivity|].
    apply (Sim_upd s aq aq a a t); [exact HS|exact Hq| |intros u _; reflexivity].
    cbn [tpc wcur PR]. exists n. exact Hpr.
  - (* E_Ret *)
    inversion Et; subst m' ts' r. rewrite gupd_char; cbn [ev_of is0 andb negb]; cbv beta iota. destruct Hpr as [n Hpm].
    exists (setpm a t (Idle _ _)), []. split; [cbn [Lin.runl]; rewrite Hpm; destruct (N.eq_dec rb rb); [reflexivity|contradiction]|].
    apply (Sim_upd s aq aq a _ t); [exact HS|exact Hq| |].
    + cbn [tpc wcur PR setpm Lin.setp pm]. apply Lin.upd_same.
    + intros u Hu. cbn [setpm Lin.setp pm]. apply Lin.upd_other. exact Hu.
  - (* D_Empty1 *)
    inversion Et; subst m' ts' r.
    assert (E1 : forall v, ev_of (Some (Ev wloc t (ALoad wloc LHead) v)) = []) by (intros v; destruct t; reflexivity).
    assert (E2 : forall v, gupd aq (Some (Ev wloc t (ALoad wloc LHead) v)) = aq) by (intros v; destruct t; reflexivity).
    match goal with |- context [Ev wloc t (ALoad wloc LHead) ?v] => set (rv := v) end.
    destruct (rv =? 0); apply Hquiet; try apply E1; try apply E2; exact Hpr.
  - (* D_Empty2: tail load; the sentinel means empty *)
    inversion Et; subst m' ts' r.
    assert (Ht : t = 0%nat).
    { destruct (Nat.eq_dec t 0) as [E|E]; [exact E|]. destruct (Hrole E). }
    subst t. change (TH s 0) with (sthr wloc wprog s 0%nat) in Etp. unfold TH in Hdq. rewrite Etp in Hdq. cbn [wcur] in Hdq.
    destruct Hdq as (_ & Etl & _ & Hb). rewrite Hb. cbn [buf_lookup]. change (smem wloc wprog s LTail) with (M s LTail).
    rewrite gupd_char; cbn [ev_of is0 andb negb]; cbv beta iota. pose proof (tail_vhead_iff s aq HI) as Hv.
    destruct (M s LTail =? vhead) eqn:Ev.
    + destruct aq as [|x q']; [|discriminate].
      exists {| sig := []; pm := Lin.upd _ _ (pm _ _ _ a) 0%nat (Done _ _ ODeq 0) |}, [(0%nat, ODeq, 0)].
      split; [cbn [Lin.runl]; rewrite Hpr, Hq; reflexivity|].
      apply (Sim_upd s [] _ a _ 0%nat); [exact HS|reflexivity| |intros u Hu; apply Lin.upd_other; exact Hu].
      cbn [tpc wcur PR pm]. apply Lin.upd_same.
    + exists a, []. split; [reflexivity|].
      apply (Sim_upd s aq aq a a 0%nat); [exact HS|exact Hq|exact Hpr|intros u _; reflexivity].
  - (* D_Sync0 *)
    inversion Et; subst m' ts' r.
    assert (E1 : forall v, ev_of (Some (Ev wloc t (ALoad wloc LHead) v)) = []) by (intros v; destruct t; reflexivity).
    assert (E2 : forall v, gupd aq (Some (Ev wloc t (ALoad wloc LHead) v)) = aq) by (intros v; destruct t; reflexivity).
    match goal with |- context [Ev wloc t (ALoad wloc LHead) ?v] => set (rv := v) end.
    destruct (rv =? 0); apply Hquiet; try apply E1; try apply E2; exact Hpr.
  - (* D_Wait0 *)
    destruct (Nat.leb adapt (S att)); inversion Et; subst m' ts' r; apply Hquiet; try reflexivity; try apply gupd_char; exact Hpr.
  - (* D_LoadNext *)
    inversion Et; subst m' ts' r.
    assert (E1 : forall v, ev_of (Some (Ev wloc t (ALoad wloc (LNext node)) v)) = []) by (intros v; destruct t; reflexivity).
    assert (E2 : forall v, gupd aq (Some (Ev wloc t (ALoad wloc (LNext node)) v)) = aq) by (intros v; destruct t; reflexivity).
    match goal with |- context [Ev wloc t (ALoad wloc (LNext node)) ?v] => set (rv := v) end.
    destruct (rv =? 0); apply Hquiet; try apply E1; try apply E2; exact Hpr.
  - (* D_InitHead: head := 0, not a linearisation point *)
    inversion Et; subst m' ts' r.
    assert (E1 : ev_of (Some (Ev wloc t (AStore wloc LHead 0) 0)) = []) by (destruct t; reflexivity).
    assert (E2 : gupd aq (Some (Ev wloc t (AStore wloc LHead 0) 0)) = aq) by (destruct t; reflexivity).
    apply Hquiet; [exact Hpr|exact E1|exact E2].
  - (* D_Cas: success takes the last node *)
    destruct (BUF s t) eqn:Eb; [|discriminate]. inversion Et; subst m' ts' r.
    assert (Ht : t = 0%nat).
    { destruct (Nat.eq_dec t 0) as [E|E]; [exact E|]. destruct (Hrole E). }
    subst t. change (TH s 0) with (sthr wloc wprog s 0%nat) in Etp. unfold TH in Hdq. rewrite Etp in Hdq. cbn [wcur] in Hdq.
    destruct Hdq as (rest & Eaq & _). change (smem wloc wprog s LTail) with (M s LTail).
    rewrite gupd_char; cbn [ev_of is0 andb negb]; cbv beta iota. destruct (M s LTail =? node) eqn:Ec.
    + exists {| sig := rest; pm := Lin.upd _ _ (pm _ _ _ a) 0%nat (Done _ _ ODeq node) |}, [(0%nat, ODeq, node)].
      split; [cbn [Lin.runl]; rewrite Hpr, Hq, Eaq; reflexivity|].
      apply (Sim_upd s aq _ a _ 0%nat); [exact HS|rewrite Eaq; reflexivity| |intros u Hu; apply Lin.upd_other; exact Hu].
      cbn [tpc wcur PR pm]. apply Lin.upd_same.
    + exists a, []. split; [reflexivity|].
      apply (Sim_upd s aq aq a a 0%nat); [exact HS|exact Hq|exact Hpr|intros u _; reflexivity].
  - (* D_Sync1 *)
    inversion Et; subst m' ts' r.
    assert (E1 : forall v, ev_of (Some (Ev wloc t (ALoad wloc (LNext node)) v)) = []) by (intros v; destruct t; reflexivity).
    assert (E2 : forall v, gupd aq (Some (Ev wloc t (ALoad wloc (LNext node)) v)) = aq) by (intros v; destruct t; reflexivity).
    match goal with |- context [Ev wloc t (ALoad wloc (LNext node)) ?v] => set (rv := v) end.
    destruct (rv =? 0); apply Hquiet; try apply E1; try apply E2; exact Hpr.
  - (* D_Wait1 *)
    destruct (Nat.leb adapt (S att)); inversion Et; subst m' ts' r; apply Hquiet; try reflexivity; try apply gupd_char; exact Hpr.
  - (* D_StoreHead: the head store takes the first node *)
    inversion Et; subst m' ts' r.
    assert (Ht : t = 0%nat).
    { destruct (Nat.eq_dec t 0) as [E|E]; [exact E|]. destruct (Hrole E). }
    subst t. change (TH s 0) with (sthr wloc wprog s 0%nat) in Etp. unfold TH in Hdq. rewrite Etp in Hdq. cbn [wcur] in Hdq.
    destruct Hdq as (rest & Eaq & _ & _ & Hnx & _). rewrite gupd_char; cbn [ev_of is0 andb negb]; cbv beta iota.
    assert (Enz : (nx =? 0) = false) by (apply N.eqb_neq; lia). rewrite Enz. cbn [negb].
    exists {| sig := nx :: rest; pm := Lin.upd _ _ (pm _ _ _ a) 0%nat (Done _ _ ODeq node) |}, [(0%nat, ODeq, node)].
    split; [cbn [Lin.runl]; rewrite Hpr, Hq, Eaq; reflexivity|].
    apply (Sim_upd s aq _ a _ 0%nat); [exact HS|rewrite Eaq; reflexivity| |intros u Hu; apply Lin.upd_other; exact Hu].
    cbn [tpc wcur PR pm]. apply Lin.upd_same.
  - (* D_Mb *)
    destruct (BUF s t); [|discriminate]. inversion Et; subst m' ts' r. apply Hquiet; [exact Hpr|reflexivity|apply gupd_char].
  - (* D_Ret *)
    inversion Et; subst m' ts' r. rewrite gupd_char; cbn [ev_of is0 andb negb]; cbv beta iota.
    exists (setpm a t (Idle _ _)), []. split; [cbn [Lin.runl]; rewrite Hpr; destruct (N.eq_dec rr rr); [reflexivity|contradiction]|].
    apply (Sim_upd s aq aq a _ t); [exact HS|exact Hq| |].
    + cbn [tpc wcur PR setpm Lin.setp pm]. apply Lin.upd_same.
    + intros u Hu. cbn [setpm Lin.setp pm]. apply Lin.upd_other. exact Hu.
Qed.

(* every schedule: the history with its linearisation points is accepted by the FIFO automaton *)
Theorem wfcq_accepted : forall cs s aq a, Inv s aq -> Sim s aq a -> exists a' l, runl a (gtrace cs (s, aq)) = Some (a', l).
Proof.
  intros cs. induction cs as [|c cs IH]; intros s aq a HI HS; cbn [gtrace fst].
  - exists a, []. reflexivity.
  - destruct (sim_step s aq a c HI HS) as (a1 & l1 & E1 & HS1).
    pose proof (Inv_gexec c s aq HI) as HI1.
    destruct (gexec c (s, aq)) as [s1 aq1] eqn:Eg. cbn [fst snd] in *.
    destruct (IH s1 aq1 a1 HI1 HS1) as (a2 & l2 & E2). exists a2, (l1 ++ l2).
    eapply Lin.runl_app_some; eassumption.
Qed.

Section INIT.
Variable threads : nat -> list wop.
Hypothesis H0 : only_deq (threads 0%nat).
Hypothesis Hen : forall t, t <> 0%nat -> only_enq (threads t).
Hypothesis Hge : forall t n, In n (enqs (threads t)) -> 2 <= n.
Hypothesis Hdisj : forall t u n, In n (enqs (threads t)) -> In n (enqs (threads u)) -> t = u.
Hypothesis Hnodup : forall t, NoDup (enqs (threads t)).

Definition a0 : ast := {| sig := []; pm := fun _ => Idle _ _ |}.
Lemma Sim_init : Sim (init_state threads) [] a0.
Proof. constructor; [reflexivity|intros t; reflexivity]. Qed.

(* any number of enqueuers, one dequeuer, any operation lists over fresh nodes, every schedule and flush order: the history is
   accepted by the FIFO automaton; hence the operations in linearisation order are a legal FIFO history (nothing lost,
   duplicated or reordered; enqueue's "was non-empty" answer and the empty answer of dequeue agree with that order) which
   agrees with every thread's own sequence of calls and results *)
Theorem wfcq_linearizable : forall cs, exists a' L,
  runl a0 (gtrace cs (init_state threads, [])) = Some (a', L) /\
  Lin.legal wop N (list N) wspec [] L /\
  (forall t, Lin.tops wop N t L = Lin.hcomp wop N t None (gtrace cs (init_state threads, [])) ++ Lin.pre wop N (pm _ _ _ a' t)).
Proof.
  intros cs. destruct (wfcq_accepted cs _ _ a0 (Inv_init threads H0 Hen Hge Hdisj Hnodup) Sim_init) as (a' & L & E).
  exists a', L. split; [exact E|]. destruct (Lin.accepted_implies_hw wop N (list N) wspec N.eq_dec [] _ a' L E) as (A & B & _).
  split; assumption.
Qed.
End INIT.
Print Assumptions wfcq_linearizable.
