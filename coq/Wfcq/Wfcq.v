(* scratch: wfcqueue enqueue / blocking dequeue over the generic TSO machine (RMW needs an empty buffer) *)
From Coq Require Import List Arith NArith Bool Lia.
Import ListNotations.
Require Import Urcu.Base.MachE.
Local Open Scope N_scope.

Inductive wloc := LHead | LTail | LNext (n : N).
Definition wloc_eqb (a b : wloc) : bool :=
  match a, b with LHead, LHead | LTail, LTail => true | LNext x, LNext y => N.eqb x y | _, _ => false end.
Lemma wloc_eqb_spec a b : reflect (a = b) (wloc_eqb a b).
Proof. destruct a as [| |n], b as [| |m]; cbn; try (constructor; congruence).
  destruct (N.eqb_spec n m); constructor; congruence. Qed.

Definition vhead : N := 1.                       (* &head->node ; 0 = NULL ; nodes >= 2 *)
Definition next_of (v : N) : wloc := if v =? 1 then LHead else LNext v.
Definition adapt : nat := 10.

Inductive wop := OEnq (n : N) | ODeq.
Inductive wpc :=
| W_Idle
| E_Mb (n : N) | E_Xchg (n : N) | E_Store (n old : N) | E_Ret (b : N)
| D_Empty1 | D_Empty2 | D_Sync0 (att : nat) | D_Wait0 (att : nat)
| D_LoadNext (node : N) | D_InitHead (node : N) | D_Cas (node : N)
| D_Sync1 (node : N) (att : nat) | D_Wait1 (node : N) (att : nat)
| D_StoreHead (node next : N) | D_Mb (node : N) | D_Ret (r : N).
Record wst := { wcur : wpc; wtodo : list wop }.

Definition wact (s : wst) : act wloc :=
  match wcur s with
  | W_Idle => match wtodo s with [] => ADone _ | OEnq n :: _ => ACall _ 0%nat n | ODeq :: _ => ACall _ 1%nat 0 end
  | E_Mb _ => AFence _
  | E_Xchg n => AXchg _ LTail n
  | E_Store n old => AStore _ (next_of old) n
  | E_Ret b => ARet _ 0%nat b
  | D_Empty1 => ALoad _ LHead
  | D_Empty2 => ALoad _ LTail
  | D_Sync0 _ => ALoad _ LHead
  | D_Wait0 att => if Nat.leb adapt (S att) then ASleep _ else ARelax _
  | D_LoadNext node => ALoad _ (LNext node)
  | D_InitHead _ => AStore _ LHead 0
  | D_Cas node => ACas _ LTail node vhead
  | D_Sync1 node _ => ALoad _ (LNext node)
  | D_Wait1 _ att => if Nat.leb adapt (S att) then ASleep _ else ARelax _
  | D_StoreHead _ next => AStore _ LHead next
  | D_Mb _ => AFence _
  | D_Ret r => ARet _ 1%nat r
  end.
Definition bump (att : nat) : nat := if Nat.leb adapt (S att) then 0%nat else S att.
Definition wnext (s : wst) (r : N) : wst :=
  let go p := {| wcur := p; wtodo := wtodo s |} in
  match wcur s with
  | W_Idle => match wtodo s with
              | [] => s
              | OEnq n :: rest => {| wcur := E_Mb n; wtodo := rest |}
              | ODeq :: rest => {| wcur := D_Empty1; wtodo := rest |}
              end
  | E_Mb n => go (E_Xchg n)
  | E_Xchg n => go (E_Store n r)
  | E_Store n old => go (E_Ret (if old =? vhead then 0 else 1))
  | E_Ret _ => go W_Idle
  | D_Empty1 => if r =? 0 then go D_Empty2 else go (D_Sync0 0)
  | D_Empty2 => if r =? vhead then go (D_Ret 0) else go (D_Sync0 0)
  | D_Sync0 att => if r =? 0 then go (D_Wait0 att) else go (D_LoadNext r)
  | D_Wait0 att => go (D_Sync0 (bump att))
  | D_LoadNext node => if r =? 0 then go (D_InitHead node) else go (D_StoreHead node r)
  | D_InitHead node => go (D_Cas node)
  | D_Cas node => if r =? node then go (D_Mb node) else go (D_Sync1 node 0)
  | D_Sync1 node att => if r =? 0 then go (D_Wait1 node att) else go (D_StoreHead node r)
  | D_Wait1 node att => go (D_Sync1 node (bump att))
  | D_StoreHead node _ => go (D_Mb node)
  | D_Mb node => go (D_Ret node)
  | D_Ret _ => go W_Idle
  end.
Definition wprog : prog wloc := {| pst := wst; pact := wact; pnext := wnext |}.

Notation st9 := (state wloc wprog).
Definition M (s : st9) := smem _ _ s.
Definition TH (s : st9) (t : nat) : tstate wloc wprog := sthr _ _ s t.
Definition PC (s : st9) t : wpc := wcur (tpc _ _ (TH s t)).
Definition TODO (s : st9) t : list wop := wtodo (tpc _ _ (TH s t)).
Definition BUF (s : st9) t := tbuf _ _ (TH s t).

(* ghost abstract queue *)
Definition gupd (aq : list N) (e : option (event wloc)) : list N :=
  match e with
  | Some (Ev _ _ (AXchg _ LTail v) _) => aq ++ [v]
  | Some (Ev _ O (AStore _ LHead v) _) => if v =? 0 then aq else tl aq
  | Some (Ev _ O (ACas _ LTail e' _) r) => if r =? e' then tl aq else aq
  | _ => aq
  end.
Definition gexec (c : choice) (g : st9 * list N) : st9 * list N :=
  let '(s', e) := exec wloc wloc_eqb wprog c (fst g) in (s', gupd (snd g) e).
