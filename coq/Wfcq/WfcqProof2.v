From Coq Require Import List Arith NArith Bool Lia.
Import ListNotations.
Require Import Urcu.Base.MachE Urcu.Wfcq.Wfcq Urcu.Wfcq.WfcqInv Urcu.Wfcq.WfcqProof1.
Local Open Scope N_scope.

Definition witT (ts : tstate wloc wprog) (a b : N) : Prop :=
  wcur (tpc _ _ ts) = E_Store b a \/ In (next_of a, b) (tbuf _ _ ts).
Definition futT (ts : tstate wloc wprog) : list N :=
  match wcur (tpc _ _ ts) with E_Mb n | E_Xchg n => [n] | _ => [] end ++ enqs (wtodo (tpc _ _ ts)).
Lemma wit_witT s t a b : wit s t a b <-> t <> 0%nat /\ witT (TH s t) a b.
Proof. reflexivity. Qed.
Lemma future_futT s t : future s t = futT (TH s t).
Proof. reflexivity. Qed.

(* an enqueuer thread changes its own pc / buffer without changing its witnesses or its future *)
Lemma Inv_enq_upd (s : st9) aq t (ts' : tstate wloc wprog) :
  t <> 0%nat ->
  (forall a b, witT ts' a b <-> witT (TH s t) a b) ->
  futT ts' = future s t ->
  (is_enq_pc (wcur (tpc _ _ ts')) /\ only_enq (wtodo (tpc _ _ ts'))) ->
  ((length (tbuf _ _ ts') <= 1)%nat /\ match wcur (tpc _ _ ts') with E_Xchg _ | E_Store _ _ => tbuf _ _ ts' = [] | _ => True end) ->
  (forall l v, In (l, v) (tbuf _ _ ts') -> exists a, a <> 0 /\ l = next_of a) ->
  Inv s aq -> Inv (mkst (smem _ _ s) (tup (sthr _ _ s) t ts')) aq.
Proof.
  intros Ht Hw Hfut Hrole Hlen Hbuf HI. set (s' := mkst _ _).
  assert (HT : forall u, u <> t -> TH s' u = TH s u) by (intros u Hne; unfold s'; apply TH_other; exact Hne).
  assert (HTt : TH s' t = ts') by (unfold s'; apply TH_same).
  assert (H0 : TH s' 0 = TH s 0) by (apply HT; auto).
  apply (Inv_frame s s'); try exact HI.
  - reflexivity.
  - intros u a b. rewrite !wit_witT. destruct (Nat.eq_dec u t) as [->|Hne]; [rewrite HTt, Hw; tauto|rewrite HT by exact Hne; tauto].
  - unfold BUF. rewrite H0. reflexivity.
  - intros u. rewrite !future_futT. destruct (Nat.eq_dec u t) as [->|Hne]; [rewrite HTt; exact Hfut|rewrite HT by exact Hne; reflexivity].
  - unfold PC, TODO. rewrite H0. apply (I_role0 _ _ HI).
  - intros u Hu. unfold PC, TODO. destruct (Nat.eq_dec u t) as [->|Hne]; [rewrite HTt; exact Hrole|rewrite HT by exact Hne; apply (I_role _ _ HI u Hu)].
  - intros u Hu. unfold PC, BUF. destruct (Nat.eq_dec u t) as [->|Hne]; [rewrite HTt; exact Hlen|rewrite HT by exact Hne; apply (I_len _ _ HI u Hu)].
  - intros u l v Hu. unfold BUF. destruct (Nat.eq_dec u t) as [->|Hne]; [rewrite HTt; apply Hbuf|rewrite HT by exact Hne; apply (I_buf _ _ HI u l v Hu)].
  - intros b Hb. unfold PC. rewrite H0. apply (I_ph _ _ HI b Hb).
  - apply (fr_dq_inv s s').
    + reflexivity.
    + intros u a b. rewrite !wit_witT. destruct (Nat.eq_dec u t) as [->|Hne]; [rewrite HTt, Hw; tauto|rewrite HT by exact Hne; tauto].
    + unfold BUF. rewrite H0. reflexivity.
    + unfold PC. rewrite H0. reflexivity.
    + apply (I_dq _ _ HI).
Qed.

(* view of a location other than the one written *)
Lemma next_of_inj a b : a <> 0 -> b <> 0 -> next_of a = next_of b -> a = b.
Proof.
  unfold next_of. intros Ha Hb. destruct (N.eqb_spec a 1), (N.eqb_spec b 1); intros E; try congruence; inversion E; auto.
Qed.

Lemma Inv_flush_enq (s : st9) aq t l v b' :
  t <> 0%nat -> BUF s t = (l, v) :: b' -> Inv s aq ->
  Inv (mkst (upd wloc wloc_eqb (smem _ _ s) l v) (tup (sthr _ _ s) t (mkts (tpc _ _ (TH s t)) b'))) aq.
Proof.
  intros Ht Eb HI. pose proof HI as [A1 A2 A3 A4 A5 A6 A7 A8 A9 A10 A11 A12].
  destruct (A7 t Ht) as [Hlen Hpc]. rewrite Eb in Hlen. cbn in Hlen. assert (b' = []) by (destruct b'; [reflexivity|cbn in Hlen; lia]). subst b'.
  destruct (A8 t l v Ht) as (a & Ha0 & ->); [rewrite Eb; left; reflexivity|].
  assert (Hwt : wit s t a v) by (split; [exact Ht|right; rewrite Eb; left; reflexivity]).
  destruct (A5 t a v Hwt) as (Av0 & Av2 & _ & Auniq).
  assert (HnoPS : forall x y, PC s t <> E_Store x y).
  { intros x y E. rewrite E in Hpc. rewrite Eb in Hpc. discriminate. }
  set (s' := mkst _ _).
  assert (HTt : TH s' t = mkts (tpc _ _ (TH s t)) []) by (unfold s'; apply TH_same).
  assert (HT : forall u, u <> t -> TH s' u = TH s u) by (intros u Hne; unfold s'; apply TH_other; exact Hne).
  assert (H0 : TH s' 0 = TH s 0) by (apply HT; auto).
  assert (HB0 : BUF s' 0 = BUF s 0) by (unfold BUF; rewrite H0; reflexivity).
  assert (HPC0 : PC s' 0 = PC s 0) by (unfold PC; rewrite H0; reflexivity).
  assert (HMa : M s' (next_of a) = v) by (unfold s', M; cbn; apply (upd_same wloc wloc_eqb wloc_eqb_spec)).
  assert (HMo : forall l', l' <> next_of a -> M s' l' = M s l').
  { intros l' Hne. unfold s', M; cbn. apply (upd_other wloc wloc_eqb wloc_eqb_spec). congruence. }
  assert (HMt : M s' LTail = M s LTail) by (apply HMo; unfold next_of; destruct (a =? 1); discriminate).
  (* D's buffer is empty if the flushed link starts at the head *)
  assert (Hph : a = 1 -> BUF s 0 = [] /\ dq_normal (PC s 0)).
  { intros ->. destruct (A6 v) as [N1 N2]; [exists t; exact Hwt|]. split; assumption. }
  assert (Hva : view s' a = v).
  { unfold view. destruct (N.eqb_spec a 1) as [->|Hne].
    - unfold hv. rewrite HB0. destruct (Hph eq_refl) as [-> _]. exact HMa.
    - rewrite <- HMa. unfold next_of. destruct (N.eqb_spec a 1); [contradiction|reflexivity]. }
  assert (Hvo : forall x, x <> a -> x <> 0 -> view s' x = view s x).
  { intros x Hx Hx0. unfold view, hv. rewrite HB0. destruct (N.eqb_spec x 1) as [->|Hne].
    - destruct (BUF s 0); [|reflexivity]. apply HMo. intros E. apply Hx. symmetry. apply (next_of_inj a 1 Ha0 ltac:(lia)). rewrite <- E. reflexivity.
    - apply HMo. intros E. apply Hx. symmetry. apply (next_of_inj a x Ha0 Hx0). rewrite <- E. unfold next_of. destruct (N.eqb_spec x 1); [contradiction|reflexivity]. }
  assert (HW1 : forall u x y, wit s' u x y -> wit s u x y /\ u <> t).
  { intros u x y. rewrite !wit_witT. destruct (Nat.eq_dec u t) as [->|Hne].
    - rewrite HTt. unfold witT; cbn. intros [_ [E|[]]]. exfalso. apply (HnoPS y x). exact E.
    - rewrite HT by exact Hne. tauto. }
  assert (HW2 : forall u x y, wit s u x y -> u <> t -> wit s' u x y).
  { intros u x y Hw Hne. rewrite wit_witT in *. rewrite HT by exact Hne. exact Hw. }
  assert (HWt : forall x y, wit s t x y -> x = a /\ y = v).
  { intros x y Hw. destruct (A5 t x y Hw) as (_ & _ & Hx0 & _). destruct Hw as [_ [E|Hin]]; [destruct (HnoPS y x E)|].
    rewrite Eb in Hin. destruct Hin as [E|[]]. inversion E as [[E1 E2]].
    split; [|reflexivity]. symmetry. apply (next_of_inj a x Ha0 Hx0). exact E1. }
  assert (HP1 : forall x y, pend s' x y -> pend s x y /\ x <> a).
  { intros x y [u Hu]. destruct (HW1 u x y Hu) as [Hu' Hne]. split; [exists u; exact Hu'|].
    intros ->. destruct (Auniq u y Hu') as [E _]. contradiction. }
  assert (HP2 : forall x y, pend s x y -> x <> a -> pend s' x y).
  { intros x y [u Hu] Hx. exists u. apply HW2; [exact Hu|]. intros ->. destruct (HWt x y Hu) as [E _]. contradiction. }
  assert (HN : forall x b, nxt s x b -> x <> 0 -> nxt s' x b).
  { intros x b [Hb [Hm|[Hm Hp]]] Hx0; (split; [exact Hb|]).
    - destruct (N.eq_dec x a) as [->|Hne]; [rewrite Av0 in Hm; congruence|]. left. rewrite Hvo by assumption. exact Hm.
    - destruct (N.eq_dec x a) as [->|Hne].
      + left. destruct Hp as [u Hu]. destruct (Auniq u b Hu) as [_ ->]. exact Hva.
      + right. split; [rewrite Hvo by assumption; exact Hm|apply HP2; assumption]. }
  assert (HC : forall l x, x <> 0 -> chain s x l -> chain s' x l).
  { induction l as [|y l IH]; intros x Hx Hc; cbn in *; [exact I|]. destruct Hc as (Hn & Hy & Hc).
    split; [apply HN; assumption|]. split; [exact Hy|]. apply IH; [lia|exact Hc]. }
  assert (HTm : forall x, x <> 0 -> terminal s x -> terminal s' x).
  { intros x Hx0 [T1 T2]. assert (x <> a) by (intros ->; apply (T2 v); exists t; exact Hwt).
    split; [rewrite Hvo by assumption; exact T1|]. intros b Hb. destruct (HP1 x b Hb) as [Hb' _]. apply (T2 b Hb'). }
  assert (HF : forall u, future s' u = future s u).
  { intros u. rewrite !future_futT. destruct (Nat.eq_dec u t) as [->|Hne]; [rewrite HTt; reflexivity|rewrite HT by exact Hne; reflexivity]. }
  assert (Htail0 : M s LTail <> 0).
  { destruct A3 as [Aq _]. unfold dq_inv in A4. destruct (PC s 0); try (destruct A4 as (_ & E & _); rewrite E; destruct aq as [|q0 aq'] using rev_ind; [cbn; lia|rewrite last_last; rewrite Forall_app in Aq; destruct Aq as [_ Aq]; inversion Aq; lia]);
    destruct A4 as (rest & Eaq & A4); subst aq.
    all: try (destruct A4 as (_ & _ & _ & E & _); rewrite E; inversion Aq as [|? ? Hn Hr]; destruct rest as [|q0 r'] using rev_ind; [cbn; lia|rewrite last_last; rewrite Forall_app in Hr; destruct Hr as [_ Hr]; inversion Hr; lia]).
    destruct A4 as (_ & _ & Hnx & _ & E & _). rewrite E. inversion Aq as [|? ? _ Hr]. inversion Hr as [|? ? _ Hr'].
    destruct rest as [|q0 r'] using rev_ind; [cbn; lia|rewrite last_last; rewrite Forall_app in Hr'; destruct Hr' as [_ Hr']; inversion Hr'; lia]. }
  constructor.
  - unfold PC, TODO. rewrite H0. exact A1.
  - intros u Hu. unfold PC, TODO. destruct (Nat.eq_dec u t) as [->|Hne]; [rewrite HTt; cbn; apply (A2 t Ht)|rewrite HT by exact Hne; apply (A2 u Hu)].
  - exact A3.
  - (* dq_inv *)
    unfold dq_inv in *. rewrite HPC0, HB0.
    assert (Hhv : a <> 1 -> hv s' = hv s) by (intros Hne; change (view s' 1 = view s 1); apply Hvo; [congruence|lia]).
    destruct (PC s 0) eqn:Epc0;
      try (destruct A4 as (C1 & C2 & C3 & C4); rewrite HMt; split; [apply HC; [lia|exact C1]|]; split; [exact C2|]; split; [apply HTm; [exact Htail0|exact C3]|exact C4]).
    all: destruct A4 as (rest & Eaq & A4); exists rest; split; [exact Eaq|].
    all: assert (Hane : a <> 1) by (intros ->; destruct (Hph eq_refl) as [_ Hn]; try rewrite Epc0 in Hn; exact Hn).
    all: rewrite (Hhv Hane), HMt.
    + destruct A4 as (B1 & B2 & B3 & B4 & B5). split; [exact B1|]. split; [exact B2|]. split; [apply HC; [subst aq; destruct A3 as [Aq _]; inversion Aq; lia|exact B3]|]. split; [exact B4|apply HTm; [exact Htail0|exact B5]].
    + destruct A4 as (B1 & B2 & B3 & B4 & B5). split; [exact B1|]. split; [exact B2|]. split; [apply HC; [subst aq; destruct A3 as [Aq _]; inversion Aq; lia|exact B3]|]. split; [exact B4|apply HTm; [exact Htail0|exact B5]].
    + destruct A4 as (B1 & B2 & B3 & B4 & B5). split; [exact B1|]. split; [exact B2|]. split; [apply HC; [subst aq; destruct A3 as [Aq _]; inversion Aq; lia|exact B3]|]. split; [exact B4|apply HTm; [exact Htail0|exact B5]].
    + destruct A4 as (B1 & B2 & B3 & B4 & B5). split; [exact B1|]. split; [exact B2|]. split; [apply HC; [subst aq; destruct A3 as [Aq _]; inversion Aq; lia|exact B3]|]. split; [exact B4|apply HTm; [exact Htail0|exact B5]].
    + destruct A4 as (B1 & B2 & B3 & B4 & B5). split; [exact B1|]. split; [exact B2|]. split; [apply HC; [subst aq; destruct A3 as [Aq _]; inversion Aq; lia|exact B3]|]. split; [exact B4|apply HTm; [exact Htail0|exact B5]].
    + destruct A4 as (B1 & B2 & B3 & B4 & B5 & B6). split; [exact B1|]. split; [exact B2|]. split; [exact B3|]. split; [apply HC; [lia|exact B4]|]. split; [exact B5|apply HTm; [exact Htail0|exact B6]].
  - intros u x y Hu. destruct (HW1 u x y Hu) as [Hu' Hne]. destruct (A5 u x y Hu') as (P1 & P2 & P3 & P4).
    assert (x <> a) by (intros ->; destruct (Auniq u y Hu') as [E _]; contradiction).
    split; [rewrite Hvo by assumption; exact P1|]. split; [exact P2|]. split; [exact P3|].
    intros w y' Hw. destruct (HW1 w x y' Hw) as [Hw' _]. apply (P4 w y' Hw').
  - intros b Hb. destruct (HP1 1 b Hb) as [Hb' _]. rewrite HPC0, HB0. apply (A6 b Hb').
  - intros u Hu. unfold PC, BUF. destruct (Nat.eq_dec u t) as [->|Hne].
    + rewrite HTt; cbn. split; [lia|]. destruct (wcur (tpc wloc wprog (TH s t))); auto.
    + rewrite HT by exact Hne. apply (A7 u Hu).
  - intros u l v0 Hu. unfold BUF. destruct (Nat.eq_dec u t) as [->|Hne]; [rewrite HTt; cbn; intros []|rewrite HT by exact Hne; apply (A8 u l v0 Hu)].
  - rewrite HB0. exact A9.
  - intros u n. rewrite HF. intros Hn. destruct (A10 u n Hn) as (F1 & F2 & F3 & F4 & F5).
    assert (n <> a) by (intros ->; apply (F4 v); exists t; exact Hwt).
    split; [exact F1|]. split; [rewrite HMo; [exact F2|]|].
    { intros E. apply H. symmetry. apply (next_of_inj a n Ha0 ltac:(lia)). rewrite <- E. unfold next_of. destruct (N.eqb_spec n 1); [lia|reflexivity]. }
    split; [exact F3|]. split; [|rewrite HMt; exact F5].
    intros b Hb. destruct (HP1 n b Hb) as [Hb' _]. apply (F4 b Hb').
  - intros u w n. rewrite !HF. apply A11.
  - intros u. rewrite HF. apply A12.
Qed.
