From Coq Require Import List Arith NArith Bool Lia.
Import ListNotations.
Require Import Urcu.Base.MachE Urcu.Wfcq.Wfcq Urcu.Wfcq.WfcqInv Urcu.Wfcq.WfcqProof1 Urcu.Wfcq.WfcqProof2.
Local Open Scope N_scope.

Lemma last_ge2 (l : list N) d : Forall (fun x => 2 <= x) l -> 2 <= d -> 2 <= last l d.
Proof.
  intros Hl Hd. destruct l as [|q0 r'] using rev_ind; [exact Hd|]. rewrite last_last.
  rewrite Forall_app in Hl. destruct Hl as [_ Hl]. inversion Hl; assumption.
Qed.

(* what the invariant says about the tail pointer *)
Lemma tail_facts (s : st9) aq : Inv s aq ->
  terminal s (M s LTail) /\ M s LTail <> 0 /\
  (M s LTail = 1 -> dq_normal (PC s 0) /\ BUF s 0 = [] /\ aq = []).
Proof.
  intros [A1 A2 [Aq And] A4 _ _ _ _ _ _ _ _]. unfold dq_inv in A4.
  assert (L1 : forall l, Forall (fun x => 2 <= x) l -> last l 1 = 1 -> l = []).
  { intros l Hl E. destruct l as [|q0 r'] using rev_ind; [reflexivity|]. rewrite last_last in E.
    rewrite Forall_app in Hl. destruct Hl as [_ Hl]. inversion Hl; lia. }
  assert (L0 : forall l d, Forall (fun x => 2 <= x) l -> d <> 0 -> (d = 1 \/ 2 <= d) -> last l d <> 0 /\ (2 <= d -> last l d <> 1)).
  { intros l d Hl Hd0 Hd. destruct l as [|q0 r'] using rev_ind; [cbn; split; [exact Hd0|lia]|]. rewrite last_last.
    rewrite Forall_app in Hl. destruct Hl as [_ Hl]. inversion Hl; split; lia. }
  destruct (PC s 0) eqn:Epc.
  all: first
    [ (* normal clauses *)
      destruct A4 as (C1 & C2 & C3 & C4); split; [exact C3|]; rewrite C2; split; [apply (L0 aq 1 Aq); lia|];
      intros E; pose proof (L1 aq Aq E) as ->; split; [exact I|]; split;
      [first [exact C4 | destruct C4 as [C4|(v & rest & _ & C4)]; [exact C4|discriminate]] | reflexivity]
    | (* node clauses *)
      destruct A4 as (rest & Eaq & A4); subst aq; inversion Aq as [|? ? Hn Hr]; subst;
      destruct A4 as (_ & _ & _ & E & T); split; [exact T|]; rewrite E;
      match goal with |- last _ ?d <> 0 /\ _ => destruct (L0 rest d Hr) as [P Q]; [lia|lia|split; [exact P|intros E1; destruct (Q Hn E1)]] end
    | (* store-head clause *)
      destruct A4 as (rest & Eaq & A4); subst aq; inversion Aq as [|? ? Hn Hr]; subst;
      destruct A4 as (_ & _ & Hnx & _ & E & T); split; [exact T|]; rewrite E; inversion Hr as [|? ? _ Hr']; subst;
      match goal with |- last _ ?d <> 0 /\ _ => destruct (L0 rest d Hr') as [P Q]; [lia|lia|split; [exact P|intros E1; destruct (Q Hnx E1)]] end ].
Qed.

Lemma NoDup_snoc {A} (l : list A) x : NoDup l -> ~ In x l -> NoDup (l ++ [x]).
Proof.
  induction l as [|y l IH]; intros Hnd Hx; cbn; [constructor; [intros []|constructor]|].
  inversion Hnd; subst. constructor.
  - intros Hin. apply in_app_or in Hin. destruct Hin as [Hin|[E|[]]]; [contradiction|]. subst. apply Hx. left; reflexivity.
  - apply IH; [assumption|]. intros Hin. apply Hx. right; exact Hin.
Qed.

Lemma chain_snoc (s s' : st9) n old : forall l a,
  (forall x b, nxt s x b -> nxt s' x b) ->
  nxt s' old n -> 2 <= n ->
  last l a = old -> chain s a l -> chain s' a (l ++ [n]).
Proof.
  induction l as [|x l IH]; intros a Hm Hn H2 Hl Hc; cbn in *.
  - subst a. split; [exact Hn|]. split; [exact H2|exact I].
  - destruct Hc as (Hx & Hx2 & Hc). split; [apply Hm; exact Hx|]. split; [exact Hx2|].
    apply IH; try assumption. rewrite <- Hl. symmetry. apply last_cons_ge.
Qed.

Lemma Inv_enq_xchg (s : st9) aq t n rest :
  t <> 0%nat -> tpc _ _ (TH s t) = {| wcur := E_Xchg n; wtodo := rest |} -> Inv s aq ->
  Inv (mkst (upd wloc wloc_eqb (smem _ _ s) LTail n)
            (tup (sthr _ _ s) t (mkts {| wcur := E_Store n (M s LTail); wtodo := rest |} []))) (aq ++ [n]).
Proof.
  intros Ht Epc HI. pose proof (tail_facts s aq HI) as ((Tv & Tp) & Tnz & T1).
  pose proof HI as [A1 A2 [Aq And] A4 A5 A6 A7 A8 A9 A10 A11 A12].
  assert (EPC : PC s t = E_Xchg n) by (unfold PC; rewrite Epc; reflexivity).
  destruct (A7 t Ht) as [_ Hb]. rewrite EPC in Hb.
  assert (Hfut : future s t = n :: enqs rest) by (unfold future, TODO; rewrite EPC; unfold TH in Epc |- *; rewrite Epc; reflexivity).
  destruct (A10 t n) as (Hn2 & Hn0 & Hnaq & Hnp & Hnt); [rewrite Hfut; left; reflexivity|].
  set (old := M s LTail) in *. set (s' := mkst _ _).
  assert (HMt : M s' LTail = n) by reflexivity.
  assert (HMh : M s' LHead = M s LHead) by reflexivity.
  assert (HMn : forall a, M s' (LNext a) = M s (LNext a)) by reflexivity.
  assert (HTt : TH s' t = mkts {| wcur := E_Store n old; wtodo := rest |} []) by (unfold s'; apply TH_same).
  assert (HT : forall u, u <> t -> TH s' u = TH s u) by (intros u Hne; unfold s'; apply TH_other; exact Hne).
  assert (H0 : TH s' 0 = TH s 0) by (apply HT; auto).
  assert (HB0 : BUF s' 0 = BUF s 0) by (unfold BUF; rewrite H0; reflexivity).
  assert (HPC0 : PC s' 0 = PC s 0) by (unfold PC; rewrite H0; reflexivity).
  assert (Hhv : hv s' = hv s) by (unfold hv; rewrite HB0, HMh; reflexivity).
  assert (Hview : forall a, view s' a = view s a) by (intros a; unfold view; rewrite Hhv, HMn; reflexivity).
  assert (HnoW : forall x y, ~ wit s t x y).
  { intros x y [_ [E|Hin]]; [rewrite EPC in E; discriminate|rewrite Hb in Hin; destruct Hin]. }
  assert (HW1 : forall u x y, wit s' u x y -> (u = t /\ x = old /\ y = n) \/ (u <> t /\ wit s u x y)).
  { intros u x y. rewrite !wit_witT. destruct (Nat.eq_dec u t) as [->|Hne].
    - rewrite HTt. unfold witT; cbn. intros [_ [E|[]]]. inversion E. left; auto.
    - rewrite HT by exact Hne. intros H. right. split; [exact Hne|exact H]. }
  assert (HW2 : forall u x y, wit s u x y -> wit s' u x y).
  { intros u x y Hw. destruct (Nat.eq_dec u t) as [->|Hne]; [destruct (HnoW x y Hw)|].
    rewrite wit_witT in *. rewrite HT by exact Hne. exact Hw. }
  assert (HWn : wit s' t old n) by (rewrite wit_witT, HTt; split; [exact Ht|left; reflexivity]).
  assert (HN : forall x b, nxt s x b -> nxt s' x b).
  { intros x b [Hb0 [Hm|[Hm [u Hu]]]]; (split; [exact Hb0|]); rewrite Hview; [left; exact Hm|right; split; [exact Hm|exists u; apply HW2; exact Hu]]. }
  assert (HNn : nxt s' old n).
  { split; [lia|]. right. rewrite Hview. split; [exact Tv|exists t; exact HWn]. }
  assert (Htermn : terminal s' n).
  { split.
    - unfold view. destruct (N.eqb_spec n 1); [lia|]. rewrite HMn. exact Hn0.
    - intros b [u Hu]. destruct (HW1 u n b Hu) as [(_ & E & _)|[_ Hu']]; [apply Hnt; symmetry; exact E|apply (Hnp b); exists u; exact Hu']. }
  assert (HFt : future s' t = enqs rest) by (rewrite future_futT, HTt; reflexivity).
  assert (HF : forall u, u <> t -> future s' u = future s u) by (intros u Hne; rewrite !future_futT, HT by exact Hne; reflexivity).
  assert (HFin : forall u m, In m (future s' u) -> In m (future s u) /\ m <> n).
  { intros u m Hm. destruct (Nat.eq_dec u t) as [->|Hne].
    - rewrite HFt in Hm. split; [rewrite Hfut; right; exact Hm|].
      pose proof (A12 t) as Hnd. rewrite Hfut in Hnd. inversion Hnd as [|? ? Hnotin Hnd']. intros E. apply Hnotin. rewrite <- E. exact Hm.
    - rewrite HF in Hm by exact Hne. split; [exact Hm|]. intros ->.
      apply Hne. apply (A11 u t n); [exact Hm|rewrite Hfut; left; reflexivity]. }
  constructor.
  - unfold PC, TODO. rewrite H0. exact A1.
  - intros u Hu. unfold PC, TODO. destruct (Nat.eq_dec u t) as [->|Hne].
    + rewrite HTt; cbn. split; [exact I|]. destruct (A2 t Ht) as [_ Ho]. unfold TODO, TH in Ho. unfold TH in Epc. rewrite Epc in Ho. exact Ho.
    + rewrite HT by exact Hne. apply (A2 u Hu).
  - split; [apply Forall_app; split; [exact Aq|constructor; [exact Hn2|constructor]]|].
    apply NoDup_snoc; assumption.
  - (* dq_inv *)
    unfold dq_inv in *. rewrite HPC0, HB0, Hhv, HMt.
    destruct (PC s 0) eqn:Epc0.
    all: first
      [ destruct A4 as (C1 & C2 & C3 & C4); assert (Hlast : last aq 1 = old) by (symmetry; exact C2);
        split; [apply (chain_snoc s s' n old); assumption|]; split; [rewrite last_last; reflexivity|]; split; [exact Htermn|];
        first [exact C4 | destruct C4 as [C4|(v & r & C4 & C5)]; [left; exact C4|right; exists v, (r ++ [n]); split; [exact C4|rewrite C5; reflexivity]]]
      | destruct A4 as (r & Eaq & B1 & B2 & B3 & B4 & B5); assert (Hlast : last r _ = old) by (symmetry; exact B4); exists (r ++ [n]); split; [rewrite Eaq; reflexivity|];
        split; [exact B1|]; split; [exact B2|]; split; [apply (chain_snoc s s' n old); assumption|]; split; [rewrite last_last; reflexivity|exact Htermn]
      | destruct A4 as (r & Eaq & B1 & B2 & Bx & B3 & B4 & B5); assert (Hlast : last r _ = old) by (symmetry; exact B4); exists (r ++ [n]); split; [rewrite Eaq; reflexivity|];
        split; [exact B1|]; split; [exact B2|]; split; [exact Bx|]; split; [apply (chain_snoc s s' n old); assumption|]; split; [rewrite last_last; reflexivity|exact Htermn] ].
  - intros u x y Hu. rewrite Hview. destruct (HW1 u x y Hu) as [(-> & -> & ->)|[Hne Hu']].
    + split; [exact Tv|]. split; [exact Hn2|]. split; [exact Tnz|].
      intros w y' Hw. destruct (HW1 w old y' Hw) as [(-> & _ & ->)|[_ Hw']]; [auto|]. exfalso. apply (Tp y'). exists w. exact Hw'.
    + destruct (A5 u x y Hu') as (P1 & P2 & P3 & P4). split; [exact P1|]. split; [exact P2|]. split; [exact P3|].
      intros w y' Hw. destruct (HW1 w x y' Hw) as [(-> & -> & ->)|[_ Hw']]; [|apply (P4 w y' Hw')].
      exfalso. apply (Tp y). exists u. exact Hu'.
  - intros b [u Hu]. rewrite HPC0, HB0. destruct (HW1 u 1 b Hu) as [(_ & E & _)|[_ Hu']].
    + destruct (T1 (eq_sym E)) as (N1 & N2 & _). split; assumption.
    + apply (A6 b). exists u. exact Hu'.
  - intros u Hu. unfold PC, BUF. destruct (Nat.eq_dec u t) as [->|Hne]; [rewrite HTt; cbn; split; [lia|reflexivity]|rewrite HT by exact Hne; apply (A7 u Hu)].
  - intros u l v Hu. unfold BUF. destruct (Nat.eq_dec u t) as [->|Hne]; [rewrite HTt; cbn; intros []|rewrite HT by exact Hne; apply (A8 u l v Hu)].
  - rewrite HB0. exact A9.
  - intros u m Hm. destruct (HFin u m Hm) as [Hm' Hmn]. destruct (A10 u m Hm') as (F1 & F2 & F3 & F4 & F5).
    split; [exact F1|]. split; [rewrite HMn; exact F2|]. split.
    + intros Hin. apply in_app_or in Hin. destruct Hin as [Hin|[E|[]]]; [contradiction|congruence].
    + split; [|rewrite HMt; congruence].
      intros b [w Hw]. destruct (HW1 w m b Hw) as [(_ & E & _)|[_ Hw']]; [apply F5; symmetry; exact E|apply (F4 b); exists w; exact Hw'].
  - intros u w m Hu Hw. apply (A11 u w m); [apply (HFin u m Hu)|apply (HFin w m Hw)].
  - intros u. destruct (Nat.eq_dec u t) as [->|Hne].
    + rewrite HFt. pose proof (A12 t) as Hnd. rewrite Hfut in Hnd. inversion Hnd; assumption.
    + rewrite HF by exact Hne. apply A12.
Qed.
