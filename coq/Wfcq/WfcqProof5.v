From Coq Require Import List Arith NArith Bool Lia.
Import ListNotations.
Require Import Urcu.Base.MachE Urcu.Wfcq.Wfcq Urcu.Wfcq.WfcqInv Urcu.Wfcq.WfcqProof1 Urcu.Wfcq.WfcqProof2 Urcu.Wfcq.WfcqProof3 Urcu.Wfcq.WfcqProof4.
Local Open Scope N_scope.

Lemma only_deq_tail o l : only_deq (o :: l) -> only_deq l.
Proof. intros H; inversion H; assumption. Qed.
Lemma only_enq_tail o l : only_enq (o :: l) -> only_enq l.
Proof. intros H; inversion H; assumption. Qed.

(* normal-clause pcs share one clause *)
Lemma dqc_normal_eq s p q aq :
  dq_normal p -> dq_normal q -> (forall n, p <> D_Mb n) -> (forall n, q <> D_Mb n) -> dqc s p aq -> dqc s q aq.
Proof.
  intros Hp Hq Hpm Hqm. destruct p; try destruct Hp; try (exfalso; eapply Hpm; reflexivity);
  destruct q; try destruct Hq; try (exfalso; eapply Hqm; reflexivity); exact (fun x => x).
Qed.

Ltac fin := try exact I; try (intros; exact I).

Lemma Inv_step0 (s : st9) aq : Inv s aq ->
  Inv (fst (gexec (Step 0) (s, aq))) (snd (gexec (Step 0) (s, aq))).
Proof.
  intros HI. unfold gexec, exec; cbn [fst snd]. unfold tstep. change (sthr wloc wprog s 0%nat) with (TH s 0).
  cbn [pact pnext wprog]. fold (BUF s 0).
  destruct (I_role0 _ _ HI) as [R1 R2]. pose proof (I_dq _ _ HI) as Hdq. rewrite dq_inv_dqc in Hdq.
  unfold PC in R1, Hdq. unfold TODO in R2.
  destruct (tpc _ _ (TH s 0)) as [pc todo] eqn:Etp. cbn [wcur wtodo] in *.
  assert (Hph : forall p, dq_normal p -> forall b, pend s 1 b -> dq_normal p) by (intros; assumption).
  unfold wact; cbn [wcur wtodo].
  destruct pc as [|n|n|n old|rb| | |att|att|node|node|node|node att|node att|node nx|node|r]; try destruct R1; cbn [wnext wcur wtodo].
  - (* Idle *)
    destruct todo as [|[n|] rest]; cbn [fst snd gupd].
    + exact HI.
    + inversion R2 as [|? ? Hbad _]. destruct Hbad.
    + apply Inv_deq_pc; try exact HI; cbn [wcur wtodo is_deq_pc dq_normal]; auto; fin; try (apply (only_deq_tail _ _ R2)); try exact Hdq.
  - (* Empty1: load head.next *)
    cbn [fst snd gupd]. set (r := match buf_lookup wloc wloc_eqb (BUF s 0) LHead with Some v => v | None => smem wloc wprog s LHead end).
    destruct (r =? 0); apply Inv_deq_pc; try exact HI; cbn [wcur wtodo is_deq_pc dq_normal]; auto; fin; exact Hdq.
  - (* Empty2: load tail *)
    cbn [fst snd gupd]. set (r := match buf_lookup wloc wloc_eqb (BUF s 0) LTail with Some v => v | None => smem wloc wprog s LTail end).
    destruct (r =? vhead); apply Inv_deq_pc; try exact HI; cbn [wcur wtodo is_deq_pc dq_normal]; auto; fin; exact Hdq.
  - (* Sync0 *)
    cbn [fst snd gupd]. destruct Hdq as (C1 & C2 & C3 & C4). rewrite C4. cbn [buf_lookup].
    change (smem wloc wprog s LHead) with (M s LHead).
    assert (Hhv : hv s = M s LHead) by (unfold hv; rewrite C4; reflexivity).
    destruct (N.eqb_spec (M s LHead) 0) as [E0|Ene].
    + rewrite <- C4. apply Inv_deq_pc; try exact HI; cbn [wcur wtodo is_deq_pc dq_normal]; auto; fin. exact (conj C1 (conj C2 (conj C3 C4))).
    + destruct (dqc_first s aq (M s LHead) HI C1 C2 C3 C4 Hhv Ene) as [D1 D2].
      rewrite <- C4. apply Inv_deq_pc; try exact HI; cbn [wcur wtodo is_deq_pc dq_normal]; auto; fin; try (intros b Hb; destruct (D2 b Hb)).
  - (* Wait0 *)
    destruct (Nat.leb adapt (S att)); cbn [fst snd gupd]; apply Inv_deq_pc; try exact HI; cbn [wcur wtodo is_deq_pc dq_normal]; auto; fin; exact Hdq.
  - (* LoadNext *)
    cbn [fst snd gupd]. destruct Hdq as (rest & Eaq & Hhv & Hb & Hc & Ht & Hterm). rewrite Hb. cbn [buf_lookup].
    change (smem wloc wprog s (LNext node)) with (M s (LNext node)).
    assert (Hnp : forall b, ~ pend s 1 b).
    { intros b Hb1. destruct (I_ph _ _ HI b Hb1) as [Hn _]. unfold PC in Hn. rewrite Etp in Hn. exact Hn. }
    destruct (N.eqb_spec (M s (LNext node)) 0) as [E0|Ene]; rewrite <- Hb; apply Inv_deq_pc; try exact HI; cbn [wcur wtodo is_deq_pc dq_normal]; auto; fin;
      try (intros b Hb1; destruct (Hnp b Hb1)).
    + exists rest. exact (conj Eaq (conj Hhv (conj Hb (conj Hc (conj Ht Hterm))))).
    + destruct (dqc_second s aq node rest _ HI Eaq Hc Ht Hterm eq_refl Ene) as (rest' & Er & H2 & Hc' & Ht').
      exists rest'. subst rest. split; [exact Eaq|]. split; [left; exact Hhv|]. split; [exact Hb|]. split; [exact H2|].
      split; [exact Hc'|]. split; [exact Ht'|exact Hterm].
  - (* InitHead *)
    cbn [fst snd gupd]. try rewrite N.eqb_refl. apply (Inv_deq_inithead s aq node todo Etp HI).
  - (* Cas *)
    destruct (BUF s 0) eqn:Eb; cbn [fst snd gupd]; [|exact HI].
    change (smem wloc wprog s LTail) with (M s LTail).
    destruct (N.eqb_spec (M s LTail) node) as [Eq|Ene].
    + cbn [fst snd]. try rewrite N.eqb_refl. apply (Inv_deq_cas_ok s aq node todo Etp Eb Eq HI).
    + assert (Hnp : forall b, ~ pend s 1 b).
      { intros b Hb1. destruct (I_ph _ _ HI b Hb1) as [Hn _]. unfold PC in Hn. rewrite Etp in Hn. exact Hn. }
      replace (M s LTail =? node) with false by (symmetry; apply N.eqb_neq; exact Ene).
      rewrite <- Eb. apply Inv_deq_pc; try exact HI; cbn [wcur wtodo is_deq_pc dq_normal]; auto; fin;
        try (intros b Hb1; destruct (Hnp b Hb1)).
      destruct Hdq as (rest & E1 & E2 & _ & E4 & E5 & E6). exists rest. exact (conj E1 (conj E2 (conj Eb (conj E4 (conj E5 E6))))).
  - (* Sync1 *)
    cbn [fst snd gupd]. destruct Hdq as (rest & Eaq & Hhv & Hb & Hc & Ht & Hterm). rewrite Hb. cbn [buf_lookup].
    change (smem wloc wprog s (LNext node)) with (M s (LNext node)).
    assert (Hnp : forall b, ~ pend s 1 b).
    { intros b Hb1. destruct (I_ph _ _ HI b Hb1) as [Hn _]. unfold PC in Hn. rewrite Etp in Hn. exact Hn. }
    destruct (N.eqb_spec (M s (LNext node)) 0) as [E0|Ene]; rewrite <- Hb; apply Inv_deq_pc; try exact HI; cbn [wcur wtodo is_deq_pc dq_normal]; auto; fin;
      try (intros b Hb1; destruct (Hnp b Hb1)).
    + exists rest. exact (conj Eaq (conj Hhv (conj Hb (conj Hc (conj Ht Hterm))))).
    + destruct (dqc_second s aq node rest _ HI Eaq Hc Ht Hterm eq_refl Ene) as (rest' & Er & H2 & Hc' & Ht').
      exists rest'. subst rest. split; [exact Eaq|]. split; [right; exact Hhv|]. split; [exact Hb|]. split; [exact H2|].
      split; [exact Hc'|]. split; [exact Ht'|exact Hterm].
  - (* Wait1 *)
    assert (Hnp : forall b, ~ pend s 1 b).
    { intros b Hb1. destruct (I_ph _ _ HI b Hb1) as [Hn _]. unfold PC in Hn. rewrite Etp in Hn. exact Hn. }
    destruct (Nat.leb adapt (S att)); cbn [fst snd gupd]; apply Inv_deq_pc; try exact HI; cbn [wcur wtodo is_deq_pc dq_normal]; auto; fin;
      try (intros b Hb1; destruct (Hnp b Hb1)); try exact Hdq.
  - (* StoreHead *)
    cbn [fst snd gupd]. destruct Hdq as (rest & Eaq & _ & _ & Hnx & _).
    replace (nx =? 0) with false by (symmetry; apply N.eqb_neq; lia).
    apply (Inv_deq_storehead s aq node nx todo Etp HI).
  - (* Mb *)
    destruct (BUF s 0) eqn:Eb; cbn [fst snd gupd]; [|exact HI].
    rewrite <- Eb. apply Inv_deq_pc; try exact HI; cbn [wcur wtodo is_deq_pc dq_normal]; auto; fin.
    destruct Hdq as (C1 & C2 & C3 & [C4|(v & r & C4 & _)]); [|try rewrite Eb in C4; discriminate C4]. try rewrite Eb in C4. exact (conj C1 (conj C2 (conj C3 Eb))).
  - (* Ret *)
    cbn [fst snd gupd]. apply Inv_deq_pc; try exact HI; cbn [wcur wtodo is_deq_pc dq_normal]; auto; fin; try exact Hdq.
Qed.

Lemma Inv_stepE (s : st9) aq t : t <> 0%nat -> Inv s aq ->
  Inv (fst (gexec (Step t) (s, aq))) (snd (gexec (Step t) (s, aq))).
Proof.
  intros Ht HI. destruct t as [|t']; [contradiction|]. set (t := S t') in *.
  unfold gexec, exec; cbn [fst snd]. unfold tstep. change (sthr wloc wprog s t) with (TH s t).
  cbn [pact pnext wprog]. fold (BUF s t).
  destruct (I_role _ _ HI t Ht) as [R1 R2]. unfold PC in R1. unfold TODO in R2.
  destruct (tpc _ _ (TH s t)) as [pc todo] eqn:Etp. cbn [wcur wtodo] in *.
  assert (EPC : PC s t = pc) by (unfold PC; rewrite Etp; reflexivity).
  assert (Efut : future s t = match pc with E_Mb n | E_Xchg n => [n] | _ => [] end ++ enqs todo)
    by (unfold future, TODO; rewrite EPC; unfold TH in Etp |- *; rewrite Etp; reflexivity).
  assert (HWno : forall a b, (forall x y, pc <> E_Store x y) -> witT (TH s t) a b <-> In (next_of a, b) (BUF s t)).
  { intros a b Hno. unfold witT. rewrite Etp. cbn [wcur]. split; [intros [E|H]; [destruct (Hno _ _ E)|exact H]|intros H; right; exact H]. }
  unfold wact; cbn [wcur wtodo].
  destruct pc as [|n|n|n old|rb| | |att|att|node|node|node|node att|node att|node nx|node|r]; try destruct R1; cbn [wnext wcur wtodo].
  - (* Idle *)
    destruct todo as [|[n|] rest]; cbn [fst snd gupd].
    + exact HI.
    + apply Inv_enq_upd; try exact HI; try exact Ht; unfold witT, futT; cbn [wcur wtodo tpc tbuf].
      * intros a b. rewrite (HWno a b) by discriminate. split; [intros [E|H]; [discriminate|exact H]|intros H; right; exact H].
      * rewrite Efut. reflexivity.
      * split; [exact I|apply (only_enq_tail _ _ R2)].
      * split; [apply (I_len _ _ HI t Ht)|exact I].
      * intros l v Hin; apply (I_buf _ _ HI t l v Ht Hin).
    + inversion R2 as [|? ? Hbad _]. destruct Hbad.
  - (* E_Mb *)
    destruct (BUF s t) eqn:Eb; cbn [fst snd gupd]; [|exact HI].
    apply Inv_enq_upd; try exact HI; try exact Ht; unfold witT, futT; cbn [wcur wtodo tpc tbuf].
    + intros a b. rewrite (HWno a b) by discriminate. split; [intros [E|[]]; discriminate|intros []].
    + rewrite Efut. reflexivity.
    + split; [exact I|exact R2].
    + split; [cbn; lia|reflexivity].
    + intros l v [].
  - (* E_Xchg *)
    destruct (BUF s t) eqn:Eb; cbn [fst snd gupd]; [|exact HI].
    apply (Inv_enq_xchg s aq t n todo Ht Etp HI).
  - (* E_Store *)
    cbn [fst snd].
    pose proof (I_len _ _ HI t Ht) as [_ Hb]. rewrite EPC in Hb. rewrite Hb. cbn [app].
    assert (Hold : old <> 0).
    { destruct (I_pend _ _ HI t old n) as (_ & _ & H & _); [split; [exact Ht|left; exact EPC]|exact H]. }
    assert (Hg : forall aq0, gupd aq0 (Some (Ev wloc t (AStore wloc (next_of old) n) 0)) = aq0).
    { intros aq0. unfold gupd, t. destruct (next_of old); reflexivity. }
    rewrite Hg.
    apply Inv_enq_upd; try exact HI; try exact Ht; unfold witT, futT; cbn [wcur wtodo tpc tbuf].
    + intros a b. rewrite Etp. cbn [wcur]. unfold BUF in Hb. rewrite Hb. split.
      * intros [E|[E|[]]]; [discriminate|]. inversion E as [[E1 E2]]. left.
        assert (a = old).
        { destruct (N.eq_dec a 0) as [->|Ha].
          - exfalso. unfold next_of in E1. destruct (N.eqb_spec old 1); cbn in E1; [discriminate|]. inversion E1. congruence.
          - symmetry. apply (next_of_inj old a Hold Ha E1). }
        subst. reflexivity.
      * intros [E|[]]. inversion E. right; left; reflexivity.
    + rewrite Efut. reflexivity.
    + split; [exact I|exact R2].
    + split; [cbn; lia|exact I].
    + intros l v [E|[]]. inversion E. exists old. split; [exact Hold|reflexivity].
  - (* E_Ret *)
    cbn [fst snd gupd].
    apply Inv_enq_upd; try exact HI; try exact Ht; unfold witT, futT; cbn [wcur wtodo tpc tbuf].
    + intros a b. rewrite (HWno a b) by discriminate. split; [intros [E|H]; [discriminate|exact H]|intros H; right; exact H].
    + rewrite Efut. reflexivity.
    + split; [exact I|exact R2].
    + split; [apply (I_len _ _ HI t Ht)|exact I].
    + intros l v Hin; apply (I_buf _ _ HI t l v Ht Hin).
Qed.

Lemma Inv_gexec c s aq : Inv s aq -> Inv (fst (gexec c (s, aq))) (snd (gexec c (s, aq))).
Proof.
  intros HI. destruct c as [t|t].
  - destruct (Nat.eq_dec t 0) as [->|Ht]; [apply Inv_step0|apply Inv_stepE]; assumption.
  - unfold gexec, exec; cbn [fst snd]. change (sthr wloc wprog s t) with (TH s t). fold (BUF s t).
    destruct (BUF s t) as [|[l v] b'] eqn:Eb; cbn [fst snd gupd]; [exact HI|].
    destruct (Nat.eq_dec t 0) as [->|Ht]; [apply (Inv_deq_flush s aq l v b' Eb HI)|apply (Inv_flush_enq s aq t l v b' Ht Eb HI)].
Qed.

Fixpoint grun (cs : list choice) (g : st9 * list N) : st9 * list N :=
  match cs with [] => g | c :: cs' => grun cs' (gexec c g) end.

Theorem wfcq_chain_all_schedules :
  forall cs s aq, Inv s aq -> Inv (fst (grun cs (s, aq))) (snd (grun cs (s, aq))).
Proof.
  induction cs as [|c cs IH]; intros s aq HI; [exact HI|].
  cbn [grun]. pose proof (Inv_gexec c s aq HI) as H1. destruct (gexec c (s, aq)) as [s1 aq1]. apply IH. exact H1.
Qed.
Print Assumptions wfcq_chain_all_schedules.
