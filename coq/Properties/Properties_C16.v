(* C16 - fork(): the call_rcu pause handshake parks every helper with an empty private batch, outside any grace period and unregistered, before the address space is copied; the child's prune of the bp registry keeps exactly the forking thread's slot
   Property theorems only: each is the full statement, closed by `exact`, followed by Print Assumptions. *)
Require Import Coq.Lists.List.
Require Import Coq.Arith.Arith.
Require Import Urcu.Fork.Fork.
Require Import Urcu.BpArena.BpArena.
Require Import Urcu.Fork.ForkRun.
Import ListNotations.

(* for every number of helpers and every schedule of call_rcu calls, helper steps (splice, grace period, invocations, pause, resume) and handler steps from the initial state: whenever the fork step is enabled every helper is PAUSED, unregistered, with an empty private batch; the child starts with the concatenation of the queues, the parent's helpers are untouched - each pending callback is queued exactly once in each process *)
Theorem C16_fork_all_runs :
    forall (nh : nat) (cs : list choice),
    let s := run nh cs init in
    fp s = F_Wait ->
    all_paused nh s = true ->
    (forall h : nat, h < nh -> hph (hp s h) = H_Paused /\ hbatch (hp s h) = [] /\ hreg (hp s h) = false) /\
    child (exec nh FFork s) = Some (merged nh s) /\ (forall h : nat, hp (exec nh FFork s) h = hp s h).
Proof. exact (@Urcu.Fork.Fork.fork_all_runs). Qed.
Print Assumptions C16_fork_all_runs.

(* every run accepted by the executable acceptor (the one the projected traces of urcu-call-rcu-impl.h are fed to) that stands at the fork has every helper parked, unregistered, with an empty private batch; the child inherits exactly the queued callbacks *)
Theorem C16_accepted_run_fork_quiescent :
    forall (nh : nat) (l : list choice) (s : st),
    frun nh l init = Some s ->
    enabled nh FFork s = true ->
    (forall h : nat, h < nh -> hph (hp s h) = H_Paused /\ hbatch (hp s h) = [] /\ hreg (hp s h) = false) /\
    child (exec nh FFork s) = Some (merged nh s).
Proof. exact (@Urcu.Fork.ForkRun.accepted_run_fork_quiescent). Qed.
Print Assumptions C16_accepted_run_fork_quiescent.

(* the helper invariant (PAUSED only at the top of the loop, where the batch is empty and the thread has unregistered) is preserved by every step *)
Theorem C16_fork_invariant_step :
    forall (nh : nat) (s : st) (c : choice), Inv s -> Inv (exec nh c s).
Proof. exact (@Urcu.Fork.Fork.Inv_exec). Qed.
Print Assumptions C16_fork_invariant_step.

(* urcu_bp_after_fork_child: after the prune exactly the forking thread's slot keeps its state, every other slot of every chunk is free, chunk capacities are unchanged *)
Theorem C16_bp_prune :
    forall (a : arena) (mi mj i j : nat),
    get (prune a mi mj) i j = (if ((i =? mi) && (j =? mj))%bool then get a i j else false) /\
    length (nth i (prune a mi mj) []) = length (nth i a []).
Proof. exact (@Urcu.BpArena.BpArena.prune_spec). Qed.
Print Assumptions C16_bp_prune.

