(* C16 - fork(): the call_rcu pause handshake parks every helper with an empty private batch, outside any grace period and unregistered, before the address space is copied; the child's prune of the bp registry keeps exactly the forking thread's slot
   Property theorems only: each is the full statement, closed by `exact`, followed by Print Assumptions. *)
Require Import Coq.Lists.List.
Require Import Coq.Arith.Arith.
Require Import Urcu.Fork.Fork.
Require Import Urcu.BpArena.BpArena.
Require Import Urcu.Fork.ForkRun.
Require Import Urcu.Fork.WqPause.
Import ListNotations.

(* for every number of helpers and every schedule of call_rcu calls, helper steps (splice, grace period, invocations, pause, resume) and handler steps from the initial state: whenever the fork step is enabled every helper is PAUSED, unregistered, with an empty private batch; the child starts with the concatenation of the queues, the parent's helpers are untouched - each pending callback is queued exactly once in each process *)
Theorem C16_fork_all_runs :
    forall (nh : nat) (cs : list Fork.choice),
    let s := Fork.run nh cs Fork.init in
    fp s = F_Wait ->
    all_paused nh s = true ->
    (forall h : nat, h < nh -> hph (hp s h) = H_Paused /\ hbatch (hp s h) = [] /\ hreg (hp s h) = false) /\
    child (exec nh FFork s) = Some (merged nh s) /\ (forall h : nat, hp (exec nh FFork s) h = hp s h).
Proof. exact (@Urcu.Fork.Fork.fork_all_runs). Qed.
Print Assumptions C16_fork_all_runs.

(* every run accepted by the executable acceptor (the one the projected traces of urcu-call-rcu-impl.h are fed to) that stands at the fork has every helper parked, unregistered, with an empty private batch; the child inherits exactly the queued callbacks *)
Theorem C16_accepted_run_fork_quiescent :
    forall (nh : nat) (l : list Fork.choice) (s : Fork.st),
    frun nh l Fork.init = Some s ->
    enabled nh FFork s = true ->
    (forall h : nat, h < nh -> hph (hp s h) = H_Paused /\ hbatch (hp s h) = [] /\ hreg (hp s h) = false) /\
    child (exec nh FFork s) = Some (merged nh s).
Proof. exact (@Urcu.Fork.ForkRun.accepted_run_fork_quiescent). Qed.
Print Assumptions C16_accepted_run_fork_quiescent.

(* the helper invariant (PAUSED only at the top of the loop, where the batch is empty and the thread has unregistered) is preserved by every step *)
Theorem C16_fork_invariant_step :
    forall (nh : nat) (s : Fork.st) (c : Fork.choice), Inv s -> Inv (exec nh c s).
Proof. exact (@Urcu.Fork.Fork.Inv_exec). Qed.
Print Assumptions C16_fork_invariant_step.

(* urcu_bp_after_fork_child: after the prune exactly the forking thread's slot keeps its state, every other slot of every chunk is free, chunk capacities are unchanged *)
Theorem C16_bp_prune :
    forall (a : arena) (mi mj i j : nat),
    get (prune a mi mj) i j = (if ((i =? mi) && (j =? mj))%bool then get a i j else false) /\
    length (nth i (prune a mi mj) []) = length (nth i a []).
Proof. exact (@Urcu.BpArena.BpArena.prune_spec). Qed.
Print Assumptions C16_bp_prune.

(* PAUSE / PAUSED handshake of the hash table's work queue over any number of fork generations (parent continues, or the child re-creates the worker after clearing both flags), every schedule: at every fork point the worker is parked, not inside a work item *)
Theorem C16_workqueue_parked_at_every_fork :
    forall cs : list choice,
    let s := run true cs init in
    fk s = F_ForkPoint -> wk s = W_Parked /\ pause s = true /\ paused s = true.
Proof. exact (@Urcu.Fork.WqPause.worker_parked_at_every_fork). Qed.
Print Assumptions C16_workqueue_parked_at_every_fork.

(* outside a fork bracket both flags are clear, so the next bracket starts from scratch *)
Theorem C16_workqueue_flags_clear_outside_bracket :
    forall cs : list choice,
    let s := run true cs init in fk s = F_Idle -> pause s = false /\ paused s = false.
Proof. exact (@Urcu.Fork.WqPause.flags_clear_outside_bracket). Qed.
Print Assumptions C16_workqueue_flags_clear_outside_bracket.

(* whenever the forking thread polls for PAUSED (or for its clearing) the condition holds or the worker has a step that brings it closer *)
Theorem C16_workqueue_handshake_not_stuck :
    forall cs : list choice,
    let s := run true cs init in
    (fk s = F_WaitPaused -> paused s = true \/ step true CW s <> s) /\
    (fk s = F_WaitResumed -> paused s = false \/ step true CW s <> s).
Proof. exact (@Urcu.Fork.WqPause.handshake_not_stuck). Qed.
Print Assumptions C16_workqueue_handshake_not_stuck.

(* every sequence of flag accesses accepted by the executable acceptor (fed with the hooked accesses to workqueue->flags of src/workqueue.c under the scheduler) stands at each fork point with the worker parked *)
Theorem C16_accepted_workqueue_trace_parked :
    forall (l : list wqact) (s : st),
    wqrun l init = Some s -> fk s = F_ForkPoint -> wk s = W_Parked /\ pause s = true /\ paused s = true.
Proof. exact (@Urcu.Fork.WqPause.accepted_wq_trace_parked_at_fork). Qed.
Print Assumptions C16_accepted_workqueue_trace_parked.

(* sensitivity: a child that keeps PAUSED set reaches its own fork point with its worker inside a work item *)
Theorem C16_workqueue_stale_paused_refuted :
    exists cs : list choice, let s := run false cs init in fk s = F_ForkPoint /\ wk s = W_Work.
Proof. exact (@Urcu.Fork.WqPause.stale_paused_in_child_refuted). Qed.
Print Assumptions C16_workqueue_stale_paused_refuted.

