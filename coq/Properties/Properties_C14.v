(* C14 - grace-period polling (src/urcu-poll-impl.h): a true poll is justified by a grace period that began after the handle was taken; every handle eventually polls true and stays true; the C code's wrapped 64-bit comparisons compute the unbounded ones
   Property theorems only: each is the full statement, closed by `exact`, followed by Print Assumptions. *)
Require Import Coq.Lists.List.
Require Import Coq.ZArith.ZArith.
Require Import Urcu.Poll.Poll.
Require Import Urcu.Poll.PollProof.
Require Import Urcu.Poll.PollWord.
Import ListNotations.
Local Open Scope Z_scope.

(* for every sequence of start_poll / worker grace period begin / end / worker callback / tick events, from any state satisfying the invariant: a handle that polls true has a completed worker grace period that began after the handle was taken and ended before now *)
Theorem C14_poll_sound :
    forall (evs : list ev) (s : state),
    Inv s ->
    let s' := fold_left (fun (x : state) (e : ev) => step e x) evs s in
    forall h : handle,
    In h (handles s') ->
    poll s' h = true -> exists st e : Z, In (st, e) (gps s') /\ htime h <= st /\ e <= now s'.
Proof. exact (@Urcu.Poll.PollProof.poll_sound). Qed.
Print Assumptions C14_poll_sound.

(* the invariant holds in the initial state *)
Theorem C14_invariant_initially :
    Inv init.
Proof. exact (@Urcu.Poll.PollProof.Inv_init). Qed.
Print Assumptions C14_invariant_initially.

(* and is preserved by every event *)
Theorem C14_invariant_preserved :
    forall (e : ev) (s : state), Inv s -> Inv (step e s).
Proof. exact (@Urcu.Poll.PollProof.Inv_step). Qed.
Print Assumptions C14_invariant_preserved.

(* the same for the answer computed by the C code on wrapped unsigned long counters with (long) casts, for every handle inside the 2^63 comparison window *)
Theorem C14_poll_sound_64bit :
    forall (evs : list ev) (h : handle),
    let s := run evs init in
    In h (handles s) ->
    cur s - hval h < 2 ^ 63 ->
    snd (wstep (abs s) (OPoll (wrap (hval h)))) = RPoll true ->
    exists st e : Z, In (st, e) (gps s) /\ htime h <= st /\ e <= now s.
Proof. exact (@Urcu.Poll.PollWord.poll_sound_word). Qed.
Print Assumptions C14_poll_sound_64bit.

(* start_poll_synchronize_rcu on 64-bit words refines the unbounded model (state and returned handle) *)
Theorem C14_start_poll_refines :
    forall s : state,
    Inv s ->
    wstep (abs s) OStart =
    (abs (step E_StartPoll s),
    RHandle (wrap match handles (step E_StartPoll s) with
    | [] => 0
    | h :: _ => hval h
    end) (negb (active s))).
Proof. exact (@Urcu.Poll.PollWord.wstep_start_refines). Qed.
Print Assumptions C14_start_poll_refines.

(* urcu_poll_worker_cb on 64-bit words refines the unbounded model (the re-queue decision included) *)
Theorem C14_worker_refines :
    forall (s : state) (q st e : Z),
    Inv s ->
    LatLow s -> worker s = W_GpDone q st e -> fst (wstep (abs s) OWorker) = abs (step E_WorkerRun s).
Proof. exact (@Urcu.Poll.PollWord.wstep_worker_refines). Qed.
Print Assumptions C14_worker_refines.

(* poll_state_synchronize_rcu on 64-bit words refines the unbounded comparison inside the window *)
Theorem C14_poll_refines :
    forall (s : state) (h : handle),
    Inv s ->
    In h (handles s) ->
    cur s - hval h < 2 ^ 63 -> wstep (abs s) (OPoll (wrap (hval h))) = (abs s, RPoll (poll s h)).
Proof. exact (@Urcu.Poll.PollWord.wstep_poll_refines). Qed.
Print Assumptions C14_poll_refines.

(* once true, true after every further event sequence *)
Theorem C14_poll_stable :
    forall (evs : list ev) (s : state) (h : handle), poll s h = true -> poll (run evs s) h = true.
Proof. exact (@Urcu.Poll.PollWord.poll_stable). Qed.
Print Assumptions C14_poll_stable.

(* after at most two worker cycles (grace period begins, ends, callback runs - which C03 guarantees happen) every handle polls true *)
Theorem C14_poll_complete :
    forall (s : state) (h : handle), Inv s -> In h (handles s) -> poll (run (cycle ++ cycle) s) h = true.
Proof. exact (@Urcu.Poll.PollWord.poll_complete). Qed.
Print Assumptions C14_poll_complete.

(* sensitivity: handing out `current` while a worker grace period is in flight is unsound (witness) *)
Theorem C14_early_handle_refuted :
    exists (evs : list ev) (h : handle),
    let s := fold_left (fun (x : state) (e : ev) => step_bad e x) evs init in
    In h (handles s) /\ poll s h = true /\ (forall st e : Z, In (st, e) (gps s) -> st < htime h).
Proof. exact (@Urcu.Poll.PollWord.poll_early_refuted). Qed.
Print Assumptions C14_early_handle_refuted.

