(* C10 - wait-free concurrent queue (static/wfcqueue.h): enqueuers on x86-TSO, one dequeuer
   Property theorems only: each is the full statement, closed by `exact`, followed by Print Assumptions. *)
Require Import Coq.Lists.List.
Require Import Coq.NArith.NArith.
Require Import Urcu.Base.Lin.
Require Import Urcu.Base.MachE.
Require Import Urcu.Wfcq.Wfcq.
Require Import Urcu.Wfcq.WfcqInv.
Require Import Urcu.Wfcq.WfcqProof5.
Require Import Urcu.Wfcq.WfcqRun.
Require Import Urcu.Wfcq.WfcqInit.
Require Import Urcu.Wfcq.WfcqLin.
Require Import Urcu.Gen.Generated.
Import ListNotations.

(* memory chain from the sentinel spells the ghost FIFO (order of tail exchanges) except at pending links, each owned by one enqueuer; every schedule incl. flush order, any number of enqueuers *)
Theorem C10_chain_invariant_all_schedules :
    forall (cs : list choice) (s : st9) (aq : list N),
    Inv s aq -> Inv (fst (grun cs (s, aq))) (snd (grun cs (s, aq))).
Proof. exact (@Urcu.Wfcq.WfcqProof5.wfcq_chain_all_schedules). Qed.
Print Assumptions C10_chain_invariant_all_schedules.

(* the same from the initial state of any thread map with fresh distinct nodes (non-vacuity of the invariant) *)
Theorem C10_chain_invariant_from_init :
    forall threads : nat -> list wop,
    only_deq (threads 0) ->
    (forall t : nat, t <> 0 -> only_enq (threads t)) ->
    (forall (t : nat) (n : N), In n (enqs (threads t)) -> (2 <= n)%N) ->
    (forall (t u : nat) (n : N), In n (enqs (threads t)) -> In n (enqs (threads u)) -> t = u) ->
    (forall t : nat, NoDup (enqs (threads t))) ->
    forall cs : list choice,
    Inv (fst (grun cs (init_state threads, []))) (snd (grun cs (init_state threads, []))).
Proof. exact (@Urcu.Wfcq.WfcqInit.wfcq_chain_from_init). Qed.
Print Assumptions C10_chain_invariant_from_init.

(* every history of enqueues (with their was-non-empty answer) and blocking dequeues, any number of enqueuers, every schedule and flush order, is accepted by the FIFO automaton with linearisation points read off the event trace (tail exchange; tail load seeing the sentinel; head store / successful tail cmpxchg): legal FIFO order agreeing with every thread's calls and results *)
Theorem C10_linearizable_fifo :
    forall threads : nat -> list wop,
    only_deq (threads 0) ->
    (forall t : nat, t <> 0 -> only_enq (threads t)) ->
    (forall (t : nat) (n : N), In n (enqs (threads t)) -> (2 <= n)%N) ->
    (forall (t u : nat) (n : N), In n (enqs (threads t)) -> In n (enqs (threads u)) -> t = u) ->
    (forall t : nat, NoDup (enqs (threads t))) ->
    forall cs : list choice,
    exists (a' : ast) (L : list (op wop N)),
    runl a0 (gtrace cs (init_state threads, [])) = Some (a', L) /\
    legal wop N (list N) wspec [] L /\
    (forall t : nat,
    tops wop N t L =
    hcomp wop N t None (gtrace cs (init_state threads, [])) ++ pre wop N (pm wop N (list N) a' t)).
Proof. exact (@Urcu.Wfcq.WfcqLin.wfcq_linearizable). Qed.
Print Assumptions C10_linearizable_fifo.

(* model constant = WFCQ_ADAPT_ATTEMPTS extracted from the source *)
Theorem C10_adapt_attempts_is_source_constant :
    N.of_nat adapt = wfcq_adapt_attempts.
Proof. exact (@Urcu.Wfcq.WfcqRun.adapt_is_source_constant). Qed.
Print Assumptions C10_adapt_attempts_is_source_constant.

