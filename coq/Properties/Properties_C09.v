(* C09 - rculfhash resize: the explicit-resize loop terminates for every request (after the F2 repair; refuted for the legacy target computation), the bucket count stays within [1, max]; the grace-period protocol of grow and shrink keeps every read-side section away from released bucket tables and publishes only populated orders
   Property theorems only: each is the full statement, closed by `exact`, followed by Print Assumptions. *)
Require Import Coq.Lists.List.
Require Import Coq.NArith.NArith.
Require Import Urcu.LfhtSeq.Resize.
Require Import Urcu.Lfht.ResizeProto.
Require Import Urcu.Lfht.ResizeProtoProof.
Import ListNotations.

(* with the repaired resize_target_update_count one pass of the resize loop reaches the target from every power-of-two size, for every requested count, minimum and maximum: the do-while loop of _do_cds_lfht_resize ends *)
Theorem C09_resize_terminates :
    forall a minb maxb count : N,
    (1 <= minb)%N -> let t := target_fixed minb maxb count in pass (2 ^ a) t = t.
Proof. exact (@Urcu.LfhtSeq.Resize.resize_terminates_fixed). Qed.
Print Assumptions C09_resize_terminates.

(* the target (hence the published bucket count) stays between 1 and max_nr_buckets *)
Theorem C09_target_bounds :
    forall minb m count : N,
    (1 <= minb)%N -> (minb <= 2 ^ m)%N -> (1 <= target_fixed minb (2 ^ m) count <= 2 ^ m)%N.
Proof. exact (@Urcu.LfhtSeq.Resize.target_fixed_bounds). Qed.
Print Assumptions C09_target_bounds.

(* the target is at least the clamped request *)
Theorem C09_target_covers_request :
    forall minb maxb count : N,
    (1 <= minb)%N -> (minb <= maxb)%N -> (target_legacy minb maxb count <= target_fixed minb maxb count)%N.
Proof. exact (@Urcu.LfhtSeq.Resize.target_fixed_ge). Qed.
Print Assumptions C09_target_covers_request.

(* and equals it when the request is a legal power of two *)
Theorem C09_target_identity_on_pow2 :
    forall minb maxb k : N,
    target_legacy minb maxb (2 ^ k) = (2 ^ k)%N -> target_fixed minb maxb (2 ^ k) = (2 ^ k)%N.
Proof. exact (@Urcu.LfhtSeq.Resize.target_fixed_id). Qed.
Print Assumptions C09_target_identity_on_pow2.

(* the legacy (unrounded) target makes the loop spin for ever: size 4, request 5 (finding F2, repaired in /repo) *)
Theorem C09_legacy_nonpow2_refuted :
    exists size target : N,
    forall n : nat, PeanoNat.Nat.iter n (fun s : N => pass s target) size <> target.
Proof. exact (@Urcu.LfhtSeq.Resize.resize_nonpow2_refuted). Qed.
Print Assumptions C09_legacy_nonpow2_refuted.

(* the protocol invariant is preserved by every accepted action (resizer: alloc, link, size store, synchronize begin/end, flag, unlinked, free; readers: enter, exit, read size, touch) *)
Theorem C09_protocol_invariant_step :
    forall (s : pst) (a : pact) (s' : pst), Inv true s -> pstep s a = Some s' -> Inv true s'.
Proof. exact (@Urcu.Lfht.ResizeProtoProof.Inv_step). Qed.
Print Assumptions C09_protocol_invariant_step.

(* for every accepted action sequence from a freshly created table of any size: no read-side section holds a released bucket table, and no table a section may touch next (still linked / already held / covered by the size it read) is released *)
Theorem C09_no_use_after_free :
    forall (k : nat) (l : list pact) (s : pst),
    prun (pinit k) l = Some s ->
    (forall r id : nat, insec (rd s r) = true -> holds (rd s r) id = true -> tst (tb s id) <> TFreed) /\
    (forall t id : nat, touch_ok s t id = true -> tst (tb s id) <> TFreed).
Proof. exact (@Urcu.Lfht.ResizeProtoProof.resize_no_use_after_free). Qed.
Print Assumptions C09_no_use_after_free.

(* every published order has a live, current bucket table: memory is allocated and populated before the size is published *)
Theorem C09_published_orders_live :
    forall (k : nat) (l : list pact) (s : pst),
    prun (pinit k) l = Some s ->
    forall o : nat,
    o <= size s -> exists id : nat, cur s o = Some id /\ tst (tb s id) = TLive /\ tord (tb s id) = o.
Proof. exact (@Urcu.Lfht.ResizeProtoProof.resize_published_orders_live). Qed.
Print Assumptions C09_published_orders_live.

