(* C17 - progress: wait-free operations finish within a fixed number of their own steps from any state; lock-free operations finish when they run alone; the lock-free programs contain no waiting step
   Property theorems only: each is the full statement, closed by `exact`, followed by Print Assumptions. *)
Require Import Coq.Lists.List.
Require Import Coq.NArith.NArith.
Require Import Urcu.Base.MachE.
Require Import Urcu.Wfcq.Wfcq.
Require Import Urcu.Wfs.Wfs.
Require Import Urcu.Progress.Progress.
Require Import Urcu.Progress.ProgressLf.
Require Import Urcu.Lfq.LfqSolo.
Require Import Urcu.Lfs.Lfs.
Require Import Urcu.Lfq.Lfq.
Require Import Urcu.Lfht.Lfht.
Require Import Urcu.Gp.GpMbDyn.
Require Import Urcu.Progress.ProgressGp.
Require Import Urcu.Progress.LazyCount.
Import ListNotations.

(* wfcqueue enqueue: from ANY machine state (whatever the other threads have done or left half done) the caller returns after five of its own steps *)
Theorem C17_wfcq_enqueue_wait_free :
    forall (s : st9) (t : nat) (n : N) (rest : list wop),
    tpc wloc wprog (sthr wloc wprog s t) = {| wcur := W_Idle; wtodo := Wfcq.OEnq n :: rest |} ->
    tbuf wloc wprog (sthr wloc wprog s t) = [] ->
    tpc wloc wprog (sthr wloc wprog (Progress.solo wloc wloc_eqb wprog t 5 s) t) =
    {| wcur := W_Idle; wtodo := rest |}.
Proof. exact (@Urcu.Progress.Progress.wfcq_enqueue_wait_free). Qed.
Print Assumptions C17_wfcq_enqueue_wait_free.

(* wfstack push: likewise *)
Theorem C17_wfs_push_wait_free :
    forall (s : st8) (t : nat) (n : N) (rest : list sop),
    tpc sloc sprog (sthr sloc sprog s t) = {| scur := S_Idle; stodo := Wfs.OPush n :: rest |} ->
    tbuf sloc sprog (sthr sloc sprog s t) = [] ->
    tpc sloc sprog (sthr sloc sprog (Progress.solo sloc sloc_eqb sprog t 5 s) t) =
    {| scur := S_Idle; stodo := rest |}.
Proof. exact (@Urcu.Progress.Progress.wfs_push_wait_free). Qed.
Print Assumptions C17_wfs_push_wait_free.

(* wfstack pop_all: the stack is taken by the caller's second step *)
Theorem C17_wfs_pop_all_wait_free :
    forall (s : st8) (t : nat) (rest : list sop),
    tpc sloc sprog (sthr sloc sprog s t) = {| scur := S_Idle; stodo := Wfs.OPopAll :: rest |} ->
    tbuf sloc sprog (sthr sloc sprog s t) = [] ->
    exists h : N,
    scur (tpc sloc sprog (sthr sloc sprog (Progress.solo sloc sloc_eqb sprog t 2 s) t)) =
    (if Generated.emit_legacy_mb then Wfs.A_Mb h else Wfs.A_Iter h).
Proof. exact (@Urcu.Progress.Progress.wfs_pop_all_exchange_wait_free). Qed.
Print Assumptions C17_wfs_pop_all_wait_free.

(* lfstack push: running alone from any state it returns within six own steps (the first cmpxchg may fail, the second cannot) *)
Theorem C17_lfs_push_lock_free :
    forall (s : MachD.state lloc lprog) (t : nat) (n : N) (rest : list lop) (last : N),
    MachD.tpc lloc lprog (MachD.sthr lloc lprog s t) =
    {| lcur := F_Idle; ltodo := OPush n :: rest; llast := last |} ->
    exists k : nat,
    k <= 6 /\
    MachD.tpc lloc lprog (MachD.sthr lloc lprog (soloD t k s) t) =
    {| lcur := F_Idle; ltodo := rest; llast := last |}.
Proof. exact (@Urcu.Progress.ProgressLf.lfs_push_solo_bound). Qed.
Print Assumptions C17_lfs_push_lock_free.

(* rculfqueue enqueue (repaired model): running alone from any state satisfying the chain invariant it returns within 4d+4 own steps, d = nodes between q->tail and the end of the chain - it helps a suspended enqueuer instead of waiting *)
Theorem C17_lfq_enqueue_lock_free :
    forall (isD : N -> bool) (d0 : N),
    d0 <> 0%N ->
    forall (l : list N) (s : MachD.state qloc (qprog isD)) (t : nat) (node c : N),
    LfqInv.Inv isD d0 s ->
    qcur (LfqInv.QS isD s t) = E_LoadTail node c ->
    LfqLin.chainf (LfqInv.nx isD s) (MachD.smem qloc (qprog isD) s LTail) l ->
    exists k : nat, k <= 4 * length l + 4 /\ enq_done c (qcur (LfqInv.QS isD (solo isD t k s) t)).
Proof. exact (@Urcu.Lfq.LfqSolo.lfq_enqueue_solo_bound). Qed.
Print Assumptions C17_lfq_enqueue_lock_free.

(* no step of the rculfqueue programs is a waiting step *)
Theorem C17_lfq_never_waits :
    forall s : qst, is_waitD (qact s) = false.
Proof. exact (@Urcu.Progress.ProgressLf.lfq_never_waits). Qed.
Print Assumptions C17_lfq_never_waits.

(* no step of the hash-table add / del / lookup / replace programs is a waiting step *)
Theorem C17_lfht_never_waits :
    forall s : hst, is_waitD (hact s) = false.
Proof. exact (@Urcu.Progress.ProgressLf.lfht_never_waits). Qed.
Print Assumptions C17_lfht_never_waits.

(* lfstack: outside the acquisition of the pop mutex no step is a waiting step *)
Theorem C17_lfs_never_waits :
    forall s : lst, match lcur s with
    | O_Lock | A_Lock => True
    | _ => is_waitD (lact s) = false
    end.
Proof. exact (@Urcu.Progress.ProgressLf.lfs_push_pop_all_never_wait). Qed.
Print Assumptions C17_lfs_never_waits.

(* outermost rcu_read_lock of a registered thread (mb-flavor model, dynamic registry): three own steps plus the draining of its own store buffer, from any state - grace period in progress or not *)
Theorem C17_read_lock_wait_free :
    forall (s : state) (r : nat),
    pc (rd s r) = R_Idle ->
    let s2 := step (C_Lock r) (step (C_Lock r) s) in
    let s3 := step (C_Lock r) (drain r (length (rbuf (rd s2 r))) s2) in pc (rd s3 r) = R_In (gpar s) 0.
Proof. exact (@Urcu.Progress.ProgressGp.read_lock_wait_free). Qed.
Print Assumptions C17_read_lock_wait_free.

(* rcu_read_unlock: one own step from any state *)
Theorem C17_read_unlock_wait_free :
    forall (s : state) (r : nat) (p : bool) (n : nat),
    pc (rd s r) = R_In p n ->
    pc (rd (step (C_Unlock r) s) r) = match n with
    | 0 => R_Idle
    | S m => R_In p m
    end.
Proof. exact (@Urcu.Progress.ProgressGp.read_unlock_wait_free). Qed.
Print Assumptions C17_read_unlock_wait_free.

(* no step of another thread (reader, updater, registration) changes a reader's program counter: its progress cannot be undone *)
Theorem C17_read_side_not_disturbed :
    forall (s : state) (r : nat) (c : choice),
    (forall r' : nat, c <> C_Lock r' \/ r' <> r) ->
    (forall r' : nat, c <> C_Unlock r' \/ r' <> r) -> pc (rd (step c s) r) = pc (rd s r).
Proof. exact (@Urcu.Progress.ProgressGp.others_do_not_interfere). Qed.
Print Assumptions C17_read_side_not_disturbed.

(* rculfhash lazy shrink request (issued inside add / del when the count crosses a threshold): whatever happened before, two consecutive compare-and-swap attempts that meet the same resize_target end the loop - the caller never waits for the resize worker, only for a window in which no other thread changes the target *)
Theorem C17_lfht_lazy_resize_request_lock_free :
    forall (pre : list N) (t : N) (post : list N) (size count : N),
    shrink_run (pre ++ t :: t :: post) size count <> None.
Proof. exact (@Urcu.Progress.LazyCount.shrink_lock_free). Qed.
Print Assumptions C17_lfht_lazy_resize_request_lock_free.

(* the number of attempts of a lazy shrink request is at most two more than the number of changes other threads made to resize_target between them *)
Theorem C17_lfht_lazy_resize_request_attempts :
    forall (obs : list N) (size count t' : N) (r : res) (n : nat),
    shrink_run obs size count = Some (t', r, n) -> 1 <= n <= 2 + changes (firstn n obs).
Proof. exact (@Urcu.Progress.LazyCount.shrink_attempts_bounded). Qed.
Print Assumptions C17_lfht_lazy_resize_request_attempts.

(* what a lazy resize request does to resize_target when alone: unchanged or the clamped count; changed only together with a launch; a grow request never lowers it, a shrink request never raises it *)
Theorem C17_lfht_lazy_resize_request_target :
    forall (auto : bool) (maxb tgt size count : N),
    (1 <= maxb)%N ->
    let c := N.min (N.max count 1) maxb in
    let
    '(t', r) := lazy_count auto maxb tgt size count in
    (t' = tgt \/ t' = c) /\
    (r = Launch -> auto = true /\ t' = c /\ c <> size) /\
    (t' <> tgt -> r = Launch) /\
    (auto = true -> (size < c)%N -> (tgt <= t')%N /\ (c <= t')%N) /\
    (auto = true -> (c < size)%N -> (t' <= tgt)%N).
Proof. exact (@Urcu.Progress.LazyCount.lazy_count_target). Qed.
Print Assumptions C17_lfht_lazy_resize_request_target.

(* a request loop that retries with the table's published size instead of the observed target spins for ever on (size 8, target 4, request 2) - the reason the loop carries the observed value *)
Theorem C17_lfht_retry_with_table_size_refuted :
    forall n : nat, shrink_run_bad n 8 4 8 2 = None.
Proof. exact (@Urcu.Progress.LazyCount.retry_with_table_size_refuted). Qed.
Print Assumptions C17_lfht_retry_with_table_size_refuted.

(* rculfhash lazy grow request (_uatomic_xchg_monotonic_increase on resize_target, inside every add on an auto-resize table): a failed cmpxchg feeds the value it returned back as the next expected value, so two consecutive rounds that meet the same target end the loop *)
Theorem C17_lfht_lazy_grow_request_lock_free :
    forall (pre : list N) (t : N) (post : list N) (old v : N),
    grow_run (pre ++ t :: t :: post) old v <> None.
Proof. exact (@Urcu.Progress.LazyCount.grow_lock_free). Qed.
Print Assumptions C17_lfht_lazy_grow_request_lock_free.

(* alone it takes one round and leaves max(target, request) *)
Theorem C17_lfht_lazy_grow_request_alone :
    forall tgt v : N, grow_run [tgt] tgt v = Some (N.max tgt v, tgt, 1).
Proof. exact (@Urcu.Progress.LazyCount.grow_solo). Qed.
Print Assumptions C17_lfht_lazy_grow_request_alone.

(* a loop that keeps its first expected value spins for ever once another thread has changed the target *)
Theorem C17_lfht_grow_stale_expected_refuted :
    forall n : nat, grow_run_bad n 8 2 4 = None.
Proof. exact (@Urcu.Progress.LazyCount.grow_stale_expected_refuted). Qed.
Print Assumptions C17_lfht_grow_stale_expected_refuted.

