(* C18 - RCU lists (urcu/rculist.h, urcu/rcuhlist.h): publication ordering on x86-TSO for add, add_tail, del, replace - a reader never stands on a node whose forward pointer is not yet initialised in memory, for every schedule of updater stores, flush delays and reader steps
   Property theorems only: each is the full statement, closed by `exact`, followed by Print Assumptions. *)
Require Import Coq.Lists.List.
Require Import Coq.NArith.NArith.
Require Import Urcu.RcuList.RcuList.
Import ListNotations.

(* for every updater program (add at head, add at tail, delete, replace with distinct nodes) and every choice sequence: each reader's cursor is the head or a node whose next field is initialised in memory, so a traversal only ever follows initialised pointers *)
Theorem C18_init_before_visible :
    forall (td : list uop) (cs : list choice),
    Forall opok td ->
    let s := fold_left (fun (s : st) (c : choice) => exec c s) cs (init td) in
    forall r : nat, rcur s r = HEAD \/ m s (rcur s r) <> G.
Proof. exact (@Urcu.RcuList.RcuList.list_init_before_visible). Qed.
Print Assumptions C18_init_before_visible.

(* the invariant (memory closed under initialised successors, every buffered store publishes a node that is initialised by the stores in front of it, the updater's own view of the list is initialised) is preserved by every updater store, every flush and every reader step *)
Theorem C18_invariant_step :
    forall (s : st) (c : choice), Inv s -> Inv (exec c s).
Proof. exact (@Urcu.RcuList.RcuList.Inv_exec). Qed.
Print Assumptions C18_invariant_step.

