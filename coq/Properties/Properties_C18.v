(* C18 - RCU lists (urcu/rculist.h, urcu/rcuhlist.h): publication ordering on x86-TSO for add, add_tail, del, replace, and the traversal guarantees (order, exactly once, resident nodes visited, visited nodes were present, removed nodes never reached, termination) for every interleaving of visible updater stores and reader steps
   Property theorems only: each is the full statement, closed by `exact`, followed by Print Assumptions. *)
Require Import Coq.Lists.List.
Require Import Coq.NArith.NArith.
Require Import Coq.QArith.QArith.
Require Import Urcu.RcuList.RcuList.
Require Import Urcu.RcuList.RcuTravL.
Require Import Urcu.RcuList.RcuTrav.
Require Import Urcu.RcuList.RcuTravSim.
Import ListNotations.

(* for every updater program (add at head, add at tail, delete, replace with distinct nodes) and every choice sequence: each reader's cursor is the head or a node whose next field is initialised in memory, so a traversal only ever follows initialised pointers *)
Theorem C18_init_before_visible :
    forall (td : list uop) (cs : list choice),
    Forall opok td ->
    let s := fold_left (fun (s : st) (c : choice) => exec c s) cs (init td) in
    forall r : nat, rcur s r = HEAD \/ m s (rcur s r) <> G.
Proof. exact (@Urcu.RcuList.RcuList.list_init_before_visible). Qed.
Print Assumptions C18_init_before_visible.

(* the invariant (memory closed under initialised successors, every buffered store publishes a node that is initialised by the stores in front of it, the updater's own view of the list is initialised) is preserved by every updater store, every flush and every reader step *)
Theorem C18_invariant_step :
    forall (s : st) (c : choice), Inv s -> Inv (exec c s).
Proof. exact (@Urcu.RcuList.RcuList.Inv_exec). Qed.
Print Assumptions C18_invariant_step.

(* the executable TSO model RcuList.exec (the one fed with the stores and loads of rculist.h / rcuhlist.h by the refinement check): every updater program over fresh nodes, every flush delay and interleaving, every reader - its committed memory and cursor are those of a state of the traversal system reached by stores of the five shapes only; the visited nodes are in list order without repetition, were present at some moment of the traversal, exclude nodes unlinked before it began, and after the end include every node resident throughout *)
Theorem C18_model_readers_traverse_consistently :
    forall (td : list uop) (cs : list choice) (r : nat),
    Forall opok td ->
    NoDup (newn td) ->
    let s := fold_left (fun (s : st) (c : choice) => exec c s) cs (init td) in
    exists t : tst,
    gm (tg t) = m s /\
    rc (tr t) = rcur s r /\
    treach (tinit g0) t /\
    sorted (gkey (tg t)) (rV (tr t)) /\
    sorted (gkey (tg t)) (gL (tg t)) /\
    NoDup (rV (tr t)) /\
    (forall x : N, In x (rV (tr t)) -> In x (rW (tr t))) /\
    (forall x : N, In x (rE0 (tr t)) -> ~ In x (rL0 (tr t)) -> ~ In x (rV (tr t))) /\
    (tfin t = true -> forall x : N, In x (rR (tr t)) -> In x (rV (tr t))).
Proof. exact (@Urcu.RcuList.RcuTravSim.rculist_traversal). Qed.
Print Assumptions C18_model_readers_traverse_consistently.

(* memory level, every interleaving of visible updater stores (initialise a fresh node, publish at head / tail, unlink, replace) and reader steps, any number of traversals: the visited nodes are strictly increasing in the immutable key order in which the list itself is sorted at every moment - list order, each node at most once *)
Theorem C18_traversal_in_list_order_exactly_once :
    forall (g0 : gst) (t : tst),
    WF g0 ->
    treach (tinit g0) t ->
    sorted (gkey (tg t)) (rV (tr t)) /\ sorted (gkey (tg t)) (gL (tg t)) /\ NoDup (rV (tr t)).
Proof. exact (@Urcu.RcuList.RcuTrav.trav_in_list_order). Qed.
Print Assumptions C18_traversal_in_list_order_exactly_once.

(* when a traversal has ended, every node that was in the list at its start and at every store since has been visited *)
Theorem C18_traversal_visits_resident_nodes :
    forall (g0 : gst) (t : tst),
    WF g0 -> treach (tinit g0) t -> tfin t = true -> forall x : N, In x (rR (tr t)) -> In x (rV (tr t)).
Proof. exact (@Urcu.RcuList.RcuTrav.trav_resident_visited). Qed.
Print Assumptions C18_traversal_visits_resident_nodes.

(* a traversal visits only nodes that were in the list at some moment since it began *)
Theorem C18_traversal_visited_was_present :
    forall (g0 : gst) (t : tst),
    WF g0 -> treach (tinit g0) t -> forall x : N, In x (rV (tr t)) -> In x (rW (tr t)).
Proof. exact (@Urcu.RcuList.RcuTrav.trav_visited_was_present). Qed.
Print Assumptions C18_traversal_visited_was_present.

(* a node unlinked before a traversal began is never visited by it (the premise of reclamation after a grace period) *)
Theorem C18_traversal_never_visits_removed :
    forall (g0 : gst) (t : tst),
    WF g0 ->
    treach (tinit g0) t -> forall x : N, In x (rE0 (tr t)) -> ~ In x (rL0 (tr t)) -> ~ In x (rV (tr t)).
Proof. exact (@Urcu.RcuList.RcuTrav.trav_never_visits_removed). Qed.
Print Assumptions C18_traversal_never_visits_removed.

(* each reader step strictly decreases the number of published nodes not yet visited: a traversal ends within that many steps whenever the updater makes no store visible *)
Theorem C18_traversal_progress :
    forall (g : gst) (r : rst),
    WF g -> RInv g r -> gm g (rc r) <> HEAD -> (unvisited g (rnext g r) < unvisited g r)%nat.
Proof. exact (@Urcu.RcuList.RcuTrav.read_step_progress). Qed.
Print Assumptions C18_traversal_progress.

(* each of the five store shapes keeps: the path from the head spells the list, the list is key-sorted, every pointer of every published node (live or removed) leads forward in key order *)
Theorem C18_store_shapes_preserve_wellformedness :
    forall (g : gst) (a v : N) (g' : gst), WF g -> mstep g a v g' -> WF g'.
Proof. exact (@Urcu.RcuList.RcuTrav.WF_mstep). Qed.
Print Assumptions C18_store_shapes_preserve_wellformedness.

