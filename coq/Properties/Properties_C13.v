(* C13 - defer_rcu queue (src/urcu-defer-impl.h): encoding round trip, ring layer, exactly-once / in-order / exact arguments for every operation sequence
   Property theorems only: each is the full statement, closed by `exact`, followed by Print Assumptions. *)
Require Import Coq.Lists.List.
Require Import Coq.NArith.NArith.
Require Import Urcu.Defer.Defer.
Require Import Urcu.Defer.DeferRing.
Require Import Urcu.Defer.DeferRun.
Require Import Urcu.Gen.Generated.
Require Import Urcu.Defer.DeferWrap.
Require Import Urcu.Defer.DeferGp.
Require Import Urcu.Defer.DeferLock.
Import ListNotations.

(* decode (encode l) = l for every list of (function, argument) bit patterns and every initial last-function value *)
Theorem C13_stream_roundtrip :
    forall (l : list (N * N)) (last : N), decode (length (encode last l)) last (encode last l) = Some l.
Proof. exact (@Urcu.Defer.Defer.defer_stream_roundtrip). Qed.
Print Assumptions C13_stream_roundtrip.

(* _defer_rcu keeps: tail <= head, head - tail <= SIZE, window = encoding of pending; the synchronous flush calls exactly the pending list *)
Theorem C13_enqueue_preserves_ring_invariant :
    forall SIZE : N,
    (4 <= SIZE)%N ->
    forall (r : ring) (f p : N),
    DeferRing.Inv SIZE r ->
    DeferRing.Inv SIZE (fst (enq SIZE r f p)) /\
    (snd (enq SIZE r f p) = Some [] \/ snd (enq SIZE r f p) = Some (pending r)).
Proof. exact (@Urcu.Defer.DeferRing.Inv_enq). Qed.
Print Assumptions C13_enqueue_preserves_ring_invariant.

(* for every sequence of defer_rcu / barrier operations: calls made ++ still pending = queued, in order, with exact arguments, across ring wrap *)
Theorem C13_exactly_once_in_order :
    forall SIZE : N,
    (4 <= SIZE)%N ->
    forall (ops : list dop) (r : ring),
    DeferRing.Inv SIZE r ->
    DeferRing.Inv SIZE (fst (drun SIZE ops r)) /\
    pending r ++ queued ops = snd (drun SIZE ops r) ++ pending (fst (drun SIZE ops r)).
Proof. exact (@Urcu.Defer.DeferRun.defer_ring_exact). Qed.
Print Assumptions C13_exactly_once_in_order.

(* a barrier calls everything queued before it and leaves the queue empty *)
Theorem C13_barrier_flushes :
    forall SIZE : N,
    (4 <= SIZE)%N ->
    forall r : ring,
    DeferRing.Inv SIZE r ->
    pending (fst (dstep SIZE r DBarrier)) = [] /\ snd (dstep SIZE r DBarrier) = pending r.
Proof. exact (@Urcu.Defer.DeferRun.defer_barrier_flushes). Qed.
Print Assumptions C13_barrier_flushes.

(* the freshly registered (and, after the F1 fix, re-registered) queue satisfies the invariant *)
Theorem C13_initial_ring_ok :
    forall SIZE : N, (4 <= SIZE)%N -> DeferRing.Inv SIZE ring0.
Proof. exact (@Urcu.Defer.DeferRun.Inv_ring0). Qed.
Print Assumptions C13_initial_ring_ok.

(* model MARK = DQ_FCT_MARK from the source *)
Theorem C13_mark_is_source_constant :
    MARK = dq_fct_mark.
Proof. exact (@Urcu.Defer.DeferRun.mark_is_source_constant). Qed.
Print Assumptions C13_mark_is_source_constant.

(* DQ_FCT_BIT = 1 *)
Theorem C13_fct_bit_is_source_constant :
    dq_fct_bit = 1%N.
Proof. exact (@Urcu.Defer.DeferRun.fct_bit_is_source_constant). Qed.
Print Assumptions C13_fct_bit_is_source_constant.

(* DEFER_QUEUE_SIZE from the source is a power of two >= 4 (hypothesis of the ring theorems) *)
Theorem C13_default_queue_size_ok :
    (4 <= defer_queue_size)%N /\ (exists k : N, defer_queue_size = (2 ^ k)%N).
Proof. exact (@Urcu.Defer.DeferRun.default_queue_size_ok). Qed.
Print Assumptions C13_default_queue_size_ok.

(* the ring as the code has it - head and tail wrapping at W = 2^64 (any multiple of SIZE), occupancy = head - tail in machine arithmetic, slot = head & (SIZE-1) - takes exactly the steps of the unbounded ring: same flush decisions, same slots, same calls, across any number of wrap-arounds *)
Theorem C13_counters_wrap :
    forall SIZE W : N,
    (4 <= SIZE)%N ->
    (exists k : N, W = (k * SIZE)%N /\ (2 <= k)%N) ->
    forall (w : wring) (r : ring) (f p : N),
    DeferRing.Inv SIZE r ->
    rep W w r ->
    rep W (fst (wenq SIZE W w f p)) (fst (enq SIZE r f p)) /\
    snd (wenq SIZE W w f p) = snd (enq SIZE r f p).
Proof. exact (@Urcu.Defer.DeferWrap.rep_enq). Qed.
Print Assumptions C13_counters_wrap.

(* abstract barrier algorithm (snapshot of the heads, grace period, drain of exactly the snapshotted calls; one barrier at a time; any number of queuing threads and readers, calls queued while the grace period is in flight): a call that is about to be run was queued before every read-side section that is still open began *)
Theorem C13_call_after_grace_period_all_runs :
    forall s : DeferGp.st,
    reach false s ->
    forall (k : nat) (snap : nat -> nat) (t c : nat) (rest : list nat),
    bph s = B_Drain k snap ->
    dq s t = c :: rest -> 0 < snap t -> forall r b : nat, sect s r = Some b -> stamp s c <= b.
Proof. exact (@Urcu.Defer.DeferGp.defer_after_gp_all_runs). Qed.
Print Assumptions C13_call_after_grace_period_all_runs.

(* what a thread queued = what was run (in order) followed by what is pending: nothing lost, duplicated or reordered by barriers *)
Theorem C13_conservation :
    forall (s : DeferGp.st) (t : nat), DeferGp.Inv s -> dall s t = ddone s t ++ dq s t.
Proof. exact (@Urcu.Defer.DeferGp.defer_conservation). Qed.
Print Assumptions C13_conservation.

(* the variant that drains up to the head re-read after the grace period runs a call while a section that began before it was queued is still open (five-step run) *)
Theorem C13_fresh_head_refuted :
    exists (s : DeferGp.st) (t c : nat) (rest : list nat) (r b k : nat) (snap : nat -> nat),
    reach true s /\
    bph s = B_Drain k snap /\
    dq s t = c :: rest /\
    sect s r = Some b /\ b < stamp s c /\ (exists s' : DeferGp.st, DeferGp.step true s (BRun t) s').
Proof. exact (@Urcu.Defer.DeferGp.defer_fresh_head_refuted). Qed.
Print Assumptions C13_fresh_head_refuted.

(* one queue drained by any number of parties (reclaimer, rcu_defer_barrier callers, the owner's full-queue and final flushes) under rcu_defer_mutex while the owner keeps appending: for every schedule the log of invocations is a prefix of the queued calls (each call at most once, in order), and with the mutex free it is exactly the calls below the published tail *)
Theorem C13_drains_exactly_once_in_order_under_mutex :
    forall cs : list choice,
    let s := run true cs init in
    (exists n : nat, ran s = firstn n (calls s)) /\ (lock s = None -> ran s = firstn (tail s) (calls s)).
Proof. exact (@Urcu.Defer.DeferLock.defer_exactly_once_in_order). Qed.
Print Assumptions C13_drains_exactly_once_in_order_under_mutex.

(* without the mutex two drains of the same range overlap and a call is made twice (witness) *)
Theorem C13_unlocked_drain_refuted :
    exists cs : list choice, ran (run false cs init) = [7; 7].
Proof. exact (@Urcu.Defer.DeferLock.unlocked_drain_refuted). Qed.
Print Assumptions C13_unlocked_drain_refuted.

