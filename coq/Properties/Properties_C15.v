(* C15 - dynamic registration: the list operations the reader registries are built from implement abstract list operations on well-formed rings (whatever else is in memory); the bp registry arena allocates first-fit, never moves or loses a slot when it grows, and always finds a slot after one expansion
   Property theorems only: each is the full statement, closed by `exact`, followed by Print Assumptions. *)
Require Import Coq.Lists.List.
Require Import Coq.Arith.Arith.
Require Import Urcu.ListDl.ListDl.
Require Import Urcu.ListDl.ListDlProof.
Require Import Urcu.BpArena.BpArena.
Require Import Urcu.Gp.GpMbDyn.
Require Import Urcu.Gp.GpMbDynExec.
Require Import Urcu.Gp.GpDynCore.
Require Import Urcu.Gp.GpDynProof.
Require Import Urcu.Gp.GpDynExec.
Import ListNotations.

(* cds_list_add(x, h) (rcu_register_thread): x becomes the first element of h's ring, for every ring and every memory *)
Theorem C15_list_add :
    forall (m : lmem) (h : nat) (l : list nat) (x : nat),
    ring m h l -> ~ In x (h :: l) -> ring (l_add m x h) h (x :: l).
Proof. exact (@Urcu.ListDl.ListDlProof.add_spec). Qed.
Print Assumptions C15_list_add.

(* cds_list_del(x) (rcu_unregister_thread, from whichever list holds the node): x leaves, the others keep their order *)
Theorem C15_list_del :
    forall (m : lmem) (h : nat) (l1 : list nat) (x : nat) (l2 : list nat),
    ring m h (l1 ++ x :: l2) -> ring (l_del m x) h (l1 ++ l2).
Proof. exact (@Urcu.ListDl.ListDlProof.del_spec). Qed.
Print Assumptions C15_list_del.

(* cds_list_move(x, h2) (wait_for_readers: registry -> cur_snap_readers / qsreaders): both rings stay well formed, x is first in h2's *)
Theorem C15_list_move :
    forall (m : lmem) (h1 : nat) (l1 : list nat) (x : nat) (l2 : list nat) (h2 : nat) (l : list nat),
    ring m h1 (l1 ++ x :: l2) ->
    ring m h2 l ->
    (forall y : nat, In y (h1 :: l1 ++ x :: l2) -> In y (h2 :: l) -> False) ->
    ring (l_move m x h2) h1 (l1 ++ l2) /\ ring (l_move m x h2) h2 (x :: l).
Proof. exact (@Urcu.ListDl.ListDlProof.move_spec). Qed.
Print Assumptions C15_list_move.

(* cds_list_splice(a, h) (end of synchronize_rcu: qsreaders back into a registry that may have gained registrants meanwhile): h's ring becomes a's elements followed by h's *)
Theorem C15_list_splice :
    forall (m : lmem) (a : nat) (la : list nat) (h : nat) (lh : list nat),
    ring m a la ->
    ring m h lh ->
    (forall y : nat, In y (a :: la) -> In y (h :: lh) -> False) -> ring (l_splice m a h) h (la ++ lh).
Proof. exact (@Urcu.ListDl.ListDlProof.splice_spec). Qed.
Print Assumptions C15_list_splice.

(* an operation that writes to no node of a ring leaves it a ring (the three registry lists do not disturb each other) *)
Theorem C15_list_frame :
    forall (m m' : lmem) (h : nat) (l : list nat),
    ring m h l -> (forall y : nat, In y (h :: l) -> nx m' y = nx m y /\ pv m' y = pv m y) -> ring m' h l.
Proof. exact (@Urcu.ListDl.ListDlProof.ring_frame). Qed.
Print Assumptions C15_list_frame.

(* next and prev of a ring node stay inside the ring *)
Theorem C15_list_next_prev_closed :
    forall (m : lmem) (h : nat) (l : list nat) (y : nat),
    ring m h l -> In y (h :: l) -> In (nx m y) (h :: l) /\ In (pv m y) (h :: l).
Proof. exact (@Urcu.ListDl.ListDlProof.ring_closed). Qed.
Print Assumptions C15_list_next_prev_closed.

(* sensitivity: the splice variant that writes head->prev instead of head->next->prev breaks the ring when the destination is not empty (witness) *)
Theorem C15_splice_head_prev_refuted :
    exists m : lmem, ring m 1 [4] /\ ring m 0 [3] /\ ~ ring (l_splice_bad m 1 0) 0 [4; 3].
Proof. exact (@Urcu.ListDl.ListDlProof.splice_head_prev_refuted). Qed.
Print Assumptions C15_splice_head_prev_refuted.

(* bp arena: the slot returned was free, is now taken, every earlier slot is taken (freed slots are reused before the arena grows), no other slot changes *)
Theorem C15_bp_alloc_first_fit :
    forall INIT : nat,
    0 < INIT ->
    forall (a : arena) (ok : bool) (i j : nat),
    find a 0 = Some (i, j) ->
    alloc INIT a ok = (upd_chunk a i (fun c : chunk => set_nth c j), Some (i, j)) /\
    get a i j = false /\
    get (fst (alloc INIT a ok)) i j = true /\
    (forall i' j' : nat, (i', j') <> (i, j) -> get (fst (alloc INIT a ok)) i' j' = get a i' j') /\
    (forall i' j' : nat, i' < i \/ i' = i /\ j' < j -> j' < length (nth i' a []) -> get a i' j' = true).
Proof. exact (@Urcu.BpArena.BpArena.alloc_first_fit). Qed.
Print Assumptions C15_bp_alloc_first_fit.

(* bp arena: growing - in place or by a new chunk, whichever mremap allows - keeps every existing (chunk, index) slot and its state: a thread's reader slot never moves *)
Theorem C15_bp_expand_stable :
    forall INIT : nat,
    0 < INIT ->
    forall (a : list (list bool)) (ok : bool) (i j : nat),
    j < length (nth i a []) -> get (expand INIT a ok) i j = get a i j.
Proof. exact (@Urcu.BpArena.BpArena.expand_stable). Qed.
Print Assumptions C15_bp_expand_stable.

(* bp arena: after the single expansion a free slot always exists *)
Theorem C15_bp_alloc_never_null :
    forall INIT : nat, 0 < INIT -> forall (a : arena) (ok : bool), wf a -> snd (alloc INIT a ok) <> None.
Proof. exact (@Urcu.BpArena.BpArena.alloc_never_null). Qed.
Print Assumptions C15_bp_alloc_never_null.

(* mb flavor on TSO with threads registering and unregistering at any moment relative to the grace period, any number of times (idle, under the registry mutex): when a grace period ends, no reader that was registered and inside a section when it began is still in that section - for every schedule, any number of readers and nesting depth *)
Theorem C15_gp_with_dynamic_registry :
    forall s : GpMbDyn.state,
    GpMbDyn.reach GpMbDyn.init s ->
    GpMbDyn.ph s = GpMbDyn.U_Idle -> forall r : nat, GpMbDyn.old_open (GpMbDyn.rd s r) = false.
Proof. exact (@Urcu.Gp.GpMbDyn.gp_mbdyn_waits_for_preexisting_readers). Qed.
Print Assumptions C15_gp_with_dynamic_registry.

(* every action sequence accepted by the executable interpreter (the one the projected traces of src/urcu.c with register / unregister operations are fed to) is a run of that model *)
Theorem C15_accepted_dynamic_trace_satisfies_gp :
    forall (regs : list nat) (l : list mact) (s' : GpMbDyn.state),
    mrun regs l GpMbDyn.init = Some s' ->
    GpMbDyn.reach GpMbDyn.init s' /\
    (GpMbDyn.ph s' = GpMbDyn.U_Idle -> forall r : nat, GpMbDyn.old_open (GpMbDyn.rd s' r) = false).
Proof. exact (@Urcu.Gp.GpMbDynExec.accepted_mbdyn_trace_satisfies_gp). Qed.
Print Assumptions C15_accepted_dynamic_trace_satisfies_gp.

(* memb flavor (sys_membarrier drains every reader's store buffer) with threads registering and unregistering at any moment: when a grace period ends, no reader that was registered and inside a section when it began is still in that section *)
Theorem C15_gp_memb_with_dynamic_registry :
    forall (isreg : nat -> bool) (s : state),
    reach (init isreg) s -> ph s = U_Idle -> forall r : nat, old_open (rd s r) = false.
Proof. exact (@Urcu.Gp.GpDynProof.gp_dyn_waits_for_preexisting_readers). Qed.
Print Assumptions C15_gp_memb_with_dynamic_registry.

(* every action sequence accepted by the executable interpreter fed with the projected traces of the default (memb) build of src/urcu.c with register / unregister operations is a run of that model *)
Theorem C15_accepted_dynamic_memb_trace_satisfies_gp :
    forall (regs : list nat) (l : list gact) (s' : state),
    grun regs l init0 = Some s' ->
    reach init0 s' /\ (ph s' = U_Idle -> forall r : nat, old_open (rd s' r) = false).
Proof. exact (@Urcu.Gp.GpDynExec.accepted_dyn_trace_satisfies_gp). Qed.
Print Assumptions C15_accepted_dynamic_memb_trace_satisfies_gp.

