(* C11 - stacks (static/wfstack.h, static/lfstack.h): the memory chain from the head spells the abstract LIFO stack in every reachable state, for every schedule
   Property theorems only: each is the full statement, closed by `exact`, followed by Print Assumptions. *)
Require Import Coq.Lists.List.
Require Import Coq.NArith.NArith.
Require Import Urcu.Base.MachE.
Require Import Urcu.Wfs.Wfs.
Require Import Urcu.Wfs.WfsProof.
Require Import Urcu.Wfs.WfsRun.
Require Import Urcu.Gen.Generated.
Import ListNotations.
Local Open Scope N_scope.

(* wfstack on x86-TSO, any number of pushers and pop_all callers, every schedule of Step/Flush choices: the chain from head spells the ghost stack (order of head exchanges) except at links whose store is still pending in exactly one pusher; pop_all empties it *)
Theorem C11_wfstack_chain_all_schedules :
    forall (cs : list choice) (s : st8) (st : list N),
    Inv s st -> Inv (fst (grun cs (s, st))) (snd (grun cs (s, st))).
Proof. exact (@Urcu.Wfs.WfsProof.wfs_chain_all_schedules). Qed.
Print Assumptions C11_wfstack_chain_all_schedules.

(* the model's end sentinel is CDS_WFS_END of the source *)
Theorem C11_wfstack_end_is_source_constant :
    vend = cds_wfs_end.
Proof. exact (@Urcu.Wfs.WfsRun.vend_is_source_constant). Qed.
Print Assumptions C11_wfstack_end_is_source_constant.

