(* C11 - stacks (static/wfstack.h, static/lfstack.h): the memory chain from the head spells the abstract LIFO stack in every reachable state, for every schedule; lfstack: LIFO chain invariant under the pop mutex with node reuse
   Property theorems only: each is the full statement, closed by `exact`, followed by Print Assumptions. *)
Require Import Urcu.Base.Lin.
Require Import Coq.Lists.List.
Require Import Coq.NArith.NArith.
Require Import Urcu.Base.MachE.
Require Import Urcu.Wfs.Wfs.
Require Import Urcu.Wfs.WfsProof.
Require Import Urcu.Wfs.WfsRun.
Require Import Urcu.Gen.Generated.
Require Import Urcu.Base.MachD.
Require Import Urcu.Lfs.Lfs.
Require Import Urcu.Lfs.LfsProof.
Require Import Urcu.Lfs.LfsLin.
Require Import Urcu.Wfs.WfsPriv.
Require Import Urcu.Wfs.WfsLin.
Require Import Urcu.LfsRcu.LfsRcu.
Require Import Urcu.LfsRcu.LfsRcuProof.
Require Import Urcu.LfsRcu.LfsRcuExec.
Require Import Urcu.LfsRcu.LfsRcuLin.
Require Import Urcu.WfsMx.WfsMx.
Require Import Urcu.WfsMx.WfsMxProof.
Require Import Urcu.WfsMx.WfsMxExec.
Require Import Urcu.WfsMx.WfsMxLin.
Import ListNotations.
Local Open Scope N_scope.

(* wfstack on x86-TSO, any number of pushers and pop_all callers, every schedule of Step/Flush choices: the chain from head spells the ghost stack (order of head exchanges) except at links whose store is still pending in exactly one pusher; pop_all empties it *)
Theorem C11_wfstack_chain_all_schedules :
    forall (cs : list MachE.choice) (s : st8) (st : list N),
    Wfs.Inv s st -> Wfs.Inv (fst (WfsProof.grun cs (s, st))) (snd (WfsProof.grun cs (s, st))).
Proof. exact (@Urcu.Wfs.WfsProof.wfs_chain_all_schedules). Qed.
Print Assumptions C11_wfstack_chain_all_schedules.

(* the model's end sentinel is CDS_WFS_END of the source *)
Theorem C11_wfstack_end_is_source_constant :
    Wfs.vend = cds_wfs_end.
Proof. exact (@Urcu.Wfs.WfsRun.vend_is_source_constant). Qed.
Print Assumptions C11_wfstack_end_is_source_constant.

(* lfstack (push / mutex-protected pop and pop_all / empty, popped nodes pushed again), any number of threads, every schedule: the memory chain from head spells the ghost stack (order of successful head exchanges), every node is in the stack or owned by exactly one thread, poppers are mutually excluded, and a popper's saved next pointer is still its node's successor at the cmpxchg (no ABA) *)
Theorem C11_lfstack_chain_all_schedules :
    forall (cs : list choice) (s : LfsLin.st) (stk : list N),
    LfsProof.Inv s stk -> LfsProof.Inv (fst (grun cs (s, stk))) (snd (grun cs (s, stk))).
Proof. exact (@Urcu.Lfs.LfsProof.lfs_chain_all_schedules). Qed.
Print Assumptions C11_lfstack_chain_all_schedules.

(* the initial state of any program that pushes distinct non-null nodes satisfies the invariant *)
Theorem C11_lfstack_initial_state :
    forall threads : nat -> list lop,
    (forall t : nat, NoDup (LfsProof.pushes (threads t)) /\ ~ In 0 (LfsProof.pushes (threads t))) ->
    (forall (t u : nat) (x : N),
    t <> u -> In x (LfsProof.pushes (threads t)) -> ~ In x (LfsProof.pushes (threads u))) ->
    LfsProof.Inv (init_state threads) [].
Proof. exact (@Urcu.Lfs.LfsProof.Inv_initial). Qed.
Print Assumptions C11_lfstack_initial_state.

(* a pop whose cmpxchg succeeds removes the top of the ghost stack and leaves the chain of the rest *)
Theorem C11_lfstack_pop_takes_top :
    forall (s : LfsLin.st) (stk : list N) (t : nat) (h nx : N),
    LfsProof.Inv s stk ->
    lcur (TS s t) = Lfs.O_Cas h nx ->
    M s LHead = h -> exists l : list N, stk = h :: l /\ LfsProof.chainm (M s) nx l.
Proof. exact (@Urcu.Lfs.LfsProof.pop_takes_top). Qed.
Print Assumptions C11_lfstack_pop_takes_top.

(* lfstack model (push, mutex-protected pop / pop_all, empty, reuse of popped nodes), any number of threads and programs over distinct fresh nodes, every schedule: the history - push with its was-non-empty answer, pop (top or NULL), pop_all (whole stack, by its top node), empty - is accepted by the LIFO automaton; linearisation points: successful head cmpxchg of push / pop, head load of a pop that sees NULL, head exchange of pop_all, head load of empty *)
Theorem C11_lfstack_linearizable_lifo :
    forall threads : nat -> list lop,
    (forall t : nat, NoDup (LfsProof.pushes (threads t)) /\ ~ In 0 (LfsProof.pushes (threads t))) ->
    (forall (t u : nat) (x : N),
    t <> u -> In x (LfsProof.pushes (threads t)) -> ~ In x (LfsProof.pushes (threads u))) ->
    forall cs : list choice,
    exists (a' : LfsLin.ast) (L : list (Lin.op LfsLin.sop N)),
    LfsLin.runl LfsLin.a0 (LfsLin.gtrace cs (init_state threads, [])) = Some (a', L) /\
    legal LfsLin.sop N (list N) LfsLin.lspec [] L /\
    (forall t : nat,
    tops LfsLin.sop N t L =
    hcomp LfsLin.sop N t None (LfsLin.gtrace cs (init_state threads, [])) ++
    pre LfsLin.sop N (pm LfsLin.sop N (list N) a' t)).
Proof. exact (@Urcu.Lfs.LfsLin.lfs_linearizable). Qed.
Print Assumptions C11_lfstack_linearizable_lifo.

(* wfstack: a node's link, once visible in memory or pending in a pusher (program counter at its link store, or the store in its buffer), stays visible or pending with the same target under every step of every thread - so a chain taken by pop_all keeps spelling the same nodes while suspended pushers complete *)
Theorem C11_wfstack_links_never_lost :
    forall (c : MachE.choice) (s : st8) (st : list N) (x b : N),
    Wfs.Inv s st -> lnk s x b -> lnk (fst (MachE.exec sloc sloc_eqb sprog c s)) x b.
Proof. exact (@Urcu.Wfs.WfsPriv.lnk_mono). Qed.
Print Assumptions C11_wfstack_links_never_lost.

(* the wfstack invariant holds in the initial state of any programs pushing distinct nodes (non-vacuity of the all-schedules theorems) *)
Theorem C11_wfstack_initial_state :
    forall threads : nat -> list Wfs.sop,
    (forall t : nat,
    NoDup (Wfs.pushes (threads t)) /\ (forall n : N, In n (Wfs.pushes (threads t)) -> 2 <= n)) ->
    (forall (t u : nat) (x : N), In x (Wfs.pushes (threads t)) -> In x (Wfs.pushes (threads u)) -> t = u) ->
    Wfs.Inv (WfsRun.init_state threads) [].
Proof. exact (@Urcu.Wfs.WfsLin.Inv_initial). Qed.
Print Assumptions C11_wfstack_initial_state.

(* wfstack, any number of threads, any programs of pushes and pop_all + blocking iteration, every schedule with TSO delays: the history - push answering 'stack was non-empty', pop_all answering with the list of nodes its iteration VISITED - is accepted by the LIFO automaton (linearisation points: the head exchanges); hence pop_all's iteration visits exactly the stack present at its exchange, top first, also past pushers suspended before their link store *)
Theorem C11_wfstack_linearizable_lifo :
    forall threads : nat -> list Wfs.sop,
    (forall t : nat,
    NoDup (Wfs.pushes (threads t)) /\ (forall n : N, In n (Wfs.pushes (threads t)) -> 2 <= n)) ->
    (forall (t u : nat) (x : N), In x (Wfs.pushes (threads t)) -> In x (Wfs.pushes (threads u)) -> t = u) ->
    forall cs : list MachE.choice,
    exists (a' : WfsLin.ast) (L : list (Lin.op wop (list N))),
    WfsLin.runl WfsLin.a0 (gtrace cs (WfsRun.init_state threads, [], p0)) = Some (a', L) /\
    legal wop (list N) (list N) wspec [] L /\
    (forall t : nat,
    tops wop (list N) t L =
    hcomp wop (list N) t None (gtrace cs (WfsRun.init_state threads, [], p0)) ++
    pre wop (list N) (pm wop (list N) (list N) a' t)).
Proof. exact (@Urcu.Wfs.WfsLin.wfs_linearizable). Qed.
Print Assumptions C11_wfstack_linearizable_lifo.

(* legacy cds_lfs_rcu (no mutex: any number of concurrent pushers and poppers, poppers inside read-side sections, popped nodes pushed again only after a grace period), every schedule: the memory chain spells the abstract stack, every node has exactly one owner, a popper's held reference is either still in the stack with an unchanged link or protected by its section *)
Theorem C11_rculfstack_invariant_all_schedules :
    forall (NT : nat) (threads : nat -> list LfsRcu.op),
    (forall t : nat, NoDup (LfsRcuProof.pushes (threads t)) /\ ~ In 0 (LfsRcuProof.pushes (threads t))) ->
    (forall (t u : nat) (n : N),
    In n (LfsRcuProof.pushes (threads t)) -> In n (LfsRcuProof.pushes (threads u)) -> t = u) ->
    (forall t : nat, (NT <= t)%nat -> threads t = []) ->
    forall cs : list nat, LfsRcuProof.Inv NT (LfsRcu.run NT true cs (LfsRcu.init threads)).
Proof. exact (@Urcu.LfsRcu.LfsRcuProof.rculfs_invariant_all_schedules). Qed.
Print Assumptions C11_rculfstack_invariant_all_schedules.

(* no ABA: when a popper's cmpxchg succeeds the node it takes is the top of the abstract stack and the successor it installs is the node below - however long it was delayed between its loads and the cmpxchg *)
Theorem C11_rculfstack_pop_never_stale :
    forall (NT : nat) (s : LfsRcu.st) (t : nat) (h nx : N),
    LfsRcuProof.Inv NT s ->
    LfsRcu.tpc (LfsRcu.th s t) = O_Cas h nx ->
    LfsRcu.head s = h ->
    exists l : list N,
    LfsRcu.stk s = h :: l /\
    LfsRcu.chainm (LfsRcu.nxt s) nx l /\
    LfsRcu.stk (LfsRcu.step NT true t s) = l /\
    LfsRcu.head (LfsRcu.step NT true t s) = nx /\
    LfsRcu.tpc (LfsRcu.th (LfsRcu.step NT true t s) t) = O_Exit h.
Proof. exact (@Urcu.LfsRcu.LfsRcuProof.pop_cmpxchg_never_stale). Qed.
Print Assumptions C11_rculfstack_pop_never_stale.

(* sensitivity: with immediate reuse a delayed popper installs a node another thread owns (concrete three-thread run): the grace period is what excludes ABA *)
Theorem C11_rculfstack_reuse_without_grace_period_refuted :
    let s := LfsRcu.run 3 false aba_sched (LfsRcu.init LfsRcuProof.aba_threads) in
    ~ LfsRcu.chainm (LfsRcu.nxt s) (LfsRcu.head s) (LfsRcu.stk s) /\
    LfsRcu.head s = 3 /\ LfsRcu.stk s = [2].
Proof. exact (@Urcu.LfsRcu.LfsRcuProof.reuse_without_grace_period_refuted). Qed.
Print Assumptions C11_rculfstack_reuse_without_grace_period_refuted.

(* every action sequence accepted by the executable acceptor fed with the projected traces of static/rculfstack.h keeps that invariant *)
Theorem C11_accepted_rculfstack_trace_keeps_invariant :
    forall (NT : nat) (threads : nat -> list LfsRcu.op),
    (forall t : nat, NoDup (LfsRcuProof.pushes (threads t)) /\ ~ In 0 (LfsRcuProof.pushes (threads t))) ->
    (forall (t u : nat) (n : N),
    In n (LfsRcuProof.pushes (threads t)) -> In n (LfsRcuProof.pushes (threads u)) -> t = u) ->
    (forall t : nat, (NT <= t)%nat -> threads t = []) ->
    forall (l : list ract) (s : LfsRcu.st),
    rrun NT l (LfsRcu.init threads) = Some s -> LfsRcuProof.Inv NT s.
Proof. exact (@Urcu.LfsRcu.LfsRcuExec.accepted_rculfs_trace_keeps_invariant). Qed.
Print Assumptions C11_accepted_rculfstack_trace_keeps_invariant.

(* legacy cds_lfs_rcu: every history of the model - any number of concurrent pushers and poppers, reuse after a grace period, every schedule - is accepted by the LIFO automaton (push with its was-non-empty answer, pop answering the top node or NULL), linearisation points at the successful cmpxchg / the head load that sees NULL *)
Theorem C11_rculfstack_linearizable_lifo :
    forall (NT : nat) (threads : nat -> list LfsRcu.op),
    (forall t : nat, NoDup (LfsRcuProof.pushes (threads t)) /\ ~ In 0 (LfsRcuProof.pushes (threads t))) ->
    (forall (t u : nat) (n : N),
    In n (LfsRcuProof.pushes (threads t)) -> In n (LfsRcuProof.pushes (threads u)) -> t = u) ->
    (forall t : nat, (NT <= t)%nat -> threads t = []) ->
    forall cs : list nat,
    exists (a' : LfsRcuLin.ast) (L : list (Lin.op LfsRcuLin.sop N)),
    LfsRcuLin.runl LfsRcuLin.a0 (LfsRcuLin.htrace NT cs (LfsRcu.init threads)) = Some (a', L) /\
    legal LfsRcuLin.sop N (list N) LfsRcuLin.lspec [] L /\
    (forall t : nat,
    tops LfsRcuLin.sop N t L =
    hcomp LfsRcuLin.sop N t None (LfsRcuLin.htrace NT cs (LfsRcu.init threads)) ++
    pre LfsRcuLin.sop N (pm LfsRcuLin.sop N (list N) a' t)).
Proof. exact (@Urcu.LfsRcu.LfsRcuLin.rculfs_linearizable). Qed.
Print Assumptions C11_rculfstack_linearizable_lifo.

(* wfstack with wait-free pushers and the mutex-protected single pop, popped nodes pushed again at once: for every schedule the logical successors spell the abstract stack, every node has one owner, a pending next-store belongs to a node still on the stack, poppers hold the mutex *)
Theorem C11_wfstack_mutex_pop_invariant_all_schedules :
    forall threads : nat -> list op,
    (forall t : nat,
    NoDup (pushes (threads t)) /\ ~ In 0 (pushes (threads t)) /\ ~ In vend (pushes (threads t))) ->
    (forall (t u : nat) (n : N), In n (pushes (threads t)) -> In n (pushes (threads u)) -> t = u) ->
    forall cs : list nat, Inv (run true cs (init threads)).
Proof. exact (@Urcu.WfsMx.WfsMxProof.wfs_mutex_pop_invariant_all_schedules). Qed.
Print Assumptions C11_wfstack_mutex_pop_invariant_all_schedules.

(* when the head cmpxchg of a pop succeeds, its (head, next) pair is the top node and that node's current successor: no ABA although nodes are re-used without a grace period *)
Theorem C11_wfstack_mutex_pop_never_stale :
    forall threads : nat -> list op,
    (forall t : nat,
    NoDup (pushes (threads t)) /\ ~ In 0 (pushes (threads t)) /\ ~ In vend (pushes (threads t))) ->
    (forall (t u : nat) (n : N), In n (pushes (threads t)) -> In n (pushes (threads u)) -> t = u) ->
    forall (cs : list nat) (t : nat) (a b : N),
    let s := run true cs (init threads) in
    tpc (th s t) = Q_Cas a b ->
    head s = a ->
    exists l : list N, stk s = a :: l /\ chainm (gn s) b l /\ stk (step t s) = l /\ head (step t s) = b.
Proof. exact (@Urcu.WfsMx.WfsMxProof.pop_cmpxchg_never_stale). Qed.
Print Assumptions C11_wfstack_mutex_pop_never_stale.

(* two threads are never both between the mutex acquisition and release of a pop *)
Theorem C11_wfstack_poppers_exclude_one_another :
    forall threads : nat -> list op,
    (forall t : nat,
    NoDup (pushes (threads t)) /\ ~ In 0 (pushes (threads t)) /\ ~ In vend (pushes (threads t))) ->
    (forall (t u : nat) (n : N), In n (pushes (threads t)) -> In n (pushes (threads u)) -> t = u) ->
    forall (cs : list nat) (t u : nat),
    let s := run true cs (init threads) in inQ (tpc (th s t)) = true -> inQ (tpc (th s u)) = true -> t = u.
Proof. exact (@Urcu.WfsMx.WfsMxProof.poppers_exclude_one_another). Qed.
Print Assumptions C11_wfstack_poppers_exclude_one_another.

(* without the mutex the ABA corruption is reachable (witness schedule): head points to a node another thread owns while the abstract stack is empty *)
Theorem C11_wfstack_pop_without_mutex_refuted :
    exists cs : list nat,
    let s := run false cs (init aba_threads) in head s = 5 /\ stk s = [] /\ last (th s 3) = 5.
Proof. exact (@Urcu.WfsMx.WfsMxProof.pop_without_mutex_refuted). Qed.
Print Assumptions C11_wfstack_pop_without_mutex_refuted.

(* what the extracted driver computes: an implementation trace accepted for well-formed programs ends in a model state where the invariant holds *)
Theorem C11_accepted_wfstack_pop_trace_keeps_invariant :
    forall (progs : list (list op)) (l : list mact),
    accept progs l = true -> exists s : st, mrun l (init (threads_of progs)) = Some s /\ Inv s.
Proof. exact (@Urcu.WfsMx.WfsMxExec.accept_sound). Qed.
Print Assumptions C11_accepted_wfstack_pop_trace_keeps_invariant.

(* every history of that model is linearizable w.r.t. the LIFO specification (push with its was-non-empty answer, pop = top or NULL) *)
Theorem C11_wfstack_mutex_pop_linearizable_lifo :
    forall threads : nat -> list op,
    (forall t : nat,
    NoDup (pushes (threads t)) /\ ~ In 0 (pushes (threads t)) /\ ~ In vend (pushes (threads t))) ->
    (forall (t u : nat) (n : N), In n (pushes (threads t)) -> In n (pushes (threads u)) -> t = u) ->
    forall cs : list nat,
    exists (a' : ast) (L : list (Lin.op sop N)),
    runl a0 (htrace cs (init threads)) = Some (a', L) /\
    legal sop N (list N) lspec [] L /\
    (forall t : nat,
    tops sop N t L =
    hcomp sop N t None (htrace cs (init threads)) ++ pre sop N (pm sop N (list N) a' t)).
Proof. exact (@Urcu.WfsMx.WfsMxLin.wfs_mutex_pop_linearizable). Qed.
Print Assumptions C11_wfstack_mutex_pop_linearizable_lifo.

