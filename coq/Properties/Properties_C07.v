(* C07 - rculfhash: a removed node has exactly one owner among del and replace callers (src/rculfhash.c _cds_lfht_del, _cds_lfht_replace); reclamation template proved on the queue (C12)
   Property theorems only: each is the full statement, closed by `exact`, followed by Print Assumptions. *)
Require Import Coq.Lists.List.
Require Import Coq.NArith.NArith.
Require Import Urcu.Base.MachD.
Require Import Urcu.Lfht.Lfht.
Require Import Urcu.Lfht.LfhtSorted.
Require Import Urcu.Lfht.LfhtReach.
Require Import Urcu.Lfht.LfhtStep.
Require Import Urcu.Lfht.LfhtKinds.
Require Import Urcu.Lfht.LfhtRch.
Require Import Urcu.Lfht.LfhtFind.
Require Import Urcu.Lfht.LfhtOwner.
Import ListNotations.

(* in every run, per node, at most one event is an ownership exchange of a del that returns a word without the owner flag or a successful replacing cmpxchg: exactly one caller obtains the node *)
Theorem C07_single_owner :
    forall (C : cfg) (isB : N -> bool),
    (forall i : N, isB (bucket C i) = true) ->
    forall (n : N) (cs : list choice) (s : state hloc (hprog C)),
    Inv2 C isB s ->
    OR C s ->
    (insd C s n ->
    is_owner (nxw C s n) = true -> count_succ n (snd (run hloc hloc_eqb (hprog C) cs s)) = 0) /\
    count_succ n (snd (run hloc hloc_eqb (hprog C) cs s)) <= 1.
Proof. exact (@Urcu.Lfht.LfhtOwner.lfht_single_owner). Qed.
Print Assumptions C07_single_owner.

(* removed nodes keep their pointer part; OWNER only on REMOVED nodes; closure of pointers *)
Theorem C07_lifecycle_all_schedules :
    forall (C : cfg) (isB : N -> bool),
    (forall i : N, isB (bucket C i) = true) ->
    forall (cs : list choice) (s : state hloc (hprog C)),
    Inv2 C isB s -> Inv2 C isB (fst (run hloc hloc_eqb (hprog C) cs s)).
Proof. exact (@Urcu.Lfht.LfhtStep.lfht_lifecycle_all_schedules). Qed.
Print Assumptions C07_lifecycle_all_schedules.

