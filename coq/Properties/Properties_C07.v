(* C07 - rculfhash: a removed node has exactly one owner among del and replace callers (src/rculfhash.c _cds_lfht_del, _cds_lfht_replace); reclamation template proved on the queue (C12)
   Property theorems only: each is the full statement, closed by `exact`, followed by Print Assumptions. *)
Require Import Coq.Lists.List.
Require Import Coq.NArith.NArith.
Require Import Urcu.Base.MachD.
Require Import Urcu.Lfht.Lfht.
Require Import Urcu.Lfht.LfhtSorted.
Require Import Urcu.Lfht.LfhtReach.
Require Import Urcu.Lfht.LfhtStep.
Require Import Urcu.Lfht.LfhtKinds.
Require Import Urcu.Lfht.LfhtRch.
Require Import Urcu.Lfht.LfhtFind.
Require Import Urcu.Lfht.LfhtOwner.
Require Import Urcu.Lfht.LfhtDead.
Require Import Urcu.Lfht.LfhtExample.
Import ListNotations.

(* in every run, per node, at most one event is an ownership exchange of a del that returns a word without the owner flag or a successful replacing cmpxchg: exactly one caller obtains the node *)
Theorem C07_single_owner :
    forall (C : cfg) (isB : N -> bool),
    (forall i : N, isB (bucket C i) = true) ->
    forall (n : N) (cs : list choice) (s : state hloc (hprog C)),
    Inv2 C isB s ->
    OR C s ->
    (insd C s n ->
    is_owner (nxw C s n) = true -> count_succ n (snd (run hloc hloc_eqb (hprog C) cs s)) = 0) /\
    count_succ n (snd (run hloc hloc_eqb (hprog C) cs s)) <= 1.
Proof. exact (@Urcu.Lfht.LfhtOwner.lfht_single_owner). Qed.
Print Assumptions C07_single_owner.

(* removed nodes keep their pointer part; OWNER only on REMOVED nodes; closure of pointers *)
Theorem C07_lifecycle_all_schedules :
    forall (C : cfg) (isB : N -> bool),
    (forall i : N, isB (bucket C i) = true) ->
    forall (cs : list choice) (s : state hloc (hprog C)),
    Inv2 C isB s -> Inv2 C isB (fst (run hloc hloc_eqb (hprog C) cs s)).
Proof. exact (@Urcu.Lfht.LfhtStep.lfht_lifecycle_all_schedules). Qed.
Print Assumptions C07_lifecycle_all_schedules.

(* a node that is inserted and no longer reachable from the head bucket stays unreachable in every later state of every schedule: between already-inserted nodes a step never creates a path (insertion and replace splice a NEW node into an existing edge, garbage collection shortcuts an existing path, flagging keeps the pointer) *)
Theorem C07_unlinked_stays_unlinked :
    forall (C : cfg) (isB : N -> bool),
    (forall i : N, isB (bucket C i) = true) ->
    forall root : N,
    isB root = true ->
    forall (cs : list choice) (s : state hloc (hprog C)) (x : N),
    Inv2 C isB s -> dead C root s x -> dead C root (fst (run hloc hloc_eqb (hprog C) cs s)) x.
Proof. exact (@Urcu.Lfht.LfhtDead.unlinked_stays_unlinked). Qed.
Print Assumptions C07_unlinked_stays_unlinked.

(* ... and a thread that holds no reference (locals of its current operation, iterator) from which the unlinked node can be reached never obtains one and never accesses the node's word again, whatever all threads do: new references are old ones, buckets (reachable from the root), the successor of a referenced node, or the node a successful replace has just linked in *)
Theorem C07_no_access_after_unlink :
    forall (C : cfg) (isB : N -> bool),
    (forall i : N, isB (bucket C i) = true) ->
    forall root : N,
    isB root = true ->
    forall (cs : list choice) (s : state hloc (hprog C)) (t : nat) (x : N),
    Inv2 C isB s ->
    R C root s ->
    dead C root s x ->
    clean C s t x ->
    x <> 0%N ->
    let s' := fst (run hloc hloc_eqb (hprog C) cs s) in
    dead C root s' x /\
    clean C s' t x /\ touches (hact (tpc hloc (hprog C) (THr C s' t))) <> Some (HNext x).
Proof. exact (@Urcu.Lfht.LfhtDead.no_access_after_unlink). Qed.
Print Assumptions C07_no_access_after_unlink.

(* a thread between operations with no iterator holds no reference: after a grace period (every read-side section that was open at the unlink has ended) this is true of every thread at some instant after the unlink, so by the previous theorem the node may be freed *)
Theorem C07_thread_between_operations_is_clean :
    forall (C : cfg) (s : state hloc (hprog C)) (t : nat) (x : N),
    PCr C s t = H_Idle -> FND C s t = 0%N -> clean C s t x.
Proof. exact (@Urcu.Lfht.LfhtDead.idle_clean). Qed.
Print Assumptions C07_thread_between_operations_is_clean.

(* non-vacuity: in the example configuration node 3 is inserted, looked up, deleted and unlinked (18 steps of the deleter); it is then dead, and thread 1 - idle at that instant - never accesses it in any continuation *)
Theorem C07_no_access_instance :
    forall cs : list choice,
    let s1 := fst (run hloc hloc_eqb (hprog C0) (repeat (Step 0) 6 ++ repeat (Step 2) 18) s0) in
    let s' := fst (run hloc hloc_eqb (hprog C0) cs s1) in
    dead C0 1 s1 3 /\
    dead C0 1 s' 3 /\ touches (hact (tpc hloc (hprog C0) (THr C0 s' 1))) <> Some (HNext 3).
Proof. exact (@Urcu.Lfht.LfhtExample.no_access_instance). Qed.
Print Assumptions C07_no_access_instance.

