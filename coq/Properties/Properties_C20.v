(* C20 - uatomic operations: byte-level specification for widths 1/2/4/8, frame, no lost update, RMW = full barrier on x86-TSO
   Property theorems only: each is the full statement, closed by `exact`, followed by Print Assumptions. *)
Require Import Coq.Lists.List.
Require Import Coq.NArith.NArith.
Require Import Coq.Sorting.Permutation.
Require Import Urcu.Uatomic.Uatomic.
Require Import Urcu.Uatomic.UatomicMore.
Import ListNotations.

(* no byte outside [a, a+w) changes, for every operation, width and operand *)
Theorem C20_frame :
    forall (m : mem) (a : N) (w : nat) (o : op) (x : N),
    (x < a)%N \/ (a + N.of_nat w <= x)%N -> fst (exec m a w o) x = m x.
Proof. exact (@Urcu.Uatomic.Uatomic.uatomic_frame). Qed.
Print Assumptions C20_frame.

(* set stores the operand truncated to the width *)
Theorem C20_set_spec :
    forall (m : mem) (a : N) (w : nat) (v : N), rd (fst (exec m a w (OSet v))) a w = modw w v.
Proof. exact (@Urcu.Uatomic.UatomicMore.uatomic_set_spec). Qed.
Print Assumptions C20_set_spec.

(* read returns the stored value and changes nothing *)
Theorem C20_read_spec :
    forall (m : mem) (a : N) (w : nat), exec m a w ORead = (m, rd m a w).
Proof. exact (@Urcu.Uatomic.UatomicMore.uatomic_read_spec). Qed.
Print Assumptions C20_read_spec.

(* xchg returns the old value and stores the new one mod 2^(8w) *)
Theorem C20_xchg_spec :
    forall (m : mem) (a : N) (w : nat) (v : N),
    wfm m -> let '(m', r) := exec m a w (OXchg v) in r = rd m a w /\ rd m' a w = modw w v.
Proof. exact (@Urcu.Uatomic.Uatomic.uatomic_xchg_spec). Qed.
Print Assumptions C20_xchg_spec.

(* cmpxchg returns the old value; stores new iff old = expected (mod 2^(8w)) *)
Theorem C20_cmpxchg_spec :
    forall (m : mem) (a : N) (w : nat) (e n : N),
    wfm m ->
    let
    '(m', r) := exec m a w (OCmpxchg e n) in
    r = rd m a w /\ rd m' a w = (if (rd m a w =? modw w e)%N then modw w n else rd m a w).
Proof. exact (@Urcu.Uatomic.Uatomic.uatomic_cmpxchg_spec). Qed.
Print Assumptions C20_cmpxchg_spec.

(* add_return stores and returns old + v mod 2^(8w) *)
Theorem C20_add_return_spec :
    forall (m : mem) (a : N) (w : nat) (v : N),
    let '(m', r) := exec m a w (OAddRet v) in r = modw w (rd m a w + v) /\ rd m' a w = r.
Proof. exact (@Urcu.Uatomic.Uatomic.uatomic_add_return_spec). Qed.
Print Assumptions C20_add_return_spec.

(* sub_return stores and returns the residue r with r + v = old mod 2^(8w) *)
Theorem C20_sub_return_spec :
    forall (m : mem) (a : N) (w : nat) (v : N),
    wfm m -> let '(m', r) := exec m a w (OSubRet v) in rd m' a w = r /\ modw w (r + v) = rd m a w.
Proof. exact (@Urcu.Uatomic.Uatomic.uatomic_sub_return_spec). Qed.
Print Assumptions C20_sub_return_spec.

(* add *)
Theorem C20_add_spec :
    forall (m : mem) (a : N) (w : nat) (v : N), rd (fst (exec m a w (OAdd v))) a w = modw w (rd m a w + v).
Proof. exact (@Urcu.Uatomic.UatomicMore.uatomic_add_spec). Qed.
Print Assumptions C20_add_spec.

(* sub *)
Theorem C20_sub_spec :
    forall (m : mem) (a : N) (w : nat) (v : N),
    wfm m -> modw w (rd (fst (exec m a w (OSub v))) a w + v) = rd m a w.
Proof. exact (@Urcu.Uatomic.UatomicMore.uatomic_sub_spec). Qed.
Print Assumptions C20_sub_spec.

(* inc *)
Theorem C20_inc_spec :
    forall (m : mem) (a : N) (w : nat), rd (fst (exec m a w OInc)) a w = modw w (rd m a w + 1).
Proof. exact (@Urcu.Uatomic.UatomicMore.uatomic_inc_spec). Qed.
Print Assumptions C20_inc_spec.

(* dec *)
Theorem C20_dec_spec :
    forall (m : mem) (a : N) (w : nat), wfm m -> modw w (rd (fst (exec m a w ODec)) a w + 1) = rd m a w.
Proof. exact (@Urcu.Uatomic.UatomicMore.uatomic_dec_spec). Qed.
Print Assumptions C20_dec_spec.

(* and *)
Theorem C20_and_spec :
    forall (m : mem) (a : N) (w : nat) (v : N),
    wfm m -> rd (fst (exec m a w (OAnd v))) a w = N.land (rd m a w) v.
Proof. exact (@Urcu.Uatomic.UatomicMore.uatomic_and_spec). Qed.
Print Assumptions C20_and_spec.

(* or *)
Theorem C20_or_spec :
    forall (m : mem) (a : N) (w : nat) (v : N),
    wfm m -> rd (fst (exec m a w (OOr v))) a w = N.lor (rd m a w) (modw w v).
Proof. exact (@Urcu.Uatomic.UatomicMore.uatomic_or_spec). Qed.
Print Assumptions C20_or_spec.

(* any number of atomic additions in any order leave init + sum mod 2^(8w) *)
Theorem C20_rmw_no_lost_update :
    forall (m : mem) (a : N) (w : nat) (vs vs' : list N),
    wfm m ->
    Permutation vs vs' ->
    vs <> [] ->
    rd (apply_adds m a w vs) a w = modw w (rd m a w + sumN vs) /\
    rd (apply_adds m a w vs') a w = rd (apply_adds m a w vs) a w.
Proof. exact (@Urcu.Uatomic.UatomicMore.rmw_no_lost_update). Qed.
Print Assumptions C20_rmw_no_lost_update.

(* operations on disjoint byte ranges commute *)
Theorem C20_rmw_adjacent_commute :
    forall (m : mem) (a1 : N) (w1 : nat) (v1 a2 : N) (w2 : nat) (v2 x : N),
    (a1 + N.of_nat w1 <= a2)%N \/ (a2 + N.of_nat w2 <= a1)%N ->
    fst (exec (fst (exec m a1 w1 (OAdd v1))) a2 w2 (OAdd v2)) x =
    fst (exec (fst (exec m a2 w2 (OAdd v2))) a1 w1 (OAdd v1)) x.
Proof. exact (@Urcu.Uatomic.UatomicMore.rmw_adjacent_commute). Qed.
Print Assumptions C20_rmw_adjacent_commute.

(* store-buffering litmus on TSO: with an RMW between store and load, r0 = r1 = 0 is unreachable for every schedule *)
Theorem C20_rmw_full_barrier :
    forall cs : list sbc, sb_bad (sb_run true cs) = false.
Proof. exact (@Urcu.Uatomic.UatomicMore.rmw_full_barrier). Qed.
Print Assumptions C20_rmw_full_barrier.

(* ... and reachable without it (non-vacuity) *)
Theorem C20_sb_relaxed_witness :
    sb_bad (sb_run false [S0; S1; S0; S1; S0; S1]) = true.
Proof. exact (@Urcu.Uatomic.UatomicMore.sb_relaxed_witness). Qed.
Print Assumptions C20_sb_relaxed_witness.

