(* C19 - read-side critical sections inside signal handlers (memb, mb, bp): handlers nested to any depth at any program point leave the reader word as they found it; the interrupted lock / unlock has the effect of the uninterrupted one; the machine-word arithmetic of the source refines the abstract stores
   Property theorems only: each is the full statement, closed by `exact`, followed by Print Assumptions. *)
Require Import Coq.NArith.NArith.
Require Import Urcu.Handler.Handler.
Require Import Urcu.Handler.HandlerExec.
Require Import Urcu.Gen.Generated.


(* any sequence of handlers, each of which may itself be interrupted at every one of its program points to any depth, leaves the reader word with the same nesting count and - when that count is non-zero - the very same word, whatever the global phase does meanwhile *)
Theorem C19_handler_frame :
    (forall c c' : word, handlers c c' -> sim c' c) /\ (forall c c' : word, handler c c' -> sim c' c).
Proof. exact (@Urcu.Handler.Handler.handler_frame). Qed.
Print Assumptions C19_handler_frame.

(* rcu_read_lock whose store uses a value read before the interruptions has the effect of the uninterrupted one *)
Theorem C19_lock_interrupted :
    forall (g : bool) (c c1 : word),
    handlers c c1 -> sim (lock_store g c) (lock_store g c1) /\ snd (lock_store g c) = S (snd c1).
Proof. exact (@Urcu.Handler.Handler.lock_interrupted). Qed.
Print Assumptions C19_lock_interrupted.

(* rcu_read_unlock likewise *)
Theorem C19_unlock_interrupted :
    forall (c : bool * nat) (c1 : word), snd c <> 0 -> handlers c c1 -> unlock_store c = unlock_store c1.
Proof. exact (@Urcu.Handler.Handler.unlock_interrupted). Qed.
Print Assumptions C19_unlock_interrupted.

(* the machine-word lock (copy of the global counter when idle, +1 when nested) is Handler.lock_store on (phase, nesting count), with the source's constants *)
Theorem C19_word_lock_refines :
    forall g w : N,
    (nestw w < P32 - 1)%N -> nestw g = 1%N -> absw (lockw g w) = lock_store (phasew g) (absw w).
Proof. exact (@Urcu.Handler.HandlerExec.lockw_is_lock_store). Qed.
Print Assumptions C19_word_lock_refines.

(* the machine-word unlock (-1) is Handler.unlock_store *)
Theorem C19_word_unlock_refines :
    forall w : N, nestw w <> 0%N -> absw (unlockw w) = unlock_store (absw w).
Proof. exact (@Urcu.Handler.HandlerExec.unlockw_refines). Qed.
Print Assumptions C19_word_unlock_refines.

(* the executable frame relation on machine words implies Handler.sim *)
Theorem C19_word_frame_sound :
    forall w' w : N, simw w' w = true -> sim (absw w') (absw w).
Proof. exact (@Urcu.Handler.HandlerExec.simw_sound). Qed.
Print Assumptions C19_word_frame_sound.

(* URCU_GP_COUNT = 1, URCU_GP_CTR_NEST_MASK = 2^32 - 1, URCU_GP_CTR_PHASE = 2^32 as extracted from the source *)
Theorem C19_constants :
    gp_count = 1%N /\ gp_ctr_nest_mask = (P32 - 1)%N /\ gp_ctr_phase = P32.
Proof. exact (@Urcu.Handler.HandlerExec.consts). Qed.
Print Assumptions C19_constants.

