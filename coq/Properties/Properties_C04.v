(* C04 - rcu_barrier returns only after every previously queued callback has run
   Property theorems only: each is the full statement, closed by `exact`, followed by Print Assumptions. *)
Require Import Coq.Lists.List.
Require Import Coq.Arith.Arith.
Require Import Urcu.CallRcu.CallRcuExec.
Require Import Urcu.Futex.CrFutex.
Require Import Urcu.Futex.Completion.
Import ListNotations.

(* a marker callback queued to helper h after the callbacks `pre` has run only after all of them (FIFO per helper) *)
Theorem C04_barrier_covers :
    forall (s : CallRcuExec.st) (h m : nat) (pre post : list nat),
    cons_ok s ->
    hall (CallRcuExec.hp s h) = pre ++ m :: post ->
    NoDup (hall (CallRcuExec.hp s h)) ->
    In m (hdone (CallRcuExec.hp s h)) -> forall c : nat, In c pre -> In c (hdone (CallRcuExec.hp s h)).
Proof. exact (@Urcu.CallRcu.CallRcuExec.barrier_covers). Qed.
Print Assumptions C04_barrier_covers.

(* conservation incl. hand-over of a destroyed helper's queue to the default helper, in order *)
Theorem C04_cb_fifo_conservation :
    forall (readers : list nat) (l : list CallRcuExec.choice) (s' : CallRcuExec.st),
    crun readers l CallRcuExec.init = Some s' -> cons_ok s'.
Proof. exact (@Urcu.CallRcu.CallRcuExec.cb_fifo_conservation). Qed.
Print Assumptions C04_cb_fifo_conservation.

(* the same futex skeleton serves the barrier completion futex (queue = barrier_count != 0, wakers = marker callbacks) *)
Theorem C04_completion_no_lost_wakeup :
    forall cs : list choice,
    let s := fold_left (fun (s : st) (c : choice) => exec c s) cs init in
    hp s = H_Blocked -> (forall w : nat, wp s w = W_Done \/ wp s w = W_Enq) -> qn s = 0.
Proof. exact (@Urcu.Futex.CrFutex.helper_no_lost_wakeup). Qed.
Print Assumptions C04_completion_no_lost_wakeup.

(* the reference-counted completion object of rcu_barrier(), any number of markers, every order of accesses and reference drops: nobody touches the object after its release, and it is released exactly when no holder uses it any more (each holder drops its reference as its last access) *)
Theorem C04_completion_never_used_after_release :
    forall (n : nat) (cs : list rchoice),
    let s := rrun false cs (rinit (S n)) in bad s = false /\ (freed s = true <-> nusing (hs s) = 0).
Proof. exact (@Urcu.Futex.Completion.completion_never_used_after_release). Qed.
Print Assumptions C04_completion_never_used_after_release.

(* sensitivity: a holder that drops its reference before its last access touches a released object *)
Theorem C04_completion_put_before_last_access_refuted :
    exists cs : list rchoice, bad (rrun true cs (rinit 2)) = true.
Proof. exact (@Urcu.Futex.Completion.put_before_last_access_refuted). Qed.
Print Assumptions C04_completion_put_before_last_access_refuted.

(* wake-up handshake between the marker that brings the countdown to zero and the rcu_barrier() caller (other markers abstracted by nondeterminism; reachable state set computed and checked closed inside Coq): the caller leaves only with the countdown at zero, and once the last marker has finished its wake-up path the caller is not left asleep *)
Theorem C04_barrier_returns_after_markers_and_is_not_lost :
    forall cs : list hchoice,
    let s := hrun true cs hinit in
    (w s = W_Out -> bcpos s = false) /\ (last s = L_Done -> ~ (w s = W_Sleep /\ woken s = false)).
Proof. exact (@Urcu.Futex.Completion.barrier_returns_after_markers_and_is_not_lost). Qed.
Print Assumptions C04_barrier_returns_after_markers_and_is_not_lost.

(* ... and from there the caller, running alone, returns within 8 of its own steps *)
Theorem C04_barrier_caller_finishes :
    forall cs : list hchoice,
    let s := hrun true cs hinit in last s = L_Done -> w (hrun true (repeat CW 8) s) = W_Out.
Proof. exact (@Urcu.Futex.Completion.barrier_caller_finishes). Qed.
Print Assumptions C04_barrier_caller_finishes.

(* sensitivity: FUTEX_WAKE issued before the store of 0 leaves the caller asleep for ever *)
Theorem C04_wake_before_store_refuted :
    exists cs : list hchoice,
    let s := hrun false cs hinit in
    last s = L_Done /\ w s = W_Sleep /\ woken s = false /\ bcpos s = false.
Proof. exact (@Urcu.Futex.Completion.wake_before_store_refuted). Qed.
Print Assumptions C04_wake_before_store_refuted.

