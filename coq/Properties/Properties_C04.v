(* C04 - rcu_barrier returns only after every previously queued callback has run
   Property theorems only: each is the full statement, closed by `exact`, followed by Print Assumptions. *)
Require Import Coq.Lists.List.
Require Import Coq.Arith.Arith.
Require Import Urcu.CallRcu.CallRcuExec.
Require Import Urcu.Futex.CrFutex.
Import ListNotations.

(* a marker callback queued to helper h after the callbacks `pre` has run only after all of them (FIFO per helper) *)
Theorem C04_barrier_covers :
    forall (s : CallRcuExec.st) (h m : nat) (pre post : list nat),
    cons_ok s ->
    hall (CallRcuExec.hp s h) = pre ++ m :: post ->
    NoDup (hall (CallRcuExec.hp s h)) ->
    In m (hdone (CallRcuExec.hp s h)) -> forall c : nat, In c pre -> In c (hdone (CallRcuExec.hp s h)).
Proof. exact (@Urcu.CallRcu.CallRcuExec.barrier_covers). Qed.
Print Assumptions C04_barrier_covers.

(* conservation incl. hand-over of a destroyed helper's queue to the default helper, in order *)
Theorem C04_cb_fifo_conservation :
    forall (readers : list nat) (l : list CallRcuExec.choice) (s' : CallRcuExec.st),
    crun readers l CallRcuExec.init = Some s' -> cons_ok s'.
Proof. exact (@Urcu.CallRcu.CallRcuExec.cb_fifo_conservation). Qed.
Print Assumptions C04_cb_fifo_conservation.

(* the same futex skeleton serves the barrier completion futex (queue = barrier_count != 0, wakers = marker callbacks) *)
Theorem C04_completion_no_lost_wakeup :
    forall cs : list choice,
    let s := fold_left (fun (s : st) (c : choice) => exec c s) cs init in
    hp s = H_Blocked -> (forall w : nat, wp s w = W_Done \/ wp s w = W_Enq) -> qn s = 0.
Proof. exact (@Urcu.Futex.CrFutex.helper_no_lost_wakeup). Qed.
Print Assumptions C04_completion_no_lost_wakeup.

