(* C02 - grace periods complete: no lost wake-up in the grace-period futex handshake (memb, fence-free readers, TSO), solo termination, wait-node protocol
   Property theorems only: each is the full statement, closed by `exact`, followed by Print Assumptions. *)
Require Import Coq.Lists.List.
Require Import Coq.NArith.NArith.
Require Import Urcu.Futex.Futex.
Require Import Urcu.Futex.FutexInv.
Require Import Urcu.Futex.FutexSolo.
Require Import Urcu.Futex.Waiter.
Import ListNotations.

(* whenever the updater is blocked in FUTEX_WAIT some reader is inside a section or inside its exit/wake-up path (any number of readers and sections, every schedule and flush order, spurious wake-ups) *)
Theorem C02_gp_no_lost_wakeup_memb :
    forall (n : nat) (cs : list Futex.choice) (inp : list nat),
    let s := run n cs (FutexInv.init n inp) in
    blocked (up s) = true -> exists r : nat, midb (rp (rd s r)) = true \/ rp (rd s r) = R_Wake.
Proof. exact (@Urcu.Futex.FutexInv.gp_no_lost_wakeup_memb_multi). Qed.
Print Assumptions C02_gp_no_lost_wakeup_memb.

(* once every reader is between sections with an empty buffer, the updater alone finishes its wait within mu steps and never sleeps *)
Theorem C02_gp_solo_terminates :
    forall (n m : nat) (s : Futex.st),
    Inv n s -> quiescent s -> mu (up s) <= m -> up (usolo n m s) = U_Done.
Proof. exact (@Urcu.Futex.FutexSolo.gp_solo_terminates). Qed.
Print Assumptions C02_gp_solo_terminates.

(* urcu-wait.h node protocol: waker never touches the node after the waiter returned; a blocked waiter still has its wake-up coming; waiter returns only after TEARDOWN *)
Theorem C02_waiter_handshake :
    forall cs : list choice,
    let s := fold_left (fun (s : st) (c : choice) => exec c s) cs init in
    bad s = false /\
    (ap s = A_Blocked -> kp s = K_Set \/ kp s = K_LoadR \/ kp s = K_Wake) /\
    (ap s = A_Done -> kp s = K_Done /\ kbuf s = []).
Proof. exact (@Urcu.Futex.Waiter.waiter_handshake). Qed.
Print Assumptions C02_waiter_handshake.

