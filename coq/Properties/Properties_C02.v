(* C02 - grace periods complete: no lost wake-up in the grace-period futex handshake (memb, fence-free readers, TSO), solo termination, wait-node protocol
   Property theorems only: each is the full statement, closed by `exact`, followed by Print Assumptions. *)
Require Import Coq.Lists.List.
Require Import Coq.NArith.NArith.
Require Import Urcu.Futex.Futex.
Require Import Urcu.Futex.FutexInv.
Require Import Urcu.Futex.FutexSolo.
Require Import Urcu.Futex.Waiter.
Require Import Urcu.Futex.QsbrFutex.
Require Import Urcu.Futex.CompatFutex.
Import ListNotations.

(* whenever the updater is blocked in FUTEX_WAIT some reader is inside a section or inside its exit/wake-up path (any number of readers and sections, every schedule and flush order, spurious wake-ups) *)
Theorem C02_gp_no_lost_wakeup_memb :
    forall (n : nat) (cs : list Futex.choice) (inp : list nat),
    let s := Futex.run n cs (FutexInv.init n inp) in
    blocked (Futex.up s) = true ->
    exists r : nat, midb (Futex.rp (rd s r)) = true \/ Futex.rp (rd s r) = R_Wake.
Proof. exact (@Urcu.Futex.FutexInv.gp_no_lost_wakeup_memb_multi). Qed.
Print Assumptions C02_gp_no_lost_wakeup_memb.

(* once every reader is between sections with an empty buffer, the updater alone finishes its wait within mu steps and never sleeps *)
Theorem C02_gp_solo_terminates :
    forall (n m : nat) (s : Futex.st),
    FutexInv.Inv n s -> quiescent s -> mu (Futex.up s) <= m -> Futex.up (usolo n m s) = U_Done.
Proof. exact (@Urcu.Futex.FutexSolo.gp_solo_terminates). Qed.
Print Assumptions C02_gp_solo_terminates.

(* urcu-wait.h node protocol: waker never touches the node after the waiter returned; a blocked waiter still has its wake-up coming; waiter returns only after TEARDOWN *)
Theorem C02_waiter_handshake :
    forall cs : list Waiter.choice,
    let s := fold_left (fun (s : Waiter.st) (c : Waiter.choice) => exec c s) cs Waiter.init in
    bad s = false /\
    (ap s = A_Blocked -> kp s = K_Set \/ kp s = K_LoadR \/ kp s = K_Wake) /\
    (ap s = A_Done -> kp s = K_Done /\ kbuf s = []).
Proof. exact (@Urcu.Futex.Waiter.waiter_handshake). Qed.
Print Assumptions C02_waiter_handshake.

(* qsbr waiting-flag / futex handshake, one pass of wait_for_readers from ANY reader configuration (readers anywhere in the wake-up path of an earlier pass, stale flags), every schedule, spurious wake-ups allowed: whenever the updater is asleep and not woken, some reader is still short of the end of its quiescent-state announcement (it will wake the updater or find the futex word reset by one that will) *)
Theorem C02_qsbr_no_lost_wakeup :
    forall (inp0 : list nat) (s0 : QsbrFutex.st) (cs : list QsbrFutex.choice),
    NoDup inp0 ->
    upc s0 = U0 ->
    let s := QsbrFutex.run inp0 cs s0 in
    upc s = U7 ->
    woken s = false ->
    exists r : nat, rpc s r <> RDone /\ (waker (rpc s r) \/ futex s = true /\ In r inp0 /\ inp s r = true).
Proof. exact (@Urcu.Futex.QsbrFutex.qsbr_no_lost_wakeup). Qed.
Print Assumptions C02_qsbr_no_lost_wakeup.

(* hence, once every reader has completed its announcement, the updater is not left asleep *)
Theorem C02_qsbr_all_done_not_asleep :
    forall (inp0 : list nat) (s0 : QsbrFutex.st) (cs : list QsbrFutex.choice),
    NoDup inp0 ->
    upc s0 = U0 ->
    let s := QsbrFutex.run inp0 cs s0 in (forall r : nat, rpc s r = RDone) -> upc s = U7 -> woken s = true.
Proof. exact (@Urcu.Futex.QsbrFutex.qsbr_all_done_not_asleep). Qed.
Print Assumptions C02_qsbr_all_done_not_asleep.

(* futex fallback of a platform without the system call (compat_futex_noasync: one mutex, one condition variable), any number of sleepers, one waker whose store of the new value goes through its store buffer, spurious wake-ups at any time, every schedule: once the waker has returned no sleeper is queued on the condition variable or between its check of the word and its queueing *)
Theorem C02_compat_futex_no_lost_wakeup :
    forall cs : list choice,
    let s := run true cs init in wk s = W_Done -> forall r : nat, sl s r <> S_Blocked /\ sl s r <> S_Wait.
Proof. exact (@Urcu.Futex.CompatFutex.compat_no_lost_wakeup). Qed.
Print Assumptions C02_compat_futex_no_lost_wakeup.

(* ... and the word holds the new value in memory, so every sleeper that re-checks it leaves its loop *)
Theorem C02_compat_futex_word_is_new :
    forall cs : list choice,
    let s := run true cs init in wk s = W_Done -> word s = false /\ wbuf s = false.
Proof. exact (@Urcu.Futex.CompatFutex.compat_word_is_new). Qed.
Print Assumptions C02_compat_futex_word_is_new.

(* sensitivity: broadcasting without taking the mutex loses the wake-up (the sleeper checks the word, the waker stores, broadcasts to nobody and returns, the sleeper queues for ever) *)
Theorem C02_compat_unlocked_broadcast_refuted :
    exists cs : list choice,
    let s := run false cs init in wk s = W_Done /\ word s = false /\ sl s 0 = S_Blocked /\ mtx s = Free.
Proof. exact (@Urcu.Futex.CompatFutex.unlocked_broadcast_refuted). Qed.
Print Assumptions C02_compat_unlocked_broadcast_refuted.

