(* C03 - call_rcu: every callback exactly once, FIFO per helper, only after a grace period; hand-over on helper destruction; helper futex handshake
   Property theorems only: each is the full statement, closed by `exact`, followed by Print Assumptions. *)
Require Import Coq.Lists.List.
Require Import Coq.Arith.Arith.
Require Import Urcu.CallRcu.CallRcuExec.
Require Import Urcu.Futex.CrFutex.
Import ListNotations.

(* the call_rcu invariant holds after every accepted action sequence (any number of helpers, callers, readers) *)
Theorem C03_invariant_all_runs :
    forall (readers : list nat) (l : list CallRcuExec.choice) (s s' : CallRcuExec.st),
    CallRcuExec.Inv readers s -> crun readers l s = Some s' -> CallRcuExec.Inv readers s'.
Proof. exact (@Urcu.CallRcu.CallRcuExec.Inv_crun). Qed.
Print Assumptions C03_invariant_all_runs.

(* when a callback is invoked, every read-side section still open began after it was queued *)
Theorem C03_cb_after_gp :
    forall (readers : list nat) (s : CallRcuExec.st) (h cb : nat) (s' : CallRcuExec.st),
    CallRcuExec.Inv readers s ->
    cexec readers (HInvoke h cb) s = Some s' -> forall r b : nat, sect s r = Some b -> stamp s cb <= b.
Proof. exact (@Urcu.CallRcu.CallRcuExec.cb_after_gp). Qed.
Print Assumptions C03_cb_after_gp.

(* per helper: everything handed to it = invoked/handed-over ++ private batch ++ queue, in order (nothing lost, nothing duplicated), incl. hand-over at destruction *)
Theorem C03_cb_fifo_conservation :
    forall (readers : list nat) (l : list CallRcuExec.choice) (s' : CallRcuExec.st),
    crun readers l CallRcuExec.init = Some s' -> cons_ok s'.
Proof. exact (@Urcu.CallRcu.CallRcuExec.cb_fifo_conservation). Qed.
Print Assumptions C03_cb_fifo_conservation.

(* an implementation trace accepted by the executable interpreter satisfies both *)
Theorem C03_accepted_trace_ok :
    forall (readers : list nat) (l : list CallRcuExec.choice) (s' : CallRcuExec.st),
    crun readers l CallRcuExec.init = Some s' -> CallRcuExec.Inv readers s' /\ cons_ok s'.
Proof. exact (@Urcu.CallRcu.CallRcuExec.accepted_trace_ok). Qed.
Print Assumptions C03_accepted_trace_ok.

(* helper futex handshake on TSO: a helper blocked in FUTEX_WAIT while every caller finished has an empty queue *)
Theorem C03_helper_no_lost_wakeup :
    forall cs : list choice,
    let s := fold_left (fun (s : st) (c : choice) => exec c s) cs init in
    hp s = H_Blocked -> (forall w : nat, wp s w = W_Done \/ wp s w = W_Enq) -> qn s = 0.
Proof. exact (@Urcu.Futex.CrFutex.helper_no_lost_wakeup). Qed.
Print Assumptions C03_helper_no_lost_wakeup.

