(* C08 - sequential hash table = reference multimap: the split-ordered list of data nodes stays sorted by the bit-reversed hash with unique nodes under every operation; per key the table enumerates the reference multimap's nodes in insertion order; lookup / traversal / count / destroy answers; 64-bit bit reversal from the source's table; bucket index arithmetic of the order and chunk allocators
   Property theorems only: each is the full statement, closed by `exact`, followed by Print Assumptions. *)
Require Import Coq.Lists.List.
Require Import Coq.NArith.NArith.
Require Import Urcu.LfhtSeq.SeqHt.
Require Import Urcu.LfhtSeq.SeqTable.
Require Import Urcu.LfhtSeq.BitRev.
Require Import Urcu.LfhtSeq.BucketIdx.
Require Import Urcu.Gen.Generated.
Import ListNotations.

(* for every sequence of adds of fresh nodes and deletes, every reverse-hash and key assignment in which equal keys hash alike: for every key the table lists exactly the reference multimap's nodes with that key, in insertion order (so lookup returns the oldest, next_duplicate enumerates the rest) *)
Theorem C08_refines_multimap :
    forall rh key : N -> N,
    (forall x y : N, key x = key y -> rh x = rh y) ->
    forall (ops : list op) (a l : list N),
    sorted rh l ->
    NoDup l ->
    NoDup a ->
    (forall y : N, In y l <-> In y a) ->
    (forall k : N, withkey key k l = withkey key k a) ->
    (forall x : N, In (Add x) ops -> ~ In x a) ->
    NoDup
    (map (fun o : op => match o with
    | Add x | Del x => x
    end)
    (filter (fun o : op => match o with
    | Add _ => true
    | Del _ => false
    end) ops)) ->
    forall k : N,
    duplicates key k (fold_left (ht_step rh) ops l) = withkey key k (fold_left ref_step ops a).
Proof. exact (@Urcu.LfhtSeq.SeqHt.seq_refines_multimap). Qed.
Print Assumptions C08_refines_multimap.

(* every operation of the executable model (add, add_unique, add_replace, replace, del, lookup, next_duplicate, traversal, count, resize, destroy) keeps the list sorted by reverse hash and the node ids unique *)
Theorem C08_operations_keep_table_well_formed :
    forall (l : table_t) (o : sop),
    ssorted l -> uids l -> contract l o -> ssorted (fst (sstep l o)) /\ uids (fst (sstep l o)).
Proof. exact (@Urcu.LfhtSeq.SeqTable.sstep_wf). Qed.
Print Assumptions C08_operations_keep_table_well_formed.

(* lookup returns a stored node with the hash and key iff one exists *)
Theorem C08_lookup_answers :
    forall (l : table_t) (h k : N),
    (lookup l h k = None <-> (forall y : snode, In y l -> same h k y = false)) /\
    (forall y : snode, lookup l h k = Some y -> In y l /\ same h k y = true).
Proof. exact (@Urcu.LfhtSeq.SeqTable.lookup_spec). Qed.
Print Assumptions C08_lookup_answers.

(* a full traversal visits every stored node exactly once, count_nodes is their number, destroy succeeds iff the table is empty *)
Theorem C08_traversal_count_destroy :
    forall l : table_t,
    uids l ->
    NoDup match snd (sstep l STraverse) with
    | RList v => v
    | _ => []
    end /\
    snd (sstep l SCount) = RInt (N.of_nat (length l)) /\ (snd (sstep l SDestroy) = RInt 0 <-> l = []).
Proof. exact (@Urcu.LfhtSeq.SeqTable.traversal_count_destroy). Qed.
Print Assumptions C08_traversal_count_destroy.

(* the byte-table computation of bit_reverse_u64 reverses the 64 bits of every value *)
Theorem C08_bit_reverse_64 :
    forall v : N, (v < 2 ^ 64)%N -> bit_reverse_u64 v = rev 64 v.
Proof. exact (@Urcu.LfhtSeq.BitRev.bit_reverse_u64_spec). Qed.
Print Assumptions C08_bit_reverse_64.

(* the 256-entry BitReverseTable256 extracted from src/rculfhash.c is the 8-bit reversal table *)
Theorem C08_bit_reverse_table_is_source :
    bitrev_table = table.
Proof. exact (@Urcu.LfhtSeq.BitRev.source_table_is_rev8). Qed.
Print Assumptions C08_bit_reverse_table_is_source.

(* rev(h mod 2^k) <= rev(h): the bucket of index h mod size precedes every node of hash h in the split-ordered list *)
Theorem C08_split_order_inequality :
    forall (n : nat) (k x : N), (rev n (x mod 2 ^ k) <= rev n x)%N.
Proof. exact (@Urcu.LfhtSeq.BitRev.rev_mod_le). Qed.
Print Assumptions C08_split_order_inequality.

(* order allocator: distinct bucket indices map to distinct (table, offset) cells *)
Theorem C08_order_index_injective :
    forall m i j : N, (1 <= m)%N -> (exists k : N, m = (2 ^ k)%N) -> order_at m i = order_at m j -> i = j.
Proof. exact (@Urcu.LfhtSeq.BucketIdx.order_at_injective). Qed.
Print Assumptions C08_order_index_injective.

(* order allocator: the offset lies inside the table of its order *)
Theorem C08_order_index_in_table :
    forall m i : N, (1 <= m)%N -> (snd (order_at m i) < order_table_len m (fst (order_at m i)))%N.
Proof. exact (@Urcu.LfhtSeq.BucketIdx.order_at_in_table). Qed.
Print Assumptions C08_order_index_in_table.

(* chunk allocator: distinct indices map to distinct (chunk, offset) cells *)
Theorem C08_chunk_index_injective :
    forall o i j : N, chunk_at o i = chunk_at o j -> i = j.
Proof. exact (@Urcu.LfhtSeq.BucketIdx.chunk_at_injective). Qed.
Print Assumptions C08_chunk_index_injective.

(* chunk allocator: the offset lies inside the chunk *)
Theorem C08_chunk_index_in_chunk :
    forall o i : N, (snd (chunk_at o i) < 2 ^ o)%N.
Proof. exact (@Urcu.LfhtSeq.BucketIdx.chunk_at_in_chunk). Qed.
Print Assumptions C08_chunk_index_in_chunk.

