(* C05 - rculfhash concurrent add / add_unique / lookup / del / replace (src/rculfhash.c), fixed table size: invariants for every schedule; resident nodes are found
   Property theorems only: each is the full statement, closed by `exact`, followed by Print Assumptions. *)
Require Import Coq.Lists.List.
Require Import Coq.NArith.NArith.
Require Import Urcu.Base.MachD.
Require Import Urcu.Lfht.Lfht.
Require Import Urcu.Lfht.LfhtSorted.
Require Import Urcu.Lfht.LfhtReach.
Require Import Urcu.Lfht.LfhtStep.
Require Import Urcu.Lfht.LfhtKinds.
Require Import Urcu.Lfht.LfhtRch.
Require Import Urcu.Lfht.LfhtFind.
Require Import Urcu.Lfht.LfhtExample.
Require Import Urcu.Lfht.LfhtHit.
Import ListNotations.

(* every next link is non-decreasing in reverse hash, for every schedule and thread map *)
Theorem C05_sorted_all_schedules :
    forall (C : cfg) (sz0 : N),
    (forall node : N, (rh C (bucket C (N.land (hashof C node) (sz0 - 1))) <= rh C node)%N) ->
    forall (cs : list choice) (s : state hloc (hprog C)),
    Inv C sz0 s -> sorted C (fst (run hloc hloc_eqb (hprog C) cs s)).
Proof. exact (@Urcu.Lfht.LfhtSorted.lfht_sorted_all_schedules). Qed.
Print Assumptions C05_sorted_all_schedules.

(* node life cycle: pointers only to inserted nodes, removed nodes frozen, bucket flag fixed, per-program-point facts *)
Theorem C05_lifecycle_all_schedules :
    forall (C : cfg) (isB : N -> bool),
    (forall i : N, isB (bucket C i) = true) ->
    forall (cs : list choice) (s : state hloc (hprog C)),
    Inv2 C isB s -> Inv2 C isB (fst (run hloc hloc_eqb (hprog C) cs s)).
Proof. exact (@Urcu.Lfht.LfhtStep.lfht_lifecycle_all_schedules). Qed.
Print Assumptions C05_lifecycle_all_schedules.

(* every inserted, un-removed node stays reachable from the head bucket *)
Theorem C05_reachable_all_schedules :
    forall (C : cfg) (isB : N -> bool),
    (forall i : N, isB (bucket C i) = true) ->
    forall root : N,
    isB root = true ->
    forall (cs : list choice) (s : state hloc (hprog C)),
    Inv2 C isB s ->
    R C root s -> let s' := fst (run hloc hloc_eqb (hprog C) cs s) in Inv2 C isB s' /\ R C root s'.
Proof. exact (@Urcu.Lfht.LfhtRch.lfht_reachable_all_schedules). Qed.
Print Assumptions C05_reachable_all_schedules.

(* ... and from its own bucket bucket_at(hash mod size) *)
Theorem C05_own_bucket_all_schedules :
    forall (C : cfg) (isB : N -> bool) (sz0 : N),
    (forall i : N, isB (bucket C i) = true) ->
    (forall node : N, (rh C (bucket C (N.land (hashof C node) (sz0 - 1))) <= rh C node)%N) ->
    (forall a b : N, rh C a = rh C b -> hashof C a = hashof C b) ->
    forall (cs : list choice) (s : state hloc (hprog C)),
    Inv3 C isB sz0 s -> Inv3 C isB sz0 (fst (run hloc hloc_eqb (hprog C) cs s)).
Proof. exact (@Urcu.Lfht.LfhtFind.lfht_own_bucket_all_schedules). Qed.
Print Assumptions C05_own_bucket_all_schedules.

(* a lookup for a node that stays resident keeps that node reachable from its cursor until it returns *)
Theorem C05_resident_found_all_schedules :
    forall (C : cfg) (isB : N -> bool) (sz0 : N),
    (forall i : N, isB (bucket C i) = true) ->
    (forall node : N, (rh C (bucket C (N.land (hashof C node) (sz0 - 1))) <= rh C node)%N) ->
    (forall a b : N, rh C a = rh C b -> hashof C a = hashof C b) ->
    forall (x : N) (t : nat) (rest : list hop),
    isB x = false ->
    forall (cs : list choice) (s : state hloc (hprog C)),
    Inv3 C isB sz0 s ->
    Q C x t rest s ->
    let s' := fst (run hloc hloc_eqb (hprog C) cs s) in Inv3 C isB sz0 s' /\ Q C x t rest s'.
Proof. exact (@Urcu.Lfht.LfhtFind.lfht_resident_found_all_schedules). Qed.
Print Assumptions C05_resident_found_all_schedules.

(* hence it returns a node with that key (resident nodes are never missed) *)
Theorem C05_lookup_returns_key :
    forall (C : cfg) (isB : N -> bool) (sz0 : N),
    (forall i : N, isB (bucket C i) = true) ->
    (forall node : N, (rh C (bucket C (N.land (hashof C node) (sz0 - 1))) <= rh C node)%N) ->
    (forall a b : N, rh C a = rh C b -> hashof C a = hashof C b) ->
    forall (x : N) (t : nat) (rest : list hop),
    isB x = false ->
    forall (cs : list choice) (s : state hloc (hprog C)) (n : N),
    Inv3 C isB sz0 s ->
    insd C s x ->
    Before C x t rest s ->
    let s' := fst (run hloc hloc_eqb (hprog C) cs s) in
    rmd C s' x = false -> hcur (HS C t s') = L_Ret n -> htodo (HS C t s') = rest -> good C x n.
Proof. exact (@Urcu.Lfht.LfhtFind.lookup_returns_key). Qed.
Print Assumptions C05_lookup_returns_key.

(* a lookup stands on an answer only through the step that has just loaded that node's next word: at that instant the node is inserted, not logically removed, not a bucket, and has the requested reverse hash and key (the linearisation point of a successful lookup) *)
Theorem C05_lookup_hit_justified :
    forall (C : cfg) (isB : N -> bool) (s : state hloc (hprog C)) (t : nat) (node rhh k : N),
    Inv2 C isB s ->
    PCr C s t = L_Node node rhh k ->
    let s' := fst (exec hloc hloc_eqb (hprog C) (Step t) s) in
    forall n nx : N,
    PCr C s' t = L_Assert n nx ->
    n = node /\
    nx = nxw C s node /\
    insd C s node /\
    node <> 0%N /\
    is_removed (nxw C s node) = false /\
    is_bucket (nxw C s node) = false /\ rh C node = rhh /\ key C node = k.
Proof. exact (@Urcu.Lfht.LfhtHit.lookup_hit_justified). Qed.
Print Assumptions C05_lookup_hit_justified.

(* a non-null answer of a lookup comes from that program point only *)
Theorem C05_lookup_answer_from_that_step :
    forall (C : cfg) (p : hst) (r n : N),
    hcur (hnext C p r) = L_Ret n -> n <> 0%N -> exists nx : N, hcur p = L_Assert n nx.
Proof. exact (@Urcu.Lfht.LfhtHit.ret_from_assert). Qed.
Print Assumptions C05_lookup_answer_from_that_step.

