(* C12 - RCU lock-free queue (static/rculfqueue.h) is a linearizable FIFO; dequeued nodes are not accessed after a grace period
   Property theorems only: each is the full statement, closed by `exact`, followed by Print Assumptions. *)
Require Import Coq.Lists.List.
Require Import Coq.NArith.NArith.
Require Import Urcu.Base.MachD.
Require Import Urcu.Base.Lin.
Require Import Urcu.Lfq.Lfq.
Require Import Urcu.Lfq.LfqInv.
Require Import Urcu.Lfq.LfqLin.
Require Import Urcu.Lfq.LfqInit.
Require Import Urcu.Lfq.LfqRcu.
Require Import Urcu.Lfq.LfqDestroy.
Import ListNotations.

(* chain invariant incl. tail never behind head, any threads/ops/schedule *)
Theorem C12_chain_invariant_all_schedules :
    forall (isD : N -> bool) (d0 : N) (cs : list choice) (s : state qloc (qprog isD)),
    Inv isD d0 s -> Inv isD d0 (fst (run qloc qloc_eqb (qprog isD) cs s)).
Proof. exact (@Urcu.Lfq.LfqInv.lfq_chain_all_schedules). Qed.
Print Assumptions C12_chain_invariant_all_schedules.

(* every history is accepted by the FIFO automaton; legal FIFO order agreeing with each thread and real time *)
Theorem C12_linearizable_fifo :
    forall (isD : N -> bool) (d0 : N),
    d0 <> 0%N ->
    forall threads : nat -> list qop * list N,
    (forall (t : nat) (n : N), In n (futl threads t) -> n <> 0%N /\ n <> d0) ->
    (forall (t u : nat) (n : N), In n (futl threads t) -> In n (futl threads u) -> t = u) ->
    (forall t : nat, NoDup (futl threads t)) ->
    (forall (t : nat) (n : N), In n (enqs (fst (threads t))) -> isD n = false) ->
    (forall (t : nat) (d : N), In d (snd (threads t)) -> isD d = true) ->
    isD d0 = true ->
    forall cs : list choice,
    exists (a' : ast qop N (list N)) (L : list (op qop N)),
    runl qop N (list N) qspec N.eq_dec a0 (trace isD cs (s0 isD d0 threads)) = Some (a', L) /\
    legal qop N (list N) qspec [] L /\
    (forall t : nat,
    tops qop N t L =
    hcomp qop N t None (trace isD cs (s0 isD d0 threads)) ++ pre qop N (pm qop N (list N) a' t)).
Proof. exact (@Urcu.Lfq.LfqInit.lfq_linearizable). Qed.
Print Assumptions C12_linearizable_fifo.

(* no thread holds a dequeued node (user or dummy) whose grace period has elapsed *)
Theorem C12_no_access_after_grace_period :
    forall (isD : N -> bool) (d0 : N),
    d0 <> 0%N ->
    forall (s0 : state qloc (qprog isD)) (g0 : gh) (s : state qloc (qprog isD)) (g : gh),
    Inv isD d0 s0 ->
    GInv isD d0 s0 g0 ->
    xreach isD s0 g0 s g ->
    forall (t : nat) (x : N), In x (refs (qcur (QS isD s t))) -> gret g x = 0%N \/ (gF g < gret g x)%N.
Proof. exact (@Urcu.Lfq.LfqRcu.lfq_no_access_after_gp). Qed.
Print Assumptions C12_no_access_after_grace_period.

(* in every reachable state of the queue model (any threads, operation lists over fresh nodes, every schedule) the walk of cds_lfq_destroy_rcu from the head - refuse at the first non-dummy node, succeed at the end - answers exactly 'the abstract FIFO is empty', however many dummy nodes the chain holds and wherever they are *)
Theorem C12_destroy_iff_empty :
    forall (isD : N -> bool) (d0 : N),
    d0 <> 0%N ->
    forall threads : nat -> list qop * list N,
    (forall (t : nat) (n : N), In n (futl threads t) -> n <> 0%N /\ n <> d0) ->
    (forall (t u : nat) (n : N), In n (futl threads t) -> In n (futl threads u) -> t = u) ->
    (forall t : nat, NoDup (futl threads t)) ->
    (forall (t : nat) (n : N), In n (enqs (fst (threads t))) -> isD n = false) ->
    (forall (t : nat) (d : N), In d (snd (threads t)) -> isD d = true) ->
    isD d0 = true ->
    forall cs : list choice,
    let s := fst (run qloc qloc_eqb (qprog isD) cs (s0 isD d0 threads)) in
    exists (q : list N) (fuel : nat),
    AbsQ isD s q /\
    destroy_walk isD fuel (nx isD s) (smem qloc (qprog isD) s LHead) =
    Some match q with
    | [] => true
    | _ :: _ => false
    end.
Proof. exact (@Urcu.Lfq.LfqDestroy.lfq_destroy_reachable). Qed.
Print Assumptions C12_destroy_iff_empty.

(* 'both ends are dummies' is not emptiness: dummy, user node, dummy *)
Theorem C12_destroy_both_ends_refuted :
    let isD := fun x : N => ((x =? 2)%N || (x =? 4)%N)%bool in
    let f := fun x : N => if (x =? 2)%N then 3%N else if (x =? 3)%N then 4%N else 0%N in
    chainf f 2 [3%N; 4%N] /\
    isD 2%N = true /\
    isD 4%N = true /\ nonD isD [2%N; 3%N; 4%N] = [3%N] /\ destroy_walk isD 3 f 2 = Some false.
Proof. exact (@Urcu.Lfq.LfqDestroy.both_ends_dummy_refuted). Qed.
Print Assumptions C12_destroy_both_ends_refuted.

