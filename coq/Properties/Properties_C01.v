(* C01 - synchronize_rcu() waits for every pre-existing read-side critical section (memb with sys_membarrier, mb, qsbr; x86-TSO; any number of readers and nesting depth)
   Property theorems only: each is the full statement, closed by `exact`, followed by Print Assumptions. *)
Require Import Coq.Lists.List.
Require Import Coq.Arith.Arith.
Require Import Urcu.Gp.GpCore.
Require Import Urcu.Gp.GpProof.
Require Import Urcu.Gp.GpExec.
Require Import Urcu.Gp.GpMb.
Require Import Urcu.Gp.GpQsbr.
Require Import Urcu.Gp.GpMbExec.
Require Import Urcu.Gp.GpQsbrExec.
Import ListNotations.

(* memb + sys_membarrier on TSO: when a grace period ends no registered reader that was inside a section when it began is still in that section *)
Theorem C01_memb_gp_waits_for_preexisting_readers :
    forall (isreg : nat -> bool) (s : GpCore.state),
    GpCore.reach (GpCore.init isreg) s ->
    GpCore.ph s = GpCore.U_Idle -> forall r : nat, GpCore.old_open (GpCore.rd s r) = false.
Proof. exact (@Urcu.Gp.GpProof.gp_waits_for_preexisting_readers). Qed.
Print Assumptions C01_memb_gp_waits_for_preexisting_readers.

(* the ghost flag only ever marks registered readers *)
Theorem C01_memb_flagged_readers_are_registered :
    forall (isreg : nat -> bool) (s : GpCore.state),
    GpCore.reach (GpCore.init isreg) s ->
    forall r : nat, GpCore.old_open (GpCore.rd s r) = true -> reg s r = true.
Proof. exact (@Urcu.Gp.GpProof.old_open_registered). Qed.
Print Assumptions C01_memb_flagged_readers_are_registered.

(* every action accepted by the executable interpreter is a transition of the proved model *)
Theorem C01_memb_interpreter_sound :
    forall (isreg : nat -> bool) (regs : list nat) (a : gact) (s s' : GpCore.state),
    GpCore.reach (GpCore.init isreg) s ->
    covers regs s -> gexec regs a s = Some s' -> GpCore.reach (GpCore.init isreg) s'.
Proof. exact (@Urcu.Gp.GpExec.gexec_sound). Qed.
Print Assumptions C01_memb_interpreter_sound.

(* an implementation trace accepted by the interpreter is a run of the model, hence satisfies the grace-period guarantee *)
Theorem C01_memb_accepted_trace_satisfies_gp :
    forall (isreg : nat -> bool) (regs : list nat),
    (forall r : nat, isreg r = true -> In r regs) ->
    forall (l : list gact) (s' : GpCore.state),
    grun regs l (GpCore.init isreg) = Some s' ->
    GpCore.reach (GpCore.init isreg) s' /\
    (GpCore.ph s' = GpCore.U_Idle -> forall r : nat, GpCore.old_open (GpCore.rd s' r) = false).
Proof. exact (@Urcu.Gp.GpExec.accepted_trace_satisfies_gp). Qed.
Print Assumptions C01_memb_accepted_trace_satisfies_gp.

(* mb flavor (reader-side fences, local updater fences) on TSO, for any registry: when a grace period has ended no registered reader whose rcu_read_lock had completed before it began is still inside that section *)
Theorem C01_mb_gp_waits_for_preexisting_readers :
    forall (isreg : nat -> bool) (s : GpMb.state),
    GpMb.reach isreg GpMb.init s ->
    GpMb.ph s = GpMb.U_Idle -> forall r : nat, GpMb.old_open (GpMb.rd s r) = false.
Proof. exact (@Urcu.Gp.GpMb.gp_mb_waits_for_preexisting_readers). Qed.
Print Assumptions C01_mb_gp_waits_for_preexisting_readers.

(* every action sequence accepted by the executable mb interpreter (the one the projected traces of src/urcu.c built with RCU_MB are fed to) is a run of that model, so the theorem applies to it *)
Theorem C01_mb_accepted_trace_satisfies_gp :
    forall (isreg : nat -> bool) (regs : list nat),
    (forall r : nat, isreg r = true -> In r regs) ->
    forall (l : list mact) (s' : GpMb.state),
    mrun isreg regs l GpMb.init = Some s' ->
    GpMb.reach isreg GpMb.init s' /\
    (GpMb.ph s' = GpMb.U_Idle -> forall r : nat, GpMb.old_open (GpMb.rd s' r) = false).
Proof. exact (@Urcu.Gp.GpMbExec.accepted_mb_trace_satisfies_gp). Qed.
Print Assumptions C01_mb_accepted_trace_satisfies_gp.

(* qsbr flavor (64-bit single counter; implicit sections between quiescent states, offline/online) *)
Theorem C01_qsbr_gp_waits_for_preexisting_sections :
    forall s : state, reach init s -> ph s = U_Idle -> forall r : nat, old_open (rd s r) = false.
Proof. exact (@Urcu.Gp.GpQsbr.gp_qsbr_waits_for_preexisting_sections). Qed.
Print Assumptions C01_qsbr_gp_waits_for_preexisting_sections.

(* every action sequence accepted by the executable interpreter fed with the projected traces of src/urcu-qsbr.c keeps the qsbr model's invariant: whenever a grace period has ended, no registered reader is still in an implicit section that was open when the incremented counter became visible *)
Theorem C01_accepted_qsbr_trace_satisfies_gp :
    forall (regs : list nat) (l : list qact) (s : state),
    qrun regs l (init_on regs) = Some s -> ph s = U_Idle -> forall r : nat, old_open (rd s r) = false.
Proof. exact (@Urcu.Gp.GpQsbrExec.accepted_qsbr_trace_satisfies_gp). Qed.
Print Assumptions C01_accepted_qsbr_trace_satisfies_gp.

