(* C06 - unique adds and atomic replace: at most one access to a node's next word is an ownership success, for every interleaving of del / replace / add_replace / add / garbage collection; with insertions through add_unique / add_replace / replace only, no two stored nodes share a (hash, key) and a duplicate walk never returns a second node (sequential semantics)
   Property theorems only: each is the full statement, closed by `exact`, followed by Print Assumptions. *)
Require Import Coq.Lists.List.
Require Import Coq.NArith.NArith.
Require Import Urcu.Lfht.FlagProto.
Require Import Urcu.LfhtSeq.SeqTable.
Require Import Urcu.Base.MachD.
Require Import Urcu.Lfht.Lfht.
Require Import Urcu.Lfht.LfhtSorted.
Require Import Urcu.Lfht.LfhtReach.
Require Import Urcu.Lfht.LfhtStep.
Require Import Urcu.Lfht.LfhtKinds.
Require Import Urcu.Lfht.LfhtRch.
Require Import Urcu.Lfht.LfhtFind.
Require Import Urcu.Lfht.LfhtOwner.
Require Import Urcu.Lfht.LfhtExample.
Import ListNotations.

(* for every accepted sequence of atomic accesses to one node's next word - any number of concurrent del, replace, add_replace, add and garbage-collection steps in any order - at most one access obtains the node; REMOVAL_OWNER is never set without REMOVED *)
Theorem C06_replaced_node_single_owner :
    forall (l : list fact) (w : fword),
    frun fword0 l = Some w ->
    succ w <= 1 /\ (owner w = true -> removed w = true) /\ (succ w = 1 <-> owner w = true).
Proof. exact (@Urcu.Lfht.FlagProto.single_owner). Qed.
Print Assumptions C06_replaced_node_single_owner.

(* the protocol invariant is preserved by every access *)
Theorem C06_owner_protocol_invariant :
    forall (w : fword) (a : fact) (w' : fword), FInv w -> fstep w a = Some w' -> FInv w'.
Proof. exact (@Urcu.Lfht.FlagProto.FInv_step). Qed.
Print Assumptions C06_owner_protocol_invariant.

(* sensitivity: if replace set REMOVED without REMOVAL_OWNER, a del that passed its check earlier would obtain the node as well (witness with two owners) *)
Theorem C06_replace_without_owner_flag_refuted :
    exists (l : list fact) (w : fword),
    fold_left
    (fun (o : option fword) (a : fact) => match o with
    | Some x => fstep_bad x a
    | None => None
    end) l (Some fword0) = Some w /\ 
    succ w = 2.
Proof. exact (@Urcu.Lfht.FlagProto.replace_without_owner_flag_refuted). Qed.
Print Assumptions C06_replace_without_owner_flag_refuted.

(* sequential semantics: add_unique, add_replace, replace, del and the read operations keep (hash, key) unique among the stored nodes *)
Theorem C06_unique_keys_preserved :
    forall (l : table_t) (o : sop),
    uids l ->
    nodupkey l ->
    contract l o ->
    match o with
    | SAdd _ => False
    | SReplace old x => forall y : snode, In y l -> sid y = old -> skey x = skey y
    | _ => True
    end -> nodupkey (fst (sstep l o)).
Proof. exact (@Urcu.LfhtSeq.SeqTable.unique_ops_keep_keys_unique). Qed.
Print Assumptions C06_unique_keys_preserved.

(* then next_duplicate after any stored node finds nothing *)
Theorem C06_no_second_duplicate :
    forall (l : table_t) (cur : snode), uids l -> nodupkey l -> In cur l -> next_dup l cur = None.
Proof. exact (@Urcu.LfhtSeq.SeqTable.unique_keys_no_second_duplicate). Qed.
Print Assumptions C06_no_second_duplicate.

(* pc-level model of cds_lfht_replace (tied lock-step to src/rculfhash.c), every schedule: the very step that flags the old node removed links the new node - same hash, same key - behind it, live and reachable from its bucket; all invariants (sortedness, life cycle, own-bucket reachability) are preserved, so there is no state in which the replaced key is absent *)
Theorem C06_replace_atomic :
    forall (C : cfg) (isB : N -> bool) (sz0 : N),
    (forall i : N, isB (bucket C i) = true) ->
    (forall node : N, (rh C (bucket C (N.land (hashof C node) (sz0 - 1))) <= rh C node)%N) ->
    (forall a b : N, rh C a = rh C b -> hashof C a = hashof C b) ->
    forall (s : state hloc (hprog C)) (t : nat) (old new onext sz : N),
    Inv3 C isB sz0 s ->
    PCr C s t = R_Cas old new onext sz ->
    nxw C s old = onext ->
    let s' := fst (exec hloc hloc_eqb (hprog C) (Step t) s) in
    Inv3 C isB sz0 s' /\
    rmd C s old = false /\
    rmd C s' old = true /\
    ptr (nxw C s' old) = new /\
    insd C s' new /\
    rmd C s' new = false /\ key C new = key C old /\ rh C new = rh C old /\ reach C s' (bkt C sz0 new) new.
Proof. exact (@Urcu.Lfht.LfhtFind.replace_cas_effect). Qed.
Print Assumptions C06_replace_atomic.

(* in every run, per node, at most one event is a del ownership exchange that finds REMOVAL_OWNER clear or a successful replacing cmpxchg: a node is handed to one del or one replace, never both *)
Theorem C06_replace_single_owner :
    forall (C : cfg) (isB : N -> bool),
    (forall i : N, isB (bucket C i) = true) ->
    forall (n : N) (cs : list choice) (s : state hloc (hprog C)),
    Inv2 C isB s ->
    OR C s ->
    (insd C s n ->
    is_owner (nxw C s n) = true -> count_succ n (snd (run hloc hloc_eqb (hprog C) cs s)) = 0) /\
    count_succ n (snd (run hloc hloc_eqb (hprog C) cs s)) <= 1.
Proof. exact (@Urcu.Lfht.LfhtOwner.lfht_single_owner). Qed.
Print Assumptions C06_replace_single_owner.

(* non-vacuity: a reachable state of the example configuration stands at the replacing cmpxchg and the conclusion holds there *)
Theorem C06_replace_instance :
    let s1 := fst (run hloc hloc_eqb (hprog C0) (repeat (Step 1) 13) s0) in
    let s' := fst (exec hloc hloc_eqb (hprog C0) (Step 1) s1) in
    rmd C0 s1 5 = false /\
    rmd C0 s' 5 = true /\
    ptr (nxw C0 s' 5) = 6%N /\ insd C0 s' 6 /\ rmd C0 s' 6 = false /\ reach C0 s' (bkt C0 2 6) 6.
Proof. exact (@Urcu.Lfht.LfhtExample.replace_instance). Qed.
Print Assumptions C06_replace_instance.

