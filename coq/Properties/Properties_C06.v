(* C06 - unique adds and atomic replace: at most one access to a node's next word is an ownership success, for every interleaving of del / replace / add_replace / add / garbage collection; with insertions through add_unique / add_replace / replace only, no two stored nodes share a (hash, key) and a duplicate walk never returns a second node (sequential semantics)
   Property theorems only: each is the full statement, closed by `exact`, followed by Print Assumptions. *)
Require Import Coq.Lists.List.
Require Import Coq.NArith.NArith.
Require Import Urcu.Lfht.FlagProto.
Require Import Urcu.LfhtSeq.SeqTable.
Import ListNotations.

(* for every accepted sequence of atomic accesses to one node's next word - any number of concurrent del, replace, add_replace, add and garbage-collection steps in any order - at most one access obtains the node; REMOVAL_OWNER is never set without REMOVED *)
Theorem C06_replaced_node_single_owner :
    forall (l : list fact) (w : fword),
    frun fword0 l = Some w ->
    succ w <= 1 /\ (owner w = true -> removed w = true) /\ (succ w = 1 <-> owner w = true).
Proof. exact (@Urcu.Lfht.FlagProto.single_owner). Qed.
Print Assumptions C06_replaced_node_single_owner.

(* the protocol invariant is preserved by every access *)
Theorem C06_owner_protocol_invariant :
    forall (w : fword) (a : fact) (w' : fword), FInv w -> fstep w a = Some w' -> FInv w'.
Proof. exact (@Urcu.Lfht.FlagProto.FInv_step). Qed.
Print Assumptions C06_owner_protocol_invariant.

(* sensitivity: if replace set REMOVED without REMOVAL_OWNER, a del that passed its check earlier would obtain the node as well (witness with two owners) *)
Theorem C06_replace_without_owner_flag_refuted :
    exists (l : list fact) (w : fword),
    fold_left
    (fun (o : option fword) (a : fact) => match o with
    | Some x => fstep_bad x a
    | None => None
    end) l (Some fword0) = Some w /\ 
    succ w = 2.
Proof. exact (@Urcu.Lfht.FlagProto.replace_without_owner_flag_refuted). Qed.
Print Assumptions C06_replace_without_owner_flag_refuted.

(* sequential semantics: add_unique, add_replace, replace, del and the read operations keep (hash, key) unique among the stored nodes *)
Theorem C06_unique_keys_preserved :
    forall (l : table_t) (o : sop),
    uids l ->
    nodupkey l ->
    contract l o ->
    match o with
    | SAdd _ => False
    | SReplace old x => forall y : snode, In y l -> sid y = old -> skey x = skey y
    | _ => True
    end -> nodupkey (fst (sstep l o)).
Proof. exact (@Urcu.LfhtSeq.SeqTable.unique_ops_keep_keys_unique). Qed.
Print Assumptions C06_unique_keys_preserved.

(* then next_duplicate after any stored node finds nothing *)
Theorem C06_no_second_duplicate :
    forall (l : table_t) (cur : snode), uids l -> nodupkey l -> In cur l -> next_dup l cur = None.
Proof. exact (@Urcu.LfhtSeq.SeqTable.unique_keys_no_second_duplicate). Qed.
Print Assumptions C06_no_second_duplicate.

