(* C15: pointer-level model of the doubly linked lists of urcu/list.h that the reader registries are built from (registry, cur_snap_readers,
   qsreaders of src/urcu.c, urcu-qsbr.c, urcu-bp.c): each operation is the sequence of field assignments of the C code, in the C code's order
   (aliasing matters).  ListDlProof.v shows they implement the abstract list operations on well-formed rings; the extracted functions are run
   against the real header (harness/seqdiff/listdl.c). *)
From Coq Require Import List Arith Bool Lia.
Import ListNotations.

Record lmem := { nx : nat -> nat; pv : nat -> nat }.
Definition upd (f : nat -> nat) (a v : nat) : nat -> nat := fun x => if Nat.eqb x a then v else f x.
Definition set_nx (m : lmem) (a v : nat) : lmem := {| nx := upd (nx m) a v; pv := pv m |}.
Definition set_pv (m : lmem) (a v : nat) : lmem := {| nx := nx m; pv := upd (pv m) a v |}.

(* CDS_INIT_LIST_HEAD(h) *)
Definition l_init (m : lmem) (h : nat) : lmem := set_pv (set_nx m h h) h h.
(* cds_list_add(newp, head): head->next->prev = newp; newp->next = head->next; newp->prev = head; head->next = newp *)
Definition l_add (m : lmem) (x h : nat) : lmem :=
  let m1 := set_pv m (nx m h) x in
  let m2 := set_nx m1 x (nx m1 h) in
  let m3 := set_pv m2 x h in
  set_nx m3 h x.
(* cds_list_add_tail(newp, head): head->prev->next = newp; newp->next = head; newp->prev = head->prev; head->prev = newp *)
Definition l_add_tail (m : lmem) (x h : nat) : lmem :=
  let m1 := set_nx m (pv m h) x in
  let m2 := set_nx m1 x h in
  let m3 := set_pv m2 x (pv m2 h) in
  set_pv m3 h x.
(* __cds_list_del(prev, next): next->prev = prev; prev->next = next *)
Definition l_del_between (m : lmem) (p n : nat) : lmem := set_nx (set_pv m n p) p n.
(* cds_list_del(elem) *)
Definition l_del (m : lmem) (x : nat) : lmem := l_del_between m (pv m x) (nx m x).
(* cds_list_move(elem, head) *)
Definition l_move (m : lmem) (x h : nat) : lmem := l_add (l_del m x) x h.
(* cds_list_splice(add, head) *)
Definition l_splice (m : lmem) (a h : nat) : lmem :=
  if Nat.eqb a (nx m a) then m else
  let m1 := set_pv m (nx m a) h in
  let m2 := set_nx m1 (pv m1 a) (nx m1 h) in
  let m3 := set_pv m2 (nx m2 h) (pv m2 a) in
  set_nx m3 h (nx m3 a).
Definition l_empty (m : lmem) (h : nat) : bool := Nat.eqb h (nx m h).

(* operations as data, for the correspondence driver *)
Inductive lop := LInit (h : nat) | LAdd (x h : nat) | LAddTail (x h : nat) | LDel (x : nat) | LMove (x h : nat) | LSplice (a h : nat).
Definition lstep (m : lmem) (o : lop) : lmem :=
  match o with
  | LInit h => l_init m h | LAdd x h => l_add m x h | LAddTail x h => l_add_tail m x h
  | LDel x => l_del m x | LMove x h => l_move m x h | LSplice a h => l_splice m a h
  end.
Definition lmem0 : lmem := {| nx := fun x => x; pv := fun x => x |}.
