(* The list operations of urcu/list.h implement the abstract operations on well-formed rings: cons, remove, move, append - for every
   list, whatever else is in memory. *)
From Coq Require Import List Arith Bool Lia Permutation.
Import ListNotations.
Require Import Urcu.ListDl.ListDl.

Definition link1 (m : lmem) (p : nat * nat) : Prop := nx m (fst p) = snd p /\ pv m (snd p) = fst p.
Definition pairs (s : list nat) : list (nat * nat) := combine s (tl s).
(* h :: l is a ring: following next from h spells l and comes back to h, and prev is the inverse all along *)
Definition ring (m : lmem) (h : nat) (l : list nat) : Prop := NoDup (h :: l) /\ Forall (link1 m) (pairs (h :: l ++ [h])).

Lemma upd_same f a v : upd f a v a = v.
Proof. unfold upd. now rewrite Nat.eqb_refl. Qed.
Lemma upd_other f a v x : x <> a -> upd f a v x = f x.
Proof. unfold upd. intros H. destruct (Nat.eqb_spec x a); congruence. Qed.

Lemma pairs_cons a b r : pairs (a :: b :: r) = (a, b) :: pairs (b :: r).
Proof. reflexivity. Qed.
Lemma pairs_app A a b B : pairs (A ++ a :: b :: B) = pairs (A ++ [a]) ++ (a, b) :: pairs (b :: B).
Proof.
  induction A as [|x A IH]; [reflexivity|].
  destruct A as [|y A]; [cbn; reflexivity|].
  change ((x :: y :: A) ++ a :: b :: B) with (x :: y :: (A ++ a :: b :: B)).
  change ((x :: y :: A) ++ [a]) with (x :: y :: (A ++ [a])).
  rewrite !pairs_cons. cbn [app]. f_equal. exact IH.
Qed.
Lemma in_pairs s a b : In (a, b) (pairs s) -> In a (removelast s) /\ In b (tl s).
Proof.
  induction s as [|x s IH]; [intros []|]. destruct s as [|y s]; [intros []|].
  rewrite pairs_cons. intros [E|H].
  - inversion E; subst. split; [left; reflexivity|left; reflexivity].
  - destruct (IH H) as [H1 H2]. split; [right; exact H1|right; destruct s; [destruct H2|exact H2]].
Qed.
Lemma removelast_snoc (l : list nat) x : removelast (l ++ [x]) = l.
Proof. apply removelast_last. Qed.

(* the links that do not start at a node whose next changed nor end at a node whose prev changed are kept *)
Lemma keep_links m m' s :
  (forall a, In a (removelast s) -> nx m' a = nx m a) -> (forall b, In b (tl s) -> pv m' b = pv m b) ->
  Forall (link1 m) (pairs s) -> Forall (link1 m') (pairs s).
Proof.
  intros Hn Hp H. rewrite Forall_forall in *. intros [a b] Hin. destruct (in_pairs s a b Hin) as [Ha Hb].
  specialize (H (a, b) Hin). unfold link1 in *. cbn in *. rewrite (Hn a Ha), (Hp b Hb). exact H.
Qed.

Lemma ring_nx_head m h l : ring m h l -> nx m h = hd h (l ++ [h]) /\ pv m (hd h (l ++ [h])) = h.
Proof. intros [_ H]. destruct l as [|x l]; cbn in H; inversion H as [|? ? H1 _]; subst; exact H1. Qed.

(* an operation that does not write to the nodes of a ring leaves it a ring *)
Theorem ring_frame m m' h l :
  ring m h l -> (forall y, In y (h :: l) -> nx m' y = nx m y /\ pv m' y = pv m y) -> ring m' h l.
Proof.
  intros [Hnd HF] Hsame. split; [exact Hnd|]. apply (keep_links m m'); [| |exact HF].
  - intros a Ha. change (h :: l ++ [h]) with ((h :: l) ++ [h]) in Ha. rewrite removelast_snoc in Ha. apply Hsame, Ha.
  - intros b Hb. cbn [tl] in Hb. apply in_app_or in Hb. destruct Hb as [Hb|[<-|[]]]; apply Hsame; [right; exact Hb|left; reflexivity].
Qed.

(* CDS_INIT_LIST_HEAD *)
Theorem init_spec m h : ring (l_init m h) h [].
Proof.
  split; [constructor; [intros []|constructor]|]. cbn. constructor; [|constructor]. unfold link1; cbn. rewrite !upd_same. auto.
Qed.

Lemma nodup_snoc (h : nat) l : NoDup (h :: l) -> NoDup (l ++ [h]).
Proof. intros H. apply (Permutation_NoDup (Permutation_cons_append l h) H). Qed.
Lemma seq_hd (h : nat) l : l ++ [h] = hd h (l ++ [h]) :: tl (l ++ [h]).
Proof. destruct l; reflexivity. Qed.
Lemma tl_snoc_in (h : nat) l b : In b (tl (l ++ [h])) -> In b (l ++ [h]).
Proof. destruct l; [intros []|intros H; right; exact H]. Qed.

(* cds_list_add(x, h): x becomes the first element *)
Theorem add_spec m h l x : ring m h l -> ~ In x (h :: l) -> ring (l_add m x h) h (x :: l).
Proof.
  intros HR Hx. pose proof HR as [Hnd HF]. destruct (ring_nx_head m h l HR) as [Hf _].
  set (f := hd h (l ++ [h])) in *.
  assert (Hxh : x <> h) by (intros ->; apply Hx; left; reflexivity).
  assert (Hxl : ~ In x l) by (intros H; apply Hx; right; exact H).
  assert (Hnx : nx (l_add m x h) = upd (upd (nx m) x f) h x) by (unfold l_add; cbn; rewrite Hf; reflexivity).
  assert (Hpv : pv (l_add m x h) = upd (upd (pv m) f x) x h) by (unfold l_add; cbn; rewrite Hf; reflexivity).
  pose proof (nodup_snoc h l Hnd) as Hndl.
  pose proof (seq_hd h l) as Hseq. fold f in Hseq.
  assert (Hfx : f <> x).
  { intros E. assert (In f (l ++ [h])) by (rewrite Hseq; left; reflexivity). rewrite E in H. apply in_app_or in H. destruct H as [H|[H|[]]]; [contradiction|congruence]. }
  split.
  - inversion Hnd; subst. constructor; [intros [E|H]; [congruence|contradiction]|]. constructor; [exact Hxl|assumption].
  - change (h :: (x :: l) ++ [h]) with (h :: x :: (l ++ [h])). rewrite Hseq, !pairs_cons.
    constructor; [|constructor].
    + unfold link1; cbn [fst snd]. rewrite Hnx, Hpv, !upd_same. auto.
    + unfold link1; cbn [fst snd]. rewrite Hnx, Hpv. rewrite upd_other by exact Hxh. rewrite upd_same.
      rewrite upd_other by exact Hfx. rewrite upd_same. auto.
    + rewrite <- Hseq. change (h :: l ++ [h]) with (h :: (l ++ [h])) in HF. rewrite Hseq, pairs_cons in HF. inversion HF as [|? ? _ HF']; subst. rewrite <- Hseq in HF'.
      apply (keep_links m); [| |exact HF'].
      * intros a Ha. rewrite removelast_snoc in Ha. rewrite Hnx. inversion Hnd; subst.
        rewrite !upd_other; [reflexivity| |]; intros ->; contradiction.
      * intros b Hb. rewrite Hpv. pose proof (tl_snoc_in h l b Hb) as Hb'.
        rewrite !upd_other; [reflexivity| |].
        -- intros ->. rewrite Hseq in Hndl. inversion Hndl; subst. rewrite Hseq in Hb. cbn in Hb. contradiction.
        -- intros ->. apply in_app_or in Hb'. destruct Hb' as [H|[H|[]]]; [apply Hxl, H|congruence].
Qed.

Lemma nodup_app_disj (A B : list nat) : NoDup (A ++ B) -> forall a, In a A -> In a B -> False.
Proof.
  induction A as [|y A IH]; cbn; intros H a Ha Hb; [destruct Ha|]. inversion H; subst.
  destruct Ha as [->|Ha]; [apply H2; apply in_or_app; right; exact Hb|apply (IH H3 a Ha Hb)].
Qed.
Lemma nodup_app_l (A B : list nat) : NoDup (A ++ B) -> NoDup A.
Proof. induction A as [|y A IH]; cbn; intros H; [constructor|]. inversion H; subst. constructor; [intros Hy; apply H2; apply in_or_app; left; exact Hy|apply IH; exact H3]. Qed.
Lemma nodup_app_r (A B : list nat) : NoDup (A ++ B) -> NoDup B.
Proof. induction A as [|y A IH]; cbn; intros H; [exact H|]. inversion H; subst. apply IH; exact H3. Qed.
Lemma nodup_split3 (h x : nat) l1 l2 : NoDup (h :: l1 ++ x :: l2) ->
  NoDup (h :: l1) /\ NoDup (h :: l2) /\ (forall a b, In a (h :: l1) -> In b l2 -> a <> b) /\ ~ In x (h :: l1) /\ ~ In x l2 /\ NoDup (h :: l1 ++ l2).
Proof.
  intros H. assert (H2 : NoDup (x :: (h :: l1) ++ l2)).
  { apply (Permutation_NoDup (l := (h :: l1) ++ x :: l2)); [symmetry; apply Permutation_middle|exact H]. }
  inversion H2 as [|? ? Hx H3]; subst.
  repeat split.
  - apply (nodup_app_l (h :: l1) l2). exact H3.
  - cbn [app] in H3. inversion H3; subst. constructor; [intros Hh; apply H4; apply in_or_app; right; exact Hh|apply nodup_app_r in H5; exact H5].
  - intros a b Ha Hb ->. apply (nodup_app_disj (h :: l1) l2 H3 b Ha Hb).
  - intros Hin. apply Hx. apply (in_or_app (h :: l1) l2). left. exact Hin.
  - intros Hin. apply Hx. apply (in_or_app (h :: l1) l2). right. exact Hin.
  - exact H3.
Qed.

(* cds_list_del(x): x leaves the list, the order of the others is kept *)
Theorem del_spec m h l1 x l2 : ring m h (l1 ++ x :: l2) -> ring (l_del m x) h (l1 ++ l2).
Proof.
  intros [Hnd HF]. destruct (nodup_split3 h x l1 l2 Hnd) as (N1 & N2 & Nd & Nx1 & Nx2 & N12).
  destruct (exists_last (l := h :: l1) ltac:(discriminate)) as (P & p & HP).
  pose proof (seq_hd h l2) as HS2. set (n := hd h (l2 ++ [h])) in *. set (B := tl (l2 ++ [h])) in *.
  assert (Hold : h :: (l1 ++ x :: l2) ++ [h] = P ++ p :: x :: n :: B).
  { change (h :: (l1 ++ x :: l2) ++ [h]) with ((h :: l1 ++ x :: l2) ++ [h]). rewrite app_comm_cons, HP. rewrite <- !app_assoc. cbn [app]. rewrite HS2. reflexivity. }
  assert (Hnew : h :: (l1 ++ l2) ++ [h] = P ++ p :: n :: B).
  { change (h :: (l1 ++ l2) ++ [h]) with ((h :: l1 ++ l2) ++ [h]). rewrite app_comm_cons, HP. rewrite <- !app_assoc. cbn [app]. rewrite HS2. reflexivity. }
  rewrite Hold, pairs_app, pairs_cons in HF. apply Forall_app in HF. destruct HF as [HF1 HF2].
  inversion HF2 as [|? ? Hpx HF3]; subst. inversion HF3 as [|? ? Hxn HF4]; subst.
  destruct Hpx as [Hpx1 Hpx2], Hxn as [Hxn1 Hxn2]. cbn [fst snd] in *.
  assert (Hnx : nx (l_del m x) = upd (nx m) p n) by (unfold l_del, l_del_between; cbn; rewrite Hpx2, Hxn1; reflexivity).
  assert (Hpv : pv (l_del m x) = upd (pv m) n p) by (unfold l_del, l_del_between; cbn; rewrite Hpx2, Hxn1; reflexivity).
  assert (Hp_in : In p (h :: l1)) by (rewrite HP; apply in_or_app; right; left; reflexivity).
  assert (Hn_in : In n (l2 ++ [h])) by (rewrite HS2; left; reflexivity).
  split; [exact N12|]. rewrite Hnew, pairs_app. apply Forall_app. split; [|constructor].
  - apply (keep_links m); [| |exact HF1].
    + intros a Ha. rewrite removelast_snoc in Ha. rewrite Hnx. rewrite upd_other; [reflexivity|].
      intros ->. rewrite HP in N1. apply NoDup_remove_2 in N1. rewrite app_nil_r in N1. contradiction.
    + intros b Hb. rewrite Hpv. rewrite upd_other; [reflexivity|]. intros ->.
      rewrite <- HP in Hb. cbn [tl] in Hb. apply in_app_or in Hn_in. destruct Hn_in as [Hn2|[Hn2|[]]].
      * apply (Nd n n); [right; exact Hb|exact Hn2|reflexivity].
      * subst n. rewrite <- Hn2 in Hb. inversion N1; subst. contradiction.
  - unfold link1; cbn [fst snd]. rewrite Hnx, Hpv, !upd_same. auto.
  - apply (keep_links m); [| |exact HF4].
    + intros a Ha. rewrite <- HS2, removelast_snoc in Ha. rewrite Hnx. rewrite upd_other; [reflexivity|].
      intros ->. apply (Nd p p Hp_in Ha). reflexivity.
    + intros b Hb. cbn [tl] in Hb. rewrite Hpv. rewrite upd_other; [reflexivity|]. intros ->.
      pose proof (nodup_snoc h l2 N2) as N. rewrite HS2 in N. inversion N; subst. contradiction.
Qed.

Lemma nodup_app_intro (A B : list nat) : NoDup A -> NoDup B -> (forall x, In x A -> In x B -> False) -> NoDup (A ++ B).
Proof.
  induction A as [|y A IH]; cbn; intros HA HB Hd; [exact HB|]. inversion HA; subst.
  constructor; [intros Hy; apply in_app_or in Hy; destruct Hy as [Hy|Hy]; [contradiction|apply (Hd y); [left; reflexivity|exact Hy]]|].
  apply IH; [assumption|assumption|]. intros x Hx. apply Hd. right. exact Hx.
Qed.

(* cds_list_splice(a, h): the elements of a are put in front of those of h, in order *)
Theorem splice_spec m a la h lh :
  ring m a la -> ring m h lh -> (forall y, In y (a :: la) -> In y (h :: lh) -> False) -> ring (l_splice m a h) h (la ++ lh).
Proof.
  intros HRa HRh Hdis. pose proof HRa as [Hnda HFa]. pose proof HRh as [Hndh HFh].
  destruct (ring_nx_head m a la HRa) as [Hfa _]. destruct (ring_nx_head m h lh HRh) as [Hf Hpf].
  destruct la as [|fa la'].
  - cbn in Hfa. unfold l_splice. rewrite Hfa, Nat.eqb_refl. exact HRh.
  - cbn [hd app] in Hfa. set (la := fa :: la') in *.
    destruct (exists_last (l := la) ltac:(discriminate)) as (LA & ea & HLA).
    set (f := hd h (lh ++ [h])) in *. pose proof (seq_hd h lh) as HSh. fold f in HSh. set (F := tl (lh ++ [h])) in *.
    assert (Hafa : a <> fa) by (inversion Hnda as [|? ? Hni _]; intros E; apply Hni; rewrite E; left; reflexivity).
    assert (Hea_in : In ea la) by (rewrite HLA; apply in_or_app; right; left; reflexivity).
    assert (Haea : a <> ea) by (inversion Hnda as [|? ? Hni _]; intros E; apply Hni; rewrite E; exact Hea_in).
    assert (Hf_in : In f (h :: lh)).
    { assert (In f (lh ++ [h])) by (rewrite HSh; left; reflexivity). apply in_app_or in H. destruct H as [H|[H|[]]]; [right; exact H|left; exact H]. }
    assert (Hhea : h <> ea) by (intros ->; apply (Hdis ea); [right; exact Hea_in|left; reflexivity]).
    assert (Hfaf : fa <> f) by (intros E; apply (Hdis fa); [right; left; reflexivity|rewrite E; exact Hf_in]).
    (* the last link of a's ring gives prev(a) *)
    assert (Hpa : pv m a = ea /\ Forall (link1 m) (pairs la)).
    { change (a :: la ++ [a]) with (a :: (la ++ [a])) in HFa. rewrite HLA in HFa. rewrite <- app_assoc in HFa. cbn [app] in HFa.
      change (a :: LA ++ ea :: [a]) with ((a :: LA) ++ ea :: a :: []) in HFa. rewrite pairs_app in HFa. apply Forall_app in HFa. destruct HFa as [H1 H2].
      inversion H2 as [|? ? [_ Hp] _]. cbn [fst snd] in Hp. split; [exact Hp|].
      change ((a :: LA) ++ [ea]) with (a :: (LA ++ [ea])) in H1. rewrite <- HLA in H1. unfold la in H1. rewrite pairs_cons in H1. inversion H1 as [|? ? _ H1']. exact H1'. }
    destruct Hpa as [Hpa HFla].
    assert (Hnx : nx (l_splice m a h) = upd (upd (nx m) ea f) h fa).
    { unfold l_splice. rewrite Hfa. destruct (Nat.eqb_spec a fa) as [E|_]; [contradiction|]. cbn.
      do 4 (repeat first [rewrite upd_same | rewrite upd_other by (first [assumption | apply not_eq_sym; assumption])]; rewrite ?Hpa, ?Hf, ?Hfa). reflexivity. }
    assert (Hpv : pv (l_splice m a h) = upd (upd (pv m) fa h) f ea).
    { unfold l_splice. rewrite Hfa. destruct (Nat.eqb_spec a fa) as [E|_]; [contradiction|]. cbn.
      rewrite (upd_other (pv m) fa h a Hafa), Hpa. rewrite Hf. rewrite (upd_other (nx m) ea f h Hhea), Hf. reflexivity. }
    assert (Hndla : NoDup la) by (inversion Hnda; assumption).
    split.
    + apply (Permutation_NoDup (l := la ++ h :: lh)); [symmetry; apply Permutation_middle|].
      apply nodup_app_intro; [exact Hndla|exact Hndh|]. intros x Hx Hx'. apply (Hdis x); [right; exact Hx|exact Hx'].
    + assert (Hseq : h :: (la ++ lh) ++ [h] = (h :: LA) ++ ea :: f :: F).
      { rewrite <- app_assoc. rewrite HSh. rewrite HLA. rewrite <- app_assoc. reflexivity. }
      rewrite Hseq, pairs_app. apply Forall_app. split; [|constructor].
      * change ((h :: LA) ++ [ea]) with (h :: (LA ++ [ea])). rewrite <- HLA. unfold la at 1. rewrite pairs_cons. constructor.
        -- unfold link1; cbn [fst snd]. rewrite Hnx, Hpv. rewrite upd_same. rewrite upd_other by exact Hfaf. rewrite upd_same. auto.
        -- change (fa :: la') with la. apply (keep_links m); [| |exact HFla].
           ++ intros x Hx. rewrite Hnx. rewrite HLA, removelast_snoc in Hx.
              rewrite !upd_other; [reflexivity| |].
              ** intros ->. rewrite HLA in Hndla. apply NoDup_remove_2 in Hndla. rewrite app_nil_r in Hndla. contradiction.
              ** intros ->. apply (Hdis h); [right; rewrite HLA; apply in_or_app; left; exact Hx|left; reflexivity].
           ++ intros y Hy. rewrite Hpv. unfold la in Hy. cbn [tl] in Hy.
              rewrite !upd_other; [reflexivity| |].
              ** intros ->. unfold la in Hndla. inversion Hndla as [|? ? Hni _]. contradiction.
              ** intros ->. apply (Hdis f); [right; right; exact Hy|exact Hf_in].
      * unfold link1; cbn [fst snd]. rewrite Hnx, Hpv. rewrite upd_other by (intros E; apply Hhea; symmetry; exact E). rewrite !upd_same. auto.
      * rewrite <- HSh. change (h :: lh ++ [h]) with (h :: (lh ++ [h])) in HFh. rewrite HSh, pairs_cons in HFh. inversion HFh as [|? ? _ HFh']. rewrite <- HSh in HFh'.
        apply (keep_links m); [| |exact HFh'].
        -- intros z Hz. rewrite removelast_snoc in Hz. rewrite Hnx.
           rewrite !upd_other; [reflexivity| |].
           ++ intros ->. apply (Hdis ea); [right; exact Hea_in|right; exact Hz].
           ++ intros ->. inversion Hndh as [|? ? Hni _]. contradiction.
        -- intros w Hw. rewrite Hpv. pose proof (tl_snoc_in h lh w Hw) as Hw'.
           assert (Hw2 : In w (h :: lh)) by (apply in_app_or in Hw'; destruct Hw' as [Hq|[Hq|[]]]; [right; exact Hq|left; exact Hq]).
           rewrite !upd_other; [reflexivity| |].
           ++ intros ->. apply (Hdis fa); [right; left; reflexivity|exact Hw2].
           ++ intros ->. pose proof (nodup_snoc h lh Hndh) as N. rewrite HSh in N. inversion N as [|? ? Hni _]. rewrite HSh in Hw. cbn [tl] in Hw. contradiction.
Qed.

(* next and prev stay inside the ring *)
Lemma pairs_has_fst s a : In a (removelast s) -> exists b, In (a, b) (pairs s).
Proof.
  induction s as [|x s IH]; [intros []|]. destruct s as [|y s]; [intros []|].
  intros [->|H]; [exists y; left; reflexivity|]. destruct (IH H) as (b & Hb). exists b. rewrite pairs_cons. right. exact Hb.
Qed.
Lemma pairs_has_snd s b : In b (tl s) -> exists a, In (a, b) (pairs s).
Proof.
  induction s as [|x s IH]; [intros []|]. destruct s as [|y s]; [intros []|].
  intros [->|H]; [exists x; left; reflexivity|]. destruct (IH (match s as s0 return In b s0 -> In b (tl (y :: s0)) with _ => fun h => h end H)) as (a & Ha).
  exists a. rewrite pairs_cons. right. exact Ha.
Qed.
Lemma ring_closed m h l y : ring m h l -> In y (h :: l) -> In (nx m y) (h :: l) /\ In (pv m y) (h :: l).
Proof.
  intros [_ HF] Hy. rewrite Forall_forall in HF. split.
  - assert (Hr : In y (removelast (h :: l ++ [h]))) by (change (h :: l ++ [h]) with ((h :: l) ++ [h]); rewrite removelast_snoc; exact Hy).
    destruct (pairs_has_fst _ _ Hr) as (b & Hb). destruct (HF _ Hb) as [E _]. cbn in E. rewrite E.
    destruct (in_pairs _ _ _ Hb) as [_ Hb2]. cbn [tl] in Hb2. apply in_app_or in Hb2. destruct Hb2 as [H|[H|[]]]; [right; exact H|left; exact H].
  - assert (Hr : In y (tl (h :: l ++ [h]))) by (cbn [tl]; destruct Hy as [->|Hy]; apply in_or_app; [right; left; reflexivity|left; exact Hy]).
    destruct (pairs_has_snd _ _ Hr) as (a & Ha). destruct (HF _ Ha) as [_ E]. cbn in E. rewrite E.
    destruct (in_pairs _ _ _ Ha) as [Ha1 _]. change (h :: l ++ [h]) with ((h :: l) ++ [h]) in Ha1. rewrite removelast_snoc in Ha1. exact Ha1.
Qed.

(* footprints *)
Lemma add_footprint m x h y : y <> x -> y <> h -> y <> nx m h -> nx (l_add m x h) y = nx m y /\ pv (l_add m x h) y = pv m y.
Proof. intros H1 H2 H3. unfold l_add; cbn. rewrite !upd_other by assumption. auto. Qed.
Lemma del_footprint m x y : y <> pv m x -> y <> nx m x -> nx (l_del m x) y = nx m y /\ pv (l_del m x) y = pv m y.
Proof. intros H1 H2. unfold l_del, l_del_between; cbn. rewrite !upd_other by assumption. auto. Qed.

(* cds_list_move(x, h2): x leaves its list and becomes the first element of h2's list; both stay well formed *)
Theorem move_spec m h1 l1 x l2 h2 l :
  ring m h1 (l1 ++ x :: l2) -> ring m h2 l -> (forall y, In y (h1 :: l1 ++ x :: l2) -> In y (h2 :: l) -> False) ->
  ring (l_move m x h2) h1 (l1 ++ l2) /\ ring (l_move m x h2) h2 (x :: l).
Proof.
  intros HR1 HR2 Hdis. unfold l_move.
  assert (Hx1 : In x (h1 :: l1 ++ x :: l2)) by (right; apply in_or_app; right; left; reflexivity).
  destruct (ring_closed m h1 _ x HR1 Hx1) as [Hnxx Hpvx].
  pose proof (del_spec m h1 l1 x l2 HR1) as HD1.
  assert (HD2 : ring (l_del m x) h2 l).
  { apply (ring_frame m); [exact HR2|]. intros y Hy. apply del_footprint; intros ->; [apply (Hdis _ Hpvx Hy)|apply (Hdis _ Hnxx Hy)]. }
  assert (Hxn : ~ In x (h2 :: l)) by (intros H; apply (Hdis x Hx1 H)).
  split; [|apply add_spec; assumption].
  apply (ring_frame (l_del m x)); [exact HD1|]. intros y Hy.
  assert (Hy1 : In y (h1 :: l1 ++ x :: l2)).
  { destruct Hy as [->|Hy]; [left; reflexivity|right]. apply in_app_or in Hy. apply in_or_app. destruct Hy as [Hy|Hy]; [left; exact Hy|right; right; exact Hy]. }
  destruct HR1 as [Hnd1 _]. destruct (nodup_split3 h1 x l1 l2 Hnd1) as (_ & _ & _ & Nx1 & Nx2 & _).
  apply add_footprint.
  - intros ->. destruct Hy as [E|Hy]; [apply Nx1; left; exact E|]. apply in_app_or in Hy. destruct Hy as [Hy|Hy]; [apply Nx1; right; exact Hy|apply Nx2; exact Hy].
  - intros ->. apply (Hdis h2 Hy1). left; reflexivity.
  - intros ->. destruct (ring_closed _ h2 l h2 HD2 ltac:(left; reflexivity)) as [Hin _]. apply (Hdis _ Hy1 Hin).
Qed.

(* non-vacuity and sensitivity: a concrete run; the variant of splice that writes head->prev instead of head->next->prev breaks the ring *)
Example ring_run :
  let m := fold_left lstep [LInit 0; LInit 1; LAdd 2 0; LAdd 3 0; LAdd 4 1; LMove 2 1; LSplice 1 0] lmem0 in
  nx m 0 = 2 /\ nx m 2 = 4 /\ nx m 4 = 3 /\ nx m 3 = 0 /\ pv m 0 = 3 /\ pv m 3 = 4 /\ pv m 4 = 2 /\ pv m 2 = 0.
Proof. vm_compute. repeat split. Qed.
Definition l_splice_bad (m : lmem) (a h : nat) : lmem :=
  if Nat.eqb a (nx m a) then m else
  let m1 := set_pv m (nx m a) h in let m2 := set_nx m1 (pv m1 a) (nx m1 h) in let m3 := set_pv m2 h (pv m2 a) in set_nx m3 h (nx m3 a).
Theorem splice_head_prev_refuted :
  exists m, ring m 1 [4] /\ ring m 0 [3] /\ ~ ring (l_splice_bad m 1 0) 0 [4; 3].
Proof.
  exists (fold_left lstep [LInit 0; LInit 1; LAdd 3 0; LAdd 4 1] lmem0). split; [|split].
  - split; [repeat constructor; cbn; intuition discriminate|]. cbn. repeat constructor.
  - split; [repeat constructor; cbn; intuition discriminate|]. cbn. repeat constructor.
  - intros [_ HF]. cbn in HF. inversion HF as [|? ? _ HF1]; subst. inversion HF1 as [|? ? [_ E] _]; subst. vm_compute in E. discriminate.
Qed.
Print Assumptions add_spec.
Print Assumptions del_spec.
Print Assumptions splice_spec.
Print Assumptions move_spec.
