(* call_rcu / rcu_barrier over abstract FIFO queues with the grace period split into start and end, as an EXECUTABLE step
   function (used by the refinement check of implementation traces).  Any number of helpers, callers and readers.
   The helper's synchronize_rcu() records the logical clock when it starts; it may end when every read-side section still open
   began at or after that value (this is what C01 gives).  Theorems: a callback is invoked only after every section that was open
   when it was queued has ended; per helper invoked ++ batch ++ queue = everything handed to it, in order (exactly once, FIFO);
   a marker callback that has run is preceded by everything queued to that helper before it (rcu_barrier). *)
From Coq Require Import List Arith Bool Lia.
Import ListNotations.

Inductive hphase := H_Idle | H_Spliced | H_Syncing (k : nat) | H_Invoking (k : nat).
Record helper := { hq : list nat; hbatch : list nat; hph : hphase; hdone : list nat; hall : list nat (* ghost: everything ever queued here *) }.
Record st := { clock : nat; stamp : nat -> nat (* ghost: clock value just after the callback was queued *);
               sect : nat -> option nat (* reader r: Some b = inside a section that began at clock b *); hp : nat -> helper;
               used : list nat (* ghost: every callback id ever queued anywhere *) }.
Inductive choice :=
| CCall (h c : nat)            (* call_rcu: callback c enqueued on helper h *)
| CMove (h h' : nat)           (* call_rcu_data_free: leftover queue of h spliced to the tail of h' (both under call_rcu_mutex) *)
| RLock (r : nat) | RUnlock (r : nat)
| HSplice (h : nat) | HSyncStart (h : nat) | HSyncEnd (h : nat) | HInvoke (h c : nat).
Definition upd {A} (f : nat -> A) (k : nat) (v : A) : nat -> A := fun x => if Nat.eqb x k then v else f x.
Definition seth (s : st) h x : st := {| clock := clock s; stamp := stamp s; sect := sect s; hp := upd (hp s) h x; used := used s |}.
Definition mem (c : nat) (l : list nat) : bool := existsb (Nat.eqb c) l.

Definition cexec (readers : list nat) (c : choice) (s : st) : option st :=
  match c with
  | CCall h cb =>
      if mem cb (used s) then None else
      let x := hp s h in
      Some {| clock := S (clock s); stamp := upd (stamp s) cb (S (clock s)); sect := sect s;
              hp := upd (hp s) h {| hq := hq x ++ [cb]; hbatch := hbatch x; hph := hph x; hdone := hdone x; hall := hall x ++ [cb] |};
              used := cb :: used s |}
  | CMove h h' =>
      if Nat.eqb h h' then None else
      let x := hp s h in let y := hp s h' in
      match hph x with
      | H_Idle =>
          Some {| clock := clock s; stamp := stamp s; sect := sect s;
                  hp := upd (upd (hp s) h {| hq := []; hbatch := hbatch x; hph := hph x; hdone := hdone x ++ hq x; hall := hall x |})
                            h' {| hq := hq y ++ hq x; hbatch := hbatch y; hph := hph y; hdone := hdone y; hall := hall y ++ hq x |};
                  used := used s |}
      | _ => None
      end
  | RLock r => if mem r readers then match sect s r with None => Some {| clock := clock s; stamp := stamp s; sect := upd (sect s) r (Some (clock s)); hp := hp s; used := used s |} | Some _ => None end else None
  | RUnlock r => match sect s r with Some _ => Some {| clock := clock s; stamp := stamp s; sect := upd (sect s) r None; hp := hp s; used := used s |} | None => None end
  | HSplice h => let x := hp s h in
      match hph x with H_Idle => Some (seth s h {| hq := []; hbatch := hq x; hph := H_Spliced; hdone := hdone x; hall := hall x |}) | _ => None end
  | HSyncStart h => let x := hp s h in
      match hph x with H_Spliced => Some (seth s h {| hq := hq x; hbatch := hbatch x; hph := H_Syncing (clock s); hdone := hdone x; hall := hall x |}) | _ => None end
  | HSyncEnd h => let x := hp s h in
      match hph x with
      | H_Syncing k =>
          if forallb (fun r => match sect s r with Some b => Nat.leb k b | None => true end) readers
          then Some (seth s h {| hq := hq x; hbatch := hbatch x; hph := (match hbatch x with [] => H_Idle | _ => H_Invoking k end); hdone := hdone x; hall := hall x |})
          else None
      | _ => None end
  | HInvoke h cb => let x := hp s h in
      match hph x, hbatch x with
      | H_Invoking k, c0 :: rest =>
          if Nat.eqb c0 cb then Some (seth s h {| hq := hq x; hbatch := rest; hph := (match rest with [] => H_Idle | _ => H_Invoking k end); hdone := hdone x ++ [cb]; hall := hall x |})
          else None
      | _, _ => None end
  end.
Fixpoint crun (readers : list nat) (l : list choice) (s : st) : option st :=
  match l with [] => Some s | c :: l' => match cexec readers c s with Some s' => crun readers l' s' | None => None end end.
Definition init : st := {| clock := 0; stamp := fun _ => 0; sect := fun _ => None;
                            hp := fun _ => {| hq := []; hbatch := []; hph := H_Idle; hdone := []; hall := [] |}; used := [] |}.

(* ---- invariant ---- *)
Definition open_ok (readers : list nat) (s : st) : Prop := forall r, sect s r <> None -> In r readers.
Record Inv (readers : list nat) (s : st) : Prop := {
  I_stamp : forall c, stamp s c <= clock s;
  I_sect : forall r b, sect s r = Some b -> b <= clock s;
  I_open : open_ok readers s;
  I_idle : forall h, hph (hp s h) = H_Idle -> hbatch (hp s h) = [];
  I_sync : forall h k, hph (hp s h) = H_Syncing k -> k <= clock s /\ forall c, In c (hbatch (hp s h)) -> stamp s c <= k;
  I_inv : forall h k, hph (hp s h) = H_Invoking k -> k <= clock s /\ (forall c, In c (hbatch (hp s h)) -> stamp s c <= k) /\ (forall r b, sect s r = Some b -> k <= b);
  I_spl : forall h c, In c (hbatch (hp s h)) -> stamp s c <= clock s;
  I_used : forall h c, In c (hbatch (hp s h)) \/ In c (hq (hp s h)) -> In c (used s)
}.

Lemma upd_same {A} (f : nat -> A) k v : upd f k v k = v.  Proof. unfold upd. now rewrite Nat.eqb_refl. Qed.
Lemma upd_other {A} (f : nat -> A) k v x : x <> k -> upd f k v x = f x.
Proof. unfold upd. intros H. destruct (Nat.eqb_spec x k); [contradiction|reflexivity]. Qed.
Lemma mem_false c l : mem c l = false -> ~ In c l.
Proof. unfold mem. intros H Hin. assert (existsb (Nat.eqb c) l = true) by (apply existsb_exists; exists c; split; [exact Hin|apply Nat.eqb_refl]). congruence. Qed.
Lemma mem_true c l : mem c l = true -> In c l.
Proof. unfold mem. intros H. apply existsb_exists in H. destruct H as (x & Hx & E). apply Nat.eqb_eq in E. subst. exact Hx. Qed.

Ltac hcase h0 h := destruct (Nat.eq_dec h0 h) as [->|?Hne]; [rewrite ?upd_same in *|rewrite ?upd_other in * by assumption].

Lemma Inv_init readers : Inv readers init.
Proof.
  constructor; cbn; intros; try lia; try discriminate; try reflexivity; try tauto.
  intros r H. exfalso. apply H. reflexivity.
Qed.

Lemma Inv_exec readers c s s' : Inv readers s -> cexec readers c s = Some s' -> Inv readers s'.
Proof.
  intros HI He. destruct HI as [I1 I2 I3 I4 I5 I6 I7 I8].
  destruct c as [h cb|h h'|r|r|h|h|h|h cb]; cbn [cexec] in He.
  - (* call_rcu *)
    destruct (mem cb (used s)) eqn:Em; [discriminate|]. apply mem_false in Em. injection He as <-.
    assert (Hfresh : forall h0, ~ In cb (hbatch (hp s h0))) by (intros h0 Hc; apply Em; apply (I8 h0); left; exact Hc).
    constructor; cbn [clock stamp sect hp used].
    + intros c0. unfold upd at 1. destruct (Nat.eqb c0 cb); [lia|pose proof (I1 c0); lia].
    + intros r b Hr. pose proof (I2 r b Hr). lia.
    + exact I3.
    + intros h0. hcase h0 h; cbn; apply I4.
    + intros h0 k Hk. assert (Hk' : hph (hp s h0) = H_Syncing k) by (hcase h0 h; exact Hk). destruct (I5 h0 k Hk') as [A B]. split; [lia|].
      intros c0 Hc0. assert (Hc0' : In c0 (hbatch (hp s h0))) by (hcase h0 h; exact Hc0).
      assert (c0 <> cb) by (intros ->; apply (Hfresh h0); exact Hc0'). rewrite upd_other by assumption. apply B. exact Hc0'.
    + intros h0 k Hk. assert (Hk' : hph (hp s h0) = H_Invoking k) by (hcase h0 h; exact Hk). destruct (I6 h0 k Hk') as (A & B & Cc). split; [lia|split].
      * intros c0 Hc0. assert (Hc0' : In c0 (hbatch (hp s h0))) by (hcase h0 h; exact Hc0).
        assert (c0 <> cb) by (intros ->; apply (Hfresh h0); exact Hc0'). rewrite upd_other by assumption. apply B. exact Hc0'.
      * exact Cc.
    + intros h0 c0 Hc0. assert (Hc0' : In c0 (hbatch (hp s h0))) by (hcase h0 h; exact Hc0).
      unfold upd at 1. destruct (Nat.eqb c0 cb); [lia|]. pose proof (I7 h0 c0 Hc0'). lia.
    + intros h0 c0 Hc0. hcase h0 h; cbn [hbatch hq] in Hc0.
      * destruct Hc0 as [Hc0|Hc0]; [right; apply (I8 h); left; exact Hc0|]. apply in_app_or in Hc0. destruct Hc0 as [Hc0|[<-|[]]]; [right; apply (I8 h); right; exact Hc0|left; reflexivity].
      * right. apply (I8 h0). exact Hc0.
  - (* hand-over of a stopped helper's queue *)
    destruct (Nat.eqb_spec h h') as [|Hhh]; [discriminate|]. destruct (hph (hp s h)) eqn:Eph; try discriminate. injection He as <-.
    constructor; cbn [clock stamp sect hp used]; try assumption.
    + intros h0 Hi. hcase h0 h'; cbn in *; [apply I4; exact Hi|]. hcase h0 h; cbn in *; apply I4; assumption.
    + intros h0 k Hk. hcase h0 h'; cbn in *; [apply I5; exact Hk|]. hcase h0 h; cbn in *; [congruence|apply I5; exact Hk].
    + intros h0 k Hk. hcase h0 h'; cbn in *; [apply I6; exact Hk|]. hcase h0 h; cbn in *; [congruence|apply I6; exact Hk].
    + intros h0 c0 Hc0. hcase h0 h'; cbn in *; [apply (I7 h'); exact Hc0|]. hcase h0 h; cbn in *; [apply (I7 h); exact Hc0|apply (I7 h0); exact Hc0].
    + intros h0 c0 Hc0. hcase h0 h'; cbn in *.
      * destruct Hc0 as [Hc0|Hc0]; [apply (I8 h'); left; exact Hc0|]. apply in_app_or in Hc0. destruct Hc0; [apply (I8 h'); right; assumption|apply (I8 h); right; assumption].
      * hcase h0 h; cbn in *; [destruct Hc0 as [Hc0|[]]; apply (I8 h); left; exact Hc0|apply (I8 h0); exact Hc0].
  - (* rcu_read_lock *)
    destruct (mem r readers) eqn:Em; [|discriminate]. apply mem_true in Em. destruct (sect s r) eqn:Es; [discriminate|]. injection He as <-.
    constructor; cbn [clock stamp sect hp used]; try assumption.
    + intros r0 b. unfold upd. destruct (Nat.eqb r0 r); [intros E; injection E as <-; lia|apply I2].
    + intros r0 Hr0. cbn [sect] in Hr0. unfold upd in Hr0. destruct (Nat.eqb_spec r0 r) as [E|E]; [rewrite E; exact Em|apply I3; exact Hr0].
    + intros h0 k Hk. destruct (I6 h0 k Hk) as (A & B & Cc). split; [exact A|split; [exact B|]].
      intros r0 b. unfold upd. destruct (Nat.eqb r0 r); [intros E; injection E as <-; exact A|apply Cc].
  - (* rcu_read_unlock *)
    destruct (sect s r) eqn:Es; [|discriminate]. injection He as <-.
    constructor; cbn [clock stamp sect hp used]; try assumption.
    + intros r0 b. unfold upd. destruct (Nat.eqb r0 r); [discriminate|apply I2].
    + intros r0 Hr0. cbn [sect] in Hr0. unfold upd in Hr0. destruct (Nat.eqb_spec r0 r) as [E|E]; [congruence|apply I3; exact Hr0].
    + intros h0 k Hk. destruct (I6 h0 k Hk) as (A & B & Cc). split; [exact A|split; [exact B|]].
      intros r0 b. unfold upd. destruct (Nat.eqb r0 r); [discriminate|apply Cc].
  - (* splice *)
    destruct (hph (hp s h)) eqn:Eph; try discriminate. injection He as <-.
    constructor; unfold seth; cbn [clock stamp sect hp used]; try assumption.
    + intros h0 Hi. hcase h0 h; cbn in *; [discriminate|apply I4; exact Hi].
    + intros h0 k Hk. hcase h0 h; cbn in *; [discriminate|apply I5; exact Hk].
    + intros h0 k Hk. hcase h0 h; cbn in *; [discriminate|apply I6; exact Hk].
    + intros h0 c0 Hc0. hcase h0 h; cbn in *; [apply I1|apply (I7 h0); exact Hc0].
    + intros h0 c0 Hc0. hcase h0 h; cbn in *; [destruct Hc0 as [Hc0|[]]; apply (I8 h); right; exact Hc0|apply (I8 h0); exact Hc0].
  - (* grace period starts *)
    destruct (hph (hp s h)) eqn:Eph; try discriminate. injection He as <-.
    constructor; unfold seth; cbn [clock stamp sect hp used]; try assumption.
    + intros h0 Hi. hcase h0 h; cbn in *; [discriminate|apply I4; exact Hi].
    + intros h0 k Hk. hcase h0 h; cbn in *; [injection Hk as <-; split; [lia|intros c0 Hc0; apply (I7 h); exact Hc0]|apply I5; exact Hk].
    + intros h0 k Hk. hcase h0 h; cbn in *; [discriminate|apply I6; exact Hk].
    + intros h0 c0 Hc0. hcase h0 h; cbn in *; [apply (I7 h); exact Hc0|apply (I7 h0); exact Hc0].
    + intros h0 c0 Hc0. hcase h0 h; cbn in *; [apply (I8 h); exact Hc0|apply (I8 h0); exact Hc0].
  - (* grace period ends *)
    destruct (hph (hp s h)) as [| |k|] eqn:Eph; try discriminate.
    destruct (forallb _ readers) eqn:Eg; [|discriminate]. injection He as <-.
    assert (Hgp : forall r b, sect s r = Some b -> k <= b).
    { intros r b Hr. rewrite forallb_forall in Eg. assert (Hin : In r readers) by (apply I3; congruence). specialize (Eg r Hin). rewrite Hr in Eg. apply Nat.leb_le. exact Eg. }
    destruct (I5 h k Eph) as [A B].
    constructor; unfold seth; cbn [clock stamp sect hp used]; try assumption.
    + intros h0 Hi. hcase h0 h; cbn in *; [destruct (hbatch (hp s h)); [reflexivity|discriminate]|apply I4; exact Hi].
    + intros h0 k0 Hk. hcase h0 h; cbn in *; [destruct (hbatch (hp s h)); discriminate|apply I5; exact Hk].
    + intros h0 k0 Hk. hcase h0 h; cbn in *; [|apply I6; exact Hk]. destruct (hbatch (hp s h)) eqn:Eb; [discriminate|]. injection Hk as <-. split; [exact A|split; [exact B|exact Hgp]].
    + intros h0 c0 Hc0. hcase h0 h; cbn in *; [apply (I7 h); exact Hc0|apply (I7 h0); exact Hc0].
    + intros h0 c0 Hc0. hcase h0 h; cbn in *; [apply (I8 h); exact Hc0|apply (I8 h0); exact Hc0].
  - (* invoke one callback *)
    destruct (hph (hp s h)) as [| | |k] eqn:Eph; try discriminate. destruct (hbatch (hp s h)) as [|c0 rest] eqn:Eb; [discriminate|].
    destruct (Nat.eqb_spec c0 cb) as [->|]; [|discriminate]. injection He as <-.
    destruct (I6 h k Eph) as (A & B & Cc).
    constructor; unfold seth; cbn [clock stamp sect hp used]; try assumption.
    + intros h0 Hi. hcase h0 h; cbn in *; [destruct rest; [reflexivity|discriminate]|apply I4; exact Hi].
    + intros h0 k0 Hk. hcase h0 h; cbn in *; [destruct rest; discriminate|apply I5; exact Hk].
    + intros h0 k0 Hk. hcase h0 h; cbn in *; [|apply I6; exact Hk]. destruct rest as [|c1 rest]; [discriminate|]. injection Hk as <-.
      split; [exact A|split; [intros c2 Hc2; apply B; rewrite Eb; right; exact Hc2|exact Cc]].
    + intros h0 c1 Hc1. hcase h0 h; cbn in *; [apply (I7 h); rewrite Eb; right; exact Hc1|apply (I7 h0); exact Hc1].
    + intros h0 c1 Hc1. hcase h0 h; cbn in *; [apply (I8 h); rewrite Eb; destruct Hc1 as [Hc1|Hc1]; [left; right; exact Hc1|right; exact Hc1]|apply (I8 h0); exact Hc1].
Qed.

Theorem Inv_crun readers : forall l s s', Inv readers s -> crun readers l s = Some s' -> Inv readers s'.
Proof.
  induction l as [|c l IH]; intros s s' HI Hr; cbn [crun] in Hr; [injection Hr as <-; exact HI|].
  destruct (cexec readers c s) as [s1|] eqn:E; [|discriminate]. apply (IH s1 s'); [eapply Inv_exec; eassumption|exact Hr].
Qed.

(* (1) a callback is only ever invoked when every read-side section still open began after it was queued: the section that was
   open when call_rcu() was called has ended *)
Theorem cb_after_gp readers s h cb s' : Inv readers s -> cexec readers (HInvoke h cb) s = Some s' ->
  forall r b, sect s r = Some b -> stamp s cb <= b.
Proof.
  intros HI He r b Hr. cbn [cexec] in He. destruct (hph (hp s h)) as [| | |k] eqn:Eph; try discriminate.
  destruct (hbatch (hp s h)) as [|c0 rest] eqn:Eb; [discriminate|]. destruct (Nat.eqb_spec c0 cb) as [->|]; [|discriminate].
  destruct (I_inv readers s HI h k Eph) as (_ & B & Cc). pose proof (B cb ltac:(rewrite Eb; left; reflexivity)). pose proof (Cc r b Hr). lia.
Qed.

(* (2) conservation per helper, FIFO: everything handed to helper h = invoked-or-handed-over ++ private batch ++ queue, in order *)
Definition cons_ok (s : st) : Prop := forall h, hall (hp s h) = hdone (hp s h) ++ hbatch (hp s h) ++ hq (hp s h).
Lemma cons_exec readers c s s' : Inv readers s -> cons_ok s -> cexec readers c s = Some s' -> cons_ok s'.
Proof.
  intros HI Hc He h0. destruct c as [h cb|h h'|r|r|h|h|h|h cb]; cbn [cexec] in He.
  - destruct (mem cb (used s)); [discriminate|]. injection He as <-. cbn [hp]. hcase h0 h; cbn; [rewrite (Hc h), <- !app_assoc; reflexivity|apply Hc].
  - destruct (Nat.eqb_spec h h') as [|Hhh]; [discriminate|]. destruct (hph (hp s h)) eqn:Eph; try discriminate. injection He as <-. cbn [hp].
    hcase h0 h'; cbn; [rewrite (Hc h'), <- !app_assoc; reflexivity|]. hcase h0 h; cbn; [rewrite (Hc h), (I_idle readers s HI h Eph); cbn; rewrite app_nil_r; reflexivity|apply Hc].
  - destruct (mem r readers); [|discriminate]. destruct (sect s r); [discriminate|]. injection He as <-. apply Hc.
  - destruct (sect s r); [|discriminate]. injection He as <-. apply Hc.
  - destruct (hph (hp s h)) eqn:Eph; try discriminate. injection He as <-. unfold seth; cbn [hp]. hcase h0 h; cbn; [rewrite (Hc h), (I_idle readers s HI h Eph); cbn; rewrite app_nil_r; reflexivity|apply Hc].
  - destruct (hph (hp s h)) eqn:Eph; try discriminate. injection He as <-. unfold seth; cbn [hp]. hcase h0 h; cbn; apply Hc.
  - destruct (hph (hp s h)) eqn:Eph; try discriminate. destruct (forallb _ readers); [|discriminate]. injection He as <-. unfold seth; cbn [hp]. hcase h0 h; cbn; apply Hc.
  - destruct (hph (hp s h)) eqn:Eph; try discriminate. destruct (hbatch (hp s h)) as [|c0 rest] eqn:Eb; [discriminate|]. destruct (Nat.eqb_spec c0 cb) as [->|]; [|discriminate].
    injection He as <-. unfold seth; cbn [hp]. hcase h0 h; cbn; [rewrite (Hc h), Eb, <- app_assoc; reflexivity|apply Hc].
Qed.
Theorem cb_fifo_conservation readers : forall l s', crun readers l init = Some s' -> cons_ok s'.
Proof.
  intros l. assert (H : forall l s s', Inv readers s -> cons_ok s -> crun readers l s = Some s' -> cons_ok s').
  { induction l0 as [|c l0 IH]; intros s s' HI Hc Hr; cbn [crun] in Hr; [injection Hr as <-; exact Hc|].
    destruct (cexec readers c s) as [s1|] eqn:E; [|discriminate]. apply (IH s1 s'); [eapply Inv_exec; eassumption|eapply cons_exec; eassumption|exact Hr]. }
  intros s' Hr. apply (H l init s'); [apply Inv_init|intros h; reflexivity|exact Hr].
Qed.

(* (3) rcu_barrier: a marker callback m queued to helper h after the callbacks `pre` has run (or was handed over) only after all of them *)
Lemma prefix_nodup (m : nat) : forall pre d1 post tl, pre ++ m :: post = d1 ++ m :: tl -> NoDup (d1 ++ m :: tl) -> pre = d1.
Proof.
  induction pre as [|a pre IH]; intros d1 post tl E Hnd.
  - destruct d1 as [|b d1]; [reflexivity|]. cbn in E. inversion E; subst. exfalso. cbn in Hnd. inversion Hnd as [|? ? Hni _]; subst. apply Hni. apply in_or_app. right. left. reflexivity.
  - destruct d1 as [|b d1]; cbn in E; injection E as E1 E2.
    + exfalso. subst a. cbn in Hnd. inversion Hnd as [|? ? Hni _]; subst. apply Hni. apply in_or_app. right. left. reflexivity.
    + subst b. f_equal. apply (IH d1 post tl E2). cbn in Hnd. inversion Hnd; assumption.
Qed.
Theorem barrier_covers (s : st) h m pre post : cons_ok s -> hall (hp s h) = pre ++ m :: post -> NoDup (hall (hp s h)) -> In m (hdone (hp s h)) ->
  forall c, In c pre -> In c (hdone (hp s h)).
Proof.
  intros HI Hall Hnd Hm c Hc. rewrite (HI h) in Hall, Hnd.
  apply in_split in Hm. destruct Hm as (d1 & d2 & Ed). rewrite Ed in Hall, Hnd |- *. rewrite <- app_assoc in Hall, Hnd. cbn [app] in Hall, Hnd.
  rewrite (prefix_nodup m pre d1 post _ (eq_sym Hall) Hnd) in Hc. apply in_or_app. left. exact Hc.
Qed.

(* every accepted trace of the implementation, projected onto these actions, is a run of this model *)
Theorem accepted_trace_ok readers l s' : crun readers l init = Some s' -> Inv readers s' /\ cons_ok s'.
Proof. intros H. split; [eapply Inv_crun; [apply Inv_init|exact H]|eapply cb_fifo_conservation; exact H]. Qed.
Print Assumptions cb_after_gp.
Print Assumptions accepted_trace_ok.
Print Assumptions barrier_covers.
