(* scratch: call_rcu over abstract FIFO queues and an abstract grace period.
   Any number of helpers, callers and readers.  Theorems: (1) when a callback is invoked, every read-side section still open began
   after its call_rcu; (2) per helper, invoked ++ private batch ++ queue is exactly what was handed to that helper, in order
   (so nothing is lost or duplicated, and a marker callback is preceded by everything queued before it: rcu_barrier). *)
From Coq Require Import List Arith NArith Bool Lia.
Import ListNotations.

Inductive hphase := H_Idle | H_Spliced | H_Invoking (k : nat).
Record helper := { hq : list nat; hbatch : list nat; hph : hphase; hdone : list nat; hall : list nat (* ghost: everything ever queued here *) }.
Record st := { clock : nat; stamp : nat -> nat (* ghost: clock value just after the callback was queued *);
               sect : nat -> option nat (* reader r: Some s = in a section that began at clock s *); hp : nat -> helper }.
Inductive choice := CCall (h c : nat) | RLock (r : nat) | RUnlock (r : nat) | HSplice (h : nat) | HSync (h : nat) | HInvoke (h : nat).
Definition upd {A} (f : nat -> A) (k : nat) (v : A) : nat -> A := fun x => if Nat.eqb x k then v else f x.
Definition seth (s : st) h x : st := {| clock := clock s; stamp := stamp s; sect := sect s; hp := upd (hp s) h x |}.

(* the abstract grace period: every section in progress began at the current clock value or later *)
Definition gp_ok (s : st) : Prop := forall r b, sect s r = Some b -> clock s <= b.

Inductive step : st -> choice -> st -> Prop :=
| S_call s h c : let x := hp s h in (forall h', ~ In c (hall (hp s h'))) ->
    step s (CCall h c) {| clock := S (clock s); stamp := upd (stamp s) c (S (clock s)); sect := sect s;
                          hp := upd (hp s) h {| hq := hq x ++ [c]; hbatch := hbatch x; hph := hph x; hdone := hdone x; hall := hall x ++ [c] |} |}
| S_lock s r : sect s r = None -> step s (RLock r) {| clock := clock s; stamp := stamp s; sect := upd (sect s) r (Some (clock s)); hp := hp s |}
| S_unlock s r : step s (RUnlock r) {| clock := clock s; stamp := stamp s; sect := upd (sect s) r None; hp := hp s |}
| S_splice s h : let x := hp s h in hph x = H_Idle -> hq x <> [] ->
    step s (HSplice h) (seth s h {| hq := []; hbatch := hq x; hph := H_Spliced; hdone := hdone x; hall := hall x |})
| S_sync s h : let x := hp s h in hph x = H_Spliced -> gp_ok s ->
    step s (HSync h) (seth s h {| hq := hq x; hbatch := hbatch x; hph := H_Invoking (clock s); hdone := hdone x; hall := hall x |})
| S_invoke s h c rest k : let x := hp s h in hph x = H_Invoking k -> hbatch x = c :: rest ->
    step s (HInvoke h) (seth s h {| hq := hq x; hbatch := rest; hph := (match rest with [] => H_Idle | _ => H_Invoking k end); hdone := hdone x ++ [c]; hall := hall x |}).

Definition Inv (s : st) : Prop :=
  (forall c, stamp s c <= clock s) /\
  (forall r b, sect s r = Some b -> b <= clock s) /\
  (forall h, hall (hp s h) = hdone (hp s h) ++ hbatch (hp s h) ++ hq (hp s h)) /\
  (forall h, hph (hp s h) = H_Idle -> hbatch (hp s h) = []) /\
  (forall h k, hph (hp s h) = H_Invoking k -> k <= clock s /\ (forall c, In c (hbatch (hp s h)) -> stamp s c <= k) /\ (forall r b, sect s r = Some b -> k <= b)) /\
  (forall h, hph (hp s h) = H_Spliced -> forall c, In c (hbatch (hp s h)) -> stamp s c <= clock s).

Lemma upd_same {A} (f : nat -> A) k v : upd f k v k = v.  Proof. unfold upd. now rewrite Nat.eqb_refl. Qed.
Lemma upd_other {A} (f : nat -> A) k v x : x <> k -> upd f k v x = f x.
Proof. unfold upd. intros H. destruct (Nat.eqb_spec x k); [contradiction|reflexivity]. Qed.

Lemma batch_in_all s h c : Inv s -> In c (hbatch (hp s h)) -> In c (hall (hp s h)).
Proof. intros (_ & _ & H & _) Hc. rewrite H. apply in_or_app. right. apply in_or_app. left. exact Hc. Qed.

Lemma Inv_step s c s' : Inv s -> step s c s' -> Inv s'.
Proof.
  intros HI Hs. pose proof HI as (I1 & I2 & I3 & I4 & I5 & I6).
  destruct Hs as [s h c x Hfr|s r Hn|s r|s h x Hph Hq|s h x Hph Hgp|s h c rest k x Hph Hb]; try subst x.
  - (* call_rcu *)
    unfold Inv; cbn [clock stamp sect hp]. repeat split.
    + intros c0. unfold upd at 1. destruct (Nat.eqb c0 c); [lia|pose proof (I1 c0); lia].
    + intros r b Hr. pose proof (I2 r b Hr). lia.
    + intros h0. destruct (Nat.eq_dec h0 h) as [->|Hne]; [rewrite upd_same; cbn; rewrite (I3 h); rewrite <- !app_assoc; reflexivity|rewrite upd_other by exact Hne; apply I3].
    + intros h0. destruct (Nat.eq_dec h0 h) as [->|Hne]; [rewrite upd_same; cbn; apply I4|rewrite upd_other by exact Hne; apply I4].
    + destruct (Nat.eq_dec h0 h) as [->|Hne]; [rewrite upd_same in H; cbn in H|rewrite upd_other in H by exact Hne]; destruct (I5 _ _ H) as (A & _); lia.
    + intros c0 Hc0. assert (Hc0' : In c0 (hbatch (hp s h0))) by (destruct (Nat.eq_dec h0 h) as [->|Hne]; [rewrite upd_same in Hc0; exact Hc0|rewrite upd_other in Hc0 by exact Hne; exact Hc0]).
      assert (Hk : hph (hp s h0) = H_Invoking k) by (destruct (Nat.eq_dec h0 h) as [->|Hne]; [rewrite upd_same in H; exact H|rewrite upd_other in H by exact Hne; exact H]).
      assert (c0 <> c) by (intros ->; apply (Hfr h0); apply (batch_in_all s h0 c HI Hc0')).
      rewrite upd_other by exact H0. destruct (I5 _ _ Hk) as (_ & B & _). apply B. exact Hc0'.
    + intros r b Hr. assert (Hk : hph (hp s h0) = H_Invoking k) by (destruct (Nat.eq_dec h0 h) as [->|Hne]; [rewrite upd_same in H; exact H|rewrite upd_other in H by exact Hne; exact H]).
      destruct (I5 _ _ Hk) as (_ & _ & Cc). apply (Cc r b Hr).
    + intros h0 Hsp c0 Hc0. assert (Hc0' : In c0 (hbatch (hp s h0))) by (destruct (Nat.eq_dec h0 h) as [->|Hne]; [rewrite upd_same in Hc0; exact Hc0|rewrite upd_other in Hc0 by exact Hne; exact Hc0]).
      unfold upd at 1. destruct (Nat.eqb c0 c); [lia|]. assert (Hk : hph (hp s h0) = H_Spliced) by (destruct (Nat.eq_dec h0 h) as [->|Hne]; [rewrite upd_same in Hsp; exact Hsp|rewrite upd_other in Hsp by exact Hne; exact Hsp]).
      pose proof (I6 h0 Hk c0 Hc0'). lia.
  - (* rcu_read_lock *)
    unfold Inv; cbn [clock stamp sect hp]. repeat split; try assumption.
    + intros r0 b. unfold upd. destruct (Nat.eqb r0 r); [intros E; inversion E; lia|apply I2].
    + destruct (I5 _ _ H) as (A & _). exact A.
    + destruct (I5 _ _ H) as (_ & B & _). exact B.
    + intros r0 b. unfold upd. destruct (Nat.eqb r0 r); [intros E; inversion E; subst; destruct (I5 _ _ H) as (A & _); exact A|destruct (I5 _ _ H) as (_ & _ & Cc); apply Cc].
  - (* rcu_read_unlock *)
    unfold Inv; cbn [clock stamp sect hp]. repeat split; try assumption.
    + intros r0 b. unfold upd. destruct (Nat.eqb r0 r); [discriminate|apply I2].
    + destruct (I5 _ _ H) as (A & _). exact A.
    + destruct (I5 _ _ H) as (_ & B & _). exact B.
    + intros r0 b. unfold upd. destruct (Nat.eqb r0 r); [discriminate|destruct (I5 _ _ H) as (_ & _ & Cc); apply Cc].
  - (* splice *)
    unfold Inv, seth; cbn [clock stamp sect hp]. repeat split; try assumption.
    + intros h0. destruct (Nat.eq_dec h0 h) as [->|Hne]; [rewrite upd_same; cbn; rewrite (I3 h); rewrite (I4 h Hph), app_nil_r; reflexivity|rewrite upd_other by exact Hne; apply I3].
    + intros h0. destruct (Nat.eq_dec h0 h) as [->|Hne]; [rewrite upd_same; cbn; discriminate|rewrite upd_other by exact Hne; apply I4].
    + destruct (Nat.eq_dec h0 h) as [->|Hne]; [rewrite upd_same in H; discriminate|rewrite upd_other in H by exact Hne; destruct (I5 _ _ H) as (A & _); exact A].
    + destruct (Nat.eq_dec h0 h) as [->|Hne]; [rewrite upd_same in H; discriminate|rewrite upd_other in H |- * by exact Hne; destruct (I5 _ _ H) as (_ & B & _); exact B].
    + destruct (Nat.eq_dec h0 h) as [->|Hne]; [rewrite upd_same in H; discriminate|rewrite upd_other in H by exact Hne; destruct (I5 _ _ H) as (_ & _ & Cc); exact Cc].
    + intros h0. destruct (Nat.eq_dec h0 h) as [->|Hne]; [rewrite upd_same; cbn; intros _ c0 _; apply I1|rewrite upd_other by exact Hne; apply I6].
  - (* the grace period *)
    unfold Inv, seth; cbn [clock stamp sect hp]. repeat split; try assumption.
    + intros h0. destruct (Nat.eq_dec h0 h) as [->|Hne]; [rewrite upd_same; cbn; apply I3|rewrite upd_other by exact Hne; apply I3].
    + intros h0. destruct (Nat.eq_dec h0 h) as [->|Hne]; [rewrite upd_same; cbn; discriminate|rewrite upd_other by exact Hne; apply I4].
    + destruct (Nat.eq_dec h0 h) as [->|Hne]; [rewrite upd_same in H; cbn in H; inversion H; lia|rewrite upd_other in H by exact Hne; destruct (I5 _ _ H) as (A & _); exact A].
    + destruct (Nat.eq_dec h0 h) as [->|Hne]; [rewrite upd_same in H |- *; cbn in *; inversion H; subst; apply (I6 h Hph)|rewrite upd_other in H |- * by exact Hne; destruct (I5 _ _ H) as (_ & B & _); exact B].
    + destruct (Nat.eq_dec h0 h) as [->|Hne]; [rewrite upd_same in H; cbn in H; inversion H; subst; exact Hgp|rewrite upd_other in H by exact Hne; destruct (I5 _ _ H) as (_ & _ & Cc); exact Cc].
    + intros h0. destruct (Nat.eq_dec h0 h) as [->|Hne]; [rewrite upd_same; cbn; discriminate|rewrite upd_other by exact Hne; apply I6].
  - (* invoke one callback *)
    destruct (I5 h k Hph) as (A & B & Cc).
    unfold Inv, seth; cbn [clock stamp sect hp]. repeat split; try assumption.
    + intros h0. destruct (Nat.eq_dec h0 h) as [->|Hne]; [rewrite upd_same; cbn; rewrite (I3 h); rewrite Hb, <- app_assoc; reflexivity|rewrite upd_other by exact Hne; apply I3].
    + intros h0. destruct (Nat.eq_dec h0 h) as [->|Hne]; [rewrite upd_same; cbn; destruct rest; [reflexivity|discriminate]|rewrite upd_other by exact Hne; apply I4].
    + destruct (Nat.eq_dec h0 h) as [->|Hne]; [rewrite upd_same in H; cbn in H; destruct rest; [discriminate|inversion H; subst; exact A]|rewrite upd_other in H by exact Hne; destruct (I5 _ _ H) as (A' & _); exact A'].
    + destruct (Nat.eq_dec h0 h) as [->|Hne]; [rewrite upd_same in H |- *; cbn in *; destruct rest as [|c1 rest]; [discriminate|inversion H; subst; intros c0 Hc0; apply B; rewrite Hb; right; exact Hc0]|rewrite upd_other in H |- * by exact Hne; destruct (I5 _ _ H) as (_ & B' & _); exact B'].
    + destruct (Nat.eq_dec h0 h) as [->|Hne]; [rewrite upd_same in H; cbn in H; destruct rest; [discriminate|inversion H; subst; exact Cc]|rewrite upd_other in H by exact Hne; destruct (I5 _ _ H) as (_ & _ & Cc'); exact Cc'].
    + intros h0. destruct (Nat.eq_dec h0 h) as [->|Hne]; [rewrite upd_same; cbn; destruct rest; discriminate|rewrite upd_other by exact Hne; apply I6].
Qed.

(* (1) the callback about to be invoked was queued before every read-side section that is still open began *)
Theorem cb_after_gp s h c rest k : Inv s -> hph (hp s h) = H_Invoking k -> hbatch (hp s h) = c :: rest ->
  forall r b, sect s r = Some b -> stamp s c <= b.
Proof.
  intros (_ & _ & _ & _ & I5 & _) Hph Hb r b Hr. destruct (I5 h k Hph) as (_ & B & Cc).
  pose proof (B c ltac:(rewrite Hb; left; reflexivity)). pose proof (Cc r b Hr). lia.
Qed.
(* (2) per helper: nothing lost, nothing duplicated, FIFO; hence a marker that has run is preceded by everything queued before it *)
Theorem cb_fifo_conservation s h : Inv s -> hall (hp s h) = hdone (hp s h) ++ hbatch (hp s h) ++ hq (hp s h).
Proof. intros (_ & _ & I3 & _). apply I3. Qed.
Lemma prefix_nodup (m : nat) : forall pre d1 post tl, pre ++ m :: post = d1 ++ m :: tl -> NoDup (d1 ++ m :: tl) -> pre = d1.
Proof.
  induction pre as [|a pre IH]; intros d1 post tl E Hnd.
  - destruct d1 as [|b d1]; [reflexivity|]. cbn in E. inversion E; subst. exfalso. cbn in Hnd. inversion Hnd as [|? ? Hni _]; subst. apply Hni. apply in_or_app. right. left. reflexivity.
  - destruct d1 as [|b d1]; cbn in E; injection E as E1 E2.
    + exfalso. subst a. cbn in Hnd. inversion Hnd as [|? ? Hni _]; subst. apply Hni. apply in_or_app. right. left. reflexivity.
    + subst b. f_equal. apply (IH d1 post tl E2). cbn in Hnd. inversion Hnd; assumption.
Qed.
Corollary barrier_covers s h m pre post : Inv s -> hall (hp s h) = pre ++ m :: post -> NoDup (hall (hp s h)) -> In m (hdone (hp s h)) ->
  forall c, In c pre -> In c (hdone (hp s h)).
Proof.
  intros HI Hall Hnd Hm c Hc. rewrite (cb_fifo_conservation s h HI) in Hall, Hnd.
  apply in_split in Hm. destruct Hm as (d1 & d2 & Ed). rewrite Ed in Hall, Hnd |- *. rewrite <- app_assoc in Hall, Hnd. cbn [app] in Hall, Hnd.
  rewrite (prefix_nodup m pre d1 post _ (eq_sym Hall) Hnd) in Hc. apply in_or_app. left. exact Hc.
Qed.
Print Assumptions cb_after_gp.
Print Assumptions barrier_covers.
