(* cds_lfq_destroy_rcu: walk from the head; refuse (-EPERM) at the first node that is not a dummy, succeed when the end is reached.
   For every chain - any number of dummy nodes anywhere - the answer is "the abstract FIFO (the non-dummy nodes from the head on) is empty".
   With the simulation invariant of LfqLin.v this holds in every reachable state of the queue model.  The variant that only looks at both ends is refuted. *)
From Coq Require Import List Arith NArith Bool Lia.
Import ListNotations.
Require Import Urcu.Base.MachD Urcu.Lfq.Lfq Urcu.Lfq.LfqInv Urcu.Base.Lin Urcu.Lfq.LfqLin Urcu.Lfq.LfqInit.
Local Open Scope N_scope.

Section D.
Variable isD : N -> bool.
(* the walk of _cds_lfq_destroy_rcu over next pointers f, with fuel *)
Fixpoint destroy_walk (fuel : nat) (f : N -> N) (a : N) : option bool :=
  match fuel with
  | O => None
  | S k => if isD a then (if f a =? 0 then Some true else destroy_walk k f (f a)) else Some false
  end.

Lemma destroy_walk_chain f : forall l a, chainf f a l -> destroy_walk (S (length l)) f a = Some (match nonD isD (a :: l) with [] => true | _ => false end).
Proof.
  induction l as [|b l IH]; intros a H; inversion H as [a0 Hz|a0 b0 l0 Hb Hn Hc]; subst; cbn [destroy_walk length].
  - unfold nonD; cbn [filter]. destruct (isD a); cbn [negb]; [rewrite Hz; reflexivity|reflexivity].
  - unfold nonD in *; cbn [filter]. destruct (isD a) eqn:Ea; cbn [negb]; [|reflexivity].
    destruct (N.eqb_spec (f a) 0) as [E|E]; [contradiction|]. apply (IH (f a) Hc).
Qed.
End D.

(* in every state related to an abstract FIFO q by the linearizability simulation, destroy succeeds exactly when q is empty *)
Theorem lfq_destroy_iff_empty (isD : N -> bool) (s : state qloc (qprog isD)) (q : list N) :
  AbsQ isD s q -> exists fuel, destroy_walk isD fuel (LfqInv.nx isD s) (smem _ _ s LHead) = Some (match q with [] => true | _ => false end).
Proof. intros [l [Hc Hq]]. exists (S (length l)). rewrite Hq. apply (destroy_walk_chain isD _ l _ Hc). Qed.

(* "empty when both ends are dummies" is not the same thing: dummy, user node, dummy *)
Example both_ends_dummy_refuted :
  let isD := fun x => (x =? 2) || (x =? 4) in
  let f := fun x => if x =? 2 then 3 else if x =? 3 then 4 else 0 in
  chainf f 2 [3; 4] /\ isD 2 = true /\ isD 4 = true /\ nonD isD [2; 3; 4] = [3] /\ destroy_walk isD 3 f 2 = Some false.
Proof.
  cbn zeta. repeat split; try reflexivity.
  apply ch_cons; [reflexivity|discriminate|]. apply ch_cons; [reflexivity|discriminate|]. apply ch_nil. reflexivity.
Qed.

(* every reachable state of the queue model (any threads, operation lists over fresh nodes, schedule) is related to some abstract FIFO: destroy called there
   succeeds exactly when that FIFO is empty *)
Section REACH.
Variable isD : N -> bool.
Variable d0 : N.
Hypothesis Hd0 : d0 <> 0.
Lemma sim_run : forall cs (s : state qloc (qprog isD)) a, LfqInv.Inv isD d0 s -> Sim isD s a ->
  exists a', Sim isD (fst (run qloc qloc_eqb (qprog isD) cs s)) a'.
Proof.
  induction cs as [|c cs IH]; intros s a HI HS; cbn [run]; [exists a; exact HS|].
  destruct (sim_step isD d0 Hd0 s a c HI HS) as (a1 & l1 & _ & HS1). pose proof (LfqInv.Inv_exec isD d0 s c HI) as HI1.
  destruct (exec qloc qloc_eqb (qprog isD) c s) as [s1 e]. cbn [fst] in *. destruct (IH s1 a1 HI1 HS1) as [a' Ha'].
  destruct (run qloc qloc_eqb (qprog isD) cs s1) as [s2 es]. cbn [fst] in *. exists a'. exact Ha'.
Qed.
Theorem lfq_destroy_reachable threads :
  (forall t n, In n (futl threads t) -> n <> 0 /\ n <> d0) -> (forall t u n, In n (futl threads t) -> In n (futl threads u) -> t = u) ->
  (forall t, NoDup (futl threads t)) -> (forall t n, In n (enqs (fst (threads t))) -> isD n = false) -> (forall t d, In d (snd (threads t)) -> isD d = true) -> isD d0 = true ->
  forall cs, let s := fst (run qloc qloc_eqb (qprog isD) cs (s0 isD d0 threads)) in
  exists q fuel, AbsQ isD s q /\ destroy_walk isD fuel (LfqInv.nx isD s) (smem _ _ s LHead) = Some (match q with [] => true | _ => false end).
Proof.
  intros H1 H2 H3 H4 H5 H6 cs s.
  destruct (sim_run cs (s0 isD d0 threads) (a0) (Inv_s0 isD d0 threads H1 H2 H3) (Sim_s0 isD d0 threads H4 H5 H6)) as [a' HS].
  pose proof (S_q isD _ _ HS) as Hq. destruct (lfq_destroy_iff_empty isD _ _ Hq) as [fuel Hf]. exists (sig _ _ _ a'), fuel. split; assumption.
Qed.
End REACH.
Print Assumptions lfq_destroy_iff_empty.
Print Assumptions lfq_destroy_reachable.
