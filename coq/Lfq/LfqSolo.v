(* scratch: lock-freedom as a solo bound — an enqueue that runs alone from any reachable state finishes within
   4 * (number of nodes between q->tail and the end of the chain) + 4 of its own steps, none of them a wait *)
From Coq Require Import List Arith NArith Bool Lia.
Import ListNotations.
Require Import Urcu.Base.MachD Urcu.Lfq.Lfq Urcu.Lfq.LfqInv Urcu.Lfq.LfqLin.
Local Open Scope N_scope.

Section SOLO.
Variable isD : N -> bool.
Variable d0 : N.
Hypothesis Hd0 : d0 <> 0.
Notation P := (qprog isD).
Notation st := (state qloc P).
Notation QInv := (LfqInv.Inv isD d0).
Notation nx := (LfqInv.nx isD).
Notation QS := (LfqInv.QS isD).
Notation mkst := (LfqInv.mkst isD).
Notation mkts := (LfqInv.mkts isD).
Notation tup := (tupd qloc P).

Fixpoint solo (t : nat) (k : nat) (s : st) : st :=
  match k with O => s | S k' => solo t k' (fst (exec qloc qloc_eqb P (Step t) s)) end.
Lemma solo_add t k1 k2 s : solo t (k1 + k2) s = solo t k2 (solo t k1 s).
Proof. revert s. induction k1 as [|k1 IH]; intros s; cbn [solo plus]; [reflexivity|apply IH]. Qed.
Lemma solo_inv t k s : QInv s -> QInv (solo t k s).
Proof. revert s. induction k as [|k IH]; intros s H; cbn [solo]; [exact H|apply IH; apply (LfqInv.Inv_exec isD d0); exact H]. Qed.

Definition enq_done (c : N) (p : qpc) : Prop := if c =? 0 then p = E_Ret else p = D_LoadNext2 c.

(* one step of t, in the shape given by exec_shape, with the pc of t known *)
Lemma QS_same (s : st) m t p' : QS (mkst m (tup (sthr _ _ s) t (mkts p'))) t = p'.
Proof. unfold LfqInv.QS, LfqInv.TH, LfqInv.mkst; cbn. rewrite tupd_same. reflexivity. Qed.


Definition setpc (s : st) t (pc : qpc) : qst := {| qcur := pc; qtodo := qtodo (QS s t); qsup := qsup (QS s t) |}.
Lemma step_LoadTail (s : st) t node c : QInv s -> qcur (QS s t) = E_LoadTail node c ->
  fst (exec qloc qloc_eqb P (Step t) s) = mkst (smem _ _ s) (tup (sthr _ _ s) t (mkts (setpc s t (E_Mb node (smem _ _ s LTail) c)))).
Proof. intros HI Hpc. rewrite (LfqInv.exec_shape isD d0 s t HI). cbv zeta. unfold qact, qnext. rewrite Hpc. reflexivity. Qed.
Lemma step_Mb (s : st) t node tail c : QInv s -> qcur (QS s t) = E_Mb node tail c ->
  fst (exec qloc qloc_eqb P (Step t) s) = mkst (smem _ _ s) (tup (sthr _ _ s) t (mkts (setpc s t (E_Cas node tail c)))).
Proof. intros HI Hpc. rewrite (LfqInv.exec_shape isD d0 s t HI). cbv zeta. unfold qact, qnext. rewrite Hpc. reflexivity. Qed.
Lemma step_Cas_ok (s : st) t node tail c : QInv s -> qcur (QS s t) = E_Cas node tail c -> nx s tail = 0 ->
  fst (exec qloc qloc_eqb P (Step t) s) =
  mkst (MachD.upd qloc qloc_eqb (smem _ _ s) (LNext tail) node) (tup (sthr _ _ s) t (mkts (setpc s t (E_Swing node tail node true c)))).
Proof.
  intros HI Hpc Hz. rewrite (LfqInv.exec_shape isD d0 s t HI). cbv zeta. unfold qact, qnext. rewrite Hpc. cbn [LfqInv.eff].
  change (smem qloc P s (LNext tail)) with (nx s tail). rewrite Hz. reflexivity.
Qed.
Lemma step_Cas_fail (s : st) t node tail c b : QInv s -> qcur (QS s t) = E_Cas node tail c -> nx s tail = b -> b <> 0 ->
  fst (exec qloc qloc_eqb P (Step t) s) = mkst (smem _ _ s) (tup (sthr _ _ s) t (mkts (setpc s t (E_Swing node tail b false c)))).
Proof.
  intros HI Hpc Hb Hb0. rewrite (LfqInv.exec_shape isD d0 s t HI). cbv zeta. unfold qact, qnext. rewrite Hpc. cbn [LfqInv.eff].
  change (smem qloc P s (LNext tail)) with (nx s tail). rewrite Hb. destruct (N.eqb_spec b 0); [contradiction|reflexivity].
Qed.
Lemma step_Swing_done (s : st) t node tail new c : QInv s -> qcur (QS s t) = E_Swing node tail new true c ->
  enq_done c (qcur (QS (fst (exec qloc qloc_eqb P (Step t) s)) t)).
Proof.
  intros HI Hpc. rewrite (LfqInv.exec_shape isD d0 s t HI). cbv zeta. unfold qact, qnext. rewrite Hpc. cbn [LfqInv.eff].
  unfold enq_done. destruct (smem qloc P s LTail =? tail); rewrite QS_same; destruct (c =? 0); reflexivity.
Qed.
Lemma step_Swing_help (s : st) t node tail new c : QInv s -> qcur (QS s t) = E_Swing node tail new false c -> smem _ _ s LTail = tail ->
  fst (exec qloc qloc_eqb P (Step t) s) =
  mkst (MachD.upd qloc qloc_eqb (smem _ _ s) LTail new) (tup (sthr _ _ s) t (mkts (setpc s t (E_LoadTail node c)))).
Proof.
  intros HI Hpc Ht. rewrite (LfqInv.exec_shape isD d0 s t HI). cbv zeta. unfold qact, qnext. rewrite Hpc. cbn [LfqInv.eff].
  rewrite Ht, N.eqb_refl. reflexivity.
Qed.

Lemma QS_mk (s : st) m t p' : QS (mkst m (tup (sthr _ _ s) t (mkts p'))) t = p'.
Proof. apply QS_same. Qed.

Theorem lfq_enqueue_solo_bound : forall l (s : st) t node c,
  QInv s -> qcur (QS s t) = E_LoadTail node c -> chainf (nx s) (smem _ _ s LTail) l ->
  exists k, (k <= 4 * length l + 4)%nat /\ enq_done c (qcur (QS (solo t k s) t)).
Proof.
  induction l as [|b l IH]; intros s t node c HI Hpc Hch.
  - (* q->tail is the last node: load, mb, cmpxchg next (succeeds), cmpxchg tail *)
    assert (Hz : nx s (smem _ _ s LTail) = 0) by (inversion Hch; assumption).
    remember (fst (exec qloc qloc_eqb P (Step t) s)) as s1 eqn:Es1.
    assert (HI1 : QInv s1) by (rewrite Es1; apply (LfqInv.Inv_exec isD d0); exact HI).
    assert (E1 := Es1). rewrite (step_LoadTail s t node c HI Hpc) in E1.
    assert (Hpc1 : qcur (QS s1 t) = E_Mb node (smem _ _ s LTail) c) by (rewrite E1, QS_mk; reflexivity).
    assert (Hm1 : smem _ _ s1 = smem _ _ s) by (rewrite E1; reflexivity).
    remember (fst (exec qloc qloc_eqb P (Step t) s1)) as s2 eqn:Es2.
    assert (HI2 : QInv s2) by (rewrite Es2; apply (LfqInv.Inv_exec isD d0); exact HI1).
    assert (E2 := Es2). rewrite (step_Mb s1 t _ _ _ HI1 Hpc1) in E2.
    assert (Hpc2 : qcur (QS s2 t) = E_Cas node (smem _ _ s LTail) c) by (rewrite E2, QS_mk; reflexivity).
    assert (Hm2 : smem _ _ s2 = smem _ _ s) by (rewrite E2; cbn [smem LfqInv.mkst]; exact Hm1).
    assert (Hz2 : nx s2 (smem _ _ s LTail) = 0) by (unfold LfqInv.nx; rewrite Hm2; exact Hz).
    remember (fst (exec qloc qloc_eqb P (Step t) s2)) as s3 eqn:Es3.
    assert (HI3 : QInv s3) by (rewrite Es3; apply (LfqInv.Inv_exec isD d0); exact HI2).
    assert (E3 := Es3). rewrite (step_Cas_ok s2 t _ _ _ HI2 Hpc2 Hz2) in E3.
    assert (Hpc3 : qcur (QS s3 t) = E_Swing node (smem _ _ s LTail) node true c) by (rewrite E3, QS_mk; reflexivity).
    exists 4%nat. split; [cbn; lia|]. cbn [solo]. rewrite <- Es1, <- Es2, <- Es3.
    apply (step_Swing_done s3 t _ _ _ c HI3 Hpc3).
  - (* q->tail lags: load, mb, cmpxchg next (fails), help: cmpxchg tail (succeeds, nobody else runs), retry *)
    assert (Hnb : nx s (smem _ _ s LTail) = b /\ b <> 0 /\ chainf (nx s) b l) by (inversion Hch; subst; auto).
    destruct Hnb as (Hb & Hb0 & Hch').
    remember (fst (exec qloc qloc_eqb P (Step t) s)) as s1 eqn:Es1.
    assert (HI1 : QInv s1) by (rewrite Es1; apply (LfqInv.Inv_exec isD d0); exact HI).
    assert (E1 := Es1). rewrite (step_LoadTail s t node c HI Hpc) in E1.
    assert (Hpc1 : qcur (QS s1 t) = E_Mb node (smem _ _ s LTail) c) by (rewrite E1, QS_mk; reflexivity).
    assert (Hm1 : smem _ _ s1 = smem _ _ s) by (rewrite E1; reflexivity).
    remember (fst (exec qloc qloc_eqb P (Step t) s1)) as s2 eqn:Es2.
    assert (HI2 : QInv s2) by (rewrite Es2; apply (LfqInv.Inv_exec isD d0); exact HI1).
    assert (E2 := Es2). rewrite (step_Mb s1 t _ _ _ HI1 Hpc1) in E2.
    assert (Hpc2 : qcur (QS s2 t) = E_Cas node (smem _ _ s LTail) c) by (rewrite E2, QS_mk; reflexivity).
    assert (Hm2 : smem _ _ s2 = smem _ _ s) by (rewrite E2; cbn [smem LfqInv.mkst]; exact Hm1).
    assert (Hb2 : nx s2 (smem _ _ s LTail) = b) by (unfold LfqInv.nx; rewrite Hm2; exact Hb).
    remember (fst (exec qloc qloc_eqb P (Step t) s2)) as s3 eqn:Es3.
    assert (HI3 : QInv s3) by (rewrite Es3; apply (LfqInv.Inv_exec isD d0); exact HI2).
    assert (E3 := Es3). rewrite (step_Cas_fail s2 t _ _ _ b HI2 Hpc2 Hb2 Hb0) in E3.
    assert (Hpc3 : qcur (QS s3 t) = E_Swing node (smem _ _ s LTail) b false c) by (rewrite E3, QS_mk; reflexivity).
    assert (Hm3 : smem _ _ s3 = smem _ _ s) by (rewrite E3; cbn [smem LfqInv.mkst]; exact Hm2).
    assert (Ht3 : smem _ _ s3 LTail = smem _ _ s LTail) by (rewrite Hm3; reflexivity).
    remember (fst (exec qloc qloc_eqb P (Step t) s3)) as s4 eqn:Es4.
    assert (HI4 : QInv s4) by (rewrite Es4; apply (LfqInv.Inv_exec isD d0); exact HI3).
    assert (E4 := Es4). rewrite (step_Swing_help s3 t _ _ _ _ HI3 Hpc3 Ht3) in E4.
    assert (Hpc4 : qcur (QS s4 t) = E_LoadTail node c) by (rewrite E4, QS_mk; reflexivity).
    assert (Hch4 : chainf (nx s4) (smem _ _ s4 LTail) l).
    { rewrite E4. unfold LfqInv.mkst; cbn [smem]. rewrite LfqInv.upd_s.
      apply (chain_ext (nx s)); [intros x; unfold LfqInv.nx; cbn [smem]; rewrite LfqInv.upd_o by discriminate; rewrite Hm3; reflexivity|exact Hch']. }
    destruct (IH s4 t node c HI4 Hpc4 Hch4) as [k [Hk Hd]].
    assert (Es : solo t 4 s = s4) by (cbn [solo]; rewrite <- Es1, <- Es2, <- Es3, <- Es4; reflexivity).
    exists (4 + k)%nat. split; [cbn [length]; lia|]. rewrite solo_add, Es. exact Hd.
Qed.
End SOLO.
Print Assumptions lfq_enqueue_solo_bound.
