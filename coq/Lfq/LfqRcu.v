(* scratch: reclamation safety of the repaired RCU lock-free queue.  Ghost layer on top of the machine:
   a logical clock counting dequeued ("retired") nodes, the clock value at which each thread's current operation
   (= read-side section) began, the retirement stamp of each node, and the highest stamp F whose grace period has elapsed.
   Theorem: no thread ever holds (hence accesses) a node whose stamp is <= F. *)
From Coq Require Import List Arith NArith Bool Lia.
Import ListNotations.
Require Import Urcu.Base.MachD Urcu.Lfq.Lfq Urcu.Lfq.LfqInv.
Local Open Scope N_scope.

Lemma no_cycle f x l : reachf f x l -> f l = 0 -> f x <> 0 -> reachf f (f x) x -> False.
Proof.
  intros H. induction H as [|x y l [Hl Hn] H IH]; intros Hz Hx Hc; [congruence|].
  apply IH; [exact Hz| |].
  - subst y. destruct (N.eq_dec (f x) x) as [E|E]; [rewrite E; exact Hx|]. apply (reachf_inv f (f x) x Hc E).
  - subst y. destruct (N.eq_dec (f x) x) as [E|E]; [rewrite !E; apply r_refl|].
    destruct (reachf_inv f (f x) x Hc E) as [_ H2]. eapply reachf_trans; [exact H2|apply reachf_one; [reflexivity|exact Hx]].
Qed.

Section RCU.
Variable isD : N -> bool.
Variable d0 : N.
Hypothesis Hd0 : d0 <> 0.
Notation P := (qprog isD).
Notation st := (state qloc P).
Notation QInv := (LfqInv.Inv isD d0).
Notation nx := (LfqInv.nx isD).
Notation QS := (LfqInv.QS isD).
Notation Ins := (LfqInv.Ins isD d0).
Notation mkst := (LfqInv.mkst isD).
Notation mkts := (LfqInv.mkts isD).
Notation tup := (tupd qloc P).
Definition QH (s : st) : N := smem _ _ s LHead.

Record gh := { clock : N; gstart : nat -> N; gret : N -> N; gF : N }.
Definition updn (f : nat -> N) (t : nat) (v : N) : nat -> N := fun u => if Nat.eqb u t then v else f u.
Definition updN (f : N -> N) (x : N) (v : N) : N -> N := fun y => if N.eqb y x then v else f y.

(* nodes a thread may still dereference at each program point *)
Definition refs (p : qpc) : list N :=
  match p with
  | E_LoadTail _ c => [c]
  | E_Mb _ tail c | E_Cas _ tail c => [tail; c]
  | E_Swing _ tail new _ c => [tail; new; c]
  | D_LoadNext h | D_LoadNext2 h | D_Free h => [h]
  | D_LoadTail h nxt | D_HelpTail h nxt | D_CasHead h nxt => [h; nxt]
  | _ => []
  end.

(* ghost update that accompanies a machine step *)
Definition gupd (s : st) (g : gh) (c : choice) : gh :=
  match c with
  | Flush _ => g
  | Step t =>
      let p := QS s t in
      match qcur p with
      | Q_Idle => match qtodo p with [] => g | _ => {| clock := clock g; gstart := updn (gstart g) t (clock g); gret := gret g; gF := gF g |} end
      | D_CasHead h _ => if smem _ _ s LHead =? h
                         then {| clock := clock g + 1; gstart := gstart g; gret := updN (gret g) h (clock g + 1); gF := gF g |}
                         else g
      | _ => g
      end
  end.

Record GInv (s : st) (g : gh) : Prop := {
  g_c1 : forall x, gret g x <= clock g;
  g_c2 : gF g <= clock g;
  g_c3 : forall t, gstart g t <= clock g;
  g_f : forall x, gret g x <> 0 -> Ins s x;
  g_b1 : forall a, reachf (nx s) (QH s) a -> gret g a = 0;
  g_b2 : forall a, Ins s a -> gret g a = 0 -> reachf (nx s) (QH s) a;
  g_a : forall a b, nx s a = b -> b <> 0 -> gret g b <> 0 -> gret g a < gret g b;
  g_d : forall t x, In x (refs (qcur (QS s t))) -> gret g x <> 0 -> gstart g t < gret g x /\ gF g < gret g x
}.

(* a grace period: every operation in progress began at logical time >= k *)
Definition gp_ok (s : st) (g : gh) (k : N) : Prop := k <= clock g /\ forall t, qcur (QS s t) <> Q_Idle -> k <= gstart g t.
Definition setF (g : gh) (k : N) : gh := {| clock := clock g; gstart := gstart g; gret := gret g; gF := N.max (gF g) k |}.

Lemma GInv_gp s g k : GInv s g -> gp_ok s g k -> GInv s (setF g k).
Proof.
  intros HG [Hk Hall]. constructor; cbn [setF clock gstart gret gF]; try apply HG.
  - pose proof (g_c2 s g HG). lia.
  - intros t x Hx Hr. destruct (g_d s g HG t x Hx Hr) as [A B]. split; [exact A|].
    assert (Hni : qcur (QS s t) <> Q_Idle) by (intros E; rewrite E in Hx; destruct Hx).
    specialize (Hall t Hni). lia.
Qed.

Lemma Ins_nz (s : st) x : Ins s x -> x <> 0.
Proof. intros H. unfold LfqInv.Ins in H. destruct H as [|b c [_ Hn] H]. - exact Hd0. - clear -H Hn. induction H as [|a b c [_ Hb] H IH]; [exact Hn|apply IH; exact Hb]. Qed.
Lemma ret0 s g : GInv s g -> gret g 0 = 0.
Proof. intros HG. destruct (N.eq_dec (gret g 0) 0) as [E|E]; [exact E|]. exfalso. apply (Ins_nz s 0 (g_f s g HG 0 E)). reflexivity. Qed.

Definition okref (g : gh) (t : nat) (x : N) : Prop := gret g x <> 0 -> gstart g t < gret g x /\ gF g < gret g x.

Lemma acq_next s g t h x : QInv s -> GInv s g -> Ins s h -> okref g t h -> nx s h = x -> x <> 0 -> okref g t x.
Proof.
  intros HI HG Hh Hok Hx Hx0 Hr.
  assert (Hrh : gret g h <> 0).
  { intros E. pose proof (g_b2 s g HG h Hh E) as Hre. rewrite (g_b1 s g HG x) in Hr; [congruence|].
    eapply reachf_trans; [exact Hre|apply reachf_one; assumption]. }
  destruct (Hok Hrh) as [A B]. pose proof (g_a s g HG h x Hx Hx0 Hr). lia.
Qed.

(* step that changes no next pointer and not the head; the ghost changes at most t's start stamp *)
Lemma GL_same (s : st) (g g' : gh) t m' (p' : qst) : QInv s -> GInv s g ->
  (forall a, m' (LNext a) = nx s a) -> m' LHead = QH s ->
  clock g' = clock g -> gret g' = gret g -> gF g' = gF g -> (forall u, u <> t -> gstart g' u = gstart g u) -> gstart g' t <= clock g ->
  (forall x, In x (refs (qcur p')) -> okref g' t x) ->
  GInv (mkst m' (tup (sthr _ _ s) t (mkts p'))) g'.
Proof.
  intros HI HG Hm Hh Ec Er Ef Es Et Hrefs.
  set (s' := mkst m' (tup (sthr _ _ s) t (mkts p'))).
  assert (Enx : forall a, nx s' a = nx s a) by (intros a; apply Hm).
  assert (Eh : QH s' = QH s) by exact Hh.
  assert (R1 : forall a b, reachf (nx s') a b -> reachf (nx s) a b) by (intros a b H; apply (reachf_frozen (nx s')); [intros y _; symmetry; apply Enx|exact H]).
  assert (R2 : forall a b, reachf (nx s) a b -> reachf (nx s') a b) by (intros a b H; apply (reachf_frozen (nx s)); [intros y _; apply Enx|exact H]).
  assert (Eq : forall u, QS s' u = if Nat.eqb u t then p' else QS s u).
  { intros u. unfold LfqInv.QS, LfqInv.TH, s', LfqInv.mkst; cbn. unfold tupd. destruct (Nat.eqb u t); reflexivity. }
  constructor; rewrite ?Ec, ?Er, ?Ef.
  - apply (g_c1 s g HG).
  - apply (g_c2 s g HG).
  - intros u. destruct (Nat.eq_dec u t) as [->|Hu]; [exact Et|rewrite (Es u Hu); apply (g_c3 s g HG)].
  - intros x Hx. apply R2. apply (g_f s g HG x Hx).
  - intros a Ha. rewrite Eh in Ha. apply (g_b1 s g HG a (R1 _ _ Ha)).
  - intros a Ha Hr. rewrite Eh. apply R2. apply (g_b2 s g HG a (R1 _ _ Ha) Hr).
  - intros a b Hab. rewrite Enx in Hab. apply (g_a s g HG a b Hab).
  - intros u x. rewrite Eq. destruct (Nat.eqb_spec u t) as [->|Hu].
    + intros Hx Hr. specialize (Hrefs x Hx). unfold okref in Hrefs. rewrite Er, Ef in Hrefs. apply Hrefs. exact Hr.
    + rewrite (Es u Hu). apply (g_d s g HG u x).
Qed.

(* the successful append *)
Lemma GL_app (s : st) (g : gh) t m' (p' : qst) lst node : QInv s -> GInv s g ->
  Ins s lst -> nx s lst = 0 -> ~ Ins s node -> node <> 0 -> nx s node = 0 ->
  m' (LNext lst) = node -> (forall a, a <> lst -> m' (LNext a) = nx s a) -> m' LHead = QH s ->
  (forall x, In x (refs (qcur p')) -> okref g t x) ->
  GInv (mkst m' (tup (sthr _ _ s) t (mkts p'))) g.
Proof.
  intros HI HG Hli Hlz Hnn Hn0 Hnz Hm1 Hm2 Hh Hrefs.
  set (s' := mkst m' (tup (sthr _ _ s) t (mkts p'))).
  assert (Hnl : node <> lst) by (intros ->; contradiction).
  assert (Efz : forall a, nx s a <> 0 -> nx s' a = nx s a) by (intros a Ha; apply Hm2; intros ->; contradiction).
  assert (R2 : forall a b, reachf (nx s) a b -> reachf (nx s') a b) by (intros a b H; apply (reachf_frozen (nx s)); [exact Efz|exact H]).
  assert (Enn : nx s' node = 0) by (unfold LfqInv.nx, s', LfqInv.mkst; cbn [smem]; rewrite (Hm2 node Hnl); exact Hnz).
  assert (R1 : forall a b, reachf (nx s') a b -> reachf (nx s) a b \/ b = node).
  { intros a b H. apply (reachf_app_inv (nx s) (nx s') lst node); [intros y Hy; apply Hm2; exact Hy|exact Hm1|exact Enn|exact H]. }
  assert (Eh : QH s' = QH s) by exact Hh.
  assert (Hrn : gret g node = 0) by (destruct (N.eq_dec (gret g node) 0) as [E|E]; [exact E|exfalso; apply Hnn; apply (g_f s g HG node E)]).
  assert (Eq : forall u, QS s' u = if Nat.eqb u t then p' else QS s u).
  { intros u. unfold LfqInv.QS, LfqInv.TH, s', LfqInv.mkst; cbn. unfold tupd. destruct (Nat.eqb u t); reflexivity. }
  constructor.
  - apply (g_c1 s g HG).
  - apply (g_c2 s g HG).
  - apply (g_c3 s g HG).
  - intros x Hx. apply R2. apply (g_f s g HG x Hx).
  - intros a Ha. rewrite Eh in Ha. destruct (R1 _ _ Ha) as [H| ->]; [apply (g_b1 s g HG a H)|exact Hrn].
  - intros a Ha Hr. rewrite Eh. destruct (R1 _ _ Ha) as [H| ->].
    + apply R2. apply (g_b2 s g HG a H Hr).
    + assert (Hql : reachf (nx s) (QH s) lst) by (apply (reachf_linear (nx s) d0); [apply (Q_head isD d0 s HI)|exact Hli|exact Hlz]).
      eapply reachf_trans; [apply R2; exact Hql|apply reachf_one; [exact Hm1|exact Hn0]].
  - intros a b Hab Hb Hr. destruct (N.eq_dec a lst) as [->|Hne].
    + assert (b = node) by (unfold LfqInv.nx, s', LfqInv.mkst in Hab; cbn [smem] in Hab; congruence). subst b. congruence.
    + apply (g_a s g HG a b); [|exact Hb|exact Hr]. unfold LfqInv.nx, s', LfqInv.mkst in Hab; cbn [smem] in Hab. rewrite (Hm2 a Hne) in Hab. exact Hab.
  - intros u x. rewrite Eq. destruct (Nat.eqb_spec u t) as [->|Hu]; [intros Hx; apply (Hrefs x Hx)|apply (g_d s g HG u x)].
Qed.

(* the successful head cmpxchg: the old head is retired, stamped with the incremented clock *)
Lemma GL_head (s : st) (g : gh) t m' (p' : qst) h nxt : QInv s -> GInv s g ->
  QH s = h -> Ins s h -> nx s h = nxt -> nxt <> 0 ->
  (forall a, m' (LNext a) = nx s a) -> m' LHead = nxt ->
  (forall x, In x (refs (qcur p')) -> In x (refs (qcur (QS s t)))) ->
  GInv (mkst m' (tup (sthr _ _ s) t (mkts p')))
       {| clock := clock g + 1; gstart := gstart g; gret := updN (gret g) h (clock g + 1); gF := gF g |}.
Proof.
  intros HI HG Hqh Hih Hnx Hn0 Hm Hmh Hsub.
  set (s' := mkst m' (tup (sthr _ _ s) t (mkts p'))).
  assert (Enx : forall a, nx s' a = nx s a) by (intros a; apply Hm).
  assert (R1 : forall a b, reachf (nx s') a b -> reachf (nx s) a b) by (intros a b H; apply (reachf_frozen (nx s')); [intros y _; symmetry; apply Enx|exact H]).
  assert (R2 : forall a b, reachf (nx s) a b -> reachf (nx s') a b) by (intros a b H; apply (reachf_frozen (nx s)); [intros y _; apply Enx|exact H]).
  assert (Eh : QH s' = nxt) by exact Hmh.
  destruct (Q_last isD d0 s HI) as [lst [Hli Hlz]].
  assert (Hhl : reachf (nx s) h lst) by (apply (reachf_linear (nx s) d0); assumption).
  assert (Hnc : ~ reachf (nx s) nxt h) by (intros Hc; apply (no_cycle (nx s) h lst Hhl Hlz); [rewrite Hnx; exact Hn0|rewrite Hnx; exact Hc]).
  assert (Eq : forall u, QS s' u = if Nat.eqb u t then p' else QS s u).
  { intros u. unfold LfqInv.QS, LfqInv.TH, s', LfqInv.mkst; cbn. unfold tupd. destruct (Nat.eqb u t); reflexivity. }
  assert (U1 : updN (gret g) h (clock g + 1) h = clock g + 1) by (unfold updN; rewrite N.eqb_refl; reflexivity).
  assert (U2 : forall x, x <> h -> updN (gret g) h (clock g + 1) x = gret g x) by (intros x Hx; unfold updN; destruct (N.eqb_spec x h); [contradiction|reflexivity]).
  constructor; cbn [clock gstart gret gF].
  - intros x. destruct (N.eq_dec x h) as [->|Hx]; [rewrite U1; lia|rewrite (U2 x Hx); pose proof (g_c1 s g HG x); lia].
  - pose proof (g_c2 s g HG). lia.
  - intros u. pose proof (g_c3 s g HG u). lia.
  - intros x Hx. apply R2. destruct (N.eq_dec x h) as [->|Hne]; [exact Hih|rewrite (U2 x Hne) in Hx; apply (g_f s g HG x Hx)].
  - intros a Ha. rewrite Eh in Ha. apply R1 in Ha.
    assert (Hah : a <> h) by (intros ->; contradiction). rewrite (U2 a Hah).
    apply (g_b1 s g HG a). rewrite Hqh. eapply r_step; [split; [exact Hnx|exact Hn0]|exact Ha].
  - intros a Ha Hr. rewrite Eh. apply R2.
    assert (Hah : a <> h) by (intros ->; rewrite U1 in Hr; lia). rewrite (U2 a Hah) in Hr.
    pose proof (g_b2 s g HG a (R1 _ _ Ha) Hr) as Hre. rewrite Hqh in Hre.
    destruct (reachf_inv (nx s) h a Hre (not_eq_sym Hah)) as [_ H]. rewrite Hnx in H. exact H.
  - intros a b Hab Hb Hr. rewrite Enx in Hab. destruct (N.eq_dec b h) as [->|Hbh].
    + rewrite U1. assert (Hah : a <> h).
      { intros ->. apply Hnc. rewrite <- Hnx, Hab. apply r_refl. }
      rewrite (U2 a Hah). pose proof (g_c1 s g HG a). lia.
    + rewrite (U2 b Hbh) in Hr |- *. destruct (N.eq_dec a h) as [->|Hah].
      * exfalso. apply Hr. apply (g_b1 s g HG b). rewrite Hqh. apply reachf_one; assumption.
      * rewrite (U2 a Hah). apply (g_a s g HG a b Hab Hb Hr).
  - intros u x Hx Hr.
    assert (Hx' : In x (refs (qcur (QS s u)))).
    { rewrite Eq in Hx. destruct (Nat.eqb_spec u t) as [->|_]; [apply Hsub; exact Hx|exact Hx]. }
    destruct (N.eq_dec x h) as [->|Hxh].
    + rewrite U1. pose proof (g_c3 s g HG u). pose proof (g_c2 s g HG). lia.
    + rewrite (U2 x Hxh) in Hr |- *. apply (g_d s g HG u x Hx' Hr).
Qed.

Lemma GInv_step (s : st) (g : gh) t : QInv s -> GInv s g ->
  GInv (fst (exec qloc qloc_eqb P (Step t) s)) (gupd s g (Step t)).
Proof.
  intros HI HG. rewrite (LfqInv.exec_shape isD d0 s t HI). cbv zeta. unfold gupd.
  pose proof (Q_loc isD d0 s HI t) as Hl. pose proof (Q_fut isD d0 s HI t) as Hfu.
  pose proof (g_d s g HG t) as Hd.
  set (p := QS s t) in *.
  assert (Hold : forall x, In x (refs (qcur p)) -> okref g t x) by (intros x Hx Hr; apply (Hd x Hx Hr)).
  assert (Hz0 : okref g t 0) by (intros Hr; rewrite (ret0 s g HG) in Hr; congruence).
  assert (Hhd : okref g t (QH s)) by (intros Hr; rewrite (g_b1 s g HG (QH s) (r_refl _ _)) in Hr; congruence).
  assert (Htl : okref g t (smem _ _ s LTail)) by (intros Hr; rewrite (g_b1 s g HG _ (Q_th isD d0 s HI)) in Hr; congruence).
  (* steps that keep the ghost, every next pointer and the head *)
  assert (Hq : forall m' p', (forall a, m' (LNext a) = nx s a) -> m' LHead = QH s -> (forall x, In x (refs (qcur p')) -> okref g t x) ->
             GInv (mkst m' (tup (sthr _ _ s) t (mkts p'))) g).
  { intros m' p' A B Cc. apply (GL_same s g g t); try assumption; try reflexivity; try (intros; reflexivity); apply (g_c3 s g HG). }
  unfold qact, qnext, LfqInv.fut in *. destruct (qcur p) eqn:Ep; cbn [LfqInv.eff fst snd refs] in *.
  - (* Idle *)
    destruct (qtodo p) as [|o rest] eqn:Et; [exact HG|].
    assert (Hst : forall p', (forall x, In x (refs (qcur p')) -> x = 0) ->
              GInv (mkst (smem _ _ s) (tup (sthr _ _ s) t (mkts p'))) {| clock := clock g; gstart := updn (gstart g) t (clock g); gret := gret g; gF := gF g |}).
    { intros p' A. apply (GL_same s g _ t); cbn [clock gstart gret gF]; try assumption; try reflexivity.
      - intros u Hu. unfold updn. destruct (Nat.eqb_spec u t); [contradiction|reflexivity].
      - unfold updn. rewrite Nat.eqb_refl. lia.
      - intros x Hx Hr. rewrite (A x Hx) in Hr. cbn [gret] in Hr. rewrite (ret0 s g HG) in Hr. congruence. }
    destruct o as [n|]; cbn [LfqInv.eff]; apply Hst; cbn [qcur refs]; [intros x [<-|[]]; reflexivity|intros x []].
  - exact HG.
  - (* E_LoadTail *) apply Hq; [intros; reflexivity|reflexivity|]. cbn [qcur refs]. intros x [<-|[<-|[]]]; [exact Htl|apply Hold; left; reflexivity].
  - (* E_Mb *) apply Hq; [intros; reflexivity|reflexivity|]. cbn [qcur refs]. intros x Hx. apply Hold. exact Hx.
  - (* E_Cas *)
    destruct Hl as [Hti Hc]. change (smem qloc P s (LNext tail)) with (nx s tail).
    destruct (N.eqb_spec (nx s tail) 0) as [Ez|Enz].
    + destruct (Hfu node (or_introl eq_refl)) as (Hnn & Hn0 & Hnz).
      apply (GL_app s g t _ _ tail node HI HG Hti Ez Hnn Hn0 Hnz); [apply LfqInv.upd_s|intros a Ha; apply LfqInv.upd_o; congruence|apply LfqInv.upd_o; discriminate|].
      cbn [qcur refs]. intros x [<-|[<-|[<-|[]]]]; [apply Hold; left; reflexivity| |apply Hold; right; left; reflexivity].
      intros Hr. exfalso. apply Hnn. apply (g_f s g HG node Hr).
    + apply Hq; [intros; reflexivity|reflexivity|]. cbn [qcur refs]. intros x [<-|[<-|[<-|[]]]]; [apply Hold; left; reflexivity| |apply Hold; right; left; reflexivity].
      apply (acq_next s g t tail _ HI HG Hti); [apply Hold; left; reflexivity|reflexivity|exact Enz].
  - (* E_Swing *)
    assert (Hrf : forall x, In x (refs (qcur (if done then if c =? 0 then {| qcur := E_Ret; qtodo := qtodo p; qsup := qsup p |}
                                                      else {| qcur := D_LoadNext2 c; qtodo := qtodo p; qsup := qsup p |}
                                           else {| qcur := E_LoadTail node c; qtodo := qtodo p; qsup := qsup p |}))) -> okref g t x).
    { intros x. destruct done; [destruct (c =? 0)|]; cbn [qcur refs];
        [intros H; destruct H|intros [<-|H]; [apply Hold; right; right; left; reflexivity|destruct H]|intros [<-|H]; [apply Hold; right; right; left; reflexivity|destruct H]]. }
    destruct (smem qloc P s LTail =? tail); apply Hq; try exact Hrf; try (intros; reflexivity); try reflexivity; try (intros a; apply LfqInv.upd_o; discriminate); try (apply LfqInv.upd_o; discriminate).
  - (* E_Ret *) apply Hq; [intros; reflexivity|reflexivity|]. cbn [qcur refs]. intros x [].
  - (* D_LoadHead *) apply Hq; [intros; reflexivity|reflexivity|]. cbn [qcur refs]. intros x [<-|[]]. exact Hhd.
  - (* D_LoadNext *)
    destruct Hl as (Hh & _ & _). change (smem qloc P s (LNext head)) with (nx s head).
    destruct (isD head && (nx s head =? 0)); [apply Hq; [intros; reflexivity|reflexivity|cbn [qcur refs]; intros x []]|].
    destruct (N.eqb_spec (nx s head) 0) as [Ez|Enz].
    + destruct (qsup p) as [|d sup]; apply Hq; try (intros; reflexivity); try reflexivity; cbn [qcur refs]; [intros x []|].
      intros x [<-|[]]. apply Hold. left. reflexivity.
    + apply Hq; [intros; reflexivity|reflexivity|]. cbn [qcur refs]. intros x [<-|[<-|[]]]; [apply Hold; left; reflexivity|].
      apply (acq_next s g t head _ HI HG Hh); [apply Hold; left; reflexivity|reflexivity|exact Enz].
  - (* D_LoadNext2 *)
    destruct Hl as (Hh & Hz & _). change (smem qloc P s (LNext head)) with (nx s head).
    apply Hq; [intros; reflexivity|reflexivity|]. cbn [qcur refs]. intros x [<-|[<-|[]]]; [apply Hold; left; reflexivity|].
    apply (acq_next s g t head _ HI HG Hh); [apply Hold; left; reflexivity|reflexivity|exact Hz].
  - (* D_LoadTail *)
    destruct (smem qloc P s LTail =? head); apply Hq; try (intros; reflexivity); try reflexivity; cbn [qcur refs]; intros x Hx; apply Hold; exact Hx.
  - (* D_HelpTail *)
    destruct (smem qloc P s LTail =? head); apply Hq; try (intros; reflexivity); try reflexivity; try (intros a; apply LfqInv.upd_o; discriminate);
      try (apply LfqInv.upd_o; discriminate); cbn [qcur refs]; intros x Hx; apply Hold; exact Hx.
  - (* D_CasHead *)
    destruct Hl as (Hh & Hz & Hnx & _).
    destruct (N.eqb_spec (smem qloc P s LHead) head) as [E|E].
    + destruct (isD head); apply (GL_head s g t _ _ head next HI HG E Hh Hnx Hz); try (intros a; apply LfqInv.upd_o; discriminate); try apply LfqInv.upd_s;
        change (QS s t) with p; rewrite Ep; cbn [qcur refs]; [intros x [<-|[]]; left; reflexivity|intros x []].
    + apply Hq; [intros; reflexivity|reflexivity|]. cbn [qcur refs]. intros x [].
  - (* D_Free *) apply Hq; [intros; reflexivity|reflexivity|]. cbn [qcur refs]. intros x [].
  - (* D_Ret *) apply Hq; [intros; reflexivity|reflexivity|]. cbn [qcur refs]. intros x [].
Qed.

(* reachable configurations of machine + ghost + grace periods *)
Inductive xreach (s0 : st) (g0 : gh) : st -> gh -> Prop :=
| x_init : xreach s0 g0 s0 g0
| x_step s g c : xreach s0 g0 s g -> xreach s0 g0 (fst (exec qloc qloc_eqb P c s)) (gupd s g c)
| x_gp s g k : xreach s0 g0 s g -> gp_ok s g k -> xreach s0 g0 s (setF g k).

Theorem lfq_no_access_after_gp s0 g0 s g : QInv s0 -> GInv s0 g0 -> xreach s0 g0 s g ->
  forall t x, In x (refs (qcur (QS s t))) -> gret g x = 0 \/ gF g < gret g x.
Proof.
  intros HI0 HG0 Hx. assert (H : QInv s /\ GInv s g).
  { induction Hx as [|s g c Hx [IH1 IH2]|s g k Hx [IH1 IH2] Hk]; [split; assumption| |split; [exact IH1|apply GInv_gp; assumption]].
    split; [apply (LfqInv.Inv_exec isD d0); exact IH1|]. destruct c as [t|t]; [apply GInv_step; assumption|].
    unfold exec, gupd. change (sthr qloc P s t) with (LfqInv.TH isD s t). rewrite (Q_buf isD d0 s IH1 t). exact IH2. }
  destruct H as [_ HG]. intros t x Hin. destruct (N.eq_dec (gret g x) 0) as [E|E]; [left; exact E|right; apply (g_d s g HG t x Hin E)].
Qed.

Definition g_init : gh := {| clock := 0; gstart := fun _ => 0; gret := fun _ => 0; gF := 0 |}.
Lemma GInv_init (s : st) : QH s = d0 -> GInv s g_init.
Proof.
  intros Hh. constructor; cbn [g_init clock gstart gret gF]; try (intros; lia); try (intros; reflexivity); try (intros; congruence).
  intros a Ha _. rewrite Hh. exact Ha.
Qed.
End RCU.
Print Assumptions lfq_no_access_after_gp.
