(* executable sequence semantics of the defer queue (used by the correspondence driver), the exactly-once / in-order /
   exact-argument theorem for every operation sequence, and the tie of the encoding constants to the source *)
From Coq Require Import List NArith Arith Bool Lia.
Import ListNotations.
Require Import Urcu.Defer.Defer Urcu.Defer.DeferRing Urcu.Gen.Generated.
Local Open Scope N_scope.

Inductive dop := DEnq (f p : N) | DBarrier.

Section RUN.
Variable SIZE : N.
Hypothesis Hsz : 4 <= SIZE.

Definition dstep (r : ring) (o : dop) : ring * list (N * N) :=
  match o with
  | DEnq f p => let '(r', out) := enq SIZE r f p in (r', match out with Some l => l | None => [] end)
  | DBarrier => let '(r', out) := drain SIZE r in (r', match out with Some l => l | None => [] end)
  end.
Fixpoint drun (ops : list dop) (r : ring) : ring * list (N * N) :=
  match ops with
  | [] => (r, [])
  | o :: ops' => let '(r1, c1) := dstep r o in let '(r2, c2) := drun ops' r1 in (r2, c1 ++ c2)
  end.
Fixpoint queued (ops : list dop) : list (N * N) :=
  match ops with [] => [] | DEnq f p :: ops' => (f, p) :: queued ops' | DBarrier :: ops' => queued ops' end.

Lemma dstep_ok r o : Inv SIZE r -> Inv SIZE (fst (dstep r o)) /\
  pending r ++ queued [o] = snd (dstep r o) ++ pending (fst (dstep r o)).
Proof.
  intros HI. destruct o as [f p|]; unfold dstep.
  - pose proof (Inv_enq SIZE Hsz r f p HI) as [I1 Hout]. destruct (enq SIZE r f p) as [r' out] eqn:E. cbn [fst snd] in *.
    split; [exact I1|]. cbn [queued].
    (* pending of the result is (pending after the optional flush) ++ [(f,p)] *)
    unfold enq in E.
    destruct (SIZE - 2 <=? H r - T r) eqn:Ef.
    + destruct (Inv_drain SIZE Hsz r HI) as [_ Od]. destruct (drain SIZE r) as [r1 o1] eqn:Ed. cbn [snd] in Od. subst o1.
      assert (Hp1 : pending r1 = []).
      { unfold drain in Ed. destruct HI as (_ & _ & Cc & _). rewrite Cc, defer_stream_roundtrip in Ed. inversion Ed; reflexivity. }
      destruct (encode1 (last_in r1) f p) as [ws li]. inversion E; subst. cbn [pending]. rewrite Hp1. reflexivity.
    + destruct (encode1 (last_in r) f p) as [ws li]. inversion E; subst. cbn [pending app]. reflexivity.
  - destruct (Inv_drain SIZE Hsz r HI) as [I1 Od]. destruct (drain SIZE r) as [r' out] eqn:Ed. cbn [fst snd] in *. subst out.
    split; [exact I1|]. cbn [queued]. rewrite app_nil_r.
    unfold drain in Ed. destruct HI as (_ & _ & Cc & _). rewrite Cc, defer_stream_roundtrip in Ed. inversion Ed; subst. cbn [pending]. rewrite app_nil_r. reflexivity.
Qed.

(* every (function, argument) pair queued is called exactly once, in queue order, with exactly its arguments, or is still pending:
   calls made ++ still pending = pending before ++ queued by the sequence -- for every sequence of defer_rcu / barrier calls and
   every bit pattern, however often the ring fills and wraps *)
Theorem defer_ring_exact : forall ops r, Inv SIZE r ->
  Inv SIZE (fst (drun ops r)) /\ pending r ++ queued ops = snd (drun ops r) ++ pending (fst (drun ops r)).
Proof.
  induction ops as [|o ops IH]; intros r HI; cbn [drun queued].
  - cbn [fst snd app]. split; [exact HI|rewrite app_nil_r; reflexivity].
  - destruct (dstep_ok r o HI) as [I1 E1]. destruct (dstep r o) as [r1 c1] eqn:Es. cbn [fst snd] in *.
    destruct (IH r1 I1) as [I2 E2]. destruct (drun ops r1) as [r2 c2] eqn:Er. cbn [fst snd] in *. split; [exact I2|].
    assert (Hq : queued (o :: ops) = queued [o] ++ queued ops) by (destruct o; reflexivity).
    change (match o with DEnq f p => (f, p) :: queued ops | DBarrier => queued ops end) with (queued (o :: ops)).
    rewrite Hq, app_assoc, E1, <- app_assoc, E2, app_assoc. reflexivity.
Qed.

(* a barrier leaves nothing pending: everything queued before it has been called *)
Theorem defer_barrier_flushes r : Inv SIZE r -> pending (fst (dstep r DBarrier)) = [] /\ snd (dstep r DBarrier) = pending r.
Proof.
  intros HI. unfold dstep. destruct (Inv_drain SIZE Hsz r HI) as [_ Od]. destruct (drain SIZE r) as [r' out] eqn:Ed. cbn [fst snd] in *. subst out.
  unfold drain in Ed. destruct HI as (_ & _ & Cc & _). rewrite Cc, defer_stream_roundtrip in Ed. inversion Ed; subst. split; reflexivity.
Qed.
End RUN.

Definition ring0 : ring := {| q := fun _ => 0; H := 0; T := 0; last_in := 0; last_out := 0; pending := [] |}.
Lemma Inv_ring0 SIZE : 4 <= SIZE -> Inv SIZE ring0.
Proof. intros _. unfold Inv, ring0; cbn. repeat split; lia. Qed.

(* ties to the source *)
Lemma mark_is_source_constant : MARK = dq_fct_mark.
Proof. reflexivity. Qed.
Lemma fct_bit_is_source_constant : dq_fct_bit = 1.
Proof. reflexivity. Qed.
Lemma default_queue_size_ok : 4 <= defer_queue_size /\ exists k, defer_queue_size = 2 ^ k.
Proof. split; [unfold defer_queue_size; lia|exists 12; reflexivity]. Qed.
Print Assumptions defer_ring_exact.
