(* The defer_rcu ring with the counters the code really has: head and tail are unsigned longs that wrap at W = 2^64, the occupancy is computed as
   head - tail in machine arithmetic and a slot index as head & (SIZE - 1), SIZE a power of two.  As long as the true occupancy never exceeds SIZE
   (DeferRing.Inv) the machine-word ring takes exactly the steps of the unbounded ring of DeferRing.v: same slots written, same decisions to flush,
   same calls drained - for ever, across any number of wrap-arounds of the counters. *)
From Coq Require Import List NArith Arith Bool Lia.
Import ListNotations.
Require Import Urcu.Defer.Defer Urcu.Defer.DeferRing.
Local Open Scope N_scope.

Section WRAP.
Variable SIZE W : N.
Hypothesis Hsz : 4 <= SIZE.
Hypothesis HW : exists k, W = k * SIZE /\ 2 <= k.        (* SIZE divides the word range (both are powers of two) and is smaller *)

Lemma W_pos : 0 < W.  Proof. destruct HW as (k & -> & Hk). nia. Qed.
Lemma SIZE_lt_W : SIZE < W.  Proof. destruct HW as (k & -> & Hk). nia. Qed.

(* machine subtraction and masking *)
Definition wsub (a b : N) : N := (a + W - b) mod W.
Definition widx (a : N) : N := a mod SIZE.

Lemma wsub_exact Hh Tt : Tt <= Hh -> Hh - Tt < W -> wsub (Hh mod W) (Tt mod W) = Hh - Tt.
Proof.
  intros Hle Hd. unfold wsub. pose proof W_pos as HWp. assert (HW0 : W <> 0) by lia.
  pose proof (N.div_mod Hh W HW0) as EH. pose proof (N.div_mod Tt W HW0) as ET.
  pose proof (N.mod_upper_bound Hh W HW0) as Hh'. pose proof (N.mod_upper_bound Tt W HW0) as Ht'.
  set (hq := Hh / W) in *. set (tq := Tt / W) in *. set (hm := Hh mod W) in *. set (tm := Tt mod W) in *.
  assert (Hq : tq <= hq) by (apply N.div_le_mono; lia).
  destruct (N.eq_dec hq tq) as [E|Ne].
  - assert (Ed : Hh - Tt = hm - tm) by nia. assert (tm <= hm) by nia.
    replace (hm + W - tm) with ((hm - tm) + 1 * W) by lia. rewrite N.mod_add by exact HW0. rewrite Ed. apply N.mod_small. lia.
  - assert (Hq' : hq = tq + 1) by nia. assert (Ed : Hh - Tt = hm + W - tm) by nia. rewrite Ed. apply N.mod_small. lia.
Qed.

Lemma widx_exact Hh : widx (Hh mod W) = Hh mod SIZE.
Proof.
  unfold widx. destruct HW as (k & E & Hk). assert (Hs : SIZE <> 0) by lia. assert (Hk0 : k <> 0) by lia.
  rewrite E. rewrite (N.mul_comm k SIZE). rewrite N.mod_mul_r by assumption.
  rewrite N.mul_comm, N.mod_add by exact Hs. apply N.mod_mod. exact Hs.
Qed.

(* the ring as the code has it: word counters *)
Record wring := { wq : N -> N; wh : N; wt : N; wlast_in : N; wlast_out : N }.
Fixpoint wwrites (qq : N -> N) (pos : N) (ws : list N) : N -> N :=
  match ws with [] => qq | w :: ws' => wwrites (fun s => if s =? widx pos then w else qq s) ((pos + 1) mod W) ws' end.
Fixpoint wwindow (qq : N -> N) (pos : N) (n : nat) : list N :=
  match n with O => [] | S n' => qq (widx pos) :: wwindow qq ((pos + 1) mod W) n' end.
Definition wdrain (r : wring) : wring * option (list (N * N)) :=
  let ws := wwindow (wq r) (wt r) (N.to_nat (wsub (wh r) (wt r))) in
  match decode (length ws) (wlast_out r) ws with
  | Some calls => ({| wq := wq r; wh := wh r; wt := wh r; wlast_in := wlast_in r; wlast_out := wlast_in r |}, Some calls)
  | None => (r, None)
  end.
Definition wenq (r : wring) (f p : N) : wring * option (list (N * N)) :=
  let '(r1, out) := if SIZE - 2 <=? wsub (wh r) (wt r) then wdrain r else (r, Some []) in
  let '(ws, li) := encode1 (wlast_in r1) f p in
  ({| wq := wwrites (wq r1) (wh r1) ws; wh := (wh r1 + N.of_nat (length ws)) mod W; wt := wt r1; wlast_in := li; wlast_out := wlast_out r1 |}, out).

(* abstraction: the word ring represents an unbounded ring *)
Definition rep (w : wring) (r : ring) : Prop :=
  wq w = q r /\ wh w = H r mod W /\ wt w = T r mod W /\ wlast_in w = last_in r /\ wlast_out w = last_out r.

Lemma succ_mod a : (a mod W + 1) mod W = (a + 1) mod W.
Proof. pose proof W_pos. rewrite N.add_mod_idemp_l by lia. reflexivity. Qed.
Lemma wwindow_eq qq n : forall pos, wwindow qq (pos mod W) n = window SIZE qq pos n.
Proof. induction n as [|n IH]; intros pos; cbn [wwindow window]; [reflexivity|]. rewrite widx_exact, succ_mod, IH. reflexivity. Qed.
Lemma wwrites_eq ws : forall qq pos, wwrites qq (pos mod W) ws = writes SIZE qq pos ws.
Proof. induction ws as [|w ws IH]; intros qq pos; cbn [wwrites writes]; [reflexivity|]. rewrite widx_exact, succ_mod, IH. reflexivity. Qed.
Lemma add_mod_l a n : (a mod W + n) mod W = (a + n) mod W.
Proof. pose proof W_pos. rewrite N.add_mod_idemp_l by lia. reflexivity. Qed.

Lemma rep_drain w r : Inv SIZE r -> rep w r -> rep (fst (wdrain w)) (fst (drain SIZE r)) /\ snd (wdrain w) = snd (drain SIZE r).
Proof.
  intros (A & B & _) (Eq & Eh & Et & Ei & Eo). pose proof SIZE_lt_W as HS.
  unfold wdrain, drain. rewrite Eq, Eh, Et, Eo, Ei. rewrite wsub_exact by lia. rewrite wwindow_eq.
  destruct (decode _ _ _); cbn [fst snd]; (split; [|reflexivity]); unfold rep; cbn; repeat split; assumption || reflexivity.
Qed.

Theorem rep_enq w r f p : Inv SIZE r -> rep w r ->
  rep (fst (wenq w f p)) (fst (enq SIZE r f p)) /\ snd (wenq w f p) = snd (enq SIZE r f p).
Proof.
  intros HI HR. pose proof HI as (A & B & _). pose proof HR as (Eq & Eh & Et & Ei & Eo). pose proof SIZE_lt_W as HS.
  unfold wenq, enq. rewrite Eh, Et, wsub_exact by lia.
  assert (Hstep : exists w1 r1 out, (if SIZE - 2 <=? H r - T r then wdrain w else (w, Some [])) = (w1, out) /\
                                    (if SIZE - 2 <=? H r - T r then drain SIZE r else (r, Some [])) = (r1, out) /\ rep w1 r1).
  { destruct (SIZE - 2 <=? H r - T r).
    - destruct (rep_drain w r HI HR) as [R1 O1]. destruct (wdrain w) as [w1 o1], (drain SIZE r) as [r1 o2]. cbn [fst snd] in *. subst o2. exists w1, r1, o1. auto.
    - exists w, r, (Some []). auto. }
  destruct Hstep as (w1 & r1 & out & E1 & E2 & (Eq1 & Eh1 & Et1 & Ei1 & Eo1)). rewrite E1, E2. rewrite Ei1.
  destruct (encode1 (last_in r1) f p) as [ws li]. cbn [fst snd]. split; [|reflexivity].
  unfold rep; cbn. rewrite Eq1, Eh1, wwrites_eq, add_mod_l. repeat split; assumption.
Qed.
End WRAP.
Print Assumptions rep_enq.
