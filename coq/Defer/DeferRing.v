(* scratch: the ring layer of the defer_rcu queue: slots modulo SIZE, free-running counters; the words between tail and head are
   the encoding of the pending calls, for every sequence of enqueues (with the synchronous flush when nearly full) and drains *)
From Coq Require Import List NArith Arith Bool Lia.
Import ListNotations.
Require Import Urcu.Defer.Defer.
Local Open Scope N_scope.

Section RING.
Variable SIZE : N.
Hypothesis Hsz : 4 <= SIZE.
Record ring := { q : N -> N; H : N; T : N; last_in : N; last_out : N; pending : list (N * N) (* ghost *) }.

Fixpoint writes (qq : N -> N) (pos : N) (ws : list N) : N -> N :=
  match ws with [] => qq | w :: ws' => writes (fun s => if s =? pos mod SIZE then w else qq s) (pos + 1) ws' end.
Fixpoint window (qq : N -> N) (pos : N) (n : nat) : list N :=
  match n with O => [] | S n' => qq (pos mod SIZE) :: window qq (pos + 1) n' end.

(* rcu_defer_barrier_queue up to head: decode and call everything *)
Definition drain (r : ring) : ring * option (list (N * N)) :=
  let ws := window (q r) (T r) (N.to_nat (H r - T r)) in
  match decode (length ws) (last_out r) ws with
  | Some calls => ({| q := q r; H := H r; T := H r; last_in := last_in r; last_out := last_in r; pending := [] |}, Some calls)
  | None => (r, None)
  end.
(* _defer_rcu: flush synchronously when fewer than 2 free slots would remain, then append the 1..3 words *)
Definition enq (r : ring) (f p : N) : ring * option (list (N * N)) :=
  let '(r1, out) := if SIZE - 2 <=? H r - T r then drain r else (r, Some []) in
  let '(ws, li) := encode1 (last_in r1) f p in
  ({| q := writes (q r1) (H r1) ws; H := H r1 + N.of_nat (length ws); T := T r1; last_in := li; last_out := last_out r1; pending := pending r1 ++ [(f, p)] |}, out).

Definition Inv (r : ring) : Prop :=
  T r <= H r /\ H r - T r <= SIZE /\
  window (q r) (T r) (N.to_nat (H r - T r)) = encode (last_out r) (pending r) /\
  last_in r = fold_left (fun l fp => snd (encode1 l (fst fp) (snd fp))) (pending r) (last_out r).

Lemma window_app qq n1 : forall pos n2, window qq pos (n1 + n2) = window qq pos n1 ++ window qq (pos + N.of_nat n1) n2.
Proof.
  induction n1 as [|n1 IH]; intros pos n2; cbn [window plus app]; [rewrite N.add_0_r; reflexivity|].
  f_equal. rewrite IH. f_equal. f_equal. lia.
Qed.
Lemma writes_other ws : forall qq pos s, (forall i, i < N.of_nat (length ws) -> s <> (pos + i) mod SIZE) -> writes qq pos ws s = qq s.
Proof.
  induction ws as [|w ws IH]; intros qq pos s Hs; cbn [writes]; [reflexivity|].
  rewrite IH.
  - destruct (N.eqb_spec s (pos mod SIZE)) as [E|_]; [|reflexivity]. exfalso. apply (Hs 0); [cbn [length]; lia|rewrite N.add_0_r; exact E].
  - intros i Hi. replace (pos + 1 + i) with (pos + (i + 1)) by lia. apply Hs. cbn [length]. lia.
Qed.
Lemma mod_inj a b : a <= b -> b - a < SIZE -> a mod SIZE = b mod SIZE -> a = b.
Proof.
  intros Hab Hd E. assert (Hs : SIZE <> 0) by lia.
  pose proof (N.div_mod a SIZE Hs) as Ha. pose proof (N.div_mod b SIZE Hs) as Hb. pose proof (N.div_le_mono a b SIZE Hs Hab) as Hq.
  rewrite E in Ha. set (qa := a / SIZE) in *. set (qb := b / SIZE) in *. set (m := b mod SIZE) in *.
  destruct (N.eq_dec qa qb) as [Eq|Nq]; [rewrite Eq in Ha; lia|]. assert (qa + 1 <= qb) by lia.
  assert (SIZE * (qa + 1) <= SIZE * qb) by (apply N.mul_le_mono_l; assumption). lia.
Qed.
Lemma window_writes_self ws : forall qq pos, N.of_nat (length ws) <= SIZE -> window (writes qq pos ws) pos (length ws) = ws.
Proof.
  induction ws as [|w ws IH]; intros qq pos Hl; cbn [writes window length]; [reflexivity|]. cbn [length] in Hl. f_equal.
  - rewrite writes_other; [rewrite N.eqb_refl; reflexivity|]. intros i Hi E.
    assert (pos = pos + 1 + i); [|lia]. apply mod_inj; [lia|lia|exact E].
  - apply IH. lia.
Qed.
Lemma window_writes_before ws qq pos n : forall t, t + N.of_nat n = pos -> N.of_nat n + N.of_nat (length ws) <= SIZE ->
  window (writes qq pos ws) t n = window qq t n.
Proof.
  induction n as [|n IH]; intros t Ht Hl; cbn [window]; [reflexivity|]. f_equal.
  - apply writes_other. intros i Hi E. assert (t = pos + i); [|lia]. apply mod_inj; [lia|lia|exact E].
  - apply IH; lia.
Qed.

Lemma encode_app last l1 l2 : encode last (l1 ++ l2) = encode last l1 ++ encode (fold_left (fun l fp => snd (encode1 l (fst fp) (snd fp))) l1 last) l2.
Proof.
  revert last. induction l1 as [|[f p] l1 IH]; intros last; cbn [encode app fold_left fst snd]; [reflexivity|].
  destruct (encode1 last f p) as [ws l'] eqn:E. cbn [snd]. rewrite IH, app_assoc. reflexivity.
Qed.
Lemma encode1_len last f p : (1 <= length (fst (encode1 last f p)) <= 3)%nat.
Proof. unfold encode1. destruct (negb (last =? f) || is_fct p || (p =? MARK)); [destruct (is_fct f || (f =? MARK))|]; cbn; lia. Qed.

Lemma Inv_drain r : Inv r -> Inv (fst (drain r)) /\ snd (drain r) = Some (pending r).
Proof.
  intros (A & B & Cc & D). unfold drain. rewrite Cc. rewrite defer_stream_roundtrip. cbn [fst snd]. split; [|reflexivity].
  unfold Inv; cbn [q H T last_in last_out pending]. rewrite N.sub_diag. cbn. repeat split; lia.
Qed.

Theorem Inv_enq r f p : Inv r -> Inv (fst (enq r f p)) /\
  (* the calls made by the synchronous flush, if any, are exactly the calls that were pending, in order *)
  (snd (enq r f p) = Some [] \/ snd (enq r f p) = Some (pending r)).
Proof.
  intros HI. unfold enq.
  assert (Hr1 : exists r1 out, (if SIZE - 2 <=? H r - T r then drain r else (r, Some [])) = (r1, out) /\ Inv r1 /\ H r1 - T r1 <= SIZE - 3 /\ (out = Some [] \/ out = Some (pending r))).
  { destruct (N.leb_spec (SIZE - 2) (H r - T r)) as [Hfull|Hroom].
    - destruct (Inv_drain r HI) as [I1 O1]. destruct (drain r) as [r1 out] eqn:Ed. cbn [fst snd] in *. exists r1, out. split; [reflexivity|split; [exact I1|split; [|right; exact O1]]].
      unfold drain in Ed. destruct HI as (_ & _ & Cc & _). rewrite Cc, defer_stream_roundtrip in Ed. inversion Ed; subst. cbn [H T]. lia.
    - exists r, (Some []). split; [reflexivity|split; [exact HI|split; [lia|left; reflexivity]]]. }
  destruct Hr1 as (r1 & out & E & (A & B & Cc & D) & Hroom & Hout). rewrite E.
  destruct (encode1 (last_in r1) f p) as [ws li] eqn:Ee. cbn [fst snd]. split; [|exact Hout].
  pose proof (encode1_len (last_in r1) f p) as Hlen. rewrite Ee in Hlen. cbn [fst] in Hlen.
  unfold Inv; cbn [q H T last_in last_out pending]. split; [lia|split; [lia|split]].
  - replace (N.to_nat (H r1 + N.of_nat (length ws) - T r1)) with (N.to_nat (H r1 - T r1) + length ws)%nat by lia.
    rewrite window_app. rewrite window_writes_before by lia. rewrite Cc. rewrite N2Nat.id.
    replace (T r1 + (H r1 - T r1)) with (H r1) by lia. rewrite window_writes_self by lia.
    rewrite encode_app. cbn [encode]. rewrite <- D, Ee, app_nil_r. reflexivity.
  - rewrite fold_left_app. cbn [fold_left fst snd]. rewrite <- D, Ee. reflexivity.
Qed.
End RING.
Print Assumptions Inv_enq.
