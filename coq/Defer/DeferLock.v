(* defer_rcu: one thread's queue is drained by several parties - the background reclaimer, explicit rcu_defer_barrier() callers, the owner's own full-queue flush and its
   final flush in rcu_defer_unregister_thread - while the owner keeps appending.  Every drain runs under rcu_defer_mutex: lock ; snapshot the head ; [grace period] ;
   run the calls from the tail up to the snapshot, in order ; publish the new tail ; unlock.  Model: any number of drainers, the owner appending at any time.
   Theorem: in every reachable state the log of invocations is a prefix of the queued calls (each call run at most once, in order), and with the mutex free it is
   exactly the calls below the tail.  Without the mutex two drains overlap and a call runs twice (refuted variant). *)
From Coq Require Import List Arith Bool Lia.
Import ListNotations.

Inductive dpc := D_Idle | D_Locked | D_Run (i h : nat) | D_Publish (h : nat) | D_Unlock.
Record st := { calls : list nat;      (* everything the owner has queued so far, oldest first (ids) *)
               tail : nat;            (* index of the next call to run, as published *)
               lock : option nat;     (* holder of rcu_defer_mutex *)
               dr : nat -> dpc;       (* drainers *)
               ran : list nat }.      (* log of invocations *)
Inductive choice := Enq (id : nat) | Dr (t : nat).
Definition upd (f : nat -> dpc) (k : nat) (v : dpc) : nat -> dpc := fun x => if Nat.eqb x k then v else f x.

Section M.
Variable locked : bool.       (* true: the code as it is *)
Definition step (c : choice) (s : st) : st :=
  match c with
  | Enq id => {| calls := calls s ++ [id]; tail := tail s; lock := lock s; dr := dr s; ran := ran s |}
  | Dr t =>
      match dr s t with
      | D_Idle => if locked then match lock s with
                                 | None => {| calls := calls s; tail := tail s; lock := Some t; dr := upd (dr s) t D_Locked; ran := ran s |}
                                 | Some _ => s end
                  else {| calls := calls s; tail := tail s; lock := lock s; dr := upd (dr s) t D_Locked; ran := ran s |}
      | D_Locked => {| calls := calls s; tail := tail s; lock := lock s; dr := upd (dr s) t (D_Run (tail s) (length (calls s))); ran := ran s |}      (* head snapshot; the grace period follows *)
      | D_Run i h => if Nat.ltb i h
                     then {| calls := calls s; tail := tail s; lock := lock s; dr := upd (dr s) t (D_Run (S i) h); ran := ran s ++ [nth i (calls s) 0] |}
                     else {| calls := calls s; tail := tail s; lock := lock s; dr := upd (dr s) t (D_Publish h); ran := ran s |}
      | D_Publish h => {| calls := calls s; tail := h; lock := lock s; dr := upd (dr s) t D_Unlock; ran := ran s |}
      | D_Unlock => {| calls := calls s; tail := tail s; lock := (if locked then None else lock s); dr := upd (dr s) t D_Idle; ran := ran s |}
      end
  end.
Fixpoint run (cs : list choice) (s : st) : st := match cs with [] => s | c :: r => run r (step c s) end.
End M.
Definition init : st := {| calls := []; tail := 0; lock := None; dr := fun _ => D_Idle; ran := [] |}.

Lemma upd_same f k v : upd f k v k = v.  Proof. unfold upd. now rewrite Nat.eqb_refl. Qed.
Lemma upd_other f k v x : x <> k -> upd f k v x = f x.
Proof. unfold upd. intros H. destruct (Nat.eqb_spec x k); [contradiction|reflexivity]. Qed.

Definition holder_ok (s : st) (t : nat) : Prop :=
  match dr s t with
  | D_Idle => lock s <> Some t
  | D_Locked => lock s = Some t /\ ran s = firstn (tail s) (calls s)
  | D_Run i h => lock s = Some t /\ tail s <= i <= h /\ h <= length (calls s) /\ ran s = firstn i (calls s)
  | D_Publish h => lock s = Some t /\ tail s <= h <= length (calls s) /\ ran s = firstn h (calls s)
  | D_Unlock => lock s = Some t /\ ran s = firstn (tail s) (calls s)
  end.
Record Inv (s : st) : Prop := {
  I_h : forall t, holder_ok s t;
  I_free : lock s = None -> ran s = firstn (tail s) (calls s);
  I_tail : tail s <= length (calls s)
}.
Lemma firstn_app_le {A} (l r : list A) n : n <= length l -> firstn n (l ++ r) = firstn n l.
Proof. intros H. rewrite firstn_app. replace (n - length l) with 0 by lia. cbn. apply app_nil_r. Qed.
Lemma firstn_S_nth (l : list nat) i : i < length l -> firstn (S i) l = firstn i l ++ [nth i l 0].
Proof.
  revert l. induction i as [|i IH]; intros l H; destruct l as [|x l]; cbn in H; try lia; [reflexivity|].
  change (x :: firstn (S i) l = x :: (firstn i l ++ [nth i l 0])). f_equal. apply IH. lia.
Qed.

Lemma Inv_init : Inv init.
Proof. constructor; cbn; [intros t; discriminate|reflexivity|lia]. Qed.
Lemma Inv_step c s : Inv s -> Inv (step true c s).
Proof.
  intros [A B C]. destruct c as [id|t]; cbn [step].
  - (* the owner appends: nothing below the old head changes *)
    constructor; cbn [calls tail lock dr ran].
    + intros t. pose proof (A t) as H. unfold holder_ok in *; cbn [calls tail lock dr ran]. destruct (dr s t); try exact H.
      * destruct H as [H1 H2]. split; [exact H1|]. rewrite firstn_app_le by exact C. exact H2.
      * destruct H as (H1 & H2 & H3 & H4). split; [exact H1|]. split; [exact H2|]. split; [rewrite app_length; lia|]. rewrite firstn_app_le by lia. exact H4.
      * destruct H as (H1 & H2 & H3). split; [exact H1|]. split; [rewrite app_length; lia|]. rewrite firstn_app_le by lia. exact H3.
      * destruct H as [H1 H2]. split; [exact H1|]. rewrite firstn_app_le by exact C. exact H2.
    + intros H. rewrite firstn_app_le by exact C. apply B. exact H.
    + rewrite app_length. lia.
  - pose proof (A t) as Ht. unfold holder_ok in Ht.
    destruct (dr s t) eqn:Ed; cbv beta iota.
    + (* lock *)
      destruct (lock s) as [o|] eqn:El; [constructor; [exact A|rewrite El; exact B|exact C]|].
      constructor; cbn [calls tail lock dr ran]; [|discriminate|exact C].
      intros u. unfold holder_ok; cbn [calls tail lock dr ran]. destruct (Nat.eq_dec u t) as [->|Hne].
      * rewrite upd_same. split; [reflexivity|apply B; reflexivity].
      * rewrite upd_other by exact Hne. pose proof (A u) as Hu. unfold holder_ok in Hu. rewrite El in Hu. destruct (dr s u); try (destruct Hu as [Hu _]; discriminate Hu). intros E. inversion E. congruence.
    + (* snapshot *)
      destruct Ht as [Hl Hr]. constructor; cbn [calls tail lock dr ran]; [|intros H; rewrite Hl in H; discriminate|exact C].
      intros u. unfold holder_ok; cbn [calls tail lock dr ran]. destruct (Nat.eq_dec u t) as [->|Hne]; [rewrite upd_same; repeat split; try lia; assumption|rewrite upd_other by exact Hne; apply A].
    + (* run one call, or finish *)
      destruct Ht as (Hl & Hi & Hh & Hr). destruct (Nat.ltb_spec i h) as [Hlt|Hge].
      * constructor; cbn [calls tail lock dr ran]; [|intros H; rewrite Hl in H; discriminate|exact C].
        intros u. unfold holder_ok; cbn [calls tail lock dr ran]. destruct (Nat.eq_dec u t) as [->|Hne].
        -- rewrite upd_same. split; [exact Hl|]. split; [lia|]. split; [exact Hh|]. rewrite Hr. symmetry. apply firstn_S_nth. lia.
        -- rewrite upd_other by exact Hne. pose proof (A u) as Hu. unfold holder_ok in Hu. destruct (dr s u); try (destruct Hu as [Hu _]; rewrite Hl in Hu; inversion Hu; congruence). exact Hu.
      * assert (i = h) by lia. subst i. constructor; cbn [calls tail lock dr ran]; [|intros H; rewrite Hl in H; discriminate|exact C].
        intros u. unfold holder_ok; cbn [calls tail lock dr ran]. destruct (Nat.eq_dec u t) as [->|Hne]; [rewrite upd_same; repeat split; try lia; assumption|rewrite upd_other by exact Hne; apply A].
    + (* publish the tail *)
      destruct Ht as (Hl & Hh & Hr). constructor; cbn [calls tail lock dr ran]; [|intros H; rewrite Hl in H; discriminate|lia].
      intros u. unfold holder_ok; cbn [calls tail lock dr ran]. destruct (Nat.eq_dec u t) as [->|Hne]; [rewrite upd_same; split; assumption|rewrite upd_other by exact Hne].
      pose proof (A u) as Hu. unfold holder_ok in Hu. destruct (dr s u); try (destruct Hu as [Hu _]; rewrite Hl in Hu; inversion Hu; congruence). exact Hu.
    + (* unlock *)
      destruct Ht as [Hl Hr]. constructor; cbn [calls tail lock dr ran]; [|intros _; exact Hr|exact C].
      intros u. unfold holder_ok; cbn [calls tail lock dr ran]. destruct (Nat.eq_dec u t) as [->|Hne]; [rewrite upd_same; discriminate|rewrite upd_other by exact Hne].
      pose proof (A u) as Hu. unfold holder_ok in Hu. destruct (dr s u); try (destruct Hu as [Hu _]; rewrite Hl in Hu; inversion Hu; congruence). discriminate.
Qed.

(* every schedule, any number of drainers, the owner appending at any time: the invocation log is a prefix of the queued calls - each call at most once, in order -
   and with the mutex free exactly the calls below the published tail have run *)
Theorem defer_exactly_once_in_order : forall cs, let s := run true cs init in
  (exists n, ran s = firstn n (calls s)) /\ (lock s = None -> ran s = firstn (tail s) (calls s)).
Proof.
  intros cs. assert (HI : Inv (run true cs init)).
  { generalize Inv_init. generalize init. induction cs as [|c cs IH]; intros s0 H0; cbn [run]; [exact H0|]. apply IH. apply Inv_step. exact H0. }
  cbv zeta. destruct HI as [A B C]. split; [|exact B].
  destruct (lock (run true cs init)) as [t|] eqn:El; [|exists (tail (run true cs init)); apply B; reflexivity].
  pose proof (A t) as Ht. unfold holder_ok in Ht. destruct (dr (run true cs init) t); try (exfalso; apply Ht; exact El).
  - exists (tail (run true cs init)). apply Ht.
  - exists i. apply Ht.
  - exists h. apply Ht.
  - exists (tail (run true cs init)). apply Ht.
Qed.
(* without the mutex two drains of the same range overlap: call 7 runs twice *)
Theorem unlocked_drain_refuted : exists cs, ran (run false cs init) = [7; 7].
Proof. exists [Enq 7; Dr 0; Dr 1; Dr 0; Dr 1; Dr 0; Dr 1]. reflexivity. Qed.
Print Assumptions defer_exactly_once_in_order.
