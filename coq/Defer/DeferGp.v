(* defer_rcu and the grace period (rcu_defer_barrier / rcu_defer_barrier_thread / the reclaimer thread), abstract level.
   Any number of queuing threads and readers; one barrier at a time (rcu_defer_mutex).  A barrier snapshots the number of
   pending calls of the queues it serves (last_head), waits for a grace period, and then runs exactly the snapshotted calls.
   Theorem: a call that is run was queued before every read-side section that is still open began - also when other calls
   are queued while the grace period is in flight.  The variant that drains up to the head re-read after the grace period
   is refuted by a five-step run. *)
From Coq Require Import List Arith Bool Lia.
Import ListNotations.

Inductive bphase := B_Idle | B_Snap (snap : nat -> nat) | B_Drain (k : nat) (snap : nat -> nat).
Record st := { clock : nat; stamp : nat -> nat (* ghost: clock value just after the call was queued *);
               sect : nat -> option nat (* reader r: Some b = inside a section that began at clock b *);
               dq : nat -> list nat (* pending calls of thread t, oldest first *);
               ddone : nat -> list nat (* ghost: calls of thread t already run, in order *);
               dall : nat -> list nat (* ghost: every call thread t ever queued *);
               bph : bphase }.
Inductive choice := DCall (t c : nat) | RLock (r : nat) | RUnlock (r : nat) | BSnap (f : nat -> bool) | BSync | BRun (t : nat) | BEnd.
Definition upd {A} (f : nat -> A) (k : nat) (v : A) : nat -> A := fun x => if Nat.eqb x k then v else f x.
Definition gp_ok (s : st) : Prop := forall r b, sect s r = Some b -> clock s <= b.

Section STEP.
Variable fresh : bool.   (* false: the code as it is (drain up to the snapshot); true: drain up to the head re-read after the grace period *)
Inductive step : st -> choice -> st -> Prop :=
| S_call s t c : (forall t', ~ In c (dall s t')) ->
    step s (DCall t c) {| clock := S (clock s); stamp := upd (stamp s) c (S (clock s)); sect := sect s; dq := upd (dq s) t (dq s t ++ [c]);
                          ddone := ddone s; dall := upd (dall s) t (dall s t ++ [c]); bph := bph s |}
| S_lock s r : sect s r = None ->
    step s (RLock r) {| clock := clock s; stamp := stamp s; sect := upd (sect s) r (Some (clock s)); dq := dq s; ddone := ddone s; dall := dall s; bph := bph s |}
| S_unlock s r :
    step s (RUnlock r) {| clock := clock s; stamp := stamp s; sect := upd (sect s) r None; dq := dq s; ddone := ddone s; dall := dall s; bph := bph s |}
| S_snap s f : bph s = B_Idle ->
    step s (BSnap f) {| clock := clock s; stamp := stamp s; sect := sect s; dq := dq s; ddone := ddone s; dall := dall s;
                        bph := B_Snap (fun t => if f t then length (dq s t) else 0) |}
| S_sync s snap : bph s = B_Snap snap -> gp_ok s ->
    step s BSync {| clock := clock s; stamp := stamp s; sect := sect s; dq := dq s; ddone := ddone s; dall := dall s; bph := B_Drain (clock s) snap |}
| S_run s k snap t c rest : bph s = B_Drain k snap -> dq s t = c :: rest -> (fresh = true \/ 0 < snap t) ->
    step s (BRun t) {| clock := clock s; stamp := stamp s; sect := sect s; dq := upd (dq s) t rest; ddone := upd (ddone s) t (ddone s t ++ [c]); dall := dall s;
                       bph := B_Drain k (upd snap t (pred (snap t))) |}
| S_end s k snap : bph s = B_Drain k snap -> (forall t, snap t = 0) ->
    step s BEnd {| clock := clock s; stamp := stamp s; sect := sect s; dq := dq s; ddone := ddone s; dall := dall s; bph := B_Idle |}.
End STEP.

Definition snap_ok (s : st) (bound : nat) (snap : nat -> nat) : Prop :=
  forall t, snap t <= length (dq s t) /\ forall c, In c (firstn (snap t) (dq s t)) -> stamp s c <= bound.
Definition Inv (s : st) : Prop :=
  (forall c, stamp s c <= clock s) /\
  (forall r b, sect s r = Some b -> b <= clock s) /\
  (forall t, dall s t = ddone s t ++ dq s t) /\
  match bph s with
  | B_Idle => True
  | B_Snap snap => snap_ok s (clock s) snap
  | B_Drain k snap => k <= clock s /\ snap_ok s k snap /\ (forall r b, sect s r = Some b -> k <= b)
  end.

Lemma upd_same {A} (f : nat -> A) k v : upd f k v k = v.  Proof. unfold upd. now rewrite Nat.eqb_refl. Qed.
Lemma upd_other {A} (f : nat -> A) k v x : x <> k -> upd f k v x = f x.
Proof. unfold upd. intros H. destruct (Nat.eqb_spec x k); [contradiction|reflexivity]. Qed.

Lemma firstn_app_le {A} (l l' : list A) n : n <= length l -> firstn n (l ++ l') = firstn n l.
Proof. intros H. rewrite firstn_app. replace (n - length l) with 0 by lia. cbn. apply app_nil_r. Qed.

Lemma firstn_In {A} (l : list A) : forall n x, In x (firstn n l) -> In x l.
Proof. induction l as [|a l IH]; intros [|n] x H; cbn in H; try contradiction. destruct H as [H|H]; [left; exact H|right; apply (IH n x H)]. Qed.

(* queuing a call leaves every snapshot valid: the new call sits behind the snapshotted prefix *)
Lemma snap_ok_call s t c bound snap :
  (forall t', ~ In c (dall s t')) -> (forall t', dall s t' = ddone s t' ++ dq s t') -> snap_ok s bound snap ->
  snap_ok {| clock := S (clock s); stamp := upd (stamp s) c (S (clock s)); sect := sect s; dq := upd (dq s) t (dq s t ++ [c]);
             ddone := ddone s; dall := upd (dall s) t (dall s t ++ [c]); bph := bph s |} bound snap.
Proof.
  intros Hfr Hall Hs t0. destruct (Hs t0) as [A B]. cbn [dq stamp]. destruct (Nat.eq_dec t0 t) as [->|Hne].
  - rewrite upd_same. split; [rewrite app_length; lia|]. intros c0 Hc0. rewrite firstn_app_le in Hc0 by exact A.
    assert (c0 <> c). { intros ->. apply (Hfr t). rewrite Hall. apply in_or_app. right. eapply firstn_In. exact Hc0. }
    rewrite upd_other by assumption. apply B. exact Hc0.
  - rewrite upd_other by exact Hne. split; [exact A|]. intros c0 Hc0.
    assert (c0 <> c). { intros ->. apply (Hfr t0). rewrite Hall. apply in_or_app. right. eapply firstn_In. exact Hc0. }
    rewrite upd_other by assumption. apply B. exact Hc0.
Qed.

Lemma Inv_step s c s' : Inv s -> step false s c s' -> Inv s'.
Proof.
  intros (I1 & I2 & I3 & I4) Hs.
  destruct Hs as [s t c Hfr|s r Hn|s r|s f Hb|s snap Hb Hgp|s k snap t c rest Hb Hq Hsn|s k snap Hb Hz].
  - (* defer_rcu *)
    unfold Inv, snap_ok; cbn [clock stamp sect dq ddone dall bph]. repeat split.
    + intros c0. unfold upd at 1. destruct (Nat.eqb c0 c); [lia|pose proof (I1 c0); lia].
    + intros r b Hr. pose proof (I2 r b Hr). lia.
    + intros t0. destruct (Nat.eq_dec t0 t) as [->|Hne]; [rewrite !upd_same, I3, app_assoc; reflexivity|rewrite !upd_other by exact Hne; apply I3].
    + destruct (bph s) as [|snap|k snap] eqn:Eb; [exact I| |].
      * (* the bound of a not yet synchronised snapshot moves with the clock *)
        pose proof (snap_ok_call s t c (clock s) snap Hfr I3 I4) as H. intros t0. destruct (H t0) as [A B]. split; [exact A|].
        intros c0 Hc0. specialize (B c0 Hc0). cbn [stamp clock] in *. lia.
      * destruct I4 as (A & B & Cc). split; [lia|split; [apply (snap_ok_call s t c k snap Hfr I3 B)|exact Cc]].
  - (* rcu_read_lock *)
    unfold Inv, snap_ok; cbn [clock stamp sect dq ddone dall bph]. repeat split; try assumption.
    + intros r0 b. unfold upd. destruct (Nat.eqb r0 r); [intros E; inversion E; lia|apply I2].
    + destruct (bph s) as [|snap|k snap]; [exact I|exact I4|]. destruct I4 as (A & B & Cc). split; [exact A|split; [exact B|]].
      intros r0 b. unfold upd. destruct (Nat.eqb r0 r); [intros E; inversion E; subst; exact A|apply Cc].
  - (* rcu_read_unlock *)
    unfold Inv, snap_ok; cbn [clock stamp sect dq ddone dall bph]. repeat split; try assumption.
    + intros r0 b. unfold upd. destruct (Nat.eqb r0 r); [discriminate|apply I2].
    + destruct (bph s) as [|snap|k snap]; [exact I|exact I4|]. destruct I4 as (A & B & Cc). split; [exact A|split; [exact B|]].
      intros r0 b. unfold upd. destruct (Nat.eqb r0 r); [discriminate|apply Cc].
  - (* snapshot of the heads *)
    unfold Inv, snap_ok; cbn [clock stamp sect dq ddone dall bph]. repeat split; try assumption.
    + destruct (f t); lia.
    + intros c0 _. apply I1.
  - (* grace period *)
    rewrite Hb in I4. unfold Inv, snap_ok; cbn [clock stamp sect dq ddone dall bph]. repeat split; try assumption; try lia; apply I4.
  - (* run one snapshotted call *)
    destruct Hsn as [Hsn|Hsn]; [discriminate|]. rewrite Hb in I4. destruct I4 as (A & B & Cc).
    unfold Inv, snap_ok; cbn [clock stamp sect dq ddone dall bph]. repeat split; try assumption.
    + intros t0. destruct (Nat.eq_dec t0 t) as [->|Hne]; [rewrite !upd_same, I3, Hq, <- app_assoc; reflexivity|rewrite !upd_other by exact Hne; apply I3].
    + destruct (Nat.eq_dec t0 t) as [->|Hne]; [rewrite !upd_same|rewrite !upd_other by exact Hne; apply (B t0)].
      destruct (B t) as [B1 _]. rewrite Hq in B1. cbn [length] in B1. lia.
    + destruct (Nat.eq_dec t0 t) as [->|Hne]; [rewrite !upd_same|rewrite !upd_other by exact Hne; apply (B t0)].
      intros c0 Hc0. destruct (B t) as [_ B2]. apply B2. rewrite Hq. destruct (snap t) as [|n]; [lia|]. cbn [pred] in Hc0. cbn [firstn]. right. exact Hc0.
  - unfold Inv, snap_ok; cbn [clock stamp sect dq ddone dall bph]. repeat split; assumption.
Qed.

(* the call about to be run was queued before every read-side section that is still open began *)
Theorem defer_call_after_gp s k snap t c rest : Inv s -> bph s = B_Drain k snap -> dq s t = c :: rest -> 0 < snap t ->
  forall r b, sect s r = Some b -> stamp s c <= b.
Proof.
  intros (_ & _ & _ & I4) Hb Hq Hsn r b Hr. rewrite Hb in I4. destruct I4 as (_ & B & Cc).
  destruct (B t) as [_ B2]. pose proof (Cc r b Hr).
  assert (stamp s c <= k). { apply B2. rewrite Hq. destruct (snap t); [lia|]. left. reflexivity. }
  lia.
Qed.
(* nothing lost, nothing duplicated, per-thread order: what a thread queued is what was run followed by what is pending *)
Theorem defer_conservation s t : Inv s -> dall s t = ddone s t ++ dq s t.
Proof. intros (_ & _ & I3 & _). apply I3. Qed.

Definition init : st := {| clock := 0; stamp := fun _ => 0; sect := fun _ => None; dq := fun _ => []; ddone := fun _ => []; dall := fun _ => []; bph := B_Idle |}.
Lemma Inv_init : Inv init.
Proof. unfold Inv, init; cbn. repeat split; intros; try discriminate; auto. Qed.
Inductive reach (fresh : bool) : st -> Prop :=
| R_init : reach fresh init
| R_step s c s' : reach fresh s -> step fresh s c s' -> reach fresh s'.
Theorem defer_after_gp_all_runs s : reach false s -> forall k snap t c rest, bph s = B_Drain k snap -> dq s t = c :: rest -> 0 < snap t ->
  forall r b, sect s r = Some b -> stamp s c <= b.
Proof.
  intros Hr. assert (HI : Inv s) by (induction Hr as [|s c s' _ IH Hs]; [exact Inv_init|apply (Inv_step s c s' IH Hs)]).
  intros k snap t c rest. apply (defer_call_after_gp s k snap t c rest HI).
Qed.

(* draining up to the head read after the grace period: call 1 is queued while the grace period of the barrier is over but its drain is not, after
   reader 0 has entered a section; it is run while that section is open *)
Theorem defer_fresh_head_refuted : exists s t c rest r b k snap,
  reach true s /\ bph s = B_Drain k snap /\ dq s t = c :: rest /\ sect s r = Some b /\ b < stamp s c /\
  exists s', step true s (BRun t) s'.
Proof.
  set (s1 := {| clock := 1; stamp := upd (fun _ => 0) 0 1; sect := fun _ => None; dq := upd (fun _ => []) 0 [0]; ddone := fun _ => [];
                dall := upd (fun _ => []) 0 [0]; bph := B_Idle |}).
  assert (R1 : reach true s1) by (eapply R_step; [apply R_init|apply (S_call true init 0 0); intros t' []]).
  set (snap := fun t : nat => if true then length (dq s1 t) else 0).
  set (s2 := {| clock := 1; stamp := stamp s1; sect := sect s1; dq := dq s1; ddone := ddone s1; dall := dall s1; bph := B_Snap snap |}).
  assert (R2 : reach true s2) by (eapply R_step; [exact R1|apply (S_snap true s1 (fun _ => true)); reflexivity]).
  set (s3 := {| clock := 1; stamp := stamp s1; sect := sect s1; dq := dq s1; ddone := ddone s1; dall := dall s1; bph := B_Drain 1 snap |}).
  assert (R3 : reach true s3) by (eapply R_step; [exact R2|apply (S_sync true s2 snap); [reflexivity|intros r b H; discriminate]]).
  set (s4 := {| clock := 1; stamp := stamp s1; sect := upd (sect s1) 0 (Some 1); dq := dq s1; ddone := ddone s1; dall := dall s1; bph := B_Drain 1 snap |}).
  assert (R4 : reach true s4) by (eapply R_step; [exact R3|apply (S_lock true s3 0); reflexivity]).
  set (s5 := {| clock := 2; stamp := upd (stamp s1) 1 2; sect := sect s4; dq := upd (dq s1) 1 (dq s1 1 ++ [1]); ddone := ddone s1;
                dall := upd (dall s1) 1 (dall s1 1 ++ [1]); bph := B_Drain 1 snap |}).
  assert (R5 : reach true s5).
  { eapply R_step; [exact R4|apply (S_call true s4 1 1)]. intros t'. cbn. unfold upd. destruct (Nat.eqb t' 0); cbn; [intros [H|[]]; discriminate|intros []]. }
  exists s5, 1, 1, [], 0, 1, 1, snap. split; [exact R5|]. repeat split; try reflexivity.
  - cbn. lia.
  - eexists. apply (S_run true s5 1 snap 1 1 []); [reflexivity|reflexivity|left; reflexivity].
Qed.
Print Assumptions defer_after_gp_all_runs.
Print Assumptions defer_fresh_head_refuted.
