(* scratch: the defer_rcu queue encoding, stream level *)
From Coq Require Import List NArith Bool Lia.
Import ListNotations.
Local Open Scope N_scope.

Definition W : N := 2^64.
Definition MARK : N := W - 2.                    (* (void * )(~DQ_FCT_BIT) *)
Definition is_fct (x : N) : bool := N.odd x.      (* DQ_IS_FCT_BIT *)
Definition set_fct (x : N) : N := if N.odd x then x else x + 1.     (* x | 1 *)
Definition clr_fct (x : N) : N := if N.odd x then x - 1 else x.     (* x & ~1 *)

(* _defer_rcu: words appended for (f, p) given last_fct_in, and the new last_fct_in *)
Definition encode1 (last f p : N) : list N * N :=
  if negb (last =? f) || is_fct p || (p =? MARK) then
    ((if is_fct f || (f =? MARK) then [MARK; f; p] else [set_fct f; p]), f)
  else ([p], last).

Fixpoint encode (last : N) (l : list (N * N)) : list N :=
  match l with
  | [] => []
  | (f, p) :: l' => let '(ws, last') := encode1 last f p in ws ++ encode last' l'
  end.

(* rcu_defer_barrier_queue: fuel = length of the stream; None = ran off the end *)
Fixpoint decode (fuel : nat) (last : N) (s : list N) : option (list (N * N)) :=
  match fuel with
  | O => match s with [] => Some [] | _ => None end
  | S k =>
      match s with
      | [] => Some []
      | w :: s1 =>
          if is_fct w then
            match s1 with
            | p :: s2 => option_map (cons (clr_fct w, p)) (decode k (clr_fct w) s2)
            | [] => None
            end
          else if w =? MARK then
            match s1 with
            | f :: p :: s2 => option_map (cons (f, p)) (decode k f s2)
            | _ => None
            end
          else option_map (cons (last, w)) (decode k last s1)
      end
  end.

Lemma MARK_even : N.odd MARK = false.
Proof. reflexivity. Qed.

Lemma clr_set f : N.odd f = false -> clr_fct (set_fct f) = f.
Proof.
  intros H. unfold set_fct. rewrite H. unfold clr_fct.
  replace (N.odd (f + 1)) with true.
  - lia.
  - rewrite N.add_1_r, N.odd_succ. symmetry. rewrite <- N.negb_odd, H. reflexivity.
Qed.

Lemma set_odd f : N.odd f = false -> N.odd (set_fct f) = true.
Proof. intros H. unfold set_fct. rewrite H. rewrite N.add_1_r, N.odd_succ, <- N.negb_odd, H. reflexivity. Qed.

Lemma decode_more_fuel k k' last s r : decode k last s = Some r -> (k <= k')%nat -> decode k' last s = Some r.
Proof.
  revert k' last s r. induction k as [|k IH]; intros k' last s r H Hle.
  - destruct s; [|discriminate]. injection H as <-. destruct k'; reflexivity.
  - destruct k' as [|k']; [lia|]. cbn [decode] in *. destruct s as [|w s1]; [exact H|].
    destruct (is_fct w).
    + destruct s1 as [|p s2]; [discriminate|]. destruct (decode k (clr_fct w) s2) eqn:E; [|discriminate].
      rewrite (IH k' _ _ _ E) by lia. exact H.
    + destruct (w =? MARK).
      * destruct s1 as [|f [|p s2]]; try discriminate. destruct (decode k f s2) eqn:E; [|discriminate].
        rewrite (IH k' _ _ _ E) by lia. exact H.
      * destruct (decode k last s1) eqn:E; [|discriminate]. rewrite (IH k' _ _ _ E) by lia. exact H.
Qed.

Lemma decode_cons k last w s1 :
  decode (S k) last (w :: s1) =
    if is_fct w then
      match s1 with
      | p :: s2 => option_map (cons (clr_fct w, p)) (decode k (clr_fct w) s2)
      | [] => None
      end
    else if w =? MARK then
      match s1 with
      | f :: p :: s2 => option_map (cons (f, p)) (decode k f s2)
      | _ => None
      end
    else option_map (cons (last, w)) (decode k last s1).
Proof. reflexivity. Qed.

Theorem defer_stream_roundtrip :
  forall l last, decode (length (encode last l)) last (encode last l) = Some l.
Proof.
  induction l as [|[f p] l IH]; intros last; [reflexivity|].
  cbn [encode]. unfold encode1.
  destruct (negb (last =? f) || is_fct p || (p =? MARK)) eqn:Ec.
  - destruct (is_fct f || (f =? MARK)) eqn:Ef.
    + (* MARK; f; p *)
      cbn [app length]. rewrite decode_cons. unfold is_fct at 1. rewrite MARK_even. rewrite N.eqb_refl.
      rewrite (decode_more_fuel _ (S (S (length (encode f l)))) _ _ _ (IH f)) by lia. reflexivity.
    + (* f|1 ; p *)
      apply orb_false_elim in Ef as [Hodd Hm]. unfold is_fct in Hodd.
      cbn [app length]. rewrite decode_cons. unfold is_fct at 1. rewrite (set_odd _ Hodd). rewrite (clr_set _ Hodd).
      rewrite (decode_more_fuel _ (S (length (encode f l))) _ _ _ (IH f)) by lia. reflexivity.
  - apply orb_false_elim in Ec as [Ec Hm]. apply orb_false_elim in Ec as [Hl Hp].
    apply negb_false_iff in Hl. apply N.eqb_eq in Hl. subst f.
    cbn [app length]. rewrite decode_cons. rewrite Hp, Hm. rewrite (IH last). reflexivity.
Qed.
Print Assumptions defer_stream_roundtrip.

(* non-vacuity / sanity: adversarial bit patterns *)
Example ex1 : let l := [(8, 16); (8, 17); (8, MARK); (9, 4); (MARK, MARK); (8, 8); (8, 24)] in
  decode 100 0 (encode 0 l) = Some l.
Proof. vm_compute. reflexivity. Qed.
