(* Executable acceptor for the fork handshake model: a step is accepted only when it changes something the model allows at that point
   (a helper unregisters only from the top of its loop, with PAUSE raised, and raises PAUSED only after it has unregistered; the fork happens only when every helper is PAUSED; an invocation
   takes the head of the private batch).  The projection of an implementation trace (tools/props/C16.py) is fed to it; an accepted run is
   a run of Fork.exec, so Fork.fork_all_runs applies to it. *)
From Coq Require Import List Arith Bool Lia.
Import ListNotations.
Require Import Urcu.Fork.Fork.

Section FRUN.
Variable nh : nat.

Definition enabled (c : choice) (s : st) : bool :=
  match c with
  | CCall h _ => h <? nh
  | HSplice h => (h <? nh) && match hph (hp s h), hq (hp s h) with H_Idle, _ :: _ => true | _, _ => false end
  | HSync h => (h <? nh) && match hph (hp s h) with H_Spliced => true | _ => false end
  | HInvoke h => (h <? nh) && match hph (hp s h), hbatch (hp s h) with H_Invoking, _ :: _ => true | _, _ => false end
  | HPause h => (h <? nh) && match hph (hp s h) with H_Unreg => true | _ => false end
  | HUnreg h => (h <? nh) && match hph (hp s h) with H_Idle => pause (hp s h) | _ => false end
  | HReg h => (h <? nh) && match hph (hp s h) with H_Resumed => true | _ => false end
  | HResume h => (h <? nh) && match hph (hp s h) with H_Paused => negb (pause (hp s h)) | _ => false end
  | FBegin => match fp s with F_Idle => true | _ => false end
  | FFork => match fp s with F_Wait => all_paused nh s | _ => false end
  | FEnd => match fp s with F_Forked => true | _ => false end
  end.

Definition fstep (c : choice) (s : st) : option st := if enabled c s then Some (exec nh c s) else None.
Fixpoint frun (l : list choice) (s : st) : option st :=
  match l with [] => Some s | c :: l' => match fstep c s with Some s' => frun l' s' | None => None end end.
(* index of the first rejected action, for the driver's diagnostics *)
Fixpoint frun_idx (l : list choice) (s : st) (i : nat) : st * option nat :=
  match l with [] => (s, None) | c :: l' => match fstep c s with Some s' => frun_idx l' s' (S i) | None => (s, Some i) end end.

Lemma frun_run l : forall s s', frun l s = Some s' -> s' = run nh l s.
Proof.
  induction l as [|c l IH]; intros s s' H; cbn in *; [congruence|].
  unfold fstep in H. destruct (enabled c s); [|discriminate]. apply IH. exact H.
Qed.

(* an accepted run that is standing at the fork (handshake complete): every helper is parked with an empty private batch and unregistered, and the
   callbacks the child inherits are exactly the queued ones *)
Theorem accepted_run_fork_quiescent l s :
  frun l init = Some s -> enabled FFork s = true ->
  (forall h, (h < nh)%nat -> hph (hp s h) = H_Paused /\ hbatch (hp s h) = [] /\ hreg (hp s h) = false) /\
  child (exec nh FFork s) = Some (merged nh s).
Proof.
  intros Hr He. rewrite (frun_run l init s Hr) in *. cbn [enabled] in He.
  destruct (fp (run nh l init)) eqn:Ef; try discriminate.
  destruct (fork_all_runs nh l Ef He) as (A & B & _). split; assumption.
Qed.

(* what the driver prints at the fork: per helper, the queued callbacks *)
Definition queues (s : st) : list (list nat) := map (fun h => hq (hp s h)) (seq 0 nh).
Lemma merged_queues s : merged nh s = concat (queues s).
Proof. unfold merged, queues. rewrite flat_map_concat_map. reflexivity. Qed.
End FRUN.
Print Assumptions accepted_run_fork_quiescent.
