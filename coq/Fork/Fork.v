(* call_rcu fork handshake.  Helpers check the PAUSE flag at the top of their loop (when their private batch is empty),
   unregister (HUnreg: rcu_unregister_thread() has returned) and only then raise PAUSED (HPause); after PAUSE is cleared they clear PAUSED (HResume) and
   register again (HReg); call_rcu_before_fork raises PAUSE on every helper and waits for every PAUSED.  At the fork every
   helper is parked: unregistered, outside any grace period, with an empty private batch, so every pending callback sits in a
   queue — which is what the parent keeps and the child inherits and merges. *)
From Coq Require Import List Arith Bool Lia.
Import ListNotations.

Inductive hphase := H_Idle | H_Spliced | H_Invoking | H_Paused | H_Unreg (* unregistered, PAUSED not yet raised *) | H_Resumed (* PAUSED cleared, not yet registered again *).
Record helper := { hph : hphase; hq : list nat; hbatch : list nat; hdone : list nat; hreg : bool; pause : bool; paused : bool }.
Inductive fpc := F_Idle | F_Wait | F_Forked | F_Done.
Record st := { hp : nat -> helper; fp : fpc; child : option (list nat) (* ghost: the merged queue the child starts with *) }.
Section FORK.
Variable nh : nat.   (* helpers 0 .. nh-1 exist *)
Inductive choice := CCall (h c : nat) | HSplice (h : nat) | HSync (h : nat) | HInvoke (h : nat) | HPause (h : nat) | HResume (h : nat) | FBegin | FFork | FEnd | HUnreg (h : nat) | HReg (h : nat).
Definition upd (f : nat -> helper) (k : nat) (v : helper) : nat -> helper := fun x => if Nat.eqb x k then v else f x.
Definition all_paused (s : st) : bool := forallb (fun h => paused (hp s h)) (seq 0 nh).
Definition none_paused (s : st) : bool := forallb (fun h => negb (paused (hp s h))) (seq 0 nh).
Definition merged (s : st) : list nat := flat_map (fun h => hq (hp s h)) (seq 0 nh).

Definition exec (c : choice) (s : st) : st :=
  let seth h x := {| hp := upd (hp s) h x; fp := fp s; child := child s |} in
  match c with
  | CCall h c0 => let x := hp s h in seth h {| hph := hph x; hq := hq x ++ [c0]; hbatch := hbatch x; hdone := hdone x; hreg := hreg x; pause := pause x; paused := paused x |}
  | HSplice h => let x := hp s h in
      match hph x, hq x with
      | H_Idle, _ :: _ => seth h {| hph := H_Spliced; hq := []; hbatch := hq x; hdone := hdone x; hreg := hreg x; pause := pause x; paused := paused x |}
      | _, _ => s end
  | HSync h => let x := hp s h in
      match hph x with H_Spliced => seth h {| hph := H_Invoking; hq := hq x; hbatch := hbatch x; hdone := hdone x; hreg := hreg x; pause := pause x; paused := paused x |} | _ => s end
  | HInvoke h => let x := hp s h in
      match hph x, hbatch x with
      | H_Invoking, c0 :: rest => seth h {| hph := (match rest with [] => H_Idle | _ => H_Invoking end); hq := hq x; hbatch := rest; hdone := hdone x ++ [c0]; hreg := hreg x; pause := pause x; paused := paused x |}
      | _, _ => s end
  | HPause h => let x := hp s h in
      match hph x with
      | H_Unreg => seth h {| hph := H_Paused; hq := hq x; hbatch := hbatch x; hdone := hdone x; hreg := hreg x; pause := pause x; paused := true |}
      | _ => s end
  | HResume h => let x := hp s h in
      match hph x with
      | H_Paused => if pause x then s else seth h {| hph := H_Resumed; hq := hq x; hbatch := hbatch x; hdone := hdone x; hreg := hreg x; pause := pause x; paused := false |}
      | _ => s end
  | FBegin => match fp s with
              | F_Idle => {| hp := fun h => let x := hp s h in {| hph := hph x; hq := hq x; hbatch := hbatch x; hdone := hdone x; hreg := hreg x; pause := true; paused := paused x |}; fp := F_Wait; child := child s |}
              | _ => s end
  | FFork => match fp s with
             | F_Wait => if all_paused s then {| hp := hp s; fp := F_Forked; child := Some (merged s) |} else s
             | _ => s end
  | FEnd => match fp s with
            | F_Forked => {| hp := fun h => let x := hp s h in {| hph := hph x; hq := hq x; hbatch := hbatch x; hdone := hdone x; hreg := hreg x; pause := false; paused := paused x |}; fp := F_Idle (* the parent may fork again *); child := child s |}
            | _ => s end
  | HUnreg h => let x := hp s h in     (* rcu_unregister_thread() completed: only from the top of the loop, with PAUSE seen *)
      match hph x with
      | H_Idle => if pause x then seth h {| hph := H_Unreg; hq := hq x; hbatch := hbatch x; hdone := hdone x; hreg := false; pause := pause x; paused := paused x |} else s
      | _ => s end
  | HReg h => let x := hp s h in       (* rcu_register_thread() completed after PAUSED was cleared *)
      match hph x with
      | H_Resumed => seth h {| hph := H_Idle; hq := hq x; hbatch := hbatch x; hdone := hdone x; hreg := true; pause := pause x; paused := paused x |}
      | _ => s end
  end.

Definition hinv (x : helper) : Prop :=
  (paused x = true <-> hph x = H_Paused) /\ (hph x = H_Paused \/ hph x = H_Unreg \/ hph x = H_Resumed -> hbatch x = [] /\ hreg x = false) /\ (hph x = H_Idle -> hbatch x = []).
Definition Inv (s : st) : Prop := forall h, hinv (hp s h).

Lemma upd_same f k v : upd f k v k = v.  Proof. unfold upd. now rewrite Nat.eqb_refl. Qed.
Lemma upd_other f k v x : x <> k -> upd f k v x = f x.
Proof. unfold upd. intros H. destruct (Nat.eqb_spec x k); [contradiction|reflexivity]. Qed.

Lemma Inv_seth s h x : Inv s -> hinv x -> Inv {| hp := upd (hp s) h x; fp := fp s; child := child s |}.
Proof. intros HI Hx h0. cbn [hp]. destruct (Nat.eq_dec h0 h) as [->|Hne]; [rewrite upd_same; exact Hx|rewrite upd_other by exact Hne; apply HI]. Qed.

Ltac hsolve A B Cc := unfold hinv; cbn [hph hq hbatch hdone hreg pause paused]; repeat split; intros;
  repeat match goal with H : _ \/ _ |- _ => destruct H end; try discriminate; try reflexivity; try tauto;
  try (match goal with H : paused _ = true |- _ => apply A in H; discriminate end);
  try (apply B; tauto); try (apply Cc; reflexivity).
Lemma Inv_exec s c : Inv s -> Inv (exec c s).
Proof.
  intros HI. destruct c as [h c0|h|h|h|h|h| | | |h|h]; unfold exec; cbv zeta.
  - apply Inv_seth; [exact HI|]. destruct (HI h) as (A & B & Cc). unfold hinv; cbn. tauto.
  - destruct (HI h) as (A & B & Cc). destruct (hph (hp s h)) eqn:Ep; try exact HI. destruct (hq (hp s h)) eqn:Eq; [exact HI|].
    apply Inv_seth; [exact HI|]. hsolve A B Cc.
  - destruct (HI h) as (A & B & Cc). destruct (hph (hp s h)) eqn:Ep; try exact HI.
    apply Inv_seth; [exact HI|]. hsolve A B Cc.
  - destruct (HI h) as (A & B & Cc). destruct (hph (hp s h)) eqn:Ep; try exact HI. destruct (hbatch (hp s h)) as [|c0 rest] eqn:Eb; [exact HI|].
    apply Inv_seth; [exact HI|]. destruct rest; hsolve A B Cc.
  - (* HPause: from H_Unreg *)
    destruct (HI h) as (A & B & Cc). destruct (hph (hp s h)) eqn:Ep; try exact HI.
    apply Inv_seth; [exact HI|]. destruct (B (or_intror (or_introl eq_refl))) as [B1 B2]. hsolve A B Cc; assumption.
  - (* HResume *)
    destruct (HI h) as (A & B & Cc). destruct (hph (hp s h)) eqn:Ep; try exact HI. destruct (pause (hp s h)); [exact HI|].
    apply Inv_seth; [exact HI|]. destruct (B (or_introl eq_refl)) as [B1 B2]. hsolve A B Cc; assumption.
  - destruct (fp s); exact HI.
  - destruct (fp s); try exact HI. destruct (all_paused s); exact HI.
  - destruct (fp s); exact HI.
  - (* HUnreg *)
    destruct (HI h) as (A & B & Cc). destruct (hph (hp s h)) eqn:Ep; try exact HI. destruct (pause (hp s h)); [|exact HI].
    apply Inv_seth; [exact HI|]. pose proof (Cc eq_refl) as C1. hsolve A B Cc; try assumption.
  - (* HReg *)
    destruct (HI h) as (A & B & Cc). destruct (hph (hp s h)) eqn:Ep; try exact HI.
    apply Inv_seth; [exact HI|]. destruct (B (or_intror (or_intror eq_refl))) as [B1 B2]. hsolve A B Cc; assumption.
Qed.

(* at the fork step every helper is parked, unregistered, with an empty private batch: all pending callbacks are in the queues *)
Theorem fork_helpers_quiescent s : Inv s -> fp s = F_Wait -> all_paused s = true ->
  (forall h, (h < nh)%nat -> hph (hp s h) = H_Paused /\ hbatch (hp s h) = [] /\ hreg (hp s h) = false) /\
  child (exec FFork s) = Some (merged s).
Proof.
  intros HI Hf Ha. split.
  - intros h Hh. unfold all_paused in Ha. rewrite forallb_forall in Ha. pose proof (Ha h ltac:(apply in_seq; lia)) as Hp0.
    destruct (HI h) as (A & B & _). pose proof (proj1 A Hp0) as Hp. destruct (B (or_introl Hp)) as [Hb Hr]. auto.
  - unfold exec. rewrite Hf, Ha. reflexivity.
Qed.

(* every run from the initial state (no helper paused, nothing queued) keeps the invariant; so at every fork step that the handshake allows, each
   helper is parked with an empty private batch and unregistered: the callbacks pending at the fork are exactly the queued ones, the parent keeps them
   (it resumes its helpers) and the child starts with their concatenation - each pending callback exists once in each process *)
Definition helper0 : helper := {| hph := H_Idle; hq := []; hbatch := []; hdone := []; hreg := true; pause := false; paused := false |}.
Definition init : st := {| hp := fun _ => helper0; fp := F_Idle; child := None |}.
Lemma Inv_init : Inv init.
Proof. intros h. unfold hinv, init, helper0; cbn. repeat split; intros; repeat match goal with H : _ \/ _ |- _ => destruct H end; try discriminate; auto. Qed.
Definition run (cs : list choice) (s : st) : st := fold_left (fun x c => exec c x) cs s.
Lemma Inv_run cs : forall s, Inv s -> Inv (run cs s).
Proof. induction cs as [|c cs IH]; intros s H; cbn; [exact H|apply IH, Inv_exec, H]. Qed.
Theorem fork_all_runs cs :
  let s := run cs init in fp s = F_Wait -> all_paused s = true ->
  (forall h, (h < nh)%nat -> hph (hp s h) = H_Paused /\ hbatch (hp s h) = [] /\ hreg (hp s h) = false) /\
  child (exec FFork s) = Some (merged s) /\ (forall h, hp (exec FFork s) h = hp s h).
Proof.
  intros s Hf Ha. destruct (fork_helpers_quiescent s (Inv_run cs init Inv_init) Hf Ha) as [A B].
  split; [exact A|split; [exact B|]]. intros h. unfold exec. rewrite Hf, Ha. reflexivity.
Qed.
End FORK.
Print Assumptions fork_helpers_quiescent.
Print Assumptions fork_all_runs.
