(* The PAUSE / PAUSED handshake between a forking thread and the hash table's work-queue thread (src/workqueue.c: urcu_workqueue_pause_worker, resume_worker,
   create_worker, the head of the worker loop), over any number of fork generations: at every fork point - in the first process and in every fork child that forks
   again - the worker is parked: not inside a work item (it holds no lock, is not a registered reader).  In the child the worker thread does not exist; the child
   re-creates it after clearing BOTH flags.  The variant that leaves PAUSED set in the child is refuted: the child's next fork bracket returns at once with its
   worker in the middle of a work item. *)
From Coq Require Import List Arith Bool Lia.
Import ListNotations.

Inductive wpc := W_Loop | W_Work | W_SetPaused | W_Parked | W_ClrPaused.
Inductive fpc := F_Idle | F_WaitPaused | F_ForkPoint | F_WaitResumed.
Record st := { pause : bool; paused : bool; wk : wpc; fk : fpc }.
Inductive choice := CW (* the worker takes a step *) | CF (* the forking thread takes a step *) | CParent (* fork(): we follow the parent *) | CChild (* fork(): we follow the child *).

Section M.
Variable clear_paused_in_child : bool.       (* true: the code as it is *)

Definition step (c : choice) (s : st) : st :=
  match c with
  | CW =>
      match wk s with
      | W_Loop => {| pause := pause s; paused := paused s; wk := if pause s then W_SetPaused else W_Work; fk := fk s |}     (* head of the loop: PAUSE requested ? *)
      | W_Work => {| pause := pause s; paused := paused s; wk := W_Loop; fk := fk s |}                                      (* a batch of work items (or a sleep) is over *)
      | W_SetPaused => {| pause := pause s; paused := true; wk := W_Parked; fk := fk s |}                                    (* before_pause hook done: raise PAUSED *)
      | W_Parked => if pause s then s else {| pause := pause s; paused := paused s; wk := W_ClrPaused; fk := fk s |}        (* poll until PAUSE is cleared *)
      | W_ClrPaused => {| pause := pause s; paused := false; wk := W_Work; fk := fk s |}                                     (* clear PAUSED, after_resume hook, go on *)
      end
  | CF =>
      match fk s with
      | F_Idle => {| pause := true; paused := paused s; wk := wk s; fk := F_WaitPaused |}                                   (* pause_worker: raise PAUSE (and wake the worker) *)
      | F_WaitPaused => if paused s then {| pause := pause s; paused := paused s; wk := wk s; fk := F_ForkPoint |} else s   (* ... poll until PAUSED *)
      | F_ForkPoint => s                                                                                                      (* fork() itself: CParent / CChild *)
      | F_WaitResumed => if paused s then s else {| pause := pause s; paused := paused s; wk := wk s; fk := F_Idle |}       (* resume_worker: poll until PAUSED is cleared *)
      end
  | CParent => match fk s with F_ForkPoint => {| pause := false; paused := paused s; wk := wk s; fk := F_WaitResumed |} | _ => s end     (* resume_worker: clear PAUSE *)
  | CChild => match fk s with
              | F_ForkPoint => {| pause := false; paused := if clear_paused_in_child then false else paused s; wk := W_Loop; fk := F_Idle |}   (* create_worker: clear the flags, new thread *)
              | _ => s end
  end.
Fixpoint run (cs : list choice) (s : st) : st := match cs with [] => s | c :: cs' => run cs' (step c s) end.
End M.

Definition init : st := {| pause := false; paused := false; wk := W_Loop; fk := F_Idle |}.

Definition parkedish (w : wpc) : bool := match w with W_Parked | W_ClrPaused => true | _ => false end.
Definition good (s : st) : bool :=
  Bool.eqb (paused s) (parkedish (wk s)) &&
  (match wk s with W_SetPaused => pause s | W_ClrPaused => negb (pause s) | _ => true end) &&
  Bool.eqb (pause s) (match fk s with F_WaitPaused | F_ForkPoint => true | _ => false end) &&
  (match fk s with F_Idle => negb (paused s) | F_ForkPoint => paused s | _ => true end).

Lemma good_init : good init = true.  Proof. reflexivity. Qed.
(* the state space is finite: the invariant is checked on every state and every choice *)
Lemma good_step c s : good s = true -> good (step true c s) = true.
Proof. destruct s as [[|] [|] [| | | |] [| | |]], c; vm_compute; intros H; try reflexivity; discriminate H. Qed.
Lemma good_run cs : forall s, good s = true -> good (run true cs s) = true.
Proof. induction cs as [|c cs IH]; intros s H; cbn [run]; [exact H|]. apply IH. apply good_step. exact H. Qed.

(* at every fork point of every generation the worker is parked, with both flags raised *)
Theorem worker_parked_at_every_fork : forall cs, let s := run true cs init in fk s = F_ForkPoint -> wk s = W_Parked /\ pause s = true /\ paused s = true.
Proof.
  intros cs s Hf. pose proof (good_run cs init good_init) as H. fold s in H.
  destruct s as [[|] [|] [| | | |] [| | |]]; cbn in Hf; try discriminate Hf; vm_compute in H; try discriminate H; repeat split.
Qed.
(* and outside a fork bracket both flags are clear: the next bracket starts from scratch *)
Theorem flags_clear_outside_bracket : forall cs, let s := run true cs init in fk s = F_Idle -> pause s = false /\ paused s = false.
Proof.
  intros cs s Hf. pose proof (good_run cs init good_init) as H. fold s in H.
  destruct s as [[|] [|] [| | | |] [| | |]]; cbn in Hf; try discriminate Hf; vm_compute in H; try discriminate H; repeat split.
Qed.
(* the bracket cannot be waited for in vain: whenever the forking thread polls, the other side has a step that brings its condition closer (no stuck state) *)
Theorem handshake_not_stuck : forall cs, let s := run true cs init in
  (fk s = F_WaitPaused -> paused s = true \/ step true CW s <> s) /\ (fk s = F_WaitResumed -> paused s = false \/ step true CW s <> s).
Proof.
  intros cs s. pose proof (good_run cs init good_init) as H. fold s in H.
  destruct s as [[|] [|] [| | | |] [| | |]]; vm_compute in H; try discriminate H; split; intros Hf; try discriminate Hf; try (left; reflexivity); right; vm_compute; discriminate.
Qed.

(* the variant that leaves PAUSED set in the child: the child's worker is in the middle of a work item at the child's own fork point *)
Theorem stale_paused_in_child_refuted : exists cs, let s := run false cs init in fk s = F_ForkPoint /\ wk s = W_Work.
Proof. exists [CF; CW; CW; CF; CChild; CW; CF; CF]. vm_compute. split; reflexivity. Qed.
Print Assumptions worker_parked_at_every_fork.
Print Assumptions handshake_not_stuck.

(* ---- executable acceptor for the flag accesses of an implementation run (every hooked access to workqueue->flags, in memory order) ---- *)
Inductive wqact :=
| FOr                       (* the forking thread raises PAUSE (uatomic_or) *)
| FAnd                      (* ... clears PAUSE (uatomic_and): resume_worker in the parent *)
| FLoad (p pd : bool)       (* ... loads the flags and sees PAUSE = p, PAUSED = pd *)
| WOr                       (* the worker raises PAUSED *)
| WAnd                      (* the worker clears PAUSED *)
| WLoad (p pd : bool)       (* the worker loads the flags *)
| Child.                    (* the fork child: flags cleared by create_worker, a new worker thread starts *)

Definition wqexec (a : wqact) (s : st) : option st :=
  match a with
  | FOr => match fk s with F_Idle => Some (step true CF s) | _ => None end
  | FAnd => match fk s with F_ForkPoint => Some (step true CParent s) | _ => None end
  | Child => match fk s with F_ForkPoint => Some (step true CChild s) | _ => None end
  | FLoad p pd =>
      if Bool.eqb p (pause s) && Bool.eqb pd (paused s) then
        match fk s with
        | F_WaitPaused => Some (step true CF s)         (* moves on exactly when PAUSED is seen *)
        | F_WaitResumed => Some (step true CF s)
        | _ => Some s
        end
      else None
  | WLoad p pd =>
      if Bool.eqb p (pause s) && Bool.eqb pd (paused s) then
        match wk s with W_Parked => Some (step true CW s) | _ => Some s end
      else None
  | WOr => if pause s then
             match wk s with
             | W_Work => Some (step true CW (step true CW (step true CW s)))
             | W_Loop => Some (step true CW (step true CW s))
             | W_SetPaused => Some (step true CW s)
             | _ => None
             end
           else None
  | WAnd => match wk s with
            | W_ClrPaused => Some (step true CW s)
            | W_Parked => if pause s then None else Some (step true CW (step true CW s))
            | _ => None
            end
  end.
Fixpoint wqrun (l : list wqact) (s : st) : option st :=
  match l with [] => Some s | a :: l' => match wqexec a s with Some s' => wqrun l' s' | None => None end end.

Lemma wqexec_good a s s' : good s = true -> wqexec a s = Some s' -> good s' = true.
Proof.
  destruct s as [[|] [|] [| | | |] [| | |]], a as [ | |[|] [|]| | |[|] [|]| ]; vm_compute; intros HG H; try discriminate H; try discriminate HG; injection H as <-; reflexivity.
Qed.
(* every accepted sequence of flag accesses stands, at each of its fork points, with the worker parked *)
Theorem accepted_wq_trace_parked_at_fork : forall l s, wqrun l init = Some s -> fk s = F_ForkPoint -> wk s = W_Parked /\ pause s = true /\ paused s = true.
Proof.
  intros l s H Hf. assert (HG : good s = true).
  { revert H. generalize good_init. generalize init. induction l as [|a l IH]; intros s0 H0 H; cbn [wqrun] in H; [injection H as <-; exact H0|].
    destruct (wqexec a s0) as [s1|] eqn:E; [|discriminate]. apply (IH s1 (wqexec_good a s0 s1 H0 E) H). }
  destruct s as [[|] [|] [| | | |] [| | |]]; cbn in Hf; try discriminate Hf; vm_compute in HG; try discriminate HG; repeat split.
Qed.
Print Assumptions accepted_wq_trace_parked_at_fork.
Example accepts_two_generations :
  wqrun [WLoad false false; FOr; FLoad true false; WLoad true false; WOr; FLoad true true; Child; WLoad false false; FOr; WOr; FLoad true true; FAnd; WLoad false true; WAnd; FLoad false false] init <> None.
Proof. vm_compute. discriminate. Qed.
Example rejects_stale_paused : wqrun [FOr; WOr; FLoad true true; Child; WLoad false true] init = None.
Proof. vm_compute. reflexivity. Qed.
